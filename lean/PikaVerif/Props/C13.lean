import PikaVerif.Lemmas.JoinSteps
/-!
# C13 — `pika::thread` / `pika::jthread`: join waits for completion, always returns

Property theorems about the model `PikaVerif.Join` (thread handle `id_`/`mtx_`, `thread::join`,
`detach`, `joinable`, the exit-callback list of a task with `add_thread_exit_callback` /
`run_thread_exit_callbacks`, wake-up tokens of suspended joiners, interruption flags and
interruption points, `~jthread`).  Every theorem quantifies over *all* accepted event logs of the
model (`Reachable s`): any number of tasks and handles, any program, any interleaving.

The exit-callback loop of the model is the one of the repaired tree.  The loop of the pinned tree
(run `front()` unlocked, then `pop_front()`) is modelled in `OldLoop` below with the machine-checked
counterexample `C13_pinned_loop_drops_callback` (a callback registered while another one runs is
dropped and the running one is run twice; with the join callback this makes `join` never return) —
reproduced on the real code, see `findings/C13-*.json`.
-/
namespace PikaVerif.C13
open PikaVerif PikaVerif.Join

def Reachable (s : St) : Prop := ∃ log, runLog step init log = some s

theorem Reachable.inv {s : St} (h : Reachable s) : Inv s := by
  obtain ⟨log, hl⟩ := h
  exact inv_of_accepted hl

/-- **join returns only after the thread function returned.**  Whenever the model accepts the end of
    a `join` (`jn.done`: `detach_locked()` at the end of `thread::join`) by task `j` on handle `h`, the
    joined target `o` has left its thread function and has begun (or completed) running its exit
    callbacks — on the suspended path the joiner's own callback was invoked by `o`, on the refused
    path `ran_exit_funcs_` was set or `o` was terminated. -/
theorem C13_join_after_body (s s' : St) (hr : Reachable s) (h j : Nat)
    (hs : step s (.jnDone h j) = some s') :
    ∃ o, (s.jpc j = .refused h o ∨ s.jpc j = .woke h o) ∧ started (s.phase o) = true ∧
      afterBody (s.phase o) = true ∧ s'.lastJoin j = some (h, o) := by
  have hi := hr.inv
  simp only [step] at hs
  split at hs
  · rename_i h' o hp
    split at hs
    · rename_i hg
      obtain ⟨hh, _⟩ := hg
      subst hh
      simp only [Option.some.injEq] at hs
      subst hs
      have hrd := hi.refusedDone j o (by simp [hp])
      have hth := hi.jTarget j o (by simp [hp])
      have hst : started (s.phase o) = true := by
        rcases hrd with hr' | ht
        · rcases hi.ranPhase o hr' with hp' | hp' <;> simp [hp']
        · simp [hi.termExited o ht hth]
      refine ⟨o, Or.inl hp, hst, ?_, by simp⟩
      cases hph : s.phase o <;> simp_all
    · simp at hs
  · rename_i h' o hp
    split at hs
    · rename_i hg
      obtain ⟨hh, _⟩ := hg
      subst hh
      simp only [Option.some.injEq] at hs
      subst hs
      have hst := hi.wokeStarted j o (by simp [hp])
      refine ⟨o, Or.inr hp, hst, ?_, by simp⟩
      cases hph : s.phase o <;> simp_all
    · simp at hs
  · simp at hs

/-- A completed join stays justified: at any later reachable state the target recorded by the last
    completed join of `j` is past its thread function (its exit-callback phase has started). -/
theorem C13_joined_target_finished (s : St) (hr : Reachable s) (j h o : Nat)
    (hl : s.lastJoin j = some (h, o)) : started (s.phase o) = true ∧ afterBody (s.phase o) = true := by
  have hst := hr.inv.lastJoinOk j h o hl
  refine ⟨hst, ?_⟩
  cases hph : s.phase o <;> simp_all

/-- **After join or detach the handle is not joinable.** -/
theorem C13_not_joinable_after (s s' : St) (h j : Nat) :
    (step s (.jnDone h j) = some s' → s'.hid h = none) ∧
    (∀ r, step s (.detach h j r) = some s' → s'.hid h = none) ∧
    (∀ r, step s (.joinable h j r) = some s' → r = (s.hid h).isSome) := by
  refine ⟨?_, ?_, ?_⟩
  · intro hs
    simp only [step] at hs
    repeat' split at hs
    all_goals first | (simp at hs; done) | (simp only [Option.some.injEq] at hs; subst hs; simp)
  · intro r hs
    simp only [step] at hs
    split at hs
    · simp only [Option.some.injEq] at hs; subst hs; simp
    · simp at hs
  · intro r hs
    simp only [step] at hs
    split at hs
    · rename_i hg; exact hg.2
    · simp at hs

/-- **Joining twice / joining a detached handle is reported as an error; joining oneself too.**
    At the check inside `join` (task `j` holds `mtx_` of `h`): if the handle is not joinable the model
    accepts only the `invalid_status` error (code 1) and rejects the continuation; if the handle
    refers to `j` itself only the `thread_resource_error` (code 2). -/
theorem C13_double_self_join_error (s : St) (h j : Nat) (hp : s.jpc j = .locked h) (hm : s.mtx h = some j) :
    (s.hid h = none → (step s (.jnErr h j 1)).isSome = true ∧ (∀ o, step s (.jnChecked h j o) = none) ∧
        step s (.jnErr h j 2) = none) ∧
    (s.hid h = some j → (step s (.jnErr h j 2)).isSome = true ∧ (∀ o, step s (.jnChecked h j o) = none) ∧
        step s (.jnErr h j 1) = none) := by
  refine ⟨?_, ?_⟩
  · intro hn
    refine ⟨by simp [step, hp, hm, hn], ?_, by simp [step, hp, hm, hn]⟩
    intro o; simp [step, hn]
  · intro hn
    refine ⟨by simp [step, hp, hm, hn], ?_, by simp [step, hp, hm, hn]⟩
    intro o
    simp only [step]
    rw [if_neg]
    intro hg
    obtain ⟨_, _, hid, hne⟩ := hg
    rw [hn] at hid
    exact hne (by simpa using hid.symm)

/-- the error leaves the handle unchanged and releases `mtx_` -/
theorem C13_join_error_effect (s s' : St) (h j c : Nat) (hs : step s (.jnErr h j c) = some s') :
    s'.hid = s.hid ∧ s'.mtx h = none ∧ s'.jpc j = .out := by
  simp only [step] at hs
  split at hs
  · simp only [Option.some.injEq] at hs; subst hs; simp
  · simp at hs

/-! ## join always returns -/

/-- Events that are the environment's choice (a task starting a new operation, the thread function
    ending, the scheduler storing `terminated`, interruption requests, …).  Everything else continues
    an operation in progress. -/
def External (s : St) : Ev → Prop
  | .term _ | .start _ _ _ | .body _ | .bodyDone _ | .jnLock _ _ | .joinable _ _ _ | .detach _ _ _
  | .uadd _ _ _ | .ipEnable _ _ _ | .ipRefuse _ | .ipReq _ _ | .jtDtor _ _ | .jtStop _ _ _ | .jtJoined _ _ => True
  -- (C13m) handle operations are the program's choice, too
  | .mvCtor _ _ _ | .mvAssign _ _ _ | .mvTerm _ _ | .swap _ _ _ | .dtorOk _ _ | .dtorTerm _ _ | .jtSkip _ _ => True
  | .ipHit o _ | .ipMiss o => s.jpc o = .out
  | _ => False

/-- A state is *stuck* when the model accepts no event that continues an operation in progress. -/
def Stuck (s : St) : Prop := ∀ e, step s e ≠ none → External s e

/-- **join always returns (progress).**  In every reachable stuck state, every task is outside
    `join` or is suspended in `join` without a wake-up token while its target has not left its thread
    function; and no task is in the middle of its exit-callback processing.  In particular, for all
    three orders of {callback added, exit callbacks run, joiner suspended} the model cannot come to
    rest with a joiner whose target has finished: a refused callback lets `join` continue at once, a
    callback run before the suspension leaves a token that the suspension consumes, a callback run
    after it wakes the joiner. -/
theorem C13_join_returns (s : St) (hr : Reachable s) (hs : Stuck s) :
    (∀ j, s.jpc j = .out ∨ ∃ h o, s.jpc j = .susp h o ∧ s.tok j = 0 ∧
        (s.phase o = .fresh ∨ s.phase o = .body)) ∧
    (∀ o, s.phase o = .fresh ∨ s.phase o = .body ∨ s.phase o = .exited) := by
  have hi := hr.inv
  have en : ∀ e, ¬ External s e → step s e ≠ none → False := fun e h1 h2 => h1 (hs e h2)
  have hph : ∀ o, s.phase o = .fresh ∨ s.phase o = .body ∨ s.phase o = .exited := by
    intro o
    cases hp : s.phase o
    case fresh => simp
    case body => simp
    case exited => simp
    case hit => exact (en (.ipClear o) (by simp [External]) (by simp [step, hp])).elim
    case unwinding =>
      have := hi.phaseOut o (by simp [hp])
      exact (en (.interrupted o) (by simp [External]) (by simp [step, hp, this])).elim
    case finished =>
      exact (en (.ecBegin o (s.funcs o).length) (by simp [External]) (by simp [step, hp])).elim
    case loopHead =>
      cases hf : s.funcs o with
      | nil => exact (en (.ecRan o) (by simp [External]) (by simp [step, hp, hf])).elim
      | cons c rest => exact (en (.ecTake o rest.length) (by simp [External]) (by simp [step, hp, hf])).elim
    case run c =>
      cases c with
      | join j =>
        have hw := hi.cbOwner j o (by simp [hp])
        have hne : j ≠ o := by
          intro he; subst he
          have := hi.phaseOut j (by simp [hp]); rw [this] at hw; simp at hw
        exact (en (.resume j o) (by simp [External]) (by simp [step, hp, hne])).elim
      | user k => exact (en (.ucb o o k) (by simp [External]) (by simp [step, hp])).elim
    case ranCb => exact (en (.ecNext o (s.funcs o).length) (by simp [External]) (by simp [step, hp])).elim
    case exitedL => exact (en (.exited o) (by simp [External]) (by simp [step, hp])).elim
  refine ⟨?_, hph⟩
  intro j
  -- no handle lock is held in a stuck state
  have free : ∀ h, s.mtx h = none := by
    intro h
    cases hm : s.mtx h with
    | none => rfl
    | some r =>
      exfalso
      have hh := hi.mtxHolder h r hm
      cases hp : s.jpc r <;> simp [hp] at hh
      case locked h' =>
        subst hh
        cases hid : s.hid h' with
        | none => exact en (.jnErr h' r 1) (by simp [External]) (by simp [step, hp, hm, hid])
        | some o =>
          by_cases ho : o = r
          · subst ho; exact en (.jnErr h' o 2) (by simp [External]) (by simp [step, hp, hm, hid])
          · exact en (.jnChecked h' r o) (by simp [External]) (by simp [step, hp, hm, hid, ho])
      case checked h' o =>
        subst hh
        by_cases hq : s.en r = true ∧ s.req r = true
        · have hb : s.phase r = .body := hi.jpcBody r (by simp [hp])
          exact en (.ipHit r true) (by simp [External, hp]) (by simp [step, hp, hm, hq, hb])
        · exact en (.ipMiss r) (by simp [External, hp]) (by simp [step, hp, hq])
      case pointed h' o =>
        subst hh
        have hne : o ≠ r := by
          have := hi.selfFree r; rw [hp] at this; simpa using this
        exact en (.ecAdd o r (if s.ran o then 0 else if s.term o then 2 else 1)) (by simp [External])
          (by simp only [step, hp]; simp [hne]; split <;> (try split) <;> simp)
      case added h' o =>
        subst hh
        exact en (.jnUnlock h' r) (by simp [External]) (by simp [step, hp, hm])
      case refused h' o =>
        subst hh
        exact en (.jnDone h' r) (by simp [External]) (by simp [step, hp, hm])
  cases hp : s.jpc j
  case out => exact Or.inl rfl
  case locked h => have := hi.holdsMtx j h (by simp [hp]); rw [free h] at this; simp at this
  case checked h o => have := hi.holdsMtx j h (by simp [hp]); rw [free h] at this; simp at this
  case pointed h o => have := hi.holdsMtx j h (by simp [hp]); rw [free h] at this; simp at this
  case added h o => have := hi.holdsMtx j h (by simp [hp]); rw [free h] at this; simp at this
  case refused h o => have := hi.holdsMtx j h (by simp [hp]); rw [free h] at this; simp at this
  case window h o => exact (en (.jnSusp h j) (by simp [External]) (by simp [step, hp])).elim
  case woke h o => exact (en (.jnDone h j) (by simp [External]) (by simp [step, hp, free h])).elim
  case uadd o k =>
    have hne : o ≠ j := by
      have := hi.selfFree j; rw [hp] at this; simpa using this
    exact (en (.ecAdd o j (if s.ran o then 0 else if s.term o then 2 else 1)) (by simp [External])
      (by simp only [step, hp]; simp [hne]; split <;> (try split) <;> simp)).elim
  case susp h o =>
    by_cases ht : 0 < s.tok j
    · exact (en (.jnWoke h j) (by simp [External]) (by simp [step, hp, ht])).elim
    · refine Or.inr ⟨h, o, rfl, by omega, ?_⟩
      have hb := hi.balance j o (by simp [hp])
      rcases hph o with h1 | h1 | h1
      · exact Or.inl h1
      · exact Or.inr h1
      · exfalso
        have hr' := hi.phaseRan o (Or.inr h1)
        have he := hi.ranEmpty o hr'
        rw [he, h1] at hb
        simp at hb
        omega

/-- **The joiner's callback is neither dropped nor run twice**, whatever else is registered on the
    target (arbitrary numbers of user callbacks and of other joiners' callbacks, registered at any
    time, also while the loop is running): while `j` waits for `o`, exactly one of the following
    exists — its callback in `o`'s list (once), its callback taken out by `o`'s exit loop and about
    to be invoked, or the wake-up token the invocation left. -/
theorem C13_join_callback_exactly_once (s : St) (hr : Reachable s) (j o : Nat)
    (hw : waitsB (s.jpc j) o = true) :
    s.tok j + (cntL (s.funcs o) j + runCnt (s.phase o) j) = 1 :=
  hr.inv.balance j o hw

/-- No stale wake-up: a task that is not waiting in `join` has no wake-up token and no callback of
    it is registered anywhere (so a later `join` of the same task cannot be released early). -/
theorem C13_no_stale_wakeup (s : St) (hr : Reachable s) (j : Nat) (hw : waitsAny (s.jpc j) = false) :
    s.tok j = 0 ∧ ∀ o, cntL (s.funcs o) j + runCnt (s.phase o) j = 0 := by
  have hi := hr.inv
  refine ⟨?_, ?_⟩
  · have := hi.tokWait j
    by_cases h : 1 ≤ s.tok j
    · rw [this h] at hw; simp at hw
    · omega
  · intro o
    have := hi.cbOwner j o
    by_cases h : 1 ≤ cntL (s.funcs o) j + runCnt (s.phase o) j
    · have hw' := waitsB_any _ _ (this h); rw [hw'] at hw; simp at hw
    · omega

/-! ## jthread -/

/-- **Destroying a jthread requests stop and joins.**  When `join()` inside `~jthread` has returned
    (`jt.joined`), the stop request was made before (`request_stop()` returned and
    `stop_requested()` was observed true), the join was on this handle, and its target has left its
    thread function. -/
theorem C13_jthread_dtor (s s' : St) (hr : Reachable s) (h j : Nat)
    (hs : step s (.jtJoined h j) = some s') :
    s.dt j = some (h, true) ∧ ∃ o, s.lastJoin j = some (h, o) ∧ started (s.phase o) = true ∧
      afterBody (s.phase o) = true := by
  simp only [step] at hs
  split at hs
  · rename_i hg
    obtain ⟨hd, _, hj⟩ := hg
    refine ⟨hd, ?_⟩
    cases hl : s.lastJoin j with
    | none => rw [hl] at hj; simp at hj
    | some p =>
      obtain ⟨h', o⟩ := p
      rw [hl] at hj
      simp at hj
      subst hj
      exact ⟨o, rfl, C13_joined_target_finished s hr j h' o hl⟩
  · simp at hs

/-- Inside the destructor the join can only start after the stop request, and only on the
    destructor's own handle. -/
theorem C13_jthread_stop_before_join (s s' : St) (h j h' : Nat) (b : Bool)
    (hd : s.dt j = some (h', b)) (hs : step s (.jnLock h j) = some s') : h' = h ∧ b = true := by
  simp only [step] at hs
  split at hs
  · rename_i hg
    have := hg.2.2.2
    rw [hd] at this
    simpa using this
  · simp at hs

/-! ## interruption -/

/-- **An interruption is delivered only at an interruption point and only while enabled.**  The only
    events that take a task out of its thread function are the normal return and an interruption
    point (`ip.test` hit) that found `enabled_interrupt_ ∧ requested_interrupt_`. -/
theorem C13_interrupt_only_at_points_when_enabled (s s' : St) (e : Ev) (o : Nat)
    (hs : step s e = some s') (h1 : s.phase o = .body) (h2 : s'.phase o ≠ .body) :
    (e = .ipHit o true ∧ s.en o = true ∧ s.req o = true ∧ s'.phase o = .hit) ∨
    (e = .bodyDone o ∧ s'.phase o = .finished) := by
  cases e <;> simp only [step] at hs <;> (repeat' split at hs) <;>
    first
    | (simp at hs; done)
    | (simp only [Option.some.injEq] at hs; subst hs; exact absurd h1 h2)
    | (simp only [Option.some.injEq] at hs; subst hs; simp only [upd] at h2 ⊢; grind)

/-- **… and ends only that thread.**  The delivery changes nothing of any other task and of no
    handle's `id_`. -/
theorem C13_interrupt_local (s s' : St) (o : Nat) (thr : Bool) (hs : step s (.ipHit o thr) = some s') :
    s'.hid = s.hid ∧ ∀ o', o' ≠ o → s'.phase o' = s.phase o' ∧ s'.jpc o' = s.jpc o' ∧
      s'.tok o' = s.tok o' ∧ s'.funcs o' = s.funcs o' ∧ s'.req o' = s.req o' ∧ s'.en o' = s.en o' ∧
      s'.ran o' = s.ran o' ∧ s'.interrupted o' = s.interrupted o' := by
  simp only [step] at hs
  repeat' split at hs
  all_goals first
    | (simp at hs; done)
    | (simp only [Option.some.injEq] at hs; subst hs; refine ⟨rfl, ?_⟩; intro o' hne; simp [upd, hne])

/-- A request only sets the flag of its target (and is refused while the target has interruption
    disabled: `ip.refuse`). -/
theorem C13_interrupt_request_local (s s' : St) (o : Nat) (f : Bool) (hs : step s (.ipReq o f) = some s') :
    s'.phase = s.phase ∧ s'.jpc = s.jpc ∧ s'.tok = s.tok ∧ s'.hid = s.hid ∧ (s.en o = true ∨ f = false) ∧
      ∀ o', o' ≠ o → s'.req o' = s.req o' := by
  simp only [step] at hs
  split at hs
  · rename_i hg
    simp only [Option.some.injEq] at hs; subst hs
    refine ⟨rfl, rfl, rfl, rfl, hg, ?_⟩
    intro o' hne; simp [upd, hne]
  · simp at hs

/-- **A delivered interruption ends the thread**: from the delivery on, the task never returns to its
    thread function; it reaches `finished` marked as interrupted (and then runs its exit callbacks like
    any other thread: `C13_join_returns` shows that the states in between are never stuck). -/
theorem C13_interrupt_ends_thread (s s' : St) (e : Ev) (o : Nat) (hs : step s e = some s')
    (h1 : s.phase o = .hit ∨ s.phase o = .unwinding) :
    s'.phase o = .hit ∨ s'.phase o = .unwinding ∨ (s'.phase o = .finished ∧ s'.interrupted o = true) := by
  cases e <;> simp only [step] at hs <;> (repeat' split at hs) <;>
    first
    | (simp at hs; done)
    | (simp only [Option.some.injEq] at hs; subst hs; (try simp only [upd]); grind)

/-! ## The exit-callback loop of the pinned tree and its counterexample -/

namespace OldLoop

/-- `thread_data::run_thread_exit_callbacks` of the pinned tree:
    `lock; while (!exit_funcs_.empty()) { unlock; exit_funcs_.front()(); lock; exit_funcs_.pop_front(); } ran = true`.
    `add_thread_exit_callback` (`push`) needs the same lock, so it interleaves exactly in the unlocked
    window (before or after the invocation). -/
inductive Pc where
  | before | head | window | called | done
  deriving DecidableEq, Repr

structure St where
  funcs : List Nat := []
  pc : Pc := .before
  runs : List Nat := []     -- history: invocations
  ran : Bool := false
  deriving Repr

inductive Ev where
  | begin | iter | call (c : Nat) | pop | ran
  | push (c : Nat) (ok : Bool)
  deriving Repr

def step (s : St) : Ev → Option St
  | .begin => if s.pc = .before then some { s with pc := .head } else none
  | .iter => if s.pc = .head ∧ s.funcs ≠ [] then some { s with pc := .window } else none
  | .call c =>
    match s.pc, s.funcs with
    | .window, f :: _ => if c = f then some { s with pc := .called, runs := c :: s.runs } else none
    | _, _ => none
  | .pop =>
    match s.pc, s.funcs with
    | .called, _ :: rest => some { s with pc := .head, funcs := rest }
    | _, _ => none
  | .ran => if s.pc = .head ∧ s.funcs = [] then some { s with pc := .done, ran := true } else none
  | .push c ok =>
    if (s.pc = .before ∨ s.pc = .window ∨ s.pc = .called ∨ s.pc = .done) ∧ ok = !s.ran then
      some { s with funcs := if ok then c :: s.funcs else s.funcs }
    else none

/-- the history observed on the pinned tree (findings/C13-exit-callback-dropped-pinned-tree.json):
    callback 1 is running when callback 2 (the joiner's) is registered -/
def witness : List Ev := [.push 1 true, .begin, .iter, .call 1, .push 2 true, .pop, .iter, .call 1, .pop, .ran]

end OldLoop

/-- **Counterexample for the pinned tree** (machine-checked): with two callbacks the old loop accepts
    a history in which callback 2 was accepted (`push 2 true`), the loop has finished
    (`ran_exit_funcs_ = true`), callback 2 was never invoked and callback 1 was invoked twice.  If
    callback 2 is the one `thread::join` registered, that `join` never returns. -/
theorem C13_pinned_loop_drops_callback :
    ∃ s, runLog OldLoop.step {} OldLoop.witness = some s ∧ s.ran = true ∧ s.funcs = [] ∧
      s.runs = [1, 1] ∧ 2 ∉ s.runs := by
  refine ⟨_, rfl, ?_⟩
  decide

/-- Single-callback case of the pinned loop (`_partial`): if nothing is registered while the loop
    runs, the pinned loop invokes every callback exactly once, front to back. -/
theorem C13_pinned_loop_sequential_partial (l : List Nat) :
    ∀ (runs : List Nat), ∃ s, runLog OldLoop.step { funcs := l, pc := .head, runs := runs }
        (l.flatMap (fun c => [OldLoop.Ev.iter, .call c, .pop]) ++ [.ran]) = some s ∧
      s.ran = true ∧ s.runs = l.reverse ++ runs := by
  induction l with
  | nil => intro runs; exact ⟨_, rfl, rfl, by simp⟩
  | cons c l ih =>
    intro runs
    obtain ⟨s, h1, h2, h3⟩ := ih (c :: runs)
    refine ⟨s, ?_, h2, by simp [h3]⟩
    simp only [List.flatMap_cons, List.cons_append, List.nil_append, runLog, OldLoop.step]
    simpa using h1

/-! ## Non-vacuity: the three orders of {callback added, exit callbacks run, joiner suspended} -/

/-- handle 1 bound to task 2 by task 1; task 1 joins -/
def prefixLog : List Ev :=
  [.body 1, .start 1 2 1, .body 2, .jnLock 1 1, .jnChecked 1 1 2, .ipMiss 1]

/-- callback added, joiner suspended, then the target exits and runs the callback -/
def normalLog : List Ev := prefixLog ++
  [.ecAdd 2 1 1, .jnUnlock 1 1, .jnSusp 1 1, .bodyDone 2, .ecBegin 2 1, .ecTake 2 0, .resume 1 2,
   .ecNext 2 0, .ecRan 2, .exited 2, .term 2, .jnWoke 1 1, .jnDone 1 1]

/-- callback added, the target runs it before the joiner has suspended -/
def earlyLog : List Ev := prefixLog ++
  [.ecAdd 2 1 1, .jnUnlock 1 1, .bodyDone 2, .ecBegin 2 1, .ecTake 2 0, .resume 1 2, .jnSusp 1 1,
   .jnWoke 1 1, .ecNext 2 0, .jnDone 1 1, .ecRan 2, .exited 2]

/-- the target ran its exit callbacks first: the callback is refused, join does not suspend -/
def refusedLog : List Ev :=
  [.body 1, .start 1 2 1, .body 2, .bodyDone 2, .ecBegin 2 0, .ecRan 2, .jnLock 1 1, .jnChecked 1 1 2,
   .ipMiss 1, .ecAdd 2 1 0, .jnDone 1 1, .joinable 1 1 false, .jnLock 1 1, .jnErr 1 1 1]

example : (runLog step init normalLog).isSome = true := by decide
example : (runLog step init earlyLog).isSome = true := by decide
example : (runLog step init refusedLog).isSome = true := by decide

/-- a user callback registered while the target's exit loop is running another one, and a joiner:
    all are run (the scenario of the pinned-tree counterexample, on the repaired loop) -/
example : (runLog step init
    [.body 1, .start 1 2 1, .body 2, .body 3, .uadd 2 3 7, .ecAdd 2 3 1, .bodyDone 2, .ecBegin 2 1, .ecTake 2 0,
     .jnLock 1 1, .jnChecked 1 1 2, .ipMiss 1, .ecAdd 2 1 1, .jnUnlock 1 1, .jnSusp 1 1,
     .ucb 2 2 7, .ecNext 2 1, .ecTake 2 0, .resume 1 2, .ecNext 2 0, .ecRan 2, .jnWoke 1 1, .jnDone 1 1]).isSome = true := by
  decide

/-- a stuck state with a legitimately blocked joiner (its target never returns) exists -/
example : ∃ s, runLog step init (prefixLog ++ [.ecAdd 2 1 1, .jnUnlock 1 1, .jnSusp 1 1]) = some s ∧
    s.jpc 1 = .susp 1 2 ∧ s.tok 1 = 0 ∧ s.phase 2 = .body := by
  refine ⟨_, rfl, ?_⟩
  decide

/-- an interruption delivered at an interruption point; the thread ends and its joiner is released -/
example : (runLog step init
    [.body 1, .start 1 2 1, .body 2, .ipReq 2 true, .ipHit 2 true, .ipClear 2, .interrupted 2, .bodyDone 2,
     .ecBegin 2 0, .ecRan 2, .exited 2, .jnLock 1 1, .jnChecked 1 1 2, .ipMiss 1, .ecAdd 2 1 0, .jnDone 1 1]).isSome = true := by
  decide

/-- a jthread destructor: stop request, then join -/
example : (runLog step init
    [.body 1, .start 1 2 1, .body 2, .joinable 1 1 true, .jtDtor 1 1, .jtStop 1 1 true, .jnLock 1 1,
     .jnChecked 1 1 2, .ipMiss 1, .ecAdd 2 1 1, .jnUnlock 1 1, .jnSusp 1 1, .bodyDone 2, .ecBegin 2 1,
     .ecTake 2 0, .resume 1 2, .ecNext 2 0, .ecRan 2, .jnWoke 1 1, .jnDone 1 1, .jtJoined 1 1]).isSome = true := by
  decide

end PikaVerif.C13
