import PikaVerif.Lemmas.Mpi
/-!
# C20 — MPI requests complete their sender exactly once, after the transfer

Theorems about the model `PikaVerif.Mpi` (transform_mpi dispatch/trigger, the four handler
methods, the request registry and pollers of `mpi_polling.cpp`, `thread_manager::wait`).  They
hold for every accepted log: every number of operations, every mix of handler methods, single-
and multi-threaded polling, every interleaving of submitting tasks, pollers and of MPI's
completion reports (MPI is the environment; its only modelled behaviour is *when* it reports a
request complete).

`Reachable` is reachability in the repaired tree (`bug = false`); the pinned tree's behaviour
(`bug = true`) violates exactly-once, see `C20_pinned_tree_double_completion`.
-/
namespace PikaVerif.C20
open PikaVerif PikaVerif.Mpi

def Reachable (s : St) : Prop := ∃ log, runLog step (init false) log = some s

theorem inv_of_reachable {s : St} (h : Reachable s) : Inv s := by
  obtain ⟨log, hl⟩ := h
  exact inv_of_accepted hl

/-- **Exactly once, after the transfer (state form).**  In every reachable state every operation
    has signalled its receiver at most once; it has signalled exactly once iff its control flow is
    finished (`done`); and if the MPI call itself succeeded, a finished operation's request has
    been reported complete by MPI. -/
theorem C20_exactly_once_after_complete (s : St) (hr : Reachable s) (x : Nat) :
    (s.op x).sigs ≤ 1 ∧ ((s.op x).sigs = 1 ↔ (s.op x).pc = .done) ∧
    ((s.op x).pc = .done → (s.op x).okPost = true → (s.op x).mpiDone = true) := by
  have hi := (inv_of_reachable hr).ops x
  have h8 := hi.sigs
  refine ⟨?_, ?_, hi.doneMpi⟩
  · rw [h8]; simp only [Mpi.b2n]; split <;> omega
  · rw [h8]; simp only [Mpi.b2n]
    constructor
    · intro h; split at h
      · rename_i hd; simpa using hd
      · omega
    · intro h; simp [h]

/-- **Exactly once, after the transfer (step form).**  Whenever the model accepts a completion
    signal (`set_value` / `set_error`) of operation `x`, it is the first signal of that operation,
    and — unless the MPI call itself returned an error — MPI has already reported the request
    complete. -/
theorem C20_signal_first_and_after_complete (s s' : St) (hr : Reachable s) (a x : Nat)
    (h : step s (.sig a x) = some s') :
    (s.op x).sigs = 0 ∧ ((s.op x).okPost = true → (s.op x).mpiDone = true) ∧ (s'.op x).sigs = 1 := by
  have hinv := inv_of_reachable hr
  have hi := hinv.ops x
  have hb := hinv.nobug
  obtain ⟨i1, i2, i3, i4, i5, i6, i7, i8, i9, i10, i11, i12, i13, _, _⟩ := hi
  simp only [step] at h
  split at h
  case isFalse => simp at h
  split at h
  all_goals first | (simp at h; done) | skip
  all_goals (
    rename_i hpc
    simp only [Option.some.injEq] at h
    subst h
    simp only [setOp, upd_same]
    have h0 : (s.op x).sigs = 0 := by rw [i8, hpc]; simp [Mpi.b2n]
    refine ⟨h0, ?_, by omega⟩)
  · intro hok; have := i11 hpc; rw [this] at hok; simp at hok
  · intro _; exact i6 (Or.inl hpc)
  · intro _; exact i6 (Or.inr hpc)
  · intro _; exact i13 (by rw [hpc]; rfl)
  · intro _; exact i13 (by rw [hpc]; rfl)

/-- **The registered callback is invoked exactly once, after MPI's report.**  A registry entry's
    callback is invoked at most once, an entry that has left the registry was invoked exactly
    once, and every invocation happens after MPI reported the request complete. -/
theorem C20_callback_exactly_once (s : St) (hr : Reachable s) (x : Nat) :
    (s.op x).cbs ≤ 1 ∧ ((s.op x).rs = .gone → (s.op x).cbs = 1) ∧
    ((s.op x).cbs = 1 → (s.op x).mpiDone = true) := by
  have hi := (inv_of_reachable hr).ops x
  have hc := hi.cbs
  refine ⟨?_, ?_, ?_⟩
  · rw [hc]; simp only [Mpi.b2n]; split <;> omega
  · intro hg; rw [hc, hg]; rfl
  · intro h1
    rw [hc] at h1
    simp only [Mpi.b2n] at h1
    split at h1
    · rename_i hl
      apply hi.mpi2
      cases hrs : (s.op x).rs <;> simp_all [late, rsDone]
    · omega

/-- Whenever the model accepts the invocation of a callback it is the first invocation for that
    entry and MPI has reported the request complete. -/
theorem C20_call_first_and_after_complete (s s' : St) (hr : Reachable s) (a x : Nat)
    (h : step s (.call a x) = some s') : (s.op x).cbs = 0 ∧ (s.op x).mpiDone = true := by
  have hi := (inv_of_reachable hr).ops x
  simp only [step] at h
  split at h
  case isFalse => simp at h
  split at h
  case h_2 => simp at h
  rename_i a' e hrs
  refine ⟨?_, ?_⟩
  · rw [hi.cbs, hrs]; rfl
  · apply hi.mpi2; rw [hrs]; rfl

/-- **Counters.**  `all_in_flight_` equals the number of operations that are registered (counter
    incremented) and not yet handed to an invoker, and the registry's share of the global activity
    count is at least `all_in_flight_`. -/
theorem C20_counts (s : St) (hr : Reachable s) :
    s.inFlight = sumTo s.n (fun x => Mpi.b2n (pendingReq (s.op x))) ∧ s.inFlight ≤ s.gac := by
  have hinv := inv_of_reachable hr
  constructor
  · rw [hinv.inflight]
    apply sumTo_congr
    intro x _
    have hi := hinv.ops x
    simp only [ifW, pendingReq]
    by_cases hpc : (s.op x).pc = .reg2
    · have := hi.preNone (by rw [hpc]; rfl)
      simp [hpc, this, rsIF, Mpi.b2n]
    · simp [hpc, Mpi.b2n]
  · rw [hinv.inflight, hinv.gac]
    apply sumTo_le_sumTo
    intro x _
    simp only [ifW, gacW]
    have h1 : Mpi.b2n ((s.op x).pc == .reg2) ≤ Mpi.b2n ((s.op x).pc == .reg1 || (s.op x).pc == .reg2) := by
      by_cases hpc : (s.op x).pc = .reg2 <;> simp [hpc, Mpi.b2n]
    have h2 : Mpi.b2n (rsIF (s.op x).rs) ≤ Mpi.b2n (rsGac (s.op x).rs) := by
      cases (s.op x).rs <;> simp [rsIF, rsGac, Mpi.b2n]
    omega

/-- An operation is *settled* when the registry owes it nothing: it was never registered or its
    callback has been invoked, has returned and its activity count has been given back. -/
def Settled (o : Op) : Prop :=
  (o.rs = .none ∨ o.rs = .gone) ∧ o.pc ≠ .reg1 ∧ o.pc ≠ .reg2 ∧ o.pc ≠ .waiting ∧ pendingReq o = false

theorem settled_of_gac_zero (s : St) (hinv : Inv s) (hg : s.gac = 0) (x : Nat) : Settled (s.op x) := by
  by_cases hx : x < s.n
  · have hz : gacW (s.op x) = 0 := zero_of_sumTo_zero (f := fun x => gacW (s.op x)) (by rw [← hinv.gac]; exact hg) x hx
    have hi := hinv.ops x
    simp only [gacW] at hz
    have hrs : rsGac (s.op x).rs = false := by
      cases h : rsGac (s.op x).rs <;> simp [h, Mpi.b2n] at hz ⊢
    have hpc : ((s.op x).pc == .reg1 || (s.op x).pc == .reg2) = false := by
      cases h : ((s.op x).pc == .reg1 || (s.op x).pc == .reg2) <;> simp [h, Mpi.b2n] at hz ⊢
    simp at hpc
    have hng : (s.op x).rs = .none ∨ (s.op x).rs = .gone := by
      cases h : (s.op x).rs <;> simp_all [rsGac]
    refine ⟨hng, hpc.1, hpc.2, ?_, ?_⟩
    · intro hw
      rcases hi.waitEarly hw with h | h <;> rcases hng with g | g <;> simp [g, early5, isCalling] at h
    · simp only [pendingReq, Bool.or_eq_false_iff]
      refine ⟨by simp [hpc.2], ?_⟩
      rcases hng with g | g <;> simp [g, rsIF]
  · rw [hinv.outside x (by omega)]
    refine ⟨Or.inl rfl, ?_, ?_, ?_, ?_⟩ <;> simp [pendingReq, rsIF]

/-- **`pika::wait()` does not return while requests are in flight.**  Whenever the model accepts
    the return of `thread_manager::wait` (the real global activity count was at most the caller's
    own share), `all_in_flight_` is zero and every operation is settled: no request sits in the
    queue, the vector or the ready queue, no callback is pending or still running. -/
theorem C20_wait_blocks_while_in_flight (s s' : St) (hr : Reachable s) (a v k : Nat)
    (h : step s (.waitRet a v k) = some s') :
    s.inFlight = 0 ∧ s.gac = 0 ∧ ∀ x, Settled (s.op x) := by
  have hinv := inv_of_reachable hr
  simp only [step] at h
  split at h
  case isFalse => simp at h
  rename_i hg
  have hg0 : s.gac = 0 := by omega
  have hle := (C20_counts s hr).2
  exact ⟨by omega, hg0, settled_of_gac_zero s hinv hg0⟩

/-- **No completion is lost at quiescence.**  In every reachable state in which the registry's
    share of the activity count is zero, every operation is settled (so a registered request whose
    callback has not run keeps `wait()` and shutdown from returning). -/
theorem C20_quiescent_settled (s : St) (hr : Reachable s) (hg : s.gac = 0) : ∀ x, Settled (s.op x) :=
  settled_of_gac_zero s (inv_of_reachable hr) hg

/-- **The poller can always advance a registered entry.**  For an operation waiting for its
    callback, every stage of the registry except "in the vector, MPI has not reported yet" has an
    enabled poller step: the poll lock is free or its holder can move the entry from the queue to
    the vector; a ready entry can be dequeued by any poller; the actor that dequeued it can
    decrement `all_in_flight_`, invoke the callback, and the callback body can start. -/
theorem C20_poller_progress (s : St) (hr : Reachable s) (x : Nat) (hw : (s.op x).pc = .waiting) :
    match (s.op x).rs with
    | .queued => (s.lock = none ∧ ∀ a, (step s (.lock a)).isSome = true) ∨
                 (∃ a, (s.lock = some a ∨ s.stm = true) ∧ (step s (.q2v a x)).isSome = true)
    | .vec => True
    | .ready e => ∀ a, (step s (.deq a x e)).isSome = true
    | .taken a _ => (step s (.ifDec a x (s.inFlight - 1))).isSome = true
    | .decd a _ => (step s (.call a x)).isSome = true
    | .calling a e => (step s (.cb a x e)).isSome = true
    | _ => False := by
  have hinv := inv_of_reachable hr
  have hi := hinv.ops x
  have hx : x < s.n := by
    by_cases hx : x < s.n
    · exact hx
    · have := hinv.outside x (by omega); rw [this] at hw; simp at hw
  have hwe := hi.waitEarly hw
  cases hrs : (s.op x).rs with
  | none => simp [hrs, early5, isCalling] at hwe
  | queued =>
    simp only
    cases hl : s.lock with
    | none => left; exact ⟨rfl, fun a => by simp [step, hl]⟩
    | some b => right; exact ⟨b, Or.inl rfl, by simp [step, hx, hrs, hl]⟩
  | vec => trivial
  | ready e => simp only; intro a; simp [step, hx, hrs]
  | taken a e =>
    simp only
    have hpos : 1 ≤ s.inFlight := by
      rw [hinv.inflight]
      have := le_sumTo (f := fun x => ifW (s.op x)) hx
      have h1 : 1 ≤ ifW (s.op x) := by simp [ifW, hrs, rsIF, Mpi.b2n]
      omega
    have : s.inFlight - 1 + 1 = s.inFlight := by omega
    simp [step, hx, hrs, this]
  | decd a e => simp [step, hx, hrs]
  | calling a e => simp [step, hx, hrs, hw]
  | returned a => simp [hrs, early5, isCalling] at hwe
  | gone => simp [hrs, early5, isCalling] at hwe

/-- **Polling is enabled and disabled in a balanced way.**  The polling function is installed
    exactly when there is one more effective `register_polling` than `unregister_polling`; a
    request is only registered while it is installed; installing it, and the return of
    `stop_polling`, happen only when no request is registered-and-uninvoked. -/
theorem C20_register_balance (s : St) (hr : Reachable s) :
    s.nOn = s.nOff + Mpi.b2n s.installed ∧
    (∀ a x s', step s (.reg a x) = some s' → s.installed = true) ∧
    (∀ a b s', step s (.pollOn a b) = some s' → s.installed = false ∧ s.inFlight = 0 ∧
        ∀ x, pendingReq (s.op x) = false) ∧
    (∀ a v s', step s (.stopRet a v) = some s' → s.installed = false ∧ s.inFlight = 0 ∧
        ∀ x, pendingReq (s.op x) = false) := by
  have hinv := inv_of_reachable hr
  have hcnt := (C20_counts s hr).1
  have hnone : s.inFlight = 0 → ∀ x, pendingReq (s.op x) = false := by
    intro h0 x
    by_cases hx : x < s.n
    · have := zero_of_sumTo_zero (f := fun x => Mpi.b2n (pendingReq (s.op x))) (by rw [← hcnt]; exact h0) x hx
      cases hp : pendingReq (s.op x) <;> simp [hp, Mpi.b2n] at this ⊢
    · rw [hinv.outside x (by omega)]; simp [pendingReq, rsIF]
  refine ⟨hinv.balance, ?_, ?_, ?_⟩
  · intro a x s' h
    simp only [step] at h
    split at h
    · rename_i hg; exact hg.2.2.2
    · simp at h
  · intro a b s' h
    simp only [step] at h
    split at h
    · rename_i hg; exact ⟨hg.1, hg.2, hnone hg.2⟩
    · simp at h
  · intro a v s' h
    simp only [step] at h
    split at h
    · rename_i hg; exact ⟨hg.2.2, hg.2.1, hnone hg.2.1⟩
    · simp at h

/-! ## The pinned tree (before the repair) violates exactly-once

`transform_mpi.hpp` (pinned): `set_value` calls `dispatch(r); trigger(r);` — when the MPI call
returns an error, `dispatch` calls `set_error` on the receiver and returns, and `trigger` still
runs: its early `MPI_Test` on the (null) request reports "complete" and `set_value` is called on
the already-moved receiver.  The model with `bug = true` follows that code. -/

def pinnedLog : List Ev := [.post 0 0 mCont false, .sig 0 0, .eager 0 0, .sig 0 0]

/-- The pinned tree admits a run in which one operation signals its receiver twice. -/
theorem C20_pinned_tree_double_completion :
    ∃ s, runLog step (init true) pinnedLog = some s ∧ (s.op 0).sigs = 2 := by
  refine ⟨_, rfl, ?_⟩
  decide

/-- … and the repaired tree rejects that very log (at the third event). -/
theorem C20_repaired_rejects_pinned_log : runLog step (init false) pinnedLog = none := by decide

/-! ## The adaptor keeps the operation's arguments until the transfer is over -/

/-- MPI's report is the only source of `mpiDone`: a step that makes operation `x`'s request count as
    complete is one of the four events that carry MPI's own report for `x` (the early poll, the
    `yield_while` poll, `MPI_Testsome`/`MPI_Testany` in the multi-threaded poller, `MPI_Testany` in
    the single-threaded poller). -/
theorem C20_complete_only_by_mpi_report (s s' : St) (e : Ev) (x : Nat) (h : step s e = some s')
    (h0 : (s.op x).mpiDone = false) (h1 : (s'.op x).mpiDone = true) :
    (∃ a, e = .eager a x) ∨ (∃ a, e = .ydone a x) ∨ (∃ a st, e = .ready a x st) ∨ (∃ a st, e = .testany a x st) := by
  cases e <;> simp only [step] at h
  all_goals (repeat' split at h)
  all_goals first | (simp at h; done) | skip
  all_goals (
    injection h with h
    subst h
    try simp only [setOp, upd] at h1)
  all_goals first
    | (rw [h0] at h1; simp at h1; done)
    | (split at h1
       · rename_i hx; subst hx; first | (simp at h1 ; rw [h0] at h1; simp at h1; done) | (simp at h1; done) | simp
       · rw [h0] at h1; simp at h1)

/-- **Arguments are held until MPI has reported completion (state form).**  In every reachable state
    the adaptor has released the stored arguments of an operation at most once, and — unless the
    MPI call itself returned an error — only after MPI reported that operation's request complete. -/
theorem C20_arguments_held_until_complete (s : St) (hr : Reachable s) (x : Nat) :
    (s.op x).rel ≤ 1 ∧ ((s.op x).rel ≠ 0 → (s.op x).okPost = true → (s.op x).mpiDone = true) := by
  have hi := (inv_of_reachable hr).ops x
  exact ⟨hi.relOnce, hi.relMpi⟩

/-- **… (step form).**  Whenever the model accepts the release of operation `x`'s arguments it is
    the first release of that operation, the operation exists, and its request has been reported
    complete by MPI (or the MPI call was never posted successfully). -/
theorem C20_release_first_and_after_complete (s s' : St) (a x : Nat) (h : step s (.rel a x) = some s') :
    x < s.n ∧ (s.op x).rel = 0 ∧ ((s.op x).okPost = true → (s.op x).mpiDone = true) ∧ (s'.op x).rel = 1 := by
  simp only [step] at h
  split at h
  case isFalse => simp at h
  rename_i hg
  simp only [Option.some.injEq] at h
  subst h
  obtain ⟨g1, g2, g3⟩ := hg
  refine ⟨g1, g2, ?_, by simp [setOp, upd_same]⟩
  intro hok
  rcases g3 with g3 | g3
  · rw [g3] at hok; simp at hok
  · exact g3


/-! ## Non-vacuity -/

/-- continuation mode, multi-threaded poller: register, poll, complete, invoke, signal, wait returns -/
def exampleLog : List Ev :=
  [.pollOn 0 false, .post 1 0 mCont true, .reg 1 0, .gacInc 1 0, .ifInc 1 0 1, .enq 1 0,
   .lock 2, .q2v 2 0, .ready 2 0 0, .unlock 2, .deq 2 0 0, .ifDec 2 0 0, .call 2 0, .cb 2 0 0,
   .sig 2 0, .ret 2 0, .gacDec 2 0, .waitRet 0 0 0, .pollOff 0, .stopRet 0 0]

example : (runLog step (init false) exampleLog).isSome = true := by decide

/-- suspend_resume in single-threaded mode, an eager completion and a yield_while completion -/
def exampleLog2 : List Ev :=
  [.pollOn 0 true, .post 1 0 mSuspend true, .reg 1 0, .gacInc 1 0, .ifInc 1 0 1, .addv 1 0,
   .post 3 1 mYield true, .ydone 3 1, .sig 3 1, .post 3 2 mNewTask true, .eager 3 2, .sig 3 2,
   .testany 1 0 0, .ifDec 1 0 0, .call 1 0, .cb 1 0 0, .ret 1 0, .gacDec 1 0, .woke 4 0, .sig 4 0,
   .waitRet 0 1 1]

example : (runLog step (init false) exampleLog2).isSome = true := by decide

/-- `wait()` returning while a request is registered is not a behaviour of the model -/
example : runLog step (init false)
    [.pollOn 0 false, .post 1 0 mCont true, .reg 1 0, .gacInc 1 0, .ifInc 1 0 1, .enq 1 0, .waitRet 0 0 0] = none := by
  decide

/-- new_task mode with an owned argument: the release is accepted after MPI's report (inside the
    callback) … -/
example : (runLog step (init false)
    [.pollOn 0 false, .post 1 0 mNewTask true, .reg 1 0, .gacInc 1 0, .ifInc 1 0 1, .enq 1 0,
     .lock 2, .q2v 2 0, .ready 2 0 0, .unlock 2, .deq 2 0 0, .ifDec 2 0 0, .call 2 0, .cb 2 0 0,
     .rel 2 0, .ret 2 0, .gacDec 2 0, .sig 3 0]).isSome = true := by decide

/-- … and a release at registration time, while the request is still in flight, is not a behaviour
    of the model; nor is a second release. -/
example : runLog step (init false)
    [.pollOn 0 false, .post 1 0 mNewTask true, .reg 1 0, .rel 1 0] = none := by decide
example : runLog step (init false)
    [.post 1 0 mYield true, .ydone 1 0, .sig 1 0, .rel 1 0, .rel 1 0] = none := by decide

end PikaVerif.C20
