import PikaVerif.Lemmas.CVAbort
import PikaVerif.Lemmas.CVAbort2
import PikaVerif.Lemmas.CV6
import PikaVerif.Props.C07
/-!
# C07, follow-up C07d — (A) `abort_all` / destruction with blocked waiters

Theorems about `Model/CVAbort.lean` (one `detail::condition_variable`, its spinlock, `n` threads, any
program over `wait` / `wait_until` (the caller catches the abort exception), `notify_one`, `notify_all`,
`abort_all`; every interleaving, deadline expiry as a schedule event).  `ReachableA s` = `s` is the state
after some accepted log from `CVAbort.init n`.

"Linked" = `inQ (s.pc t)`: `t` is inside `wait`/`wait_until` between its `cv.enq` and its re-examination of
the entry, and the entry's `ctx_` has not been reset; by the invariant this is exactly
`t ∈ s.queue ∨ t ∈ s.lq` (`queue_` or the local list of the `abort_all` in flight).

History fields: `enqs t` (#`cv.enq` of `t`), `pops t` (#pops+resumes of `t` by notifiers), `abPops t`
(#pops of `t` by `abort_all`), `aborts t` (#`ctx.abort()` calls aimed at `t`).

(B) — the timed stop-token wait of `Model/CV.lean` — is in the second half of this file.
-/
namespace PikaVerif.C07d
open PikaVerif

section A
open PikaVerif.CVAbort

def ReachableA (s : St) : Prop := ∃ n log, runLog step (init n) log = some s

theorem ReachableA.inv {s : St} (h : ReachableA s) : Inv s := by
  obtain ⟨n, log, hl⟩ := h
  exact inv_of_accepted hl

theorem ReachableA.step {s s' : St} {e : Ev} (h : ReachableA s) (hs : step s e = some s') :
    ReachableA s' := by
  obtain ⟨n, log, hl⟩ := h
  exact ⟨n, log ++ [e], by rw [runLog_append, hl]; simp [runLog, hs]⟩

theorem ReachableA.run {s s' : St} {log : List Ev} (h : ReachableA s)
    (hs : runLog CVAbort.step s log = some s') : ReachableA s' := by
  obtain ⟨n, l0, hl⟩ := h
  exact ⟨n, l0 ++ log, by rw [runLog_append, hl]; simpa using hs⟩

/-! ## One pop, one abort -/

/-- **`abort_all` pops the front of its local list; the target is a linked waiter.**  The entry popped
    belongs to a thread other than the aborter that is inside a wait with its entry linked (un-popped);
    after the step it is popped (`ctx_` reset: neither a notifier, nor `abort_all`, nor the waiter's own
    `~reset_queue_entry` will touch the entry again), the aborter remembers it (`aPopped g`), `queue_` is
    untouched and nobody else's linked status changes. -/
theorem C07d_abort_pops_front_linked (s s' : St) (hr : ReachableA s) (a z g : Nat)
    (h : step s (.abPop a z g) = some s') :
    s.lq.head? = some g ∧ s'.lq = s.lq.tail ∧ s'.queue = s.queue ∧ g ≠ a ∧
    inQ (s.pc g) = true ∧ inQ (s'.pc g) = false ∧ s'.pc a = .aPopped g ∧
    s'.abPops g = s.abPops g + 1 ∧ (∀ w, w ≠ g → inQ (s'.pc w) = inQ (s.pc w)) := by
  have hi := hr.inv
  simp only [CVAbort.step] at h
  split at h
  case isFalse => simp at h
  split at h
  case h_2 => simp at h
  rename_i hpa
  split at h
  case h_2 => simp at h
  rename_i g' rest hq
  split at h
  case isFalse => simp at h
  rename_i hz
  obtain ⟨_, hgg⟩ := hz
  subst hgg
  split at h
  case h_2 => simp at h
  rename_i p' hp'
  obtain ⟨_, _, f3, f4, _, f6, _⟩ := setPopped_facts hp'
  have hne : g' ≠ a := by
    intro he; rw [he, hpa] at f6; simp [inAb] at f6
  simp only [Option.some.injEq] at h
  subst h
  refine ⟨by simp [hq], by simp [hq], rfl, hne, f3, ?_, by simp [upd], by simp [upd], ?_⟩
  · simp [upd, hne, f4]
  · intro w hw
    by_cases hwa : w = a
    · subst hwa; simp [upd, hpa, inQ]
    · simp [upd, hw, hwa]

/-- **One `ctx.abort()` per pop, aimed at the popped thread.**  The agent call `abort` is issued by the
    thread inside `abort_all`, for exactly the thread whose entry it popped last, and that pop had not been
    followed by an abort yet (`aborts g + 1 = abPops g` before, equal after).  Unless the target is polling
    a deadline (the E1 agent drops the call, as it drops a resume) the target gets a wake-up token and its
    abort flag: its `suspend` returns by throwing. -/
theorem C07d_abort_aimed_at_popped (s s' : St) (hr : ReachableA s) (a g : Nat) (d : Bool)
    (h : step s (.abort a g d) = some s') :
    s.pc a = .aUnl g ∧ s.ab = some a ∧ s.aborts g + 1 = s.abPops g ∧ s'.aborts g = s'.abPops g ∧
    (d = false → s'.tok g = s.tok g + 1 ∧ s'.abt g = true) ∧ (d = true → isSlp (s.pc g) = true) := by
  have hi := hr.inv
  simp only [CVAbort.step] at h
  split at h
  case h_2 => simp at h
  rename_i g0 hpa
  split at h
  case isFalse => simp at h
  rename_i hg
  obtain ⟨hgg, hd⟩ := hg
  subst hgg
  have hab : s.ab = some a := hi.abHolder a (by simp [hpa, inAb])
  have hc := hi.abCnt a g0 hab
  simp only [hpa, pendN, if_true] at hc
  simp only [Option.some.injEq] at h
  subst h
  refine ⟨hpa, hab, by omega, by simp [upd]; omega, ?_, ?_⟩
  · intro hd0; subst hd0; simp [upd]
  · intro hd1; rw [← hd]; exact hd1

/-- **No entry is resumed twice; none is forgotten while linked.**  For every thread the number of
    notifier pops plus the number of `abort_all` pops never exceeds the number of its enqueues and is
    strictly smaller while an entry of it is linked; the `ctx.abort()` calls aimed at it equal the
    `abort_all` pops of it, except for the one pop whose abort is just being issued (the aborter is at
    `aPopped t` / `aUnl t`). -/
theorem C07d_one_resume_per_enqueue (s : St) (hr : ReachableA s) (t : Nat) :
    s.pops t + s.abPops t + b2n (inQ (s.pc t)) ≤ s.enqs t ∧ s.aborts t ≤ s.abPops t ∧
    s.abPops t ≤ s.aborts t + 1 ∧
    (s.aborts t < s.abPops t → ∃ a, s.ab = some a ∧ (s.pc a = .aPopped t ∨ s.pc a = .aUnl t)) := by
  have hi := hr.inv
  refine ⟨hi.cnt t, ?_, ?_, ?_⟩
  · cases hab : s.ab with
    | none => have := hi.abCnt0 hab t; omega
    | some a => have := hi.abCnt a t hab; omega
  · cases hab : s.ab with
    | none => have := hi.abCnt0 hab t; omega
    | some a =>
      have := hi.abCnt a t hab
      have : pendN (s.pc a) t ≤ 1 := by cases s.pc a <;> simp [pendN] <;> split <;> omega
      omega
  · intro hlt
    cases hab : s.ab with
    | none => have := hi.abCnt0 hab t; omega
    | some a =>
      have hc := hi.abCnt a t hab
      refine ⟨a, rfl, ?_⟩
      cases hp : s.pc a <;> simp [hp, pendN] at hc <;> try omega
      · rename_i g; by_cases hg : g = t
        · subst hg; simp
        · simp [hg] at hc; omega
      · rename_i g; by_cases hg : g = t
        · subst hg; simp
        · simp [hg] at hc; omega

/-- Number of `cv.enq` events of `t` / of notifier resumes aimed at `t` / of `abort_all` pops of `t` /
    of `ctx.abort()` calls aimed at `t` in a log. -/
def enqCount (t : Nat) : List Ev → Nat
  | [] => 0
  | .cvEnq u _ _ :: es => (if u = t then 1 else 0) + enqCount t es
  | _ :: es => enqCount t es

def resumeCount (t : Nat) : List Ev → Nat
  | [] => 0
  | .popResume _ _ g _ :: es => (if g = t then 1 else 0) + resumeCount t es
  | .popAll _ _ g _ :: es => (if g = t then 1 else 0) + resumeCount t es
  | _ :: es => resumeCount t es

def abPopCount (t : Nat) : List Ev → Nat
  | [] => 0
  | .abPop _ _ g :: es => (if g = t then 1 else 0) + abPopCount t es
  | _ :: es => abPopCount t es

def abortCount (t : Nat) : List Ev → Nat
  | [] => 0
  | .abort _ g _ :: es => (if g = t then 1 else 0) + abortCount t es
  | _ :: es => abortCount t es

theorem counters_step (s s' : St) (e : Ev) (t : Nat) (h : step s e = some s') :
    s'.enqs t = s.enqs t + enqCount t [e] ∧ s'.pops t = s.pops t + resumeCount t [e] ∧
    s'.abPops t = s.abPops t + abPopCount t [e] ∧ s'.aborts t = s.aborts t + abortCount t [e] := by
  cases e <;> simp only [CVAbort.step, popCore] at h <;>
    (repeat' split at h) <;>
      first
        | (simp at h; done)
        | (simp only [Option.some.injEq] at h; subst h
           simp [enqCount, resumeCount, abPopCount, abortCount, upd_apply]
           try (split <;> simp_all <;> omega))

theorem counters_log (t : Nat) (log : List Ev) : ∀ (s s' : St), runLog step s log = some s' →
    s'.enqs t = s.enqs t + enqCount t log ∧ s'.pops t = s.pops t + resumeCount t log ∧
    s'.abPops t = s.abPops t + abPopCount t log ∧ s'.aborts t = s.aborts t + abortCount t log := by
  induction log with
  | nil => intro s s' h; simp at h; subst h; simp [enqCount, resumeCount, abPopCount, abortCount]
  | cons e es ih =>
    intro s s' h
    simp only [runLog] at h
    cases hs : step s e with
    | none => simp [hs] at h
    | some s1 =>
      simp only [hs] at h
      have h1 := counters_step s s1 e t hs
      have h2 := ih s1 s' h
      have e1 : enqCount t (e :: es) = enqCount t [e] + enqCount t es := by
        cases e <;> simp [enqCount]
      have e2 : resumeCount t (e :: es) = resumeCount t [e] + resumeCount t es := by
        cases e <;> simp [resumeCount]
      have e3 : abPopCount t (e :: es) = abPopCount t [e] + abPopCount t es := by
        cases e <;> simp [abPopCount]
      have e4 : abortCount t (e :: es) = abortCount t [e] + abortCount t es := by
        cases e <;> simp [abortCount]
      refine ⟨?_, ?_, ?_, ?_⟩ <;> omega

/-- **Exactly-once, log form.**  In every accepted log (every prefix of every execution): #notifier
    resumes of `t` + #`ctx.abort()` calls aimed at `t` + [an entry of `t` is linked] ≤ #`cv.enq` of `t`;
    every `ctx.abort()` aimed at `t` answers one `abort_all` pop of `t`, and at most one such pop is
    unanswered. -/
theorem C07d_exactly_once_log (n : Nat) (log : List Ev) (s : St) (t : Nat)
    (h : runLog step (init n) log = some s) :
    resumeCount t log + abortCount t log + b2n (inQ (s.pc t)) ≤ enqCount t log ∧
    abortCount t log ≤ abPopCount t log ∧ abPopCount t log ≤ abortCount t log + 1 := by
  have hr : ReachableA s := ⟨n, log, h⟩
  obtain ⟨h1, h2, h3, _⟩ := C07d_one_resume_per_enqueue s hr t
  have hc := counters_log t log _ s h
  simp only [init] at hc
  refine ⟨?_, ?_, ?_⟩ <;> omega

/-! ## Nobody is left behind -/

/-- **`abort_all` returns only with both lists empty and every pop answered.**  At the event `cv.ab.done`
    (the outer loop test `queue_.empty()` that ends `abort_all`, lock held) `queue_` and the local list are
    empty, hence no thread has a linked entry — in particular none is parked un-notified or about to
    park un-notified — and every thread `abort_all` popped has had its `ctx.abort()` call. -/
theorem C07d_abort_all_returns_empty (s s' : St) (hr : ReachableA s) (a z : Nat)
    (h : step s (.abDone a z) = some s') :
    s.queue = [] ∧ s.lq = [] ∧ (∀ t, inQ (s.pc t) = false) ∧
    (∀ t, s.pc t ≠ .susp false ∧ s.pc t ≠ .slp false ∧ ∀ tm, s.pc t ≠ .unl tm false ∧ s.pc t ≠ .enq tm) ∧
    (∀ t, s.aborts t = s.abPops t) ∧ s'.pc a = .aDone := by
  have hi := hr.inv
  simp only [CVAbort.step] at h
  split at h
  case isFalse => simp at h
  rename_i hg
  obtain ⟨_, hlq, hq, _⟩ := hg
  split at h
  case h_2 => simp at h
  rename_i hpa
  have hnq : ∀ t, inQ (s.pc t) = false := by
    intro t
    cases hq' : inQ (s.pc t) with
    | false => rfl
    | true => have := (hi.qIff t).2 hq'; simp [hq, hlq] at this
  have hab : s.ab = some a := hi.abHolder a (by simp [hpa, inAb])
  simp only [Option.some.injEq] at h
  subst h
  refine ⟨hq, hlq, hnq, ?_, ?_, by simp [upd]⟩
  · intro t
    have := hnq t
    refine ⟨?_, ?_, ?_⟩
    · intro hp; simp [hp, inQ] at this
    · intro hp; simp [hp, inQ] at this
    · intro tm; exact ⟨fun hp => by simp [hp, inQ] at this, fun hp => by simp [hp, inQ] at this⟩
  · intro t
    have := hi.abCnt a t hab
    simp [hpa, pendN] at this
    omega

/-- The events that unlink `w`'s entry: a pop by `abort_all`, a pop by a notifier, or `w`'s own
    `~reset_queue_entry` (after a deadline / a wake-up not caused by this entry / a stale abort). -/
def unlinks (w : Nat) : Ev → Bool
  | .abPop _ _ g => g == w
  | .popResume _ _ g _ => g == w
  | .popAll _ _ g _ => g == w
  | .cvWoke t still _ => t == w && still
  | .threw t => t == w
  | _ => false

theorem linked_step (s s' : St) (e : Ev) (w : Nat) (hw : inQ (s.pc w) = true)
    (hne : unlinks w e = false) (h : step s e = some s') : inQ (s'.pc w) = true := by
  cases e <;> simp only [CVAbort.step, popCore] at h <;>
    (repeat' split at h) <;>
      first
        | (simp at h; done)
        | (simp only [Option.some.injEq] at h; subst h
           simp only [unlinks, beq_eq_false_iff_ne, ne_eq, Bool.and_eq_false_iff] at hne
           simp only [upd_apply]
           repeat' split
           all_goals first
             | assumption
             | (simp_all [inQ]; done)
             | (exfalso; simp_all [inQ]; done)
             | (simp_all [inQ] <;> omega))

/-- **`abort_all` leaves nobody behind (trace form).**  Take any reachable state in which `w`'s entry is
    linked — in `queue_` or in the local list; in particular every waiter queued when `abort_all` starts,
    every waiter that enqueues while `abort_all` has released the lock around a `ctx.abort()`, and a
    woken waiter that waits again — and any continuation that ends with the return test of `abort_all`
    (`cv.ab.done`).  Then the continuation contains an event that unlinks `w`: the aborter's pop of `w`
    (followed by `ctx.abort()` on `w`, `C07d_abort_popped_is_aborted`), a notifier's pop+resume of `w`, or
    `w`'s own erase after it woke for another reason.  `abort_all` cannot return past a linked waiter. -/
theorem C07d_abort_all_reaches_each (s : St) (hr : ReachableA s) (w : Nat) (hw : inQ (s.pc w) = true)
    (log : List Ev) (a z : Nat) (s' : St) (h : runLog step s (log ++ [.abDone a z]) = some s') :
    ∃ e ∈ log, unlinks w e = true := by
  induction log generalizing s with
  | nil =>
    simp only [List.nil_append, runLog] at h
    cases hs : step s (.abDone a z) with
    | none => simp [hs] at h
    | some s1 =>
      have := (C07d_abort_all_returns_empty s s1 hr a z hs).2.2.1 w
      rw [hw] at this; simp at this
  | cons e es ih =>
    simp only [List.cons_append, runLog] at h
    cases hs : step s e with
    | none => simp [hs] at h
    | some s1 =>
      simp only [hs] at h
      cases hu : unlinks w e with
      | true => exact ⟨e, by simp, hu⟩
      | false =>
        obtain ⟨e', he', hu'⟩ := ih s1 (hr.step hs) (linked_step s s1 e w hw hu hs) h
        exact ⟨e', by simp [he'], hu'⟩

set_option maxHeartbeats 1000000 in
/-- **A popped entry's thread is aborted before `abort_all` does anything else.**  After the aborter
    popped `g` (`aPopped g`, `aUnl g`) the only events the model accepts from the aborter are the release
    of the lock and then `ctx.abort()` on `g` — whatever the other threads do in between. -/
theorem C07d_abort_popped_is_aborted (s s' : St) (a g : Nat) (e : Ev)
    (hp : s.pc a = .aPopped g ∨ s.pc a = .aUnl g) (h : step s e = some s') :
    s'.pc a = s.pc a ∨ (s.pc a = .aPopped g ∧ e = .slRel a ∧ s'.pc a = .aUnl g) ∨
    (s.pc a = .aUnl g ∧ ∃ d, e = .abort a g d) := by
  have hsp : setPopped (s.pc a) = none := by rcases hp with hp | hp <;> simp [hp, setPopped]
  have hid : s.pc a ≠ .idle := by rcases hp with hp | hp <;> simp [hp]
  cases e <;> simp only [CVAbort.step, popCore] at h <;>
    (repeat' split at h) <;>
      first
        | (simp at h; done)
        | (simp only [Option.some.injEq] at h; subst h
           simp only [upd_apply]
           repeat' split
           all_goals first
             | (left; rfl)
             | (subst_vars; simp_all; done)
             | (rcases hp with hp | hp <;> simp_all <;> done))

/-! ## Progress -/

/-- `Stuck s`: the model accepts no event inside an operation (only invocations / thread ends). -/
def Stuck (s : St) : Prop := ∀ e, (step s e).isSome = true → inner e = false

/-- **Progress.**  A reachable state in which the model accepts nothing but the start of a new operation (or
    the end of a thread) has every thread idle, finished, or parked in an untimed wait with its entry linked
    in `queue_`, un-popped, without a wake-up token — a waiter nobody has notified or aborted.  In
    particular: no `abort_all` is in flight (it never blocks for good: every one of its states has an enabled
    step or waits for a lock whose holder has one), the local list is empty, and no popped waiter remains
    parked (its `ctx.abort()` / `ctx.resume()` was issued and its wake-up token exists). -/
theorem C07d_abort_stuck_only_when_blocked (s : St) (hr : ReachableA s) (hs : Stuck s) :
    s.ab = none ∧ s.lq = [] ∧ s.lock = none ∧
    ∀ t, s.pc t = .idle ∨ s.pc t = .fin ∨ (s.pc t = .susp false ∧ s.tok t = 0 ∧ t ∈ s.queue) := by
  have hi := hr.inv
  have en : ∀ e, (step s e).isSome = true → inner e = true → False := by
    intro e h1 h2; have := hs e h1; rw [h2] at this; simp at this
  have hlock : s.lock = none := by
    cases hl : s.lock with
    | none => rfl
    | some r => obtain ⟨e, h1, h2⟩ := en_of_holds s hi r hl; exact (en e h1 h2).elim
  have wantLock : ∀ t, (step s (.slAcq t)).isSome = true → False := fun t h => en _ h rfl
  have hall : ∀ t, s.pc t = .idle ∨ s.pc t = .fin ∨ (s.pc t = .susp false ∧ s.tok t = 0 ∧ t ∈ s.queue) := by
    intro t
    cases hp : s.pc t
    case idle => exact Or.inl rfl
    case fin => exact Or.inr (Or.inl rfl)
    case wWant tm => exact (wantLock t (by simp [step, hlock, hp])).elim
    case wokeNL tm p => exact (wantLock t (by simp [step, hlock, hp])).elim
    case thrNL p => exact (wantLock t (by simp [step, hlock, hp])).elim
    case nWant a => exact (wantLock t (by simp [step, hlock, hp])).elim
    case aWant => exact (wantLock t (by simp [step, hlock, hp])).elim
    case aRelk => exact (wantLock t (by simp [step, hlock, hp])).elim
    case unl tm p =>
      cases tm with
      | false => exact (en (.suspend t) (by simp [step, hp]) rfl).elim
      | true => exact (en (.sleep t) (by simp [step, hp]) rfl).elim
    case slp p => exact (en (.timeout t) (by simp [step, hp]) rfl).elim
    case retn r => exact (en (.ret t r) (by simp [step, hp]) rfl).elim
    case nRet => exact (en (.ret t 0) (by simp [step, hp]) rfl).elim
    case aRet => exact (en (.ret t 0) (by simp [step, hp]) rfl).elim
    case aUnl g => exact (en (.abort t g (isSlp (s.pc g))) (by simp [step, hp]) rfl).elim
    case susp p =>
      by_cases htok : 0 < s.tok t
      · exact (en (.woke t (s.abt t)) (by simp [step, hp, htok]) rfl).elim
      · have h0 : s.tok t = 0 := by omega
        cases p with
        | false =>
          refine Or.inr (Or.inr ⟨rfl, h0, ?_⟩)
          have hq := (hi.qIff t).2 (by simp [hp, inQ])
          rcases hq with hq | hq
          · exact hq
          · -- the local list is non-empty only while an abort_all is in flight, which always has a step
            exfalso
            cases hab : s.ab with
            | none => have := hi.lqNone hab; rw [this] at hq; simp at hq
            | some a =>
              have hia := hi.abConv a hab
              cases hpa : s.pc a <;> simp [hpa, inAb] at hia
              case aWant => exact wantLock a (by simp [step, hlock, hpa])
              case aRelk => exact wantLock a (by simp [step, hlock, hpa])
              case aLoop => have := hi.lockHolder a (by simp [hpa, holds]); rw [hlock] at this; simp at this
              case aPopped g => have := hi.lockHolder a (by simp [hpa, holds]); rw [hlock] at this; simp at this
              case aDone => have := hi.lockHolder a (by simp [hpa, holds]); rw [hlock] at this; simp at this
              case aUnl g => exact en (.abort a g (isSlp (s.pc g))) (by simp [step, hpa]) rfl
              case aRet => exact en (.ret a 0) (by simp [step, hpa]) rfl
        | true =>
          exfalso
          have hw := hi.wake t (by simp [hp, needTok])
          rcases hw with hw | hw
          · omega
          · obtain ⟨a, _, hpa⟩ := (C07d_one_resume_per_enqueue s hr t).2.2.2 hw
            rcases hpa with hpa | hpa
            · have := hi.lockHolder a (by simp [hpa, holds]); rw [hlock] at this; simp at this
            · exact en (.abort a t (isSlp (s.pc t))) (by simp [step, hpa]) rfl
    all_goals (have := hi.lockHolder t (by simp [hp, holds]); rw [hlock] at this; simp at this)
  have hab : s.ab = none := by
    cases hab : s.ab with
    | none => rfl
    | some a =>
      have hia := hi.abConv a hab
      rcases hall a with h | h | h
      · simp [h, inAb] at hia
      · simp [h, inAb] at hia
      · simp [h.1, inAb] at hia
  exact ⟨hab, hi.lqNone hab, hlock, hall⟩


/-- The hypothesis is satisfiable: the initial state is stuck, and so is the state in which one waiter is
    parked and nobody notifies or aborts it. -/
example : Stuck (init 1) := by
  intro e h; cases e <;> simp [step, init] at h <;> rfl

/-! ## Finding: `ctx.abort()` is issued after the lock was released

`abort_all` releases the internal lock before `ctx.abort()` ("unlock while notifying thread as this can
suspend"), whereas `notify_one` / `notify_all` call `ctx.resume()` with the lock held.  A popped waiter needs
that lock to leave `wait`; with the lock free it can leave — after its deadline, after a left-over wake-up —
before the abort arrives.  The statement one would like,

  `step s (.abort a g d) = some s' → g is still inside the wait whose entry a popped`,

is FALSE of the code as it is; the witness below is accepted by the model and reproduced on the real code
(`findings/C07d-abort-after-wait-returned.json`): a timed waiter is popped by `abort_all`, its deadline
expires while the aborter is between the unlock and `ctx.abort()`, it finds its entry popped, returns
`signaled` (no exception), and finishes; then the abort is delivered to the agent of a thread that is not
waiting on this condition variable any more (in C++: a dangling `agent_ref` if the thread has exited, a stale
abort that makes the thread's next, unrelated suspension throw otherwise). -/
def lateAbortLog : List Ev :=
  [.inv 0 (.wait true), .slAcq 0, .cvEnq 0 1 true, .slRel 0, .sleep 0,
   .inv 1 .abort, .slAcq 1, .abSwap 1 1, .abPop 1 0 0, .slRel 1,
   .timeout 0, .slAcq 0, .cvWoke 0 false true, .slRel 0, .ret 0 0, .done 0]

theorem C07d_abort_can_land_after_wait_returned :
    ((runLog step (init 2) lateAbortLog).map
        (fun s => decide (s.pc 0 = .fin ∧ s.pc 1 = .aUnl 0))) = some true ∧
    ((runLog step (init 2) (lateAbortLog ++ [.abort 1 0 false])).map
        (fun s => s.abt 0 && decide (s.tok 0 = 1 ∧ s.pc 0 = .fin))) = some true := by decide

/-! ## Non-vacuity (part A) -/

/-- Waiter 0 is parked; thread 2 runs `abort_all`: swaps, pops 0, releases the lock; **while the lock is
    released waiter 1 enqueues and parks**; `ctx.abort()` on 0; 0's `suspend` throws; the aborter re-takes the
    lock, finds `queue_` non-empty again, swaps again, pops and aborts 1, and only then returns. -/
def abortLog : List Ev :=
  [.inv 0 (.wait false), .slAcq 0, .cvEnq 0 1 false, .slRel 0, .suspend 0,
   .inv 2 .abort, .slAcq 2, .abSwap 2 1, .abPop 2 0 0, .slRel 2,
   .inv 1 (.wait false), .slAcq 1, .cvEnq 1 1 false, .slRel 1, .suspend 1,
   .abort 2 0 false,
   .woke 0 true, .slAcq 0, .threw 0, .slRel 0, .ret 0 2,
   .slAcq 2, .abSwap 2 1, .abPop 2 0 1, .slRel 2, .abort 2 1 false, .slAcq 2, .abDone 2 0, .slRel 2, .ret 2 0,
   .woke 1 true, .slAcq 1, .threw 1, .slRel 1, .ret 1 2, .done 0, .done 1, .done 2]

example : (runLog step (init 3) abortLog).isSome = true := by decide
example : unlinks 1 (.abPop 2 0 1) = true ∧ abortCount 1 abortLog = 1 ∧ abortCount 0 abortLog = 1 ∧
    enqCount 0 abortLog = 1 ∧ enqCount 1 abortLog = 1 := by decide

/-- A timed waiter whose entry sits in the aborter's LOCAL list reaches its deadline while the aborter has
    released the lock around `ctx.abort()` on thread 0, and erases its entry from the local list
    (`cv.woke` with the entry still linked); the aborter then finds both lists empty and returns.  Thread 0
    re-enqueues after its abort (a woken waiter waits again): the outer loop would swap once more, here a
    `notify_one` gets there first. -/
example : (runLog step (init 4)
    [.inv 0 (.wait false), .slAcq 0, .cvEnq 0 1 false, .slRel 0, .suspend 0,
     .inv 1 (.wait true), .slAcq 1, .cvEnq 1 2 true, .slRel 1, .sleep 1,
     .inv 2 .abort, .slAcq 2, .abSwap 2 2, .abPop 2 1 0, .slRel 2,
     .timeout 1, .slAcq 1, .cvWoke 1 true true, .slRel 1, .ret 1 1,
     .abort 2 0 false, .woke 0 true, .slAcq 0, .threw 0, .slRel 0, .ret 0 2,
     .inv 0 (.wait false), .slAcq 0, .cvEnq 0 1 false, .slRel 0, .suspend 0,
     .inv 3 (.notify false), .slAcq 3, .popResume 3 0 0 false, .slRel 3, .ret 3 0,
     .slAcq 2, .abDone 2 0, .slRel 2, .ret 2 0,
     .woke 0 false, .slAcq 0, .cvWoke 0 false false, .slRel 0, .ret 0 0]).isSome = true := by decide

/-- `abort_all` cannot return while an entry is linked: the return test is rejected. -/
example : (runLog step (init 2)
    [.inv 0 (.wait false), .slAcq 0, .cvEnq 0 1 false, .slRel 0, .suspend 0,
     .inv 1 .abort, .slAcq 1, .abDone 1 0]).isSome = false := by decide

/-- A second `ctx.abort()` for the same pop is rejected. -/
example : (runLog step (init 2)
    [.inv 0 (.wait false), .slAcq 0, .cvEnq 0 1 false, .slRel 0, .suspend 0,
     .inv 1 .abort, .slAcq 1, .abSwap 1 1, .abPop 1 0 0, .slRel 1, .abort 1 0 false,
     .abort 1 0 false]).isSome = false := by decide

end A

/-! # (B) The timed stop-token wait: exact characterisation of a `false` result

`condition_variable_any::wait_until/wait_for(lock, stop_token, t, pred)` — operation `swait true` of
`Model/CV.lean` (unchanged):

```
if (stoken.stop_requested()) return pred();                      -- S0
stop_callback cb(...);
while (!pred()) {
    bool should_stop;
    {   unique_lock l(data->mtx_);
        if (stoken.stop_requested()) return false;                -- S1 (the predicate was just found false)
        unlock_guard ul(lock);
        reason = cond_.wait_until(l, abs_time);                   -- cv.woke: timeout iff the entry is still linked
        should_stop = (reason == timeout) || stoken.stop_requested();   -- S2, under the internal lock
    }
    if (should_stop) return pred();
}
return true;
```

`timedOut t log` is the observation "`cv.woke` of `t` with the entry still linked (= `reason == timeout`: the
deadline expired and no notifier had popped the entry) has occurred since `t`'s last invocation".
-/
section B
open PikaVerif.CV PikaVerif.C07

/-- `reason == timeout` was observed by `t`'s current wait operation somewhere in `log`. -/
def timedOut (t : Nat) (log : List CV.Ev) : Bool := obsLog (fun _ => false) log t

theorem timedOut_nil (t : Nat) : timedOut t [] = false := rfl

/-- **The result of the timed stop-token wait.**  When `wait_until/wait_for(lock, stop_token, t, pred)`
    returns `r` (any accepted log, any thread): `r` is the value of the predicate at the return (it was
    evaluated by the caller under the user lock, which it has held ever since and still holds), and
    `r = false` **only if** the predicate is false **and** (stop has been requested **or** the call
    observed a timeout: its deadline expired with its entry still linked).  So a timed stop-token wait that
    was notified before its deadline and whose stop source was never asked to stop cannot return false;
    it either returns true or waits again. -/
theorem C07d_timed_stop_wait_result (n : Nat) (f : Bool) (log : List CV.Ev) (s s' : CV.St) (t r : Nat)
    (h : runLog CV.step (CV.init n f) log = some s) (hc : s.curOp t = .swait true)
    (hs : CV.step s (.ret t r) = some s') :
    r = CV.b2n s.flag ∧ s.ulock = some t ∧ s'.ulock = some t ∧
    (r = 0 → s.flag = false ∧ (s.stopReq = true ∨ timedOut t log = true)) ∧
    (r ≠ 0 → r = 1 ∧ s.flag = true) := by
  have hr : Reachable s := ⟨n, f, log, h⟩
  have hw : isWait (s.curOp t) = true := by simp [hc, isWait]
  have hpc := ret_wait_pc hr hs hw
  have hv := C07_pred_value s s' hr t r (by simp [hc, isPred]) hs
  have hl := C07_returns_locked s s' hr t r hw hs
  have hg := gb_of_runLog log _ s _ (gb_init n f) h t hc
  rw [hpc] at hg
  refine ⟨hv, hl.1, hl.2, ?_, ?_⟩
  · intro hr0
    subst hr0
    refine ⟨?_, ?_⟩
    · cases hf : s.flag with
      | false => rfl
      | true => rw [hf] at hv; simp [CV.b2n] at hv
    · simp [okB] at hg
      exact hg
  · intro hne
    cases hf : s.flag with
    | false => rw [hf] at hv; simp [CV.b2n] at hv; exact absurd hv hne
    | true => rw [hf] at hv; simp [CV.b2n] at hv; exact ⟨hv, rfl⟩

/-- **`should_stop` and the evaluation that decides.**  (a) The value computed at S2 is
    `(reason == timeout) || stop_requested()`, read under the internal lock; (b) after re-taking the user
    lock the next evaluation of the predicate is the final one iff that value was true; (c) a final
    evaluation returns its value (`return pred()`) — true or false — without waiting again, a non-final one
    returns only `true` and otherwise goes round the loop (`want`: back to the internal lock and S1). -/
theorem C07d_timed_stop_should_stop (s s' : CV.St) (t : Nat) (hc : s.curOp t = .swait true) :
    (∀ ss, CV.step s (.stop2 t ss) = some s' →
        ∃ still, s.pc t = .post still ∧ s.lock = some t ∧ ss = (still || s.stopReq) ∧ s'.sstop t = ss ∧
                 s'.pc t = .postS still) ∧
    (∀ still, s.pc t = .relockU still → CV.step s (.ulAcq t) = some s' →
        s'.pc t = .predChk (s.sstop t)) ∧
    (∀ final v, s.pc t = .predChk final → CV.step s (.pred t v) = some s' →
        v = s.flag ∧
        (final = true → s'.pc t = exitPc s t (CV.b2n v)) ∧
        (final = false → v = true → s'.pc t = exitPc s t 1) ∧
        (final = false → v = false → s'.pc t = .want)) := by
  refine ⟨?_, ?_, ?_⟩
  · intro ss h
    simp only [CV.step] at h
    split at h
    case isFalse => simp at h
    rename_i hg
    split at h
    case h_2 => simp at h
    rename_i still hp
    split at h
    case isFalse => simp at h
    rename_i hss
    simp only [Option.some.injEq] at h
    subst h
    exact ⟨still, hp, hg.2.1, hss, by simp [upd], by simp [upd]⟩
  · intro still hp h
    simp only [CV.step, hp] at h
    split at h
    case isFalse => simp at h
    simp only [Option.some.injEq] at h
    subst h
    simp [upd, hc, isPred, isStop, isTimed]
  · intro final v hp h
    simp only [CV.step, hp] at h
    split at h
    case isFalse => simp at h
    rename_i hg
    simp only [Option.some.injEq] at h
    subst h
    refine ⟨hg.2, ?_, ?_, ?_⟩
    · intro hf; subst hf; simp [upd]
    · intro hf hv; subst hf; subst hv; simp [upd]
    · intro hf hv; subst hf; subst hv; simp [upd]

/-- **No false result without a cause, state form.**  In every reachable state, a thread inside the timed
    stop-token wait that is about to return `0` — or already inside `~stop_callback` with the result `0` —
    has seen stop requested or a timeout; a thread at the S1 exit (`sStopped`) has seen stop requested. -/
theorem C07d_timed_stop_false_has_cause (n : Nat) (f : Bool) (log : List CV.Ev) (s : CV.St) (t : Nat)
    (h : runLog CV.step (CV.init n f) log = some s) (hc : s.curOp t = .swait true) :
    (s.pc t = .sStopped → s.stopReq = true) ∧
    ((s.pc t = .retn 0 ∨ s.pc t = .sDtor 0 ∨ s.pc t = .sRm 0 ∨ s.pc t = .sRmChk 0 ∨ s.pc t = .sRmWait 0) →
      s.stopReq = true ∨ timedOut t log = true) ∧
    (s.pc t = .predChk true → s.stopReq = true ∨ timedOut t log = true) := by
  have hg := gb_of_runLog log _ s _ (gb_init n f) h t hc
  refine ⟨?_, ?_, ?_⟩
  · intro hp; rw [hp] at hg; simpa [okB] using hg
  · intro hp
    rcases hp with hp | hp | hp | hp | hp <;> (rw [hp] at hg; simp [okB] at hg; exact hg)
  · intro hp; rw [hp] at hg; simp [okB] at hg; exact hg

/-! ## Non-vacuity (part B) -/

/-- Timeout: the waiter's deadline expires un-notified, `should_stop` is true by the timeout alone (stop
    is never requested), the predicate is false: the wait returns false. -/
def timeoutLog : List CV.Ev :=
  [.inv 0 .lock, .ulAcq 0, .inv 0 (.swait true), .stop0 0 false, .stAcq 0 2, .stPush 0 false, .pred 0 false,
   .slAcq 0, .stop1 0 false, .ulRel 0, .cvEnq 0 1 true, .slRel 0, .sleep 0, .timeout 0, .slAcq 0,
   .cvWoke 0 true true, .stop2 0 true, .slRel 0, .ulAcq 0, .pred 0 false,
   .stAcq 0 0, .stUnlink 0 true]

example : (runLog CV.step (CV.init 1 false) (timeoutLog ++ [.ret 0 0])).isSome = true := by decide
example : timedOut 0 timeoutLog = true := by decide

/-- Notified before the deadline, no stop, predicate still false: `should_stop` is false, the wait goes
    round the loop (it does NOT return false), and a `ret 0` at that point is rejected. -/
def notifiedLog : List CV.Ev :=
  [.inv 0 .lock, .ulAcq 0, .inv 0 (.swait true), .stop0 0 false, .stAcq 0 2, .stPush 0 false, .pred 0 false,
   .slAcq 0, .stop1 0 false, .ulRel 0, .cvEnq 0 1 true, .slRel 0, .sleep 0,
   .inv 1 (.notify false), .slAcq 1, .popResume 1 0 0 true, .slRel 1, .ret 1 0,
   .timeout 0, .slAcq 0, .cvWoke 0 false true, .stop2 0 false, .slRel 0, .ulAcq 0, .pred 0 false, .slAcq 0]

example : (runLog CV.step (CV.init 2 false) notifiedLog).isSome = true := by decide
example : timedOut 0 notifiedLog = false := by decide
example : (runLog CV.step (CV.init 2 false) (notifiedLog ++ [.ret 0 0])).isSome = false := by decide

end B

end PikaVerif.C07d
