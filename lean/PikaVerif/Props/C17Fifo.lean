import PikaVerif.Lemmas.Fifo
import PikaVerif.Lemmas.FifoMove
/-!
# C17 (FIFO back-end) — `lockfree_fifo_backend` / `thread_queue::work_items_` return every element exactly once

Theorems about the model `PikaVerif.Fifo` (`Model/Fifo.lean`): the counter protocol of
`thread_queue` (`schedule_thread`, `get_next_thread`, and both halves of `move_work_items_from`)
around an inner queue that is constrained **only** by the explicit specification `QSpec`
(`qstep`) of the third-party `moodycamel::ConcurrentQueue`.  The moodycamel algorithm itself is
not modelled: `QSpec` is an *assumption*, stated in Lean and tested against the real queue by
`checks/C17F.py` (`harness/e0/fifo.cpp`, `Driver/FifoDrv.lean`).

Every theorem quantifies over all thread counts `n` and all accepted logs (all interleavings of
the wrapper's atomic steps and of overlapping inner operations).
-/
namespace PikaVerif.C17Fifo
open PikaVerif PikaVerif.Fifo

def Reachable (s : St) : Prop := ∃ n log, runLog step (init n) log = some s

private theorem Reachable.inv {s : St} (h : Reachable s) : Inv s := by
  obtain ⟨n, log, hl⟩ := h
  exact inv_of_accepted hl

/-- **(i) Conservation.**  As multisets: the values handed to `schedule_thread` are the values
    returned by `get_next_thread` (or taken by the move loop) + the values held by the inner queue +
    the values in flight inside a wrapper operation (counter incremented but push not begun / pop
    done but counter not yet decremented). -/
theorem C17_fifo_conservation (n : Nat) (log : List Ev) (s : St)
    (h : runLog step (init n) log = some s) :
    s.handed.Perm (s.returned ++ s.values ++ s.inflight) :=
  (inv_of_accepted h).perm

/-- **(i) at most once / nothing invented.**  No value is returned more often than it was handed
    in; every returned value was handed in; if the handed values are pairwise distinct so are the
    returned ones. -/
theorem C17_fifo_at_most_once (n : Nat) (log : List Ev) (s : St)
    (h : runLog step (init n) log = some s) :
    (∀ x, s.returned.count x ≤ s.handed.count x) ∧ (∀ x, x ∈ s.returned → x ∈ s.handed) ∧
    (s.handed.Nodup → s.returned.Nodup) := by
  have hp := C17_fifo_conservation n log s h
  have hc : ∀ x, s.returned.count x ≤ s.handed.count x := by
    intro x
    rw [hp.count_eq]
    simp only [List.count_append]
    omega
  refine ⟨hc, ?_, ?_⟩
  · intro x hx
    have := hc x
    have h1 : 0 < s.returned.count x := List.count_pos_iff.mpr hx
    exact List.count_pos_iff.mp (by omega)
  · intro hnd
    rw [List.nodup_iff_count] at hnd ⊢
    intro x
    exact Nat.le_trans (hc x) (hnd x)

/-- **(ii) The counter.**  `work_items_count_` is never negative and never smaller than the number
    of values the inner queue holds. -/
theorem C17_fifo_count_bounds (n : Nat) (log : List Ev) (s : St)
    (h : runLog step (init n) log = some s) :
    0 ≤ s.count ∧ (s.q.stored.length : Int) ≤ s.count := by
  have hi := inv_of_accepted h
  rw [hi.cnt]
  omega

/-- **(ii) The `0 != work_items_count` fast path never hides a stored element**: the value a
    `get_next_thread` loads is at least the number of stored values, so it is non-zero whenever
    the queue holds something. -/
theorem C17_fifo_fastpath_sound (s s' : St) (hr : Reachable s) (t : Nat) (c lim : Int)
    (h : step s (.load t c lim) = some s') :
    (s.q.stored.length : Int) ≤ c ∧ (s.q.stored ≠ [] → c ≠ 0) := by
  have hi := hr.inv
  simp only [step] at h
  split at h
  case isFalse => simp at h
  rename_i hg
  have hc : c = s.count := hg.2.2
  have h4 := hi.cnt
  refine ⟨by omega, ?_⟩
  intro hne
  have : 0 < s.q.stored.length := List.length_pos_iff.mpr hne
  omega

/-- **(iii) Quiescent states.**  When every thread is outside the queue's operations the counter
    equals the number of stored values, nothing is in flight, and handed = returned + stored;
    if moreover the queue is empty every value handed in has been returned exactly once. -/
theorem C17_fifo_quiescent_exact (n : Nat) (log : List Ev) (s : St)
    (h : runLog step (init n) log = some s) (hq : Quiescent s) :
    s.count = (s.q.stored.length : Int) ∧ s.handed.Perm (s.returned ++ s.values) ∧
    (s.q.stored = [] → s.handed.Perm s.returned) := by
  have hi := inv_of_accepted h
  obtain ⟨_, _, hc, hf⟩ := hi.quiescent hq
  have hp := hi.perm
  rw [hf, List.append_nil] at hp
  refine ⟨hc, hp, ?_⟩
  intro he
  simpa [St.values, he] using hp

/-- **(iii) A `get_next_thread` that runs alone on a non-empty queue returns `true`.**
    From a reachable quiescent state whose queue holds something, let thread `t` load the counter
    (`lim` = the steal threshold, not above the loaded value).  Then, as long as no other thread
    takes a step: `return false` is impossible after the load; the pop begins; the inner queue may
    not answer `false` (`QSpec` (b): non-empty and quiescent) and `return false` stays impossible;
    some answer is possible; every possible answer is a stored value `v`, after which the only
    continuation is the decrement + `return true` with `v`, leaving a quiescent state. -/
theorem C17_fifo_solo_get_succeeds (s : St) (hr : Reachable s) (hq : Quiescent s)
    (hne : s.q.stored ≠ []) (t : Nat) (c lim : Int) (s1 : St) (hlim : lim ≤ c)
    (h1 : step s (.load t c lim) = some s1) :
    step s1 (.retF t) = none ∧
    ∃ s2, step s1 (.popB t) = some s2 ∧ step s2 (.retF t) = none ∧ step s2 (.popE t none) = none ∧
      (∃ r s3, step s2 (.popE t r) = some s3) ∧
      ∀ r s3, step s2 (.popE t r) = some s3 →
        ∃ p v, r = some (p, v) ∧ (p, v) ∈ s.q.stored ∧ step s3 (.retF t) = none ∧
          ∃ s4, step s3 (.dec t) = some s4 ∧ s4.returned = s.returned ++ [v] ∧
            s4.count = s.count - 1 ∧ Quiescent s4 := by
  have hi := hr.inv
  obtain ⟨ha, hp, hc, _⟩ := hi.quiescent hq
  have hpos : 0 < s.q.stored.length := List.length_pos_iff.mpr hne
  simp only [step] at h1
  split at h1
  case isFalse => simp at h1
  rename_i hg
  obtain ⟨htn, _, hcc⟩ := hg
  simp only [Option.some.injEq] at h1
  subst h1
  have hc0 : c ≠ 0 := by omega
  have hlim' : ¬ lim > c := by omega
  refine ⟨by simp [step, htn, hc0, hlim'], ?_⟩
  refine ⟨_, by simp [step, qstep, htn, canPop, hc0, hlim', hp t]; rfl, ?_, ?_, ?_, ?_⟩
  · simp [step, htn]
  · simp [step, qstep, htn, ha, hne]
  · obtain ⟨⟨p, v⟩, rest, hst⟩ : ∃ e rest, s.q.stored = e :: rest := by
      cases hs : s.q.stored with
      | nil => exact absurd hs hne
      | cons e rest => exact ⟨e, rest, rfl⟩
    exact ⟨some (p, v), _, by simp [step, qstep, htn, hst]; rfl⟩
  · intro r s3 h3
    cases r with
    | none => simp [step, qstep, htn, ha, hne] at h3
    | some pv =>
      obtain ⟨p, v⟩ := pv
      simp only [step, qstep, htn, upd_same, true_and, if_true] at h3
      split at h3
      case isFalse => simp at h3
      rename_i hf
      simp only [Option.map_some, Option.some.injEq] at h3
      subst h3
      refine ⟨p, v, rfl, hf.1, by simp [step, htn], ?_⟩
      refine ⟨_, by simp [step, htn]; rfl, rfl, rfl, ?_⟩
      intro u
      by_cases hu : u = t
      · subst hu; simp
      · simp [upd_other _ _ _ _ hu, hq u]

/-- **(iv) `lockfree_fifo_backend` is the identity wrapper**: a log of `push` / `pop` / `empty`
    calls on the back-end is accepted exactly when the log of the inner `enqueue` / `try_dequeue` /
    `size_approx() == 0` operations it *is* is accepted by `QSpec`, with the same final state (the
    `other_end` and `steal` arguments are ignored). -/
theorem C17_fifo_backend_identity (q : QSt) (log : List Backend.Ev) :
    runLog Backend.step q log = runLog qstep q (log.map Backend.toQ) := by
  induction log generalizing q with
  | nil => rfl
  | cons e es ih =>
    simp only [runLog, List.map_cons, Backend.step]
    cases qstep q (Backend.toQ e) with
    | none => rfl
    | some q' => exact ih q'

/-- **(iv) Consequences of `QSpec` for the back-end used alone.**  A `pop` returns only a stored
    value (pushed, not yet popped), which leaves the queue; if no other pop is in flight it is the
    oldest stored value of its producer; a `pop` that returns `false` was allowed to: the queue was
    empty when it began or another operation overlapped. -/
theorem C17_fifo_backend_pop_spec (q q' : QSt) (t : Nat) (r : Option (Nat × Nat))
    (h : Backend.step q (.popEnd t r) = some q') :
    match r with
    | some (p, v) => (p, v) ∈ q.stored ∧ q'.stored = q.stored.erase (p, v) ∧
        (q.deqs = 1 → q.stored.find? (fun e => e.1 == p) = some (p, v))
    | none => q.pend t = .deq true ∧ q'.stored = q.stored := by
  simp only [Backend.step, Backend.toQ] at h
  cases r with
  | none =>
    simp only [qstep] at h
    split at h
    case isFalse => simp at h
    rename_i hg
    simp only [Option.some.injEq] at h
    subst h
    exact ⟨hg, rfl⟩
  | some pv =>
    obtain ⟨p, v⟩ := pv
    simp only [qstep] at h
    split at h
    case h_2 => simp at h
    split at h
    case isFalse => simp at h
    rename_i hf
    simp only [Option.some.injEq] at h
    subst h
    refine ⟨hf.1, rfl, ?_⟩
    intro h1
    cases hf.2 with
    | inl h => exact h
    | inr h => exact absurd h1 h

/-- **(v) `move_work_items_from` (two queues).**  For every accepted log of the two-queue model
    (`Fifo.Move`: any threads running `schedule_thread` / `get_next_thread` on either queue while
    any threads run the move loop from the source to the destination): both queues keep the
    single-queue invariant - so (i)-(iii) hold for each of them, the values the loop takes count as
    returned by the source and as handed to the destination -, and globally, as multisets, the
    values handed in from outside = the values returned to callers + the values stored in either
    queue + the values in flight inside a wrapper operation of either queue + the values sitting in a
    `trd` local between the source's decrement and the destination's increment.  Nothing is lost,
    duplicated or invented by the move. -/
theorem C17_fifo_move_conservation (n : Nat) (log : List Move.Ev2) (s : Move.St2)
    (h : runLog Move.step2 (Move.init2 n) log = some s) :
    s.extIn.Perm (s.extOut ++ (s.src.values ++ s.dst.values) ++ (s.src.inflight ++ s.dst.inflight) ++ s.held) ∧
    Inv s.src ∧ Inv s.dst ∧
    0 ≤ s.src.count ∧ (s.src.q.stored.length : Int) ≤ s.src.count ∧
    0 ≤ s.dst.count ∧ (s.dst.q.stored.length : Int) ≤ s.dst.count := by
  have hi := Move.inv2_of_accepted h
  have h1 := hi.isrc.cnt
  have h2 := hi.idst.cnt
  refine ⟨hi.perm, hi.isrc, hi.idst, ?_, ?_, ?_, ?_⟩ <;> omega

/-- (v) corollary: no value is returned to callers more often than it was handed in. -/
theorem C17_fifo_move_at_most_once (n : Nat) (log : List Move.Ev2) (s : Move.St2)
    (h : runLog Move.step2 (Move.init2 n) log = some s) (x : Nat) :
    s.extOut.count x ≤ s.extIn.count x := by
  have hp := (C17_fifo_move_conservation n log s h).1
  rw [hp.count_eq]
  simp only [List.count_append]
  omega

/-! ## Non-vacuity: accepted multi-thread logs -/

/-- two producers and a consumer, operations overlapping; value 7 is handed in by thread 0,
    taken by thread 2 while thread 1's push is still in flight -/
def demoLog : List Ev :=
  [.inc 0 7, .inc 1 8, .pushB 0, .load 2 2 0, .popB 2, .pushB 1, .pushE 0, .popE 2 (some (0, 7)),
   .pushE 1, .dec 2, .load 0 1 0, .popB 0, .popE 0 (some (1, 8)), .dec 0]

example : (runLog step (init 3) demoLog).isSome = true := by decide
example : ((runLog step (init 3) demoLog).map (·.returned)) = some [7, 8] := by decide
example : ((runLog step (init 3) demoLog).map (·.count)) = some 0 := by decide

/-- a pop overlapped by a push may fail although a value is (about to be) stored … -/
example : (runLog step (init 2) [.inc 0 5, .load 1 1 0, .popB 1, .pushB 0, .popE 1 none, .retF 1]).isSome = true := by
  decide
/-- … but a pop that runs alone on a non-empty queue may not -/
example : (runLog step (init 2) [.inc 0 5, .pushB 0, .pushE 0, .load 1 1 0, .popB 1, .popE 1 none]).isSome = false := by
  decide
/-- a value cannot be popped twice, and a value that was never pushed cannot be popped -/
example : (runLog step (init 2) [.inc 0 5, .pushB 0, .pushE 0, .popB 1, .popE 1 (some (0, 5)), .dec 1,
    .popB 1, .popE 1 (some (0, 5))]).isSome = false := by decide
example : (runLog step (init 2) [.inc 0 5, .pushB 0, .pushE 0, .popB 1, .popE 1 (some (0, 6))]).isSome = false := by
  decide
/-- per-producer FIFO: producer 0's second value cannot overtake its first -/
example : (runLog step (init 2) [.inc 0 5, .pushB 0, .pushE 0, .inc 0 6, .pushB 0, .pushE 0, .popB 1,
    .popE 1 (some (0, 6))]).isSome = false := by decide
/-- two overlapping pops may return one producer's values out of order (the claim happens inside) … -/
example : (runLog step (init 3) [.inc 0 5, .pushB 0, .pushE 0, .inc 0 6, .pushB 0, .pushE 0, .popB 1, .popB 2,
    .popE 2 (some (0, 6)), .popE 1 (some (0, 5))]).isSome = true := by decide

/-- the move loop: thread 0 schedules 7 and 8 on the source, thread 1 moves both to the destination
    while thread 2 takes one from the destination -/
def moveLog : List Move.Ev2 :=
  [.src (.inc 0 7), .src (.pushB 0), .src (.pushE 0), .src (.inc 0 8), .src (.pushB 0), .src (.pushE 0),
   .src (.popB 1), .src (.popE 1 (some (0, 7))), .mdec 1, .minc 1, .dst (.pushB 1), .dst (.pushE 1),
   .src (.popB 1), .dst (.load 2 1 0), .src (.popE 1 (some (0, 8))), .dst (.popB 2), .mdec 1,
   .dst (.popE 2 (some (1, 7))), .minc 1, .dst (.dec 2), .dst (.pushB 1), .dst (.pushE 1),
   .src (.popB 1), .src (.popE 1 none), .src (.retF 1)]

example : (runLog Move.step2 (Move.init2 3) moveLog).isSome = true := by decide
example : ((runLog Move.step2 (Move.init2 3) moveLog).map fun s => (s.extIn, s.extOut, s.dst.values, s.src.count, s.dst.count)) =
    some ([7, 8], [7], [8], 0, 1) := by decide
/-- a value in `trd` cannot be handed over twice -/
example : (runLog Move.step2 (Move.init2 2) [.src (.inc 0 7), .src (.pushB 0), .src (.pushE 0), .src (.popB 1),
    .src (.popE 1 (some (0, 7))), .mdec 1, .minc 1, .minc 1]).isSome = false := by decide

/-- the fast path: with the counter at 0 `get_next_thread` returns false without touching the queue -/
example : (runLog step (init 1) [.load 0 0 0, .retF 0]).isSome = true := by decide
example : (runLog step (init 1) [.load 0 0 0, .popB 0]).isSome = false := by decide

end PikaVerif.C17Fifo
