import PikaVerif.Lemmas.Latch
/-!
# C09 — latch, event and call_once release exactly when due (barrier: `Props/C09Barrier.lean`)

Property theorems about the models `PikaVerif.Latch` (`pika::latch`) and `PikaVerif.Once`
(`pika::experimental::event`, `pika::call_once`).  Every theorem quantifies over *all*
accepted event logs of the model, i.e. over every number of threads, every program (mix of
operations, update sizes) and every interleaving.
-/
namespace PikaVerif.C09
open PikaVerif

/-! ## Latch -/

/-- `s` is the state after some accepted log of the latch model, for some thread count and
    some initial count. -/
def LReachable (s : Latch.St) : Prop := ∃ n c log, runLog Latch.step (Latch.init n c) log = some s

/-- Sum of all updates applied to the counter (`latch.dec` events) in a log. -/
def decs : List Latch.Ev → Nat
  | [] => 0
  | .dec _ _ u :: l => decs l + u
  | _ :: l => decs l

theorem latch_counters_step (s s' : Latch.St) (e : Latch.Ev) (h : Latch.step s e = some s') :
    s'.decSum = s.decSum + decs [e] ∧ s'.init = s.init ∧ s'.n = s.n ∧ s'.counter ≤ s.counter ∧
    (s.notified = true → s'.notified = true) := by
  cases e <;> simp only [Latch.step] at h <;> (repeat' split at h) <;>
    first | (simp at h; done) | (simp only [Option.some.injEq] at h; subst h; simp [decs] <;> omega)

theorem latch_counters_log (log : List Latch.Ev) : ∀ (s s' : Latch.St), runLog Latch.step s log = some s' →
    s'.decSum = s.decSum + decs log ∧ s'.init = s.init ∧ s'.n = s.n := by
  induction log with
  | nil => intro s s' h; simp at h; subst h; simp [decs]
  | cons e es ih =>
    intro s s' h
    simp only [runLog] at h
    cases hs : Latch.step s e with
    | none => simp [hs] at h
    | some s1 =>
      simp only [hs] at h
      have h1 := latch_counters_step s s1 e hs
      have h2 := ih s1 s' h
      have hd : decs (e :: es) = decs [e] + decs es := by cases e <;> simp [decs] <;> omega
      refine ⟨?_, ?_, ?_⟩ <;> omega

/-- **The counter is exact.**  After every execution the stored counter equals the initial
    count minus the sum of all updates of `count_down(n)` / `arrive_and_wait(n)` calls that
    have performed their decrement (no update is lost or applied twice, whatever the
    interleaving of the lock-free decrement in `count_down` with the locked one in
    `arrive_and_wait`). -/
theorem C09_latch_counter_exact (n : Nat) (c : Int) (log : List Latch.Ev) (s : Latch.St)
    (h : runLog Latch.step (Latch.init n c) log = some s) : s.counter = c - decs log := by
  obtain ⟨hi, _⟩ := Latch.inv_of_accepted h
  have hc := latch_counters_log log _ s h
  have := hi.account
  simp only [Latch.init] at hc
  rw [this, hc.2.1, hc.1]; simp

/-- **No early return.**  Whenever a thread returns from `wait` or `arrive_and_wait`, the
    latch has been released: `notified_` is set and the counter is at (or, if callers broke the
    precondition `counter_ >= n`, below) zero. -/
theorem C09_latch_no_early_return (s s' : Latch.St) (hr : LReachable s) (t : Nat) (r : Bool)
    (hop : Latch.isWaitOp (s.curOp t) = true) (h : Latch.step s (.ret t r) = some s') :
    s.notified = true ∧ s.counter ≤ 0 := by
  obtain ⟨n, c, log, hlog⟩ := hr
  obtain ⟨hi, _⟩ := Latch.inv_of_accepted hlog
  have hn : s.notified = true := by
    simp only [Latch.step] at h
    split at h
    · split at h
      · rename_i b hp
        exact hi.ntf t (by rw [hp]; simpa [Latch.needsNotified] using hop)
      · rename_i hp
        have := hi.opOk t
        rw [hp] at this
        simp [Latch.pcOpOk] at this
        rw [← this] at hop; simp [Latch.isWaitOp] at hop
      · simp at h
    · simp at h
  exact ⟨hn, hi.notifiedZero hn⟩

/-- **No early return, usage respecting the precondition.**  If the updates applied so far do
    not exceed the initial count (the documented precondition of `count_down` /
    `arrive_and_wait`), a thread returns from `wait` / `arrive_and_wait` only when the counter
    is exactly zero, i.e. all expected arrivals have happened. -/
theorem C09_latch_return_only_at_zero (n : Nat) (c : Int) (log : List Latch.Ev) (s s' : Latch.St)
    (hlog : runLog Latch.step (Latch.init n c) log = some s) (hpre : (decs log : Int) ≤ c)
    (t : Nat) (r : Bool) (hop : Latch.isWaitOp (s.curOp t) = true)
    (h : Latch.step s (.ret t r) = some s') : s.counter = 0 ∧ (decs log : Int) = c := by
  have h1 := C09_latch_no_early_return s s' ⟨n, c, log, hlog⟩ t r hop h
  have h2 := C09_latch_counter_exact n c log s hlog
  omega

/-- **Once released, always released.**  No step increases the counter or clears
    `notified_`; in a released latch (`notified_` set) the blocking branch of `wait` is not
    enabled, so every later `wait` returns without blocking. -/
theorem C09_latch_stays_released (s : Latch.St) (hr : LReachable s) :
    (∀ e s', Latch.step s e = some s' → s'.counter ≤ s.counter ∧ (s.notified = true → s'.notified = true)) ∧
    (s.notified = true → ∀ t c nf, Latch.step s (.mustwait t c nf) = none) := by
  obtain ⟨n, c, log, hlog⟩ := hr
  obtain ⟨hi, _⟩ := Latch.inv_of_accepted hlog
  refine ⟨fun e s' h => (latch_counters_step s s' e h).2.2.2, ?_⟩
  intro hn t c nf
  have := hi.notifiedZero hn
  simp only [Latch.step]
  split
  · rename_i hg
    obtain ⟨_, _, _, _, hg⟩ := hg
    rcases hg with hg | hg
    · omega
    · rw [hn] at hg; simp at hg
  · rfl

/-- `try_wait` returns exactly `counter_ == 0` at the moment of its (single, atomic) load. -/
theorem C09_latch_try_wait (s s' : Latch.St) (hr : LReachable s) (t : Nat) (r : Bool)
    (hop : s.curOp t = .tryWait) (h : Latch.step s (.ret t r) = some s') :
    (r = true ↔ s.counter = 0) := by
  obtain ⟨n, c, log, hlog⟩ := hr
  obtain ⟨hi, _⟩ := Latch.inv_of_accepted hlog
  simp only [Latch.step] at h
  split at h
  · split at h
    · rename_i b hp
      -- a `retn` pc never belongs to try_wait
      exfalso
      have := hi.opOk t
      rw [hp, hop] at this
      simp [Latch.pcOpOk, Latch.isTry] at this
    · split at h
      · rename_i hr; rw [hr]; simp
      · simp at h
    · simp at h
  · simp at h


/-- A state is *stuck* when the model accepts no event other than a thread starting a new
    operation (`inv`) or ending its program (`done`). -/
def LStuck (s : Latch.St) : Prop :=
  ∀ e, (∀ t o, e ≠ .inv t o) → (∀ t, e ≠ .done t) → Latch.step s e = none

/-- Parked inside `wait` / `arrive_and_wait` with its cv entry still queued and no resume
    token. -/
def LBlocked (s : Latch.St) (t : Nat) : Prop := s.pc t = .susp false ∧ s.tok t = 0

/-- **Progress.**  The latch model can only be stuck in states where every thread is between
    operations, finished, or parked in `wait` / `arrive_and_wait` without a pending wake-up:
    no reachable state is stuck with a thread in the window between the lock-free decrement
    and the notification, inside the notify loop, holding the internal lock, or
    notified-but-not-resumed. -/
theorem C09_latch_stuck_only_when_blocked (s : Latch.St) (hr : LReachable s) (hs : LStuck s) :
    ∀ t, t < s.n → s.pc t = .idle ∨ s.pc t = .fin ∨ LBlocked s t := by
  obtain ⟨n, c, log, hlog⟩ := hr
  obtain ⟨hi, hi2⟩ := Latch.inv_of_accepted hlog
  intro t htn
  have en : ∀ e, (∀ t o, e ≠ .inv t o) → (∀ t, e ≠ .done t) → Latch.step s e ≠ none → False :=
    fun e h1 h2 h3 => h3 (hs e h1 h2)
  cases hl : s.lock with
  | some r =>
    exfalso
    obtain ⟨hh, hrn⟩ := hi2.lockConv r hl
    cases hp : s.pc r <;> simp [hp, Latch.holds] at hh
    case cdLocked => exact en (.notified r false) (by simp) (by simp) (by simp [Latch.step, hrn, hl, hp])
    case awZero => exact en (.notified r true) (by simp) (by simp) (by simp [Latch.step, hrn, hl, hp])
    case wLocked =>
      by_cases hc : 0 < s.counter ∨ s.notified = false
      · exact en (.mustwait r s.counter s.notified) (by simp) (by simp) (by simp [Latch.step, hrn, hl, hp, hc])
      · exact en (.nowait r s.counter s.notified) (by simp) (by simp) (by simp [Latch.step, hrn, hl, hp, hc])
    case awLocked k =>
      exact en (.dec r (s.counter - k) k) (by simp) (by simp) (by simp [Latch.step, hrn, hl, hp])
    case mustEnq => exact en (.cvEnq r (s.queue.length + 1)) (by simp) (by simp) (by simp [Latch.step, hrn, hl, hp])
    case enq => exact en (.slRel r) (by simp) (by simp) (by simp [Latch.step, hrn, hl, hp])
    case passing => exact en (.slRel r) (by simp) (by simp) (by simp [Latch.step, hrn, hl, hp])
    case ntfRes more => exact en (.slRel r) (by simp) (by simp) (by simp [Latch.step, hrn, hl, hp])
    case relk p =>
      cases p with
      | false => exact absurd hp (hi.wokePopped r).2
      | true => exact en (.cvWoke r false) (by simp) (by simp) (by simp [Latch.step, hrn, hl, hp])
    case ntfL =>
      cases hq : s.queue with
      | nil => exact en (.cvNone r) (by simp) (by simp) (by simp [Latch.step, hrn, hl, hp, hq])
      | cons g rest =>
        have hgq : g ∈ s.queue := by rw [hq]; simp
        have hginQ := (hi.qIff g).1 hgq
        have hgr : g ≠ r := by intro he; rw [he, hp] at hginQ; simp [Latch.inQ] at hginQ
        have hnh : Latch.holds (s.pc g) = false := by
          cases hhg : Latch.holds (s.pc g) with
          | false => rfl
          | true => have := hi.lockHolder g hhg; rw [hl] at this; simp at this; exact absurd this.symm hgr
        have hsp : ∃ p', Latch.setPopped (s.pc g) = some p' := by
          cases hpg : s.pc g <;> simp [hpg, Latch.inQ, Latch.holds] at hginQ hnh <;> simp [Latch.setPopped, hginQ]
        obtain ⟨p', hp'⟩ := hsp
        exact en (.popResume r rest.length g) (by simp) (by simp)
          (by simp [Latch.step, hrn, hl, hp, hq, hp'])
  | none =>
    have nh : Latch.holds (s.pc t) = false := by
      cases hh : Latch.holds (s.pc t) with
      | false => rfl
      | true => have := hi.lockHolder t hh; rw [hl] at this; simp at this
    cases hp : s.pc t <;> simp [hp, Latch.holds] at nh
    case idle => exact Or.inl rfl
    case fin => exact Or.inr (Or.inl rfl)
    case want o =>
      cases o with
      | wait => exact (en (.slAcq t) (by simp) (by simp) (by simp [Latch.step, htn, hl, hp])).elim
      | aw k => exact (en (.slAcq t) (by simp) (by simp) (by simp [Latch.step, htn, hl, hp])).elim
      | tryWait => exact (en (.ret t (decide (s.counter = 0))) (by simp) (by simp) (by simp [Latch.step, htn, hp])).elim
      | cd k => exact (en (.dec t (s.counter - k) k) (by simp) (by simp) (by simp [Latch.step, htn, hp])).elim
    case cdWant => exact (en (.slAcq t) (by simp) (by simp) (by simp [Latch.step, htn, hl, hp])).elim
    case unl p => exact (en (.suspend t) (by simp) (by simp) (by simp [Latch.step, htn, hp])).elim
    case susp p =>
      have htk := hi.tokInv t
      rw [hp] at htk
      cases p with
      | true => exact (en (.woke t) (by simp) (by simp) (by simp [Latch.step, htn, hp, htk, Latch.tokOf, Latch.b2n])).elim
      | false => exact Or.inr (Or.inr ⟨hp, by simpa [Latch.tokOf, Latch.b2n] using htk⟩)
    case wokeNL p => exact (en (.slAcq t) (by simp) (by simp) (by simp [Latch.step, htn, hl, hp])).elim
    case ntfNL => exact (en (.slAcq t) (by simp) (by simp) (by simp [Latch.step, htn, hl, hp])).elim
    case retn r => exact (en (.ret t r) (by simp) (by simp) (by simp [Latch.step, htn, hp])).elim

/-- **Every waiter is released once the count has reached zero.**  In every reachable stuck
    state, if some thread is still parked in `wait` / `arrive_and_wait` then the counter is not
    zero: a blocked waiter cannot coexist with a counter that has reached zero once the
    notifying thread has run to completion (in particular the window in `count_down` between
    the lock-free decrement and `notified_ = true` loses no waiter). -/
theorem C09_latch_all_released (s : Latch.St) (hr : LReachable s) (hs : LStuck s) (t : Nat)
    (hb : LBlocked s t) : s.counter ≠ 0 := by
  have hq := C09_latch_stuck_only_when_blocked s hr hs
  obtain ⟨n, c, log, hlog⟩ := hr
  obtain ⟨hi, _⟩ := Latch.inv_of_accepted hlog
  have hz : Latch.wsum s = 0 := by
    apply sumTo_eq_zero
    intro u hu
    rcases hq u hu with h | h | h
    · simp [h, Latch.weight]
    · simp [h, Latch.weight]
    · simp [h.1, Latch.weight]
  have hin : t ∈ s.queue := (hi.qIff t).2 (by simp [hb.1, Latch.inQ])
  have hne : s.queue ≠ [] := by intro h; rw [h] at hin; simp at hin
  intro hc
  have := hi.pending hc (Or.inr hne)
  omega

/-- With usage respecting the precondition, a waiter blocked at quiescence means that arrivals
    are genuinely missing: the counter is still positive. -/
theorem C09_latch_blocked_only_if_positive (n : Nat) (c : Int) (log : List Latch.Ev) (s : Latch.St)
    (hlog : runLog Latch.step (Latch.init n c) log = some s) (hpre : (decs log : Int) ≤ c)
    (hs : LStuck s) (t : Nat) (hb : LBlocked s t) : 0 < s.counter := by
  have h1 := C09_latch_all_released s ⟨n, c, log, hlog⟩ hs t hb
  have h2 := C09_latch_counter_exact n c log s hlog
  omega

/-! ### Non-vacuity (latch): concrete accepted logs reaching the interesting states -/

/-- latch(2): thread 0 waits and blocks, thread 1 `count_down(2)` reaches zero outside the lock,
    then notifies; thread 0 returns. -/
def latchExampleLog : List Latch.Ev :=
  [.inv 0 .wait, .slAcq 0, .mustwait 0 2 false, .cvEnq 0 1, .slRel 0, .suspend 0,
   .inv 1 (.cd 2), .dec 1 0 2, .slAcq 1, .notified 1 false, .popResume 1 0 0, .slRel 1, .ret 1 false,
   .woke 0, .slAcq 0, .cvWoke 0 false, .slRel 0, .ret 0 false]

example : (runLog Latch.step (Latch.init 2 2) latchExampleLog).isSome = true := by decide

/-- the window of `count_down`: counter already 0, `notified_` not yet set; a `wait` arriving in
    the window blocks (`mustwait 0 false`) and is released by the notify loop -/
example : (runLog Latch.step (Latch.init 2 1)
    [.inv 1 (.cd 1), .dec 1 0 1, .inv 0 .wait, .slAcq 0, .mustwait 0 0 false, .cvEnq 0 1, .slRel 0,
     .slAcq 1, .notified 1 false, .popResume 1 0 0, .slRel 1, .ret 1 false, .suspend 0, .woke 0,
     .slAcq 0, .cvWoke 0 false, .slRel 0, .ret 0 false]).isSome = true := by decide

/-- a stuck state with a blocked waiter exists (so `C09_latch_all_released` is not vacuous) -/
example : ∃ s, runLog Latch.step (Latch.init 1 1)
      [.inv 0 .wait, .slAcq 0, .mustwait 0 1 false, .cvEnq 0 1, .slRel 0, .suspend 0] = some s
    ∧ LBlocked s 0 := by
  refine ⟨_, rfl, ?_⟩
  simp [LBlocked, upd, Latch.init]

/-- arrive_and_wait as last arriver runs the notify loop; try_wait then returns true -/
example : (runLog Latch.step (Latch.init 2 2)
    [.inv 0 (.aw 1), .slAcq 0, .dec 0 1 1, .cvEnq 0 1, .slRel 0, .suspend 0,
     .inv 1 (.aw 1), .slAcq 1, .dec 1 0 1, .notified 1 true, .popResume 1 0 0, .slRel 1, .ret 1 false,
     .inv 1 .tryWait, .ret 1 true,
     .woke 0, .slAcq 0, .cvWoke 0 false, .slRel 0, .ret 0 false]).isSome = true := by decide

end PikaVerif.C09
