import PikaVerif.Lemmas.Latch
import PikaVerif.Lemmas.Once2
/-!
# C09 — latch, event and call_once release exactly when due (barrier: `Props/C09Barrier.lean`)

Property theorems about the models `PikaVerif.Latch` (`pika::latch`) and `PikaVerif.Once`
(`pika::experimental::event`, `pika::call_once`).  Every theorem quantifies over *all*
accepted event logs of the model, i.e. over every number of threads, every program (mix of
operations, update sizes) and every interleaving.
-/
namespace PikaVerif.C09
open PikaVerif

/-! ## Latch -/

/-- `s` is the state after some accepted log of the latch model, for some thread count and
    some initial count. -/
def LReachable (s : Latch.St) : Prop := ∃ n c log, runLog Latch.step (Latch.init n c) log = some s

/-- Sum of all updates applied to the counter (`latch.dec` events) in a log. -/
def decs : List Latch.Ev → Nat
  | [] => 0
  | .dec _ _ u :: l => decs l + u
  | _ :: l => decs l

theorem latch_counters_step (s s' : Latch.St) (e : Latch.Ev) (h : Latch.step s e = some s') :
    s'.decSum = s.decSum + decs [e] ∧ s'.init = s.init ∧ s'.n = s.n ∧ s'.counter ≤ s.counter ∧
    (s.notified = true → s'.notified = true) := by
  cases e <;> simp only [Latch.step] at h <;> (repeat' split at h) <;>
    first | (simp at h; done) | (simp only [Option.some.injEq] at h; subst h; simp [decs] <;> omega)

theorem latch_counters_log (log : List Latch.Ev) : ∀ (s s' : Latch.St), runLog Latch.step s log = some s' →
    s'.decSum = s.decSum + decs log ∧ s'.init = s.init ∧ s'.n = s.n := by
  induction log with
  | nil => intro s s' h; simp at h; subst h; simp [decs]
  | cons e es ih =>
    intro s s' h
    simp only [runLog] at h
    cases hs : Latch.step s e with
    | none => simp [hs] at h
    | some s1 =>
      simp only [hs] at h
      have h1 := latch_counters_step s s1 e hs
      have h2 := ih s1 s' h
      have hd : decs (e :: es) = decs [e] + decs es := by cases e <;> simp [decs] <;> omega
      refine ⟨?_, ?_, ?_⟩ <;> omega

/-- **The counter is exact.**  After every execution the stored counter equals the initial
    count minus the sum of all updates of `count_down(n)` / `arrive_and_wait(n)` calls that
    have performed their decrement (no update is lost or applied twice, whatever the
    interleaving of the lock-free decrement in `count_down` with the locked one in
    `arrive_and_wait`). -/
theorem C09_latch_counter_exact (n : Nat) (c : Int) (log : List Latch.Ev) (s : Latch.St)
    (h : runLog Latch.step (Latch.init n c) log = some s) : s.counter = c - decs log := by
  obtain ⟨hi, _⟩ := Latch.inv_of_accepted h
  have hc := latch_counters_log log _ s h
  have := hi.account
  simp only [Latch.init] at hc
  rw [this, hc.2.1, hc.1]; simp

/-- **No early return.**  Whenever a thread returns from `wait` or `arrive_and_wait`, the
    latch has been released: `notified_` is set and the counter is at (or, if callers broke the
    precondition `counter_ >= n`, below) zero. -/
theorem C09_latch_no_early_return (s s' : Latch.St) (hr : LReachable s) (t : Nat) (r : Bool)
    (hop : Latch.isWaitOp (s.curOp t) = true) (h : Latch.step s (.ret t r) = some s') :
    s.notified = true ∧ s.counter ≤ 0 := by
  obtain ⟨n, c, log, hlog⟩ := hr
  obtain ⟨hi, _⟩ := Latch.inv_of_accepted hlog
  have hn : s.notified = true := by
    simp only [Latch.step] at h
    split at h
    · split at h
      · rename_i b hp
        exact hi.ntf t (by rw [hp]; simpa [Latch.needsNotified] using hop)
      · rename_i hp
        have := hi.opOk t
        rw [hp] at this
        simp [Latch.pcOpOk] at this
        rw [← this] at hop; simp [Latch.isWaitOp] at hop
      · simp at h
    · simp at h
  exact ⟨hn, hi.notifiedZero hn⟩

/-- **No early return, usage respecting the precondition.**  If the updates applied so far do
    not exceed the initial count (the documented precondition of `count_down` /
    `arrive_and_wait`), a thread returns from `wait` / `arrive_and_wait` only when the counter
    is exactly zero, i.e. all expected arrivals have happened. -/
theorem C09_latch_return_only_at_zero (n : Nat) (c : Int) (log : List Latch.Ev) (s s' : Latch.St)
    (hlog : runLog Latch.step (Latch.init n c) log = some s) (hpre : (decs log : Int) ≤ c)
    (t : Nat) (r : Bool) (hop : Latch.isWaitOp (s.curOp t) = true)
    (h : Latch.step s (.ret t r) = some s') : s.counter = 0 ∧ (decs log : Int) = c := by
  have h1 := C09_latch_no_early_return s s' ⟨n, c, log, hlog⟩ t r hop h
  have h2 := C09_latch_counter_exact n c log s hlog
  omega

/-- **Once released, always released.**  No step increases the counter or clears
    `notified_`; in a released latch (`notified_` set) the blocking branch of `wait` is not
    enabled, so every later `wait` returns without blocking. -/
theorem C09_latch_stays_released (s : Latch.St) (hr : LReachable s) :
    (∀ e s', Latch.step s e = some s' → s'.counter ≤ s.counter ∧ (s.notified = true → s'.notified = true)) ∧
    (s.notified = true → ∀ t c nf, Latch.step s (.mustwait t c nf) = none) := by
  obtain ⟨n, c, log, hlog⟩ := hr
  obtain ⟨hi, _⟩ := Latch.inv_of_accepted hlog
  refine ⟨fun e s' h => (latch_counters_step s s' e h).2.2.2, ?_⟩
  intro hn t c nf
  have := hi.notifiedZero hn
  simp only [Latch.step]
  split
  · rename_i hg
    obtain ⟨_, _, _, _, hg⟩ := hg
    rcases hg with hg | hg
    · omega
    · rw [hn] at hg; simp at hg
  · rfl

/-- `try_wait` returns exactly `counter_ == 0` at the moment of its (single, atomic) load. -/
theorem C09_latch_try_wait (s s' : Latch.St) (hr : LReachable s) (t : Nat) (r : Bool)
    (hop : s.curOp t = .tryWait) (h : Latch.step s (.ret t r) = some s') :
    (r = true ↔ s.counter = 0) := by
  obtain ⟨n, c, log, hlog⟩ := hr
  obtain ⟨hi, _⟩ := Latch.inv_of_accepted hlog
  simp only [Latch.step] at h
  split at h
  · split at h
    · rename_i b hp
      -- a `retn` pc never belongs to try_wait
      exfalso
      have := hi.opOk t
      rw [hp, hop] at this
      simp [Latch.pcOpOk, Latch.isTry] at this
    · split at h
      · rename_i hr; rw [hr]; simp
      · simp at h
    · simp at h
  · simp at h


/-- A state is *stuck* when the model accepts no event other than a thread starting a new
    operation (`inv`) or ending its program (`done`). -/
def LStuck (s : Latch.St) : Prop :=
  ∀ e, (∀ t o, e ≠ .inv t o) → (∀ t, e ≠ .done t) → Latch.step s e = none

/-- Parked inside `wait` / `arrive_and_wait` with its cv entry still queued and no resume
    token. -/
def LBlocked (s : Latch.St) (t : Nat) : Prop := s.pc t = .susp false ∧ s.tok t = 0

/-- **Progress.**  The latch model can only be stuck in states where every thread is between
    operations, finished, or parked in `wait` / `arrive_and_wait` without a pending wake-up:
    no reachable state is stuck with a thread in the window between the lock-free decrement
    and the notification, inside the notify loop, holding the internal lock, or
    notified-but-not-resumed. -/
theorem C09_latch_stuck_only_when_blocked (s : Latch.St) (hr : LReachable s) (hs : LStuck s) :
    ∀ t, t < s.n → s.pc t = .idle ∨ s.pc t = .fin ∨ LBlocked s t := by
  obtain ⟨n, c, log, hlog⟩ := hr
  obtain ⟨hi, hi2⟩ := Latch.inv_of_accepted hlog
  intro t htn
  have en : ∀ e, (∀ t o, e ≠ .inv t o) → (∀ t, e ≠ .done t) → Latch.step s e ≠ none → False :=
    fun e h1 h2 h3 => h3 (hs e h1 h2)
  cases hl : s.lock with
  | some r =>
    exfalso
    obtain ⟨hh, hrn⟩ := hi2.lockConv r hl
    cases hp : s.pc r <;> simp [hp, Latch.holds] at hh
    case cdLocked => exact en (.notified r false) (by simp) (by simp) (by simp [Latch.step, hrn, hl, hp])
    case awZero => exact en (.notified r true) (by simp) (by simp) (by simp [Latch.step, hrn, hl, hp])
    case wLocked =>
      by_cases hc : 0 < s.counter ∨ s.notified = false
      · exact en (.mustwait r s.counter s.notified) (by simp) (by simp) (by simp [Latch.step, hrn, hl, hp, hc])
      · exact en (.nowait r s.counter s.notified) (by simp) (by simp) (by simp [Latch.step, hrn, hl, hp, hc])
    case awLocked k =>
      exact en (.dec r (s.counter - k) k) (by simp) (by simp) (by simp [Latch.step, hrn, hl, hp])
    case mustEnq => exact en (.cvEnq r (s.queue.length + 1)) (by simp) (by simp) (by simp [Latch.step, hrn, hl, hp])
    case enq => exact en (.slRel r) (by simp) (by simp) (by simp [Latch.step, hrn, hl, hp])
    case passing => exact en (.slRel r) (by simp) (by simp) (by simp [Latch.step, hrn, hl, hp])
    case ntfRes more => exact en (.slRel r) (by simp) (by simp) (by simp [Latch.step, hrn, hl, hp])
    case relk p =>
      cases p with
      | false => exact absurd hp (hi.wokePopped r).2
      | true => exact en (.cvWoke r false) (by simp) (by simp) (by simp [Latch.step, hrn, hl, hp])
    case ntfL =>
      cases hq : s.queue with
      | nil => exact en (.cvNone r) (by simp) (by simp) (by simp [Latch.step, hrn, hl, hp, hq])
      | cons g rest =>
        have hgq : g ∈ s.queue := by rw [hq]; simp
        have hginQ := (hi.qIff g).1 hgq
        have hgr : g ≠ r := by intro he; rw [he, hp] at hginQ; simp [Latch.inQ] at hginQ
        have hnh : Latch.holds (s.pc g) = false := by
          cases hhg : Latch.holds (s.pc g) with
          | false => rfl
          | true => have := hi.lockHolder g hhg; rw [hl] at this; simp at this; exact absurd this.symm hgr
        have hsp : ∃ p', Latch.setPopped (s.pc g) = some p' := by
          cases hpg : s.pc g <;> simp [hpg, Latch.inQ, Latch.holds] at hginQ hnh <;> simp [Latch.setPopped, hginQ]
        obtain ⟨p', hp'⟩ := hsp
        exact en (.popResume r rest.length g) (by simp) (by simp)
          (by simp [Latch.step, hrn, hl, hp, hq, hp'])
  | none =>
    have nh : Latch.holds (s.pc t) = false := by
      cases hh : Latch.holds (s.pc t) with
      | false => rfl
      | true => have := hi.lockHolder t hh; rw [hl] at this; simp at this
    cases hp : s.pc t <;> simp [hp, Latch.holds] at nh
    case idle => exact Or.inl rfl
    case fin => exact Or.inr (Or.inl rfl)
    case want o =>
      cases o with
      | wait => exact (en (.slAcq t) (by simp) (by simp) (by simp [Latch.step, htn, hl, hp])).elim
      | aw k => exact (en (.slAcq t) (by simp) (by simp) (by simp [Latch.step, htn, hl, hp])).elim
      | tryWait => exact (en (.ret t (decide (s.counter = 0))) (by simp) (by simp) (by simp [Latch.step, htn, hp])).elim
      | cd k => exact (en (.dec t (s.counter - k) k) (by simp) (by simp) (by simp [Latch.step, htn, hp])).elim
    case cdWant => exact (en (.slAcq t) (by simp) (by simp) (by simp [Latch.step, htn, hl, hp])).elim
    case unl p => exact (en (.suspend t) (by simp) (by simp) (by simp [Latch.step, htn, hp])).elim
    case susp p =>
      have htk := hi.tokInv t
      rw [hp] at htk
      cases p with
      | true => exact (en (.woke t) (by simp) (by simp) (by simp [Latch.step, htn, hp, htk, Latch.tokOf, Latch.b2n])).elim
      | false => exact Or.inr (Or.inr ⟨hp, by simpa [Latch.tokOf, Latch.b2n] using htk⟩)
    case wokeNL p => exact (en (.slAcq t) (by simp) (by simp) (by simp [Latch.step, htn, hl, hp])).elim
    case ntfNL => exact (en (.slAcq t) (by simp) (by simp) (by simp [Latch.step, htn, hl, hp])).elim
    case retn r => exact (en (.ret t r) (by simp) (by simp) (by simp [Latch.step, htn, hp])).elim

/-- **Every waiter is released once the count has reached zero.**  In every reachable stuck
    state, if some thread is still parked in `wait` / `arrive_and_wait` then the counter is not
    zero: a blocked waiter cannot coexist with a counter that has reached zero once the
    notifying thread has run to completion (in particular the window in `count_down` between
    the lock-free decrement and `notified_ = true` loses no waiter). -/
theorem C09_latch_all_released (s : Latch.St) (hr : LReachable s) (hs : LStuck s) (t : Nat)
    (hb : LBlocked s t) : s.counter ≠ 0 := by
  have hq := C09_latch_stuck_only_when_blocked s hr hs
  obtain ⟨n, c, log, hlog⟩ := hr
  obtain ⟨hi, _⟩ := Latch.inv_of_accepted hlog
  have hz : Latch.wsum s = 0 := by
    apply sumTo_eq_zero
    intro u hu
    rcases hq u hu with h | h | h
    · simp [h, Latch.weight]
    · simp [h, Latch.weight]
    · simp [h.1, Latch.weight]
  have hin : t ∈ s.queue := (hi.qIff t).2 (by simp [hb.1, Latch.inQ])
  have hne : s.queue ≠ [] := by intro h; rw [h] at hin; simp at hin
  intro hc
  have := hi.pending hc (Or.inr hne)
  omega

/-- With usage respecting the precondition, a waiter blocked at quiescence means that arrivals
    are genuinely missing: the counter is still positive. -/
theorem C09_latch_blocked_only_if_positive (n : Nat) (c : Int) (log : List Latch.Ev) (s : Latch.St)
    (hlog : runLog Latch.step (Latch.init n c) log = some s) (hpre : (decs log : Int) ≤ c)
    (hs : LStuck s) (t : Nat) (hb : LBlocked s t) : 0 < s.counter := by
  have h1 := C09_latch_all_released s ⟨n, c, log, hlog⟩ hs t hb
  have h2 := C09_latch_counter_exact n c log s hlog
  omega

/-! ### Non-vacuity (latch): concrete accepted logs reaching the interesting states -/

/-- latch(2): thread 0 waits and blocks, thread 1 `count_down(2)` reaches zero outside the lock,
    then notifies; thread 0 returns. -/
def latchExampleLog : List Latch.Ev :=
  [.inv 0 .wait, .slAcq 0, .mustwait 0 2 false, .cvEnq 0 1, .slRel 0, .suspend 0,
   .inv 1 (.cd 2), .dec 1 0 2, .slAcq 1, .notified 1 false, .popResume 1 0 0, .slRel 1, .ret 1 false,
   .woke 0, .slAcq 0, .cvWoke 0 false, .slRel 0, .ret 0 false]

example : (runLog Latch.step (Latch.init 2 2) latchExampleLog).isSome = true := by decide

/-- the window of `count_down`: counter already 0, `notified_` not yet set; a `wait` arriving in
    the window blocks (`mustwait 0 false`) and is released by the notify loop -/
example : (runLog Latch.step (Latch.init 2 1)
    [.inv 1 (.cd 1), .dec 1 0 1, .inv 0 .wait, .slAcq 0, .mustwait 0 0 false, .cvEnq 0 1, .slRel 0,
     .slAcq 1, .notified 1 false, .popResume 1 0 0, .slRel 1, .ret 1 false, .suspend 0, .woke 0,
     .slAcq 0, .cvWoke 0 false, .slRel 0, .ret 0 false]).isSome = true := by decide

/-- a stuck state with a blocked waiter exists (so `C09_latch_all_released` is not vacuous) -/
example : ∃ s, runLog Latch.step (Latch.init 1 1)
      [.inv 0 .wait, .slAcq 0, .mustwait 0 1 false, .cvEnq 0 1, .slRel 0, .suspend 0] = some s
    ∧ LBlocked s 0 := by
  refine ⟨_, rfl, ?_⟩
  simp [LBlocked, upd, Latch.init]

/-- arrive_and_wait as last arriver runs the notify loop; try_wait then returns true -/
example : (runLog Latch.step (Latch.init 2 2)
    [.inv 0 (.aw 1), .slAcq 0, .dec 0 1 1, .cvEnq 0 1, .slRel 0, .suspend 0,
     .inv 1 (.aw 1), .slAcq 1, .dec 1 0 1, .notified 1 true, .popResume 1 0 0, .slRel 1, .ret 1 false,
     .inv 1 .tryWait, .ret 1 true,
     .woke 0, .slAcq 0, .cvWoke 0 false, .slRel 0, .ret 0 false]).isSome = true := by decide


/-! ## Event and call_once -/

/-- `s` is the state after some accepted log of the event / call_once model. -/
def OReachable (s : Once.St) : Prop := ∃ n log, runLog Once.step (Once.init n) log = some s

/-- The model accepts no event other than a thread starting a new operation or ending its
    program. -/
def OStuck (s : Once.St) : Prop :=
  ∀ e, (∀ t o, e ≠ .inv t o) → (∀ t, e ≠ .done t) → Once.step s e = none

/-- Parked inside `event::wait` (entered from context `c`) with its cv entry still queued and no
    resume token. -/
def OBlocked (s : Once.St) (t : Nat) (c : Once.Ctx) : Prop := s.pc t = .susp c false ∧ s.tok t = 0

theorem sumTo_mono {n : Nat} {f g : Nat → Nat} (h : ∀ t, t < n → f t ≤ g t) : sumTo n f ≤ sumTo n g := by
  induction n with
  | zero => exact Nat.le_refl _
  | succ k ih =>
    simp only [sumTo_succ]
    have := ih (fun t ht => h t (Nat.lt_succ_of_lt ht))
    have := h k (Nat.lt_succ_self k)
    omega

/-- **`event::wait` returns only after a `set`.**  Whenever a thread returns from a stand-alone
    `event::wait`, some `set()` has stored `true` into the flag before (on the fast path as well
    as on the blocking path). -/
theorem C09_event_no_early_return (s s' : Once.St) (hr : OReachable s) (t : Nat) (r : Nat)
    (hop : s.curOp t = .wait) (h : Once.step s (.ret t r) = some s') : 0 < s.sets := by
  obtain ⟨n, log, hlog⟩ := hr
  obtain ⟨hi, hp⟩ := Once.inv_of_accepted hlog
  simp only [Once.step] at h
  split at h
  · split at h
    · rename_i b hpc
      exact hp.passSets t (by rw [hpc, hop]; simp [Once.needsSet])
    · rename_i hpc
      have := hi.opOk t
      rw [hpc, hop] at this
      simp [Once.pcOpOk] at this
    · simp at h
  · simp at h

/-- **Once set, the event releases all future waiters.**  As long as nobody has reset the event,
    a performed `set` keeps the flag true, and with the flag true neither the fast-path read nor
    the read of the loop condition under the lock can return false: every `wait` that starts
    after the `set` returns without blocking.  (A waiter that read `false` *before* the store and
    enqueues after it is covered by `C09_event_all_released`.) -/
theorem C09_event_future_waiters_pass (s : Once.St) (hr : OReachable s) (hnr : s.resets = 0)
    (hset : 0 < s.sets) : s.flag = true ∧
      ∀ t, Once.step s (.evLoad t false) = none ∧ Once.step s (.evLoadL t false) = none := by
  obtain ⟨n, log, hlog⟩ := hr
  obtain ⟨_, hp⟩ := Once.inv_of_accepted hlog
  have hf := hp.sticky hnr hset
  refine ⟨hf, ?_⟩
  intro t
  constructor
  · simp only [Once.step]
    split
    · rename_i hg; rw [hf] at hg; simp at hg
    · rfl
  · simp only [Once.step]
    split
    · rename_i hg; rw [hf] at hg; simp at hg
    · rfl

/-- **Progress (event and call_once).**  The model can only be stuck in states where every thread
    is between operations, finished, or parked in `event::wait` without a pending wake-up. -/
theorem C09_event_stuck_only_when_blocked (s : Once.St) (hr : OReachable s) (hs : OStuck s) :
    ∀ t, t < s.n → s.pc t = .idle ∨ s.pc t = .fin ∨ ∃ c, OBlocked s t c := by
  obtain ⟨n, log, hlog⟩ := hr
  obtain ⟨hi, hp⟩ := Once.inv_of_accepted hlog
  intro t htn
  have en : ∀ e, (∀ t o, e ≠ .inv t o) → (∀ t, e ≠ .done t) → Once.step s e ≠ none → False :=
    fun e h1 h2 h3 => h3 (hs e h1 h2)
  cases hl : s.lock with
  | some r =>
    exfalso
    obtain ⟨hh, hrn⟩ := hi.lockConv r hl
    cases hpc : s.pc r <;> simp [hpc, Once.holds] at hh
    case wLocked c =>
      cases hf : s.flag with
      | false => exact en (.evLoadL r false) (by simp) (by simp) (by simp [Once.step, hrn, hl, hpc, hf])
      | true => exact en (.evLoadL r true) (by simp) (by simp) (by simp [Once.step, hrn, hl, hpc, hf])
    case wMustEnq c => exact en (.cvEnq r (s.queue.length + 1)) (by simp) (by simp) (by simp [Once.step, hrn, hl, hpc])
    case enq c => exact en (.slRel r) (by simp) (by simp) (by simp [Once.step, hrn, hl, hpc])
    case wPass c => exact en (.slRel r) (by simp) (by simp) (by simp [Once.step, hrn, hl, hpc])
    case sRel c => exact en (.slRel r) (by simp) (by simp) (by simp [Once.step, hrn, hl, hpc])
    case sLocked c => exact en (.notifyAll r s.queue) (by simp) (by simp) (by simp [Once.step, hrn, hl, hpc])
    case relk c p =>
      cases p with
      | false => exact absurd hpc (hi.wokePopped r c).2
      | true => exact en (.cvWoke r false) (by simp) (by simp) (by simp [Once.step, hrn, hl, hpc])
  | none =>
    have nh : Once.holds (s.pc t) = false := by
      cases hh : Once.holds (s.pc t) with
      | false => rfl
      | true => have := hi.lockHolder t hh; rw [hl] at this; simp at this
    cases hpc : s.pc t <;> simp [hpc, Once.holds] at nh
    case idle => exact Or.inl rfl
    case fin => exact Or.inr (Or.inl rfl)
    case wWant c => exact (en (.evLoad t s.flag) (by simp) (by simp) (by simp [Once.step, htn, hpc])).elim
    case wLockW c => exact (en (.slAcq t) (by simp) (by simp) (by simp [Once.step, htn, hl, hpc])).elim
    case unl c p => exact (en (.suspend t) (by simp) (by simp) (by simp [Once.step, htn, hpc])).elim
    case susp c p =>
      have htk := hi.tokInv t
      rw [hpc] at htk
      cases p with
      | true => exact (en (.woke t) (by simp) (by simp) (by simp [Once.step, htn, hpc, htk, Once.tokOf, Once.b2n])).elim
      | false => exact Or.inr (Or.inr ⟨c, hpc, by simpa [Once.tokOf, Once.b2n] using htk⟩)
    case wokeNL c p => exact (en (.slAcq t) (by simp) (by simp) (by simp [Once.step, htn, hl, hpc])).elim
    case sWant c => exact (en (.stored t true) (by simp) (by simp) (by simp [Once.step, htn, hpc])).elim
    case sLockW c => exact (en (.slAcq t) (by simp) (by simp) (by simp [Once.step, htn, hl, hpc])).elim
    case rWant => exact (en (.stored t false) (by simp) (by simp) (by simp [Once.step, htn, hpc])).elim
    case oWant => exact (en (.ret t (Once.b2n s.flag)) (by simp) (by simp) (by simp [Once.step, htn, hpc])).elim
    case cLoad thr => exact (en (.onceLoad t) (by simp) (by simp) (by simp [Once.step, htn, hpc])).elim
    case cCas thr =>
      cases hst : s.status with
      | zero => exact (en (.onceWon t) (by simp) (by simp) (by simp [Once.step, htn, hpc, hst])).elim
      | running => exact (en (.onceLost t false) (by simp) (by simp) (by simp [Once.step, htn, hpc, hst])).elim
      | complete => exact (en (.onceLost t true) (by simp) (by simp) (by simp [Once.step, htn, hpc, hst])).elim
    case cReset thr => exact (en (.stored t false) (by simp) (by simp) (by simp [Once.step, htn, hpc])).elim
    case cBody thr => exact (en (.body t thr) (by simp) (by simp) (by simp [Once.step, htn, hpc])).elim
    case cRan thr => exact (en (.onceStored t (!thr)) (by simp) (by simp) (by simp [Once.step, htn, hpc])).elim
    case retn r => exact (en (.ret t r) (by simp) (by simp) (by simp [Once.step, htn, hpc])).elim

/-- All four "owed" sums vanish in a stuck state. -/
theorem stuck_sums (s : Once.St) (hr : OReachable s) (hs : OStuck s) :
    Once.ssum s = 0 ∧ Once.osum s = 0 := by
  have hq := C09_event_stuck_only_when_blocked s hr hs
  constructor
  · apply sumTo_eq_zero
    intro u hu
    rcases hq u hu with h | h | ⟨c, h, _⟩ <;> simp [h, Once.setW]
  · apply sumTo_eq_zero
    intro u hu
    rcases hq u hu with h | h | ⟨c, h, _⟩ <;> simp [h, Once.owesSetW]

/-- **`set` releases all current waiters.**  In every reachable stuck state, if some thread is
    still parked in `event::wait` then the flag is false: a blocked waiter cannot coexist with a
    set event once the setting thread has run to completion (in particular the window in `set`
    between the lock-free store and `notify_all`, and the lock-free fast-path read in `wait`, lose
    no waiter). -/
theorem C09_event_all_released (s : Once.St) (hr : OReachable s) (hs : OStuck s) (t : Nat)
    (c : Once.Ctx) (hb : OBlocked s t c) : s.flag = false := by
  have hz := (stuck_sums s hr hs).1
  obtain ⟨n, log, hlog⟩ := hr
  obtain ⟨hi, hp⟩ := Once.inv_of_accepted hlog
  have hin : t ∈ s.queue := (hi.qIff t).2 (by simp [hb.1, Once.inQ])
  have hne : s.queue ≠ [] := by intro h; rw [h] at hin; simp at hin
  cases hf : s.flag with
  | false => rfl
  | true => have := hp.flagQ hf hne; omega

/-- Without resets, a waiter blocked at quiescence means the event was never set. -/
theorem C09_event_blocked_only_if_never_set (s : Once.St) (hr : OReachable s) (hs : OStuck s)
    (hnr : s.resets = 0) (t : Nat) (c : Once.Ctx) (hb : OBlocked s t c) : s.sets = 0 := by
  have hf := C09_event_all_released s hr hs t c hb
  cases hsets : s.sets with
  | zero => rfl
  | succ k =>
    have := (C09_event_future_waiters_pass s hr hnr (by omega)).1
    rw [hf] at this; simp at this

/-- Number of entries into a non-throwing callable (`once.body` events with `thr = false`). -/
def okBodies : List Once.Ev → Nat
  | [] => 0
  | .body _ false :: l => okBodies l + 1
  | _ :: l => okBodies l

/-- Number of stores of `complete` into the status word. -/
def completes : List Once.Ev → Nat
  | [] => 0
  | .onceStored _ true :: l => completes l + 1
  | _ :: l => completes l

theorem once_counters_step (s s' : Once.St) (e : Once.Ev) (h : Once.step s e = some s') :
    s'.okRuns = s.okRuns + okBodies [e] ∧ s'.completions = s.completions + completes [e] ∧ s'.n = s.n := by
  cases e with
  | body t b =>
    cases b <;> (simp only [Once.step] at h; (repeat' split at h) <;>
      first | (simp at h; done) | (simp only [Option.some.injEq] at h; subst h; subst_vars; simp [okBodies, completes, Once.b2n]))
  | onceStored t v =>
    cases v <;> (simp only [Once.step] at h; (repeat' split at h) <;>
      first | (simp at h; done) | (simp only [Option.some.injEq] at h; subst h; cases ‹Bool› <;> first | (simp [okBodies, completes, Once.b2n]; done) | (exfalso; simp at *)))
  | _ =>
    simp only [Once.step] at h <;> (repeat' split at h) <;>
      first | (simp at h; done) | (simp only [Option.some.injEq] at h; subst h; simp [okBodies, completes])

theorem once_counters_log (log : List Once.Ev) : ∀ (s s' : Once.St), runLog Once.step s log = some s' →
    s'.okRuns = s.okRuns + okBodies log ∧ s'.completions = s.completions + completes log ∧ s'.n = s.n := by
  induction log with
  | nil => intro s s' h; simp at h; subst h; simp [okBodies, completes]
  | cons e es ih =>
    intro s s' h
    simp only [runLog] at h
    cases hs : Once.step s e with
    | none => simp [hs] at h
    | some s1 =>
      simp only [hs] at h
      have h1 := once_counters_step s s1 e hs
      have h2 := ih s1 s' h
      have hb : okBodies (e :: es) = okBodies [e] + okBodies es := by
        cases e with
        | body t b => cases b <;> simp [okBodies] <;> omega
        | _ => simp [okBodies]
      have hc : completes (e :: es) = completes [e] + completes es := by
        cases e with
        | onceStored t b => cases b <;> simp [completes] <;> omega
        | _ => simp [completes]
      refine ⟨?_, ?_, ?_⟩ <;> omega

/-- **The callable runs exactly once.**  In every execution of any number of `call_once` callers:
    a callable that does not throw is entered at most once and `complete` is stored at most once;
    at most one thread at a time is between winning the CAS and storing the status (so two
    callables never run concurrently); and once the status is `complete` the callable has been
    entered-and-completed exactly once and nobody is inside the winner's section. -/
theorem C09_once_exactly_once (n : Nat) (log : List Once.Ev) (s : Once.St)
    (h : runLog Once.step (Once.init n) log = some s) :
    okBodies log ≤ 1 ∧ completes log ≤ 1 ∧ Once.rsum s ≤ 1 ∧
    (s.status = .complete → okBodies log = 1 ∧ completes log = 1 ∧ Once.rsum s = 0) := by
  obtain ⟨hi, hp⟩ := Once.inv_of_accepted h
  have hc := once_counters_log log _ s h
  simp only [Once.init] at hc
  have h3 := hp.runOne
  have h4 := hp.compl
  have h5 := hp.okRunsEq
  have hk : Once.ksum s ≤ Once.rsum s := by
    apply sumTo_mono
    intro u _
    cases hpc : s.pc u <;> simp [Once.ranOkW, Once.runW, Once.b2n]
    split <;> omega
  cases hst : s.status <;> simp [hst] at h3 h4 ⊢ <;> omega

/-- **Every other caller returns only after the callable has finished.**  Whenever a caller
    returns normally from `call_once`, the status is `complete`: a (non-throwing) callable has run
    to completion exactly once before this return and no thread is inside the callable. -/
theorem C09_once_others_after (n : Nat) (log : List Once.Ev) (s s' : Once.St)
    (hlog : runLog Once.step (Once.init n) log = some s) (t : Nat)
    (hop : Once.isCall (s.curOp t) = true) (h : Once.step s (.ret t 0) = some s') :
    s.status = .complete ∧ okBodies log = 1 ∧ completes log = 1 ∧ Once.rsum s = 0 := by
  obtain ⟨hi, hp⟩ := Once.inv_of_accepted hlog
  have hst : s.status = .complete := by
    simp only [Once.step] at h
    split at h
    · split at h
      · rename_i b hpc
        split at h
        · rename_i hb
          subst hb
          exact hp.complete t (by rw [hpc]; simp [Once.needsComplete, hop])
        · simp at h
      · rename_i hpc
        have := hi.opOk t
        rw [hpc] at this
        simp [Once.pcOpOk] at this
        rw [this] at hop; simp [Once.isCall] at hop
      · simp at h
    · simp at h
  exact ⟨hst, (C09_once_exactly_once n log s hlog).2.2.2 hst⟩

/-- Once `complete` is stored, the callable is never entered again and the CAS is never won again. -/
theorem C09_once_never_again (s : Once.St) (hr : OReachable s) (hst : s.status = .complete) :
    ∀ t, (∀ thr, Once.step s (.body t thr) = none) ∧ Once.step s (.onceWon t) = none := by
  obtain ⟨n, log, hlog⟩ := hr
  obtain ⟨hi, hp⟩ := Once.inv_of_accepted hlog
  have h0 := (C09_once_exactly_once n log s hlog).2.2.2 hst
  have hn := (once_counters_log log _ s hlog).2.2
  intro t
  constructor
  · intro thr
    simp only [Once.step]
    split
    · rename_i htn
      split
      · rename_i thr' hpc
        exfalso
        have hle := le_sumTo (f := fun u => Once.runW (s.pc u)) htn
        have : Once.rsum s = 0 := h0.2.2
        simp only [Once.rsum] at this
        rw [this, hpc] at hle
        simp [Once.runW] at hle
      · rfl
    · rfl
  · simp [Once.step, hst]

/-- **Retry after a throw.**  When the callable threw, the winner stores `0` back into the status
    word, so the CAS of any caller that is (or later arrives) at the CAS succeeds and that caller
    runs its callable; the exception itself is delivered only to the caller whose callable
    threw. -/
theorem C09_once_retry_on_throw (s s' : Once.St) (hr : OReachable s) (t : Nat)
    (h : Once.step s (.onceStored t false) = some s') :
    s'.status = .zero ∧
    (∀ u thr, u < s'.n → s'.pc u = .cCas thr → (Once.step s' (.onceWon u)).isSome = true) ∧
    (∀ u r s'', Once.step s (.ret u r) = some s'' → r = 2 → s.curOp u = .call true) := by
  obtain ⟨n, log, hlog⟩ := hr
  obtain ⟨hi, hp⟩ := Once.inv_of_accepted hlog
  have hz : s'.status = .zero := by
    simp only [Once.step] at h
    split at h
    · split at h
      · split at h
        · rename_i thr _ hv
          simp only [Option.some.injEq] at h
          subst h
          cases thr <;> simp at hv ⊢
        · simp at h
      · simp at h
    · simp at h
  refine ⟨hz, ?_, ?_⟩
  · intro u thr hu hpc
    simp [Once.step, hu, hz, hpc]
  · intro u r s'' hret hr2
    subst hr2
    simp only [Once.step] at hret
    split at hret
    · split at hret
      · rename_i b hpc
        split at hret
        · rename_i hb; subst hb; exact hp.excOk u hpc
        · simp at hret
      · split at hret
        · rename_i hb
          exfalso
          cases hf : s.flag <;> simp [hf, Once.b2n] at hb
        · simp at hret
      · simp at hret
    · simp at hret

/-- **No caller of `call_once` is left behind.**  In every reachable stuck state of an execution
    without stand-alone `reset`s of the flag's event, no thread is parked inside `call_once`:
    every caller that lost the CAS is eventually released by the winner's `event_.set()`,
    whether the callable returned or threw (then it retries), in spite of the lock-free status
    word, the event reset at the start of each attempt and late `set`s of earlier failed
    attempts. -/
theorem C09_once_all_callers_return (s : Once.St) (hr : OReachable s) (hs : OStuck s)
    (hnr : s.topResets = 0) (t : Nat) (htn : t < s.n) (hop : Once.isCall (s.curOp t) = true) :
    s.pc t = .idle ∨ s.pc t = .fin := by
  have hq := C09_event_stuck_only_when_blocked s hr hs t htn
  have hz := stuck_sums s hr hs
  rcases hq with h | h | ⟨c, hb⟩
  · exact Or.inl h
  · exact Or.inr h
  · exfalso
    have hf := C09_event_all_released s hr hs t c hb
    obtain ⟨n, log, hlog⟩ := hr
    obtain ⟨hi, hp⟩ := Once.inv_of_accepted hlog
    have hoo := hi.opOk t
    rw [hb.1] at hoo
    cases c with
    | top =>
      simp [Once.pcOpOk, Once.ctxOk] at hoo
      rw [hoo] at hop; simp [Once.isCall] at hop
    | once thr =>
      have hw := hp.waiterWins t (by rw [hb.1]; simp [Once.onceWaiter, Once.isOnce])
      have := hp.onceFlag hf hnr hw
      omega

/-! ### Non-vacuity (event, call_once) -/

/-- a waiter blocks, `set` stores true and wakes it through `notify_all` -/
example : (runLog Once.step (Once.init 2)
    [.inv 0 .wait, .evLoad 0 false, .slAcq 0, .evLoadL 0 false, .cvEnq 0 1, .slRel 0, .suspend 0, .inv 1 .set, .stored 1 true,
     .slAcq 1, .notifyAll 1 [0], .slRel 1, .ret 1 0, .woke 0, .slAcq 0, .cvWoke 0 false, .evLoadL 0 true,
     .slRel 0, .ret 0 0]).isSome = true := by decide

/-- the store of `set` falls between the waiter's fast-path read and its locked re-check -/
example : (runLog Once.step (Once.init 2)
    [.inv 0 .wait, .evLoad 0 false, .inv 1 .set, .stored 1 true, .slAcq 0, .evLoadL 0 true, .slRel 0, .ret 0 0,
     .slAcq 1, .notifyAll 1 [], .slRel 1, .ret 1 0]).isSome = true := by decide

/-- the store of `set` falls between the waiter's read of the loop condition (false) and its
    enqueue: the waiter enqueues with the flag already true and is woken by that `set`'s
    `notify_all`, which needs the lock the waiter still holds -/
example : (runLog Once.step (Once.init 2)
    [.inv 0 .wait, .evLoad 0 false, .slAcq 0, .evLoadL 0 false, .inv 1 .set, .stored 1 true, .cvEnq 0 1,
     .slRel 0, .slAcq 1, .notifyAll 1 [0], .slRel 1, .ret 1 0, .suspend 0, .woke 0, .slAcq 0,
     .cvWoke 0 false, .evLoadL 0 true, .slRel 0, .ret 0 0]).isSome = true := by decide

/-- a stuck state with a blocked waiter exists (so `C09_event_all_released` is not vacuous) -/
example : ∃ s, runLog Once.step (Once.init 1)
      [.inv 0 .wait, .evLoad 0 false, .slAcq 0, .evLoadL 0 false, .cvEnq 0 1, .slRel 0, .suspend 0] = some s
    ∧ OBlocked s 0 .top := by
  refine ⟨_, rfl, ?_⟩
  simp [OBlocked, upd, Once.init, Once.entry]

/-- call_once: thread 1's callable throws; thread 0 lost the CAS, blocked, is woken by the failed
    winner's `set`, retries, wins and completes; thread 1 leaves with the exception -/
def onceExampleLog : List Once.Ev :=
  [.inv 1 (.call true), .onceLoad 1, .onceWon 1, .inv 0 (.call false), .stored 1 false, .onceLoad 0,
   .onceLost 0 false, .body 1 true, .evLoad 0 false, .slAcq 0, .evLoadL 0 false, .cvEnq 0 1, .slRel 0, .suspend 0,
   .onceStored 1 false, .stored 1 true, .slAcq 1, .notifyAll 1 [0], .slRel 1, .ret 1 2,
   .woke 0, .slAcq 0, .cvWoke 0 false, .evLoadL 0 true, .slRel 0, .onceLoad 0, .onceWon 0, .stored 0 false,
   .body 0 false, .onceStored 0 true, .stored 0 true, .slAcq 0, .notifyAll 0 [], .slRel 0, .ret 0 0]

example : (runLog Once.step (Once.init 2) onceExampleLog).isSome = true := by decide

/-- **Spin window of `call_once` (finding, not a violation of C09).**  After a failed attempt the
    failed winner's `event_.set()` may be delayed past the next winner's `event_.reset()`.  Then
    the flag is `true` while the status is `running` and the new winner is inside its callable:
    a loser's `event_.wait()` returns on the fast path every time, so it cycles through status
    load, failed CAS and `wait` without ever suspending for as long as the callable runs. -/
def onceSpinLog : List Once.Ev :=
  [.inv 0 (.call true), .onceLoad 0, .onceWon 0, .stored 0 false, .body 0 true, .onceStored 0 false,
   .inv 1 (.call false), .onceLoad 1, .onceWon 1, .stored 1 false, .body 1 false,
   .stored 0 true,
   .inv 2 (.call false), .onceLoad 2, .onceLost 2 false, .evLoad 2 true, .onceLoad 2, .onceLost 2 false,
   .evLoad 2 true]

theorem once_spin_window_reachable : ∃ s, runLog Once.step (Once.init 3) onceSpinLog = some s ∧
    s.flag = true ∧ s.status = .running ∧ s.pc 1 = .cRan false ∧ s.pc 2 = .cLoad false := by
  refine ⟨_, rfl, ?_⟩
  decide


/-! ## Follow-up C09t: clauses that were monitors only -/

/-- Reachability extends along accepted logs. -/
theorem LReachable.extend {s s' : Latch.St} (hr : LReachable s) (log : List Latch.Ev)
    (h : runLog Latch.step s log = some s') : LReachable s' := by
  obtain ⟨n, c, l0, h0⟩ := hr
  refine ⟨n, c, l0 ++ log, ?_⟩
  rw [runLog_append, h0]; exact h

/-- **Released for good.**  From any reachable state, along every accepted continuation (any number
    of further `count_down` / `wait` / `try_wait` / `arrive_and_wait` calls of any threads, in
    particular more participants than workers) the counter never grows and a set `notified_` stays
    set: a latch that has released its waiters releases every later waiter (with
    `C09_latch_stays_released`: the blocking branch stays disabled) and every later `try_wait`
    under the precondition returns `true`. -/
theorem C09_latch_released_forever (s : Latch.St) (hr : LReachable s) (log : List Latch.Ev) :
    ∀ s', runLog Latch.step s log = some s' →
      s'.counter ≤ s.counter ∧ (s.notified = true → s'.notified = true) := by
  induction log generalizing s with
  | nil => intro s' h; simp at h; subst h; exact ⟨Int.le_refl _, id⟩
  | cons e es ih =>
    intro s' h
    simp only [runLog] at h
    cases hs : Latch.step s e with
    | none => simp [hs] at h
    | some s1 =>
      simp only [hs] at h
      obtain ⟨h1, h2⟩ := (C09_latch_stays_released s hr).1 e s1 hs
      obtain ⟨h3, h4⟩ := ih s1 (hr.extend [e] (by simp [runLog, hs])) s' h
      exact ⟨Int.le_trans h3 h1, fun hn => h4 (h2 hn)⟩

/-- `event::occurred()` returns the flag at its (single, atomic) load — also while `set` / `reset`
    of other threads race with it. -/
theorem C09_event_occurred_exact (s s' : Once.St) (t r : Nat) (hpc : s.pc t = .oWant)
    (h : Once.step s (.ret t r) = some s') : r = Once.b2n s.flag := by
  simp only [Once.step] at h
  split at h
  · rw [hpc] at h
    simp only at h
    split at h
    · assumption
    · simp at h
  · simp at h

/-- **Under `reset` races: the loop of `wait_locked` is left only by a read of `true`.**  Whatever
    `set` / `reset` calls interleave, the only step by which a thread gets past
    `while (!event_.load()) cond_.wait(l)` is its own read of the loop condition with the flag
    `true` at that moment (a notified waiter that finds the flag reset again re-blocks). -/
theorem C09_event_loop_left_on_true (s s' : Once.St) (e : Once.Ev) (t : Nat) (c : Once.Ctx)
    (h : Once.step s e = some s') (hnew : s'.pc t = .wPass c) (hold : s.pc t ≠ .wPass c) :
    e = .evLoadL t true ∧ s.flag = true := by
  cases e <;> simp only [Once.step] at h <;> (repeat' split at h) <;>
    first
    | (simp at h; done)
    | (simp only [Option.some.injEq] at h; subst h; dsimp only at hnew
       first
       | (exfalso; exact hold hnew)
       | (simp only [upd] at hnew; split at hnew <;>
            first
            | (exfalso; exact hold hnew)
            | (rename_i he; subst he; simp_all [Once.wDone, Once.sDone, Once.entry])
            | skip))
  all_goals first
    | (exfalso; grind [Once.wDone, Once.sDone, Once.entry, Once.popd])
    | (exfalso; split at hnew
       · unfold Once.popd at hnew; split at hnew <;> first | (cases hnew; done) | exact hold hnew
       · exact hold hnew)

/-- **Under `reset` races: a stand-alone `wait` returns only after this call read the flag `true`.**
    The only steps that take a thread inside `event::wait` to its return are the fast-path load
    that reads `true` (flag true at that moment) and the unlock after the locked loop was left
    (`C09_event_loop_left_on_true`); a `reset` that lands after the read does not "un-release" the
    waiter, a `reset` that lands before it keeps it waiting. -/
theorem C09_event_wait_returns_after_true_read (s s' : Once.St) (hr : OReachable s) (e : Once.Ev) (t : Nat)
    (h : Once.step s e = some s') (hop : s.curOp t = .wait)
    (hnew : s'.pc t = .retn 0) (hold : s.pc t ≠ .retn 0) :
    (e = .evLoad t true ∧ s.flag = true) ∨ (e = .slRel t ∧ s.pc t = .wPass .top) := by
  obtain ⟨n, log, hlog⟩ := hr
  obtain ⟨hi, _⟩ := Once.inv_of_accepted hlog
  have hok := hi.opOk t
  rw [hop] at hok
  cases e <;> simp only [Once.step] at h <;> (repeat' split at h) <;>
    first
    | (simp at h; done)
    | (simp only [Option.some.injEq] at h; subst h; dsimp only at hnew
       first
       | (exfalso; exact hold hnew)
       | (simp only [upd] at hnew; split at hnew <;>
            first
            | (exfalso; exact hold hnew)
            | (rename_i he; subst he; simp_all [Once.wDone, Once.sDone, Once.entry, Once.pcOpOk, Once.ctxOk]; done)
            | skip))
  all_goals first
    | (exfalso; unfold Once.entry at hnew; split at hnew <;> cases hnew)
    | (subst_vars; unfold Once.wDone at hnew; split at hnew
       · right; exact ⟨rfl, by assumption⟩
       · cases hnew)
    | (exfalso; subst_vars; simp_all [Once.pcOpOk, Once.ctxOk]; done)
    | (exfalso; subst_vars; simp only [*, Once.pcOpOk] at hok; unfold Once.ctxOk at hok
       split at hok <;> simp at hok)
    | (subst_vars; grind [Once.wDone, Once.sDone, Once.entry, Once.pcOpOk, Once.ctxOk, Once.isCall])
    | (exfalso; grind [Once.wDone, Once.sDone, Once.entry, Once.popd, Once.pcOpOk, Once.ctxOk, Once.isCall])
    | (exfalso; split at hnew
       · unfold Once.popd at hnew; split at hnew <;> first | (cases hnew; done) | exact hold hnew
       · exact hold hnew)

end PikaVerif.C09
