import PikaVerif.Props.C19
import PikaVerif.Lemmas.ElasticT
import PikaVerif.Lemmas.ElasticFin
import PikaVerif.Lemmas.ElasticFin2
import PikaVerif.Lemmas.ElasticCount
import PikaVerif.Lemmas.ElasticStart
/-!
# C19t — termination of suspend / resume (follow-up of C19)

`Props/C19.lean` states "the calls return" as solo completion.  This file strengthens it to
TERMINATION for the model `PikaVerif.Elastic`: a natural-number measure, a bound on the number of
non-stutter events of every accepted log, the existence and the final states of maximal runs.

**Event classes** (`Lemmas/ElasticT.lean`; `C19t_event_classes`: every event is in exactly one)
* *sources* (`0 < weight e`) — what the controller and the submitters put in: a placement
  (`inc`, `incLow`: 1), a successful `select_active_pu` (the pu mutex taken: 1), the pu mutex of
  `suspend_processing_unit_internal` (`slock`: 1), a successful request `running → pre_sleep`
  (`cas` / `ucas` with `before = running`: 6), a refusal (1);
* *moves* — the runtime's answers: the final test that commits the worker to sleep
  (`chk pre_sleep true`), `sleep`, `wait`, `woke`, `wake`, `dec`, `decLow`, `sunl`;
* *weak* events `unl`, `notify`, `ret`: a move when effective (`eff`: a model hold is released /
  the first notify of a waiting worker / the return of a refused call), otherwise an EXACT stutter;
* *neutral* events: `start`, `top`, `qlen`, a `chk` that does not commit, a failed `sel`, a failed
  CAS, `sdone`, `rload`.

**Stutter (stated precisely).**  The model accepts events that can repeat for ever:
* the idle round of a worker's scheduling loop `top ; qlen ; chk` (nothing found, or not allowed to
  sleep): it changes nothing but the iteration-local `running` flag and the ghosts `emptySeen`, `late`
  (`C19t_round_is_neutral`), and for a running worker it leads back to the very same state
  (`C19t_idle_round_is_stutter`);
* the polls of a waiting caller: `rload` (resume loop, state still `sleeping`), a `notify` that is
  lost or repeated, a failed selection, `sdone`, a queue length read by a foreign thread, any
  `ret` of a call that was not refused: accepted without changing the state at all (`C19t_polls_are_stutter`);
  the `yield_while(state == pre_sleep)` polls of a suspender are not events at all (the harness'
  sink drops them).
Hence "a measure decreases with every accepted event that is not a call or a placement" is FALSE
(`C19t_requested_measure_impossible`).  The corrected statement is `C19t_measure`: `mu` never
increases except by the weight of a source, and every effective event costs 1.

**Bound.**  `C19t_bounded`: in every accepted log the number of effective events is at most the
total weight of its sources `= 6 · #requests + #placements + #selections + #slock + #refusals`
(`C19t_weight_formula`).  Per call: a PU suspend ≤ 7 (`slock` + request), a pool suspend ≤ 6 per worker,
a placement ≤ 2 (selection + increment), a refused call 1, a resume call 0 (its effective notify is
paid by the request that sent the worker to sleep): `B(k, m, workers) = 7 k_pu + 6 · workers · k_pool + 2 m + r`.

**Maximal runs.**  `Maximal N s`: nothing is *owed* by a worker / actor `< N` (`Lemmas/ElasticFin.lean`:
release of a model hold, the worker's take of queued work in its loop, the commit round, the steps of
`scheduler_base::suspend`, the wake-up after a notify, the CAS back, the low-priority conversion by
the running last worker, the return of a refused call).  Every reachable state extends by owed steps
only to a maximal state within `3 · mu` events (`C19t_maximal_exists`); `C19t_final_state`
characterises maximal states, `C19t_calls_returned` is "the calls themselves return" for maximal
runs — under the hypothesis that the shared low-priority queue is empty, which is necessary:
`C19t_low_priority_livelock` (finding `lowprio-last-worker` of notes/C19.md as a `decide`-checked
maximal state in which a suspender waits for ever).

**Stealing and pending resume calls.**  `MaximalR N R s` (`Lemmas/ElasticFin2.lean`) adds two owed
steps: with `enable_stealing` a worker that is `running` in its loop takes work queued on ANY worker,
and a pending `resume_processing_unit` call on a worker in `R` notifies as long as that worker is
inside `wait` un-notified.  `C19t_maximalR_exists` (same bound), `C19t_work_executed_by_others`
(with stealing and one running worker every queue is empty in a maximal state: work queued on a
suspended worker is executed by the other workers), `C19t_resume_returned` (a worker with a pending
resume call is not `sleeping` in a maximal state: the resume loop's exit test succeeds, the worker is
back in its loop and — low-priority queue empty — `running` with its own queue taken).

**Counters.**  `C19t_counters`: placements = takes + queued, per worker and for the low-priority
queue, after every accepted log; `C19t_all_taken_or_awaiting_resume`: in the final state of a
maximal run every placement on a worker in its loop was taken exactly once, what is left sits on a
sleeping worker and was placed unguarded.  `C19t_resumed_takes_work`: after its wake-up a worker
takes queued work within 4 of its own steps.

**Second false statement.**  "The state word of every worker agrees with the last call aimed at it"
is false for the code as it is: `wait(l)` without predicate — a spurious wake-up un-suspends the
worker (`C19t_spurious_wakeup_unsuspends`, `decide`-checked).
-/
namespace PikaVerif.C19t
open PikaVerif PikaVerif.Elastic PikaVerif.C19

/-- the weak class: move or exact stutter, depending on the state -/
def weak : Ev → Bool
  | .unl _ _ => true
  | .notify _ _ => true
  | .ret _ => true
  | _ => false

/-- Every event belongs to exactly one of the four classes. -/
theorem C19t_event_classes (e : Ev) :
    (0 < weight e ∧ moves e = false ∧ weak e = false ∧ neutral e = false) ∨
    (weight e = 0 ∧ moves e = true ∧ weak e = false ∧ neutral e = false) ∨
    (weight e = 0 ∧ moves e = false ∧ weak e = true ∧ neutral e = false) ∨
    (weight e = 0 ∧ moves e = false ∧ weak e = false ∧ neutral e = true) := by
  cases e with
  | chk w v c => by_cases h : v = rsPreSleep <;> cases c <;> simp [weight, moves, weak, neutral, h]
  | sel a w v mx owns ok => cases ok <;> simp [weight, moves, weak, neutral]
  | cas a w b af => by_cases h : b = rsRunning <;> simp [weight, moves, weak, neutral, h]
  | ucas a w b af => by_cases h : b = rsRunning <;> simp [weight, moves, weak, neutral, h]
  | _ => simp [weight, moves, weak, neutral]

/-- **The measure.**  In every reachable state, for every accepted event about a worker / actor
    `< N`: the measure grows by at most the weight of the event (0 unless it is a source); a move
    strictly decreases it; a weak event strictly decreases it or leaves the state exactly as it is;
    a neutral event does not increase it. -/
theorem C19t_measure (cfg : Cfg) (N : Nat) (s s' : St) (e : Ev) (hr : Reachable cfg s)
    (hN : inR N e = true) (h : step s e = some s') :
    mu N s' ≤ mu N s + weight e ∧
    (moves e = true → mu N s' < mu N s) ∧
    (weak e = true → mu N s' < mu N s ∨ s' = s) ∧
    (neutral e = true → mu N s' ≤ mu N s) := by
  have hst := mu_step N s s' e (inv_of_reachable hr) hN h
  refine ⟨by omega, ?_, ?_, ?_⟩
  · intro hm
    have h1 := moves_le_eff s e
    have hw : weight e = 0 := by
      rcases C19t_event_classes e with hc | hc | hc | hc <;> simp_all
    have h2 : b2n (moves e) = 1 := by simp [hm, b2n]
    omega
  · intro hwk
    have hw : weight e = 0 := by
      rcases C19t_event_classes e with hc | hc | hc | hc <;> simp_all
    cases he : eff s e with
    | true => left; rw [he] at hst; simp [b2n] at hst; omega
    | false =>
      right
      apply ineff_stutter s s' e h he
      cases e <;> simp [weak] at hwk
      · exact Or.inl ⟨_, _, rfl⟩
      · exact Or.inr (Or.inl ⟨_, _, rfl⟩)
      · exact Or.inr (Or.inr ⟨_, rfl⟩)
  · intro hn
    have hw : weight e = 0 := by
      rcases C19t_event_classes e with hc | hc | hc | hc <;> simp_all
    omega

/-- **Polls are exact stutters**: a failed selection, `sdone`, `rload`, a queue length read by a
    thread that is not the worker, a notify outside `wait` (lost) or repeated, the release of a real
    lock that was no model hold, the return of a call that was not refused — all accepted, state
    unchanged. -/
theorem C19t_polls_are_stutter (s s' : St) :
    (∀ a w v mx owns, step s (.sel a w v mx owns false) = some s' → s' = s) ∧
    (∀ a w v, step s (.sdone a w v) = some s' → s' = s) ∧
    (∀ a w v, step s (.rload a w v) = some s' → s' = s) ∧
    (∀ a w len, (s.wk w).actor ≠ some a → step s (.qlen a w len) = some s' → s' = s) ∧
    (∀ a w, ((s.wk w).pc ≠ .waiting ∨ (s.wk w).notified = true) → step s (.notify a w) = some s' → s' = s) ∧
    (∀ a w, (s.wk w).lk = none → step s (.unl a w) = some s' → s' = s) ∧
    (∀ a, s.apc a = .idle → step s (.ret a) = some s' → s' = s) := by
  obtain ⟨h1, h2, h3, h4⟩ := poll_stutter s s'
  refine ⟨h1, h2, h3, h4, ?_, ?_, ?_⟩
  · intro a w hc h
    apply ineff_stutter s s' _ h _ (Or.inr (Or.inl ⟨a, w, rfl⟩))
    cases hc with
    | inl hc => simp [eff, hc]
    | inr hc => simp [eff, hc]
  · intro a w hc h
    apply ineff_stutter s s' _ h _ (Or.inl ⟨a, w, rfl⟩)
    simp [eff, hc]
  · intro a hc h
    apply ineff_stutter s s' _ h _ (Or.inr (Or.inr ⟨a, rfl⟩))
    simp [eff, hc]

/-- the fields of a worker that the loop-round events cannot change -/
def core (x : Wk) : Nat × Option Nat × Option (Nat × Use) × WPc × Nat × Bool × List Nat × Bool :=
  (x.st, x.actor, x.lk, x.pc, x.q, x.dirty, x.waiters, x.notified)

/-- **The loop round is neutral**: `top`, `qlen` and a `chk` that does not commit change nothing
    but the iteration-local flag `running` and the ghosts `emptySeen`, `late` of that one worker. -/
theorem C19t_round_is_neutral (s s' : St) (e : Ev) (h : step s e = some s')
    (he : (∃ w v, e = .top w v) ∨ (∃ a w len, e = .qlen a w len) ∨
          (∃ w v c, e = .chk w v c ∧ ¬ (v = rsPreSleep ∧ c = true))) :
    (∀ u, core (s'.wk u) = core (s.wk u)) ∧ s'.lowq = s.lowq ∧ s'.apc = s.apc ∧ s'.cfg = s.cfg := by
  rcases he with ⟨w, v, rfl⟩ | ⟨a, w, len, rfl⟩ | ⟨w, v, c, rfl, hnc⟩
  all_goals (
    simp only [step] at h
    repeat' split at h
    all_goals first | (simp at h; done) | skip
    all_goals (
      simp only [Option.some.injEq] at h
      subst h
      first
      | exact ⟨fun _ => rfl, rfl, rfl, rfl⟩
      | (refine ⟨fun u => ?_, rfl, rfl, rfl⟩
         by_cases hu : u = w
         · subst hu; simp [core]
         · simp [upd_other _ _ _ _ hu])
      | (exfalso; apply hnc; simp_all)))

/-- **The idle round of a running worker is a stutter**: `top ; qlen ; chk` of a worker that is
    `running` (so it may not exit) leads back to the very same state. -/
theorem C19t_idle_round_is_stutter (s : St) (w a len : Nat) (hst : (s.wk w).st = rsRunning)
    (hpc : (s.wk w).pc = .loop) (ha : (s.wk w).actor = some a) (hf : (s.wk w).flagRun = true)
    (he : (s.wk w).emptySeen = false)
    (hlen : len = (s.wk w).q + (if w = s.cfg.last then s.lowq else 0)) :
    runLog step s [.top w rsRunning, .qlen a w len, .chk w rsRunning false] = some s := by
  have hs : ∀ x', x' = s.wk w → ({ s with wk := upd s.wk w x' } : St) = s := by
    intro x' h; subst h; rw [upd_self]
  have hx1 : ({ (s.wk w) with flagRun := decide (rsRunning < rsPreSleep), emptySeen := false } : Wk) = s.wk w := by
    cases hw : s.wk w
    simp [hw] at hf he
    simp [hf, he]
    decide
  have hx2 : ({ (s.wk w) with emptySeen := false } : Wk) = s.wk w := by
    cases hw : s.wk w
    simp [hw] at he
    simp [he]
  have h1 : step s (.top w rsRunning) = some s := by
    have : step s (.top w rsRunning) = some { s with wk := upd s.wk w { (s.wk w) with flagRun := decide (rsRunning < rsPreSleep), emptySeen := false } } := by
      simp [step, hst, hpc]
    rw [this, hs _ hx1]
  have h2 : step s (.qlen a w len) = some s := by
    have : step s (.qlen a w len) = some { s with wk := upd s.wk w { (s.wk w) with emptySeen := false } } := by
      simp [step, ha, hpc, hf, ← hlen]
    rw [this, hs _ hx2]
  have h3 : step s (.chk w rsRunning false) = some s := by
    have : step s (.chk w rsRunning false) = some { s with wk := upd s.wk w { (s.wk w) with emptySeen := false } } := by
      simp [step, hst, hpc]
    rw [this, hs _ hx2]
  simp [runLog, h1, h2, h3]

/-- the stutter `rload` is accepted in the initial state (`decide`-checked) … -/
theorem C19t_stutter_witness : (step (init {}) (.rload 0 0 0)).isSome = true := by decide

/-- … hence **the requested statement is false**: no natural-number function on states decreases
    with every accepted event that is not a source — not even on reachable states. -/
theorem C19t_requested_measure_impossible :
    ¬ ∃ m : St → Nat, ∀ s e s', Reachable {} s → step s e = some s' → weight e = 0 → m s' < m s := by
  intro ⟨m, hm⟩
  have hs : step (init {}) (.rload 0 0 0) = some (init {}) := by simp [step, init]
  have := hm (init {}) (.rload 0 0 0) (init {}) ⟨[], rfl⟩ hs rfl
  omega

/-- **Bounded runs (termination modulo stutter).**  In every accepted log, the number of effective
    events plus the measure of the final state (over any range `N` that covers the indices of the
    log) is at most the total weight of the sources of the log. -/
theorem C19t_bounded_mu (cfg : Cfg) (N : Nat) (log : List Ev) (s : St)
    (h : runLog step (init cfg) log = some s) (hN : ∀ e, e ∈ log → inR N e = true) :
    nEff (init cfg) log + mu N s ≤ wsum log := by
  have := mu_runLog N log (init cfg) s (inv_init cfg) hN h
  rw [mu_init] at this
  omega

/-- … for every accepted log, without side condition: at most `wsum log` effective events, in
    particular at most that many moves. -/
theorem C19t_bounded (cfg : Cfg) (log : List Ev) (s : St) (h : runLog step (init cfg) log = some s) :
    nEff (init cfg) log ≤ wsum log ∧ nMoves log ≤ wsum log := by
  have h1 := C19t_bounded_mu cfg (keyBound log) log s h (inR_keyBound log)
  have h2 := nMoves_le_nEff log _ _ h
  omega

/-- number of successful suspension requests `running → pre_sleep` in a log -/
def nReq : List Ev → Nat
  | [] => 0
  | e :: es => (if weight e = 6 then 1 else 0) + nReq es

/-- number of unit sources: placements, successful selections, `slock`, refusals -/
def nUnit : List Ev → Nat
  | [] => 0
  | e :: es => (if weight e = 1 then 1 else 0) + nUnit es

theorem weight_cases (e : Ev) : weight e = 0 ∨ weight e = 1 ∨ weight e = 6 := by
  cases e <;> simp only [weight] <;> first | (split <;> simp) | simp

/-- **The bound in terms of calls and placements**: 6 per successful request, 1 per placement /
    selection / `slock` / refusal. -/
theorem C19t_weight_formula (log : List Ev) : wsum log = 6 * nReq log + nUnit log := by
  induction log with
  | nil => rfl
  | cons e es ih =>
    simp only [wsum, nReq, nUnit, ih]
    rcases weight_cases e with h | h | h <;> simp [h] <;> omega

/-- number of events of a log satisfying `p` -/
def cnt (p : Ev → Bool) : List Ev → Nat
  | [] => 0
  | e :: es => b2n (p e) + cnt p es

/-- a successful suspension request: the CAS `running → pre_sleep` of `suspend_processing_unit_internal`
    (under the pu mutex) or of the pool's `suspend_internal` (without) -/
def isReq : Ev → Bool
  | .cas _ _ b _ => decide (b = rsRunning)
  | .ucas _ _ b _ => decide (b = rsRunning)
  | _ => false
/-- a placement: a queue counter of a worker, or of the shared low-priority queue, `+1` -/
def isPlace : Ev → Bool
  | .inc _ _ => true
  | .incLow _ => true
  | _ => false
def isSelOk : Ev → Bool
  | .sel _ _ _ _ _ ok => ok
  | _ => false
def isSlock : Ev → Bool
  | .slock _ _ => true
  | _ => false
def isRefuse : Ev → Bool
  | .refuse _ => true
  | _ => false

/-- the weight of a log, by kind of source -/
theorem C19t_weight_by_kind (log : List Ev) :
    wsum log = 6 * cnt isReq log + cnt isPlace log + cnt isSelOk log + cnt isSlock log + cnt isRefuse log := by
  induction log with
  | nil => rfl
  | cons e es ih =>
    simp only [wsum, cnt, ih]
    cases e with
    | sel a w v mx owns ok => cases ok <;> simp [weight, isReq, isPlace, isSelOk, isSlock, isRefuse, b2n] <;> omega
    | cas a w b af => by_cases h : b = rsRunning <;> simp [weight, isReq, isPlace, isSelOk, isSlock, isRefuse, b2n, h] <;> omega
    | ucas a w b af => by_cases h : b = rsRunning <;> simp [weight, isReq, isPlace, isSelOk, isSlock, isRefuse, b2n, h] <;> omega
    | _ => simp [weight, isReq, isPlace, isSelOk, isSlock, isRefuse, b2n] <;> omega

/-- **`B(k, m, workers)`.**  An accepted log of a pool with `W` workers in which the controller made
    `kpu` PU-suspend calls (one `slock` and at most one successful request each), `kpool` pool-suspend
    calls (at most one successful request per worker each), any number of resume calls, `r` refused
    calls, and the submitters `m` placements (at most one successful selection each) has at most
    `7 kpu + 6 W kpool + 2 m + r` effective events. -/
theorem C19t_bound_calls (cfg : Cfg) (log : List Ev) (s : St) (h : runLog step (init cfg) log = some s)
    (W kpu kpool m r : Nat) (h1 : cnt isSlock log ≤ kpu) (h2 : cnt isReq log ≤ kpu + W * kpool)
    (h3 : cnt isPlace log ≤ m) (h4 : cnt isSelOk log ≤ m) (h5 : cnt isRefuse log ≤ r) :
    nEff (init cfg) log ≤ 7 * kpu + 6 * (W * kpool) + 2 * m + r := by
  have hb := (C19t_bounded cfg log s h).1
  have hw := C19t_weight_by_kind log
  omega

/-- **Maximal runs exist and are short.**  Every reachable state extends — by owed steps only: no
    new call, placement, request or wake-up without notify (total weight 0) — to a maximal state
    within `3 * mu N s` events, hence within three times the weight of the log that led to `s`. -/
theorem C19t_maximal_exists (cfg : Cfg) (N : Nat) (log : List Ev) (s : St)
    (h : runLog step (init cfg) log = some s) (hN : ∀ e, e ∈ log → inR N e = true) :
    ∃ ext s', runLog step s ext = some s' ∧ Reachable cfg s' ∧ Maximal N s' ∧
      ext.length ≤ 3 * mu N s ∧ ext.length ≤ 3 * wsum log ∧ wsum ext = 0 := by
  have hi : Inv s := inv_of_accepted h
  obtain ⟨ext, s', hrun, hmax, hlen, hw, _⟩ := exists_maximal N (mu N s) s hi (Nat.le_refl _)
  have hb := C19t_bounded_mu cfg N log s h hN
  refine ⟨ext, s', hrun, ⟨log ++ ext, ?_⟩, hmax, hlen, by omega, hw⟩
  rw [runLog_append, h]; simpa using hrun

/-- **Final states of maximal runs.**  In a reachable maximal state, for every worker `w < N`:
    nobody holds its pu mutex; the worker thread is in its scheduling loop, or inside `wait` with no
    notify pending and its state word `sleeping`; a started worker in its loop has an empty queue
    (everything placed there was taken); no suspension request is pending (`st ≠ pre_sleep`) unless
    `w` is the last worker and the shared low-priority queue is non-empty; the running last worker
    has emptied that queue.  Every actor `< N` is outside a refused call. -/
theorem C19t_final_state (cfg : Cfg) (N : Nat) (s : St) (hr : Reachable cfg s) (hm : Maximal N s) :
    (∀ w, w < N → WFinal s w) ∧ (∀ a, a < N → s.apc a = .idle) := by
  refine ⟨fun w hw => final_of_maximal N s (inv_of_reachable hr) hm w hw, ?_⟩
  intro a ha
  have := (hm a ha).2.2
  simp only [owedA] at this
  split at this
  · simp at this
  · assumption

/-- **The calls themselves return (maximal runs).**  In a reachable maximal state in which the
    shared low-priority queue is empty, for every started worker `w < N`: no suspender is waiting
    any more (`waiters = []`: the exit test of every `suspend_processing_unit` call succeeds, `sdone`
    is accepted for every caller); the state word is not `pre_sleep`, and it is `sleeping` exactly
    if the thread is inside `wait` (the state word is consistent with where the thread is); if it is
    not `sleeping` the resume loop's test reads a state `≠ sleeping`, so every
    `resume_processing_unit` call returns; work still queued on `w` means `w` is asleep, and all of it
    was placed unguarded after `w`'s final emptiness check (or a pool suspend's unlocked CAS was
    involved) — it is executed after the resume (`C19t_resumed_takes_work`). -/
theorem C19t_calls_returned (cfg : Cfg) (N : Nat) (s : St) (hr : Reachable cfg s) (hm : Maximal N s)
    (hlow : s.lowq = 0) (w : Nat) (hw : w < N) (hs : (s.wk w).actor ≠ none) :
    (s.wk w).waiters = [] ∧ (∀ b v, (step s (.sdone b w v)).isSome = true) ∧
    (s.wk w).st ≠ rsPreSleep ∧
    ((s.wk w).st = rsSleeping ↔ (s.wk w).pc = .waiting) ∧
    ((s.wk w).st ≠ rsSleeping → (s.wk w).pc = .loop ∧ (s.wk w).q = 0 ∧
        ∀ b, step s (.rload b w (s.wk w).st) = some s) ∧
    (0 < (s.wk w).q → (s.wk w).st = rsSleeping ∧ ((s.wk w).dirty = true ∨ (s.wk w).q ≤ (s.wk w).late)) := by
  have hi := (inv_of_reachable hr) w
  have hf := final_of_maximal N s (inv_of_reachable hr) hm w hw
  have hnp : (s.wk w).st ≠ rsPreSleep := by
    intro h7
    have := (hf.noPending hs h7).2
    omega
  have hwt : (s.wk w).waiters = [] := by
    apply Classical.byContradiction
    intro hne
    exact hnp (hi.waitPre hne)
  have hiff : (s.wk w).st = rsSleeping ↔ (s.wk w).pc = .waiting := by
    constructor
    · intro h8
      cases hf.pcFin with
      | inl hl => exact absurd hl (hi.stPc h8).1
      | inr hr' => exact hr'.1
    · intro hp
      exact hi.sleepSt (by rw [hp]; decide) (by rw [hp]; decide)
  have hloop : (s.wk w).st ≠ rsSleeping → (s.wk w).pc = .loop := by
    intro h8
    cases hf.pcFin with
    | inl hl => exact hl
    | inr hr' => exact absurd hr'.2.2 h8
  refine ⟨hwt, ?_, hnp, hiff, ?_, ?_⟩
  · intro b v
    simp [step, hwt]
  · intro h8
    refine ⟨hloop h8, hf.drained (hloop h8) hs, ?_⟩
    intro b
    simp [step]
  · intro hq
    have h8 : (s.wk w).st = rsSleeping := by
      apply Classical.byContradiction
      intro h8
      have := hf.drained (hloop h8) hs
      omega
    refine ⟨h8, ?_⟩
    have hp := (hi.stPc h8).1
    cases hd : (s.wk w).dirty with
    | true => exact Or.inl rfl
    | false => exact Or.inr (hi.strand (Or.inr hp) hd)

/-- **Maximal runs with stealing and pending resume calls exist and are short.** -/
theorem C19t_maximalR_exists (cfg : Cfg) (N : Nat) (R : Nat → Bool) (log : List Ev) (s : St)
    (h : runLog step (init cfg) log = some s) (hN : ∀ e, e ∈ log → inR N e = true) :
    ∃ ext s', runLog step s ext = some s' ∧ Reachable cfg s' ∧ MaximalR N R s' ∧
      ext.length ≤ 3 * mu N s ∧ ext.length ≤ 3 * wsum log ∧ wsum ext = 0 := by
  have hi : Inv s := inv_of_accepted h
  obtain ⟨ext, s', hrun, hmax, hlen, hw, _⟩ := exists_maximalR N R (mu N s) s hi (Nat.le_refl _)
  have hb := C19t_bounded_mu cfg N log s h hN
  refine ⟨ext, s', hrun, ⟨log ++ ext, ?_⟩, hmax, hlen, by omega, hw⟩
  rw [runLog_append, h]; simpa using hrun

/-- `MaximalR` is stronger than `Maximal`: `C19t_final_state` and `C19t_calls_returned` apply. -/
theorem C19t_maximalR_maximal (N : Nat) (R : Nat → Bool) (s : St) (h : MaximalR N R s) : Maximal N s := h.1

/-- **Work queued on a suspended worker is executed by the other workers.**  With
    `enable_stealing`, in a reachable maximal state in which at least one started worker `v < N` is
    `running` in its scheduling loop, the queues of ALL workers `< N` are empty — also those of
    sleeping workers (the escalated / unguarded placements that `C19_no_strand` allows there). -/
theorem C19t_work_executed_by_others (cfg : Cfg) (N : Nat) (R : Nat → Bool) (s : St) (hr : Reachable cfg s)
    (hm : MaximalR N R s) (hs : cfg.stealing = true) (v b : Nat) (hv : v < N)
    (ha : (s.wk v).actor = some b) (hpc : (s.wk v).pc = .loop) (hst : (s.wk v).st = rsRunning) :
    ∀ w, w < N → (s.wk w).q = 0 := by
  intro w hw
  exact stolen_of_maximalR N R s hm (by rw [cfg_of_reachable hr]; exact hs) v hv b ha hpc hst w hw

/-- **`resume_processing_unit` has returned (maximal runs).**  In a reachable maximal state a
    worker `w < N` with a pending resume call is not `sleeping` and its thread is back in the
    scheduling loop: the resume loop's test `state == sleeping` fails on the state it reads, the call
    returns.  If moreover the worker was started and the shared low-priority queue is empty, no
    suspension request is pending on it either and everything queued on it has been taken. -/
theorem C19t_resume_returned (cfg : Cfg) (N : Nat) (R : Nat → Bool) (s : St) (hr : Reachable cfg s)
    (hm : MaximalR N R s) (w : Nat) (hw : w < N) (hR : R w = true) :
    (s.wk w).st ≠ rsSleeping ∧ (s.wk w).pc = .loop ∧
    (∀ b, step s (.rload b w (s.wk w).st) = some s) ∧
    ((s.wk w).actor ≠ none → s.lowq = 0 → (s.wk w).st ≠ rsPreSleep ∧ (s.wk w).q = 0 ∧ (s.wk w).waiters = []) := by
  obtain ⟨h1, h2⟩ := resumed_of_maximalR N R s (inv_of_reachable hr) hm w hw hR
  refine ⟨h1, h2, fun b => by simp [step], ?_⟩
  intro hs hlow
  obtain ⟨c1, _, c3, _, c5, _⟩ := C19t_calls_returned cfg N s hr hm.1 hlow w hw hs
  exact ⟨c3, (c5 h1).2.1, c1⟩

/-- **Neither dropped nor duplicated (counters).**  After every accepted log, for every worker:
    placements on its queues = takes from its queues + what is still queued; the same for the shared
    low-priority queue.  (Exactly-once of the task *bodies* is C01's token discipline, `C19_no_dup`.) -/
theorem C19t_counters (cfg : Cfg) (log : List Ev) (s : St) (h : runLog step (init cfg) log = some s) (w : Nat) :
    cntP (isIncOn w) log = cntP (isDecOn w) log + (s.wk w).q ∧
    cntP isIncLow log = cntP isDecLow log + s.lowq := by
  have := q_runLog log w (init cfg) s h
  have h0 : ((init cfg).wk w).q = 0 := rfl
  have h1 : (init cfg).lowq = 0 := rfl
  omega

/-- **Every placed task was taken exactly once, or waits on a sleeping worker for the resume.**  In
    the final state of a maximal run, for a started worker `w < N`: if its thread is in its loop,
    the number of takes from its queues equals the number of placements; otherwise (`w` is asleep inside
    `wait`) the difference is what is still queued, and all of that was placed unguarded after the
    worker's final emptiness check or a pool suspend's unlocked CAS was involved. -/
theorem C19t_all_taken_or_awaiting_resume (cfg : Cfg) (N : Nat) (log : List Ev) (s : St)
    (h : runLog step (init cfg) log = some s) (hm : Maximal N s) (w : Nat) (hw : w < N)
    (hs : (s.wk w).actor ≠ none) :
    ((s.wk w).pc = .loop → cntP (isDecOn w) log = cntP (isIncOn w) log) ∧
    ((s.wk w).pc ≠ .loop → (s.wk w).pc = .waiting ∧ (s.wk w).st = rsSleeping ∧
        cntP (isIncOn w) log = cntP (isDecOn w) log + (s.wk w).q ∧
        ((s.wk w).dirty = true ∨ (s.wk w).q ≤ (s.wk w).late)) := by
  have hi := (inv_of_accepted h) w
  have hf := final_of_maximal N s (inv_of_accepted h) hm w hw
  have hc := (C19t_counters cfg log s h w).1
  refine ⟨?_, ?_⟩
  · intro hl
    have := hf.drained hl hs
    omega
  · intro hnl
    cases hf.pcFin with
    | inl hl => exact absurd hl hnl
    | inr hr =>
      refine ⟨hr.1, hr.2.2, hc, ?_⟩
      cases hd : (s.wk w).dirty with
      | true => exact Or.inl rfl
      | false => exact Or.inr (hi.strand (Or.inr hnl) hd)

/-- **A worker whose thread has not started is untouched** (the hypothesis `actor ≠ none` of
    `C19t_calls_returned` excludes only such workers): its state word is still `initialized`, it is
    not on the sleep path, nobody waits for it — a suspend call aimed at it returns at once, a resume
    call reads a state `≠ sleeping`. -/
theorem C19t_unstarted_untouched (cfg : Cfg) (s : St) (hr : Reachable cfg s) (w : Nat)
    (hs : (s.wk w).actor = none) :
    (s.wk w).st = rsInit ∧ (s.wk w).pc = .loop ∧ (s.wk w).waiters = [] ∧
    (∀ b v, (step s (.sdone b w v)).isSome = true) ∧ (∀ b, step s (.rload b w rsInit) = some s) := by
  obtain ⟨log, hl⟩ := hr
  obtain ⟨h1, h2, h3⟩ := invU_of_accepted hl w hs
  refine ⟨h1, h2, h3, ?_, ?_⟩
  · intro b v; simp [step, h3]
  · intro b; simp [step, h1]

/-- a completed PU suspend followed by a wake-up WITHOUT any notify -/
def spuriousLog : List Ev :=
  [.start 1 0 0, .slock 9 0, .cas 9 0 rsRunning rsPreSleep, .sunl 9 0, .top 0 rsPreSleep, .qlen 1 0 0,
   .chk 0 rsPreSleep true, .sleep 0, .sdone 9 0 rsSleeping, .wait 0, .woke 0, .wake 0 rsSleeping rsRunning]

/-- **"In the final state every worker's state word agrees with the last call aimed at it" is false**
    for the code as it is: `scheduler_base::suspend` calls `wait(l)` without a predicate, so a spurious
    wake-up of the condition variable (allowed by the standard, accepted by the model as `woke`
    without a preceding `notify`) makes the worker CAS itself back to `running` although no resume
    call was ever issued.  The history is accepted, contains no `notify`, ends in a maximal state, and
    the worker that was suspended last is `running`.  What does hold: the state word agrees with where
    the worker thread IS (`C19t_calls_returned`: `sleeping` iff inside `wait`), no request is left
    pending, and a worker with a pending resume call is not asleep (`C19t_resume_returned`). -/
theorem C19t_spurious_wakeup_unsuspends :
    (runLog step (init cfg2) spuriousLog).isSome = true ∧
    spuriousLog.all (fun e => match e with | .notify _ _ => false | _ => true) = true ∧
    Maximal 10 ((runLog step (init cfg2) spuriousLog).getD (init cfg2)) ∧
    (((runLog step (init cfg2) spuriousLog).getD (init cfg2)).wk 0).st = rsRunning := by
  refine ⟨by decide, by decide, by decide, by decide⟩

/-- the finding `lowprio-last-worker` as a history: worker 1 is the last worker; a low-priority task
    is staged; actor 9 asks worker 1 to sleep -/
def lowLog : List Ev :=
  [.start 1 0 0, .start 2 1 0, .incLow 7, .slock 9 1, .cas 9 1 rsRunning rsPreSleep, .sunl 9 1]

def lowSt : St := (runLog step (init cfg2) lowLog).getD (init cfg2)

/-- **"Every issued suspend call has returned in every maximal run" is false** for the code as it
    is: the history `lowLog` is accepted and ends in a MAXIMAL state (the last worker in `pre_sleep`
    can neither convert the staged low-priority task — `get_next_thread` with `!running` returns
    before looking at it — nor see its queue length 0, so it never commits to sleep) in which the
    suspender 9 is still waiting and its exit test `sdone` is rejected.  All `decide`-checked. -/
theorem C19t_low_priority_livelock :
    (runLog step (init cfg2) lowLog).isSome = true ∧ Maximal 10 lowSt ∧
    (lowSt.wk 1).st = rsPreSleep ∧ (lowSt.wk 1).waiters = [9] ∧ lowSt.lowq = 1 ∧
    (step lowSt (.sdone 9 1 rsPreSleep)).isNone = true ∧
    (step lowSt (.chk 1 rsPreSleep true)).isNone = true := by
  refine ⟨by decide, by decide, by decide, by decide, by decide, by decide, by decide⟩

/-- **A resumed worker takes its queued work within 4 of its own steps.**  From every reachable
    state in which worker `w` has been notified inside `wait` (or has already woken up) and has work
    queued, at most four steps of the worker thread alone (`woke`, the CAS `sleeping → running`, the
    loop-top sample, the take) bring it back to `running` in its loop with one task taken. -/
theorem C19t_resumed_takes_work (cfg : Cfg) (s : St) (hr : Reachable cfg s) (w a : Nat)
    (ha : (s.wk w).actor = some a) (hq : 0 < (s.wk w).q)
    (hpc : ((s.wk w).pc = .waiting ∧ (s.wk w).notified = true) ∨ (s.wk w).pc = .woken) :
    ∃ evs s', evs.length ≤ 4 ∧ runLog step s evs = some s' ∧
      (∀ e, e ∈ evs → evKey e = w ∧ weight e = 0) ∧
      (s'.wk w).st = rsRunning ∧ (s'.wk w).pc = .loop ∧ (s'.wk w).q + 1 = (s.wk w).q := by
  have hi := (inv_of_reachable hr) w
  cases hpc with
  | inl h =>
    have hst := hi.sleepSt (by rw [h.1]; decide) (by rw [h.1]; decide)
    refine ⟨[.woke w, .wake w rsSleeping rsRunning, .top w rsRunning, .dec a w], ?_⟩
    simp [runLog, step, h.1, hst, upd, ha, hq, evKey, weight]
    omega
  | inr h =>
    have hst := hi.sleepSt (by rw [h]; decide) (by rw [h]; decide)
    refine ⟨[.wake w rsSleeping rsRunning, .top w rsRunning, .dec a w], ?_⟩
    simp [runLog, step, h, hst, upd, ha, hq, evKey, weight]
    omega

/-! ## Non-vacuity -/

/-- the example run of `Props/C19.lean` (placement, PU suspend, drain, sleep, resume through the
    lost-notify window): weight 6 + 2·2 + 1 = 11, 11 effective events, the final state has measure 0
    — the bound of `C19t_bounded_mu` is attained — and is maximal -/
example : wsum C19.exampleLog = 11 ∧ nEff (init cfg2) C19.exampleLog = 11 ∧ nMoves C19.exampleLog = 8 := by decide

example : (runLog step (init cfg2) C19.exampleLog).map (mu 10) = some 0 := by decide

/-- its sources by kind: 1 request, 2 placements, 2 successful selections, 1 `slock`, no refusal:
    `kpu = 1, kpool = 0, m = 2, r = 0` gives `B = 11` in `C19t_bound_calls` — attained -/
example : (cnt isReq C19.exampleLog, cnt isPlace C19.exampleLog, cnt isSelOk C19.exampleLog,
    cnt isSlock C19.exampleLog, cnt isRefuse C19.exampleLog) = (1, 2, 2, 1, 0) := by decide

def exSt : St := (runLog step (init cfg2) C19.exampleLog).getD (init cfg2)

example : Maximal 10 exSt ∧ (exSt.wk 0).st = rsRunning ∧ (exSt.wk 0).q = 0 ∧ (exSt.wk 1).q = 0 := by decide

/-- a maximal state with a sleeping worker: after the suspend call of `exampleLog` (first 19 events)
    worker 0 owes `wait` and worker 1 a take; two owed steps later the state is maximal, worker 0 asleep inside `wait`,
    no suspender waiting (hypotheses and conclusion of `C19t_calls_returned` are inhabited) -/
def sleepSt : St := (runLog step (init cfg2) (C19.exampleLog.take 19 ++ [.wait 0, .dec 2 1])).getD (init cfg2)

example : (runLog step (init cfg2) (C19.exampleLog.take 19 ++ [.wait 0, .dec 2 1])).isSome = true ∧ Maximal 10 sleepSt ∧
    (sleepSt.wk 0).st = rsSleeping ∧ (sleepSt.wk 0).pc = .waiting ∧ (sleepSt.wk 0).waiters = [] ∧
    sleepSt.lowq = 0 ∧ (sleepSt.wk 0).actor ≠ none := by decide

/-- … and before that step the state is not maximal (`wait` is owed) -/
example : ¬ Maximal 10 ((runLog step (init cfg2) (C19.exampleLog.take 19)).getD (init cfg2)) := by decide

/-- stutters are accepted and change nothing: resume-loop polls on a running worker, lost notifies,
    foreign queue-length reads, returns of calls that were not refused -/
example : (runLog step (init cfg2)
    [.start 1 0 0, .rload 8 0 rsRunning, .rload 8 0 rsRunning, .notify 8 0, .notify 8 0, .qlen 5 0 0,
     .ret 8, .ret 8, .top 0 rsRunning, .qlen 1 0 0, .chk 0 rsRunning false, .top 0 rsRunning]).map
      (fun s => (mu 10 s, (s.wk 0).st)) = some (0, rsRunning) := by decide

/-- with a pending resume call on worker 0 the sleeping state is not maximal (a notify is owed);
    without one it is (`MaximalR` is inhabited on both sides) -/
example : MaximalR 10 (fun _ => false) sleepSt ∧ ¬ MaximalR 10 (fun w => w == 0) sleepSt := by decide

/-- an escalated placement on the sleeping worker 0 while worker 1 runs: `Maximal` without
    stealing steps, but the take by worker 1's thread is owed under `MaximalR`; after it every queue
    is empty (`C19t_work_executed_by_others` is not vacuous) -/
def stealLog : List Ev :=
  [.start 1 0 0, .start 2 1 0, .slock 9 0, .cas 9 0 rsRunning rsPreSleep, .sunl 9 0, .top 0 rsPreSleep,
   .qlen 1 0 0, .chk 0 rsPreSleep true, .sleep 0, .wait 0, .sel 7 0 rsSleeping rsSleeping true true,
   .inc 7 0, .unl 7 0]

def stealSt : St := (runLog step (init cfg2) stealLog).getD (init cfg2)
def stolenSt : St := (runLog step (init cfg2) (stealLog ++ [.dec 2 0])).getD (init cfg2)

example : (runLog step (init cfg2) (stealLog ++ [.dec 2 0])).isSome = true ∧ Maximal 10 stealSt ∧
    ¬ MaximalR 10 (fun _ => false) stealSt ∧ (stealSt.wk 0).q = 1 ∧ (stealSt.wk 0).st = rsSleeping ∧
    MaximalR 10 (fun _ => false) stolenSt ∧ (stolenSt.wk 0).q = 0 ∧ (stolenSt.wk 0).st = rsSleeping ∧
    (stolenSt.wk 1).st = rsRunning := by decide

/-- counters along the example run: 2 placements, 2 takes, nothing queued -/
example : (cntP (isIncOn 0) C19.exampleLog, cntP (isDecOn 0) C19.exampleLog, cntP (isIncOn 1) C19.exampleLog,
    cntP (isDecOn 1) C19.exampleLog) = (1, 1, 1, 1) := by decide

/-- a state satisfying the hypotheses of `C19t_resumed_takes_work`: an escalated placement on a
    sleeping worker, then the notify of a resume call -/
example : ∃ s, runLog step (init cfg2)
    [.start 1 0 0, .slock 9 0, .cas 9 0 rsRunning rsPreSleep, .sunl 9 0, .top 0 rsPreSleep, .qlen 1 0 0,
     .chk 0 rsPreSleep true, .sleep 0, .wait 0, .sel 7 0 rsSleeping rsSleeping true true, .inc 7 0, .unl 7 0,
     .notify 8 0] = some s ∧
    (s.wk 0).pc = .waiting ∧ (s.wk 0).notified = true ∧ (s.wk 0).q = 1 ∧ (s.wk 0).actor = some 1 := by
  refine ⟨_, rfl, ?_, ?_, ?_, ?_⟩ <;> decide

end PikaVerif.C19t
