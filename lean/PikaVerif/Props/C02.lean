import PikaVerif.Lemmas.Sched
import PikaVerif.Lemmas.Sched2
import PikaVerif.Props.C01
/-!
# C02 — no lost wake-up: a resumed task always runs again

Theorems about the protocol model `PikaVerif.Sched`, for the part of the property that is
protocol logic: `set_thread_state(thrd, pending)` issued by any actor (worker or plain OS
thread), the helper task `set_active_state` used when the target is still active, and the
scheduling token created by a successful suspended→pending exchange.  Loads and exchanges in
the E2 log are exact (performed under the log lock), so "the word the actor loaded" is the true
word at that moment.

Reading: a wake-up request can only end in one of three ways, each justified by an exact
observation (`C02_request_endings`); a successful wake creates the task's scheduling token and
the waker cannot leave before it has queued the task (`C02_wake_creates_token`,
`C02_winner_must_queue`); a task that is pending always carries its token
(`C01.C01_no_drop`), so it is popped and run again; and between a moment when the target was not
pending and a later moment when it is observed pending a transition into pending has happened
(`C02_observed_pending_implies_transition`).  With the ghost epochs of `Lemmas/Sched2.lean`
(epoch = number of transitions into pending) the endings are proved *effective*:
`C02_noop_effective` / `C02_done_effective` (when a request ends, the target was pending at
the moment it was issued, or has become pending since, or is terminated) and
`C02_helper_abort_sound` (a helper that gives up because the target is active with a different tag
has seen the target go through pending since the observation it was created from).  The one
unclaimed corner: a helper aborts also when only `state_ex` differs (same tag); see DESIGN.md.
(Follow-up C02x: that corner is closed, and the pieces are composed into the end-to-end theorem
`C02_no_lost_wakeup`, in `Props/C02x.lean`.)
-/
namespace PikaVerif.C02
open PikaVerif PikaVerif.Sched

/-- **A successful wake creates the scheduling token.**  After an accepted suspended→pending
    exchange by actor `a`, the object is pending, its token is with `a` (who owes the queue
    insertion), and `a` is in the `won` state. -/
theorem C02_wake_creates_token (s s' : St) (a o : Nat) (b af : W)
    (h : step s (.restore2 a o b af) = some s') (hchg : af ≠ b) (hsusp : (s.obj o).w.st = sSuspended) :
    (s'.obj o).w.st = sPending ∧ (s'.obj o).pusher = some a ∧ (s'.act a).sts = .won o ∧
    (s'.obj o).epoch = (s.obj o).epoch + 1 := by
  simp only [step] at h
  repeat' split at h
  all_goals first
    | (simp at h; done)
    | (rename_i hab; exact absurd hab hchg)
    | (simp only [Option.some.injEq] at h; subst h
       simp_all [upd, sSuspended, sBoost, sPending])

/-- **The winner must queue the task before it can leave.**  While an actor is in the `won`
    state (its exchange made the target pending) the model accepts none of the events by which
    `set_thread_state` returns or continues — only the queue insertion moves it on. -/
theorem C02_winner_must_queue (s : St) (a o : Nat) (hw : (s.act a).sts = .won o) :
    step s (.stsDone a o) = none ∧ step s (.stsNoop a o) = none ∧ step s (.stsHelper a o) = none ∧
    (∀ ns, step s (.stsEnter a o ns) = none) := by
  refine ⟨?_, ?_, ?_, ?_⟩ <;> simp [step, hw]

/-- The queue insertion by the winner is accepted (the model cannot get stuck there). -/
theorem C02_winner_can_queue (s : St) (hr : C01.Reachable s) (a o : Nat)
    (hl : (s.obj o).live = true) (hst : (s.obj o).w.st = sPending) (hp : (s.obj o).pusher = some a) :
    (step s (.push a o)).isSome = true := by
  simp [step, hl, hst, hp]

/-- **How a wake-up request can end.**  If an accepted event takes actor `a` from inside
    `set_thread_state` to outside, then `a` had loaded a word `lw` of the target `o` and either
    (1) `lw` was pending or terminated and nothing is done, (2) `lw` was active and a helper
    remembering `lw` now exists, or (3) `lw` is the pending word after `a`'s own successful exchange
    and queue insertion. -/
theorem C02_request_endings (s s' : St) (e : Ev) (a : Nat) (h : step s e = some s')
    (h1 : (s.act a).sts ≠ .out) (h2 : (s'.act a).sts = .out) :
    ∃ o lw le, (s.act a).sts = .loaded o lw le ∧
      ((e = .stsNoop a o ∧ (lw.st = sPending ∨ lw.st = sTerminated)) ∨
       (e = .stsHelper a o ∧ lw.st = sActive ∧ (lw, le) ∈ (s'.obj o).helpers) ∨
       (e = .stsDone a o ∧ pendingish lw = true)) := by
  cases e <;> simp only [step] at h <;> (repeat' split at h) <;>
    first
    | (simp at h; done)
    | (simp only [Option.some.injEq] at h; subst h; exfalso; exact h1 h2)
    | (simp only [Option.some.injEq] at h; subst h; simp only [upd] at h2; split at h2 <;>
        first
        | (exfalso; exact h1 h2)
        | (rename_i hc; subst hc; simp_all; done)
        | (rename_i hc; subst hc; simp_all [upd]; done)
        | (rename_i hc; subst hc; simp_all [upd]; refine ⟨_, _, _, ⟨rfl, rfl, rfl⟩, ?_⟩; simp_all; done)
        | (rename_i hc; subst hc; simp_all [upd]; refine ⟨_, _, ⟨rfl, rfl⟩, ?_⟩; simp_all; done)
        | (simp_all; done))

/-- **Observed pending ⇒ a transition into pending happened.**  Over any accepted log segment,
    if the target was not pending at the start and is pending at the end, its epoch (the count of
    transitions into a pending state) has grown. -/
theorem C02_observed_pending_implies_transition (seg : List Ev) (s1 s2 : St)
    (h : runLog step s1 seg = some s2) (o : Nat)
    (h1 : pendingish (s1.obj o).w = false) (h2 : pendingish (s2.obj o).w = true) :
    (s1.obj o).epoch < (s2.obj o).epoch := by
  have := obj_log seg s1 s2 h o
  by_cases heq : (s2.obj o).epoch = (s1.obj o).epoch
  · have := this.2 heq h2; rw [h1] at this; simp at this
  · omega

/-- A noop return is only accepted on an exact observation of `pending` or `terminated`. -/
theorem C02_noop_condition (s s' : St) (a o : Nat) (h : step s (.stsNoop a o) = some s') :
    ∃ lw le, (s.act a).sts = .loaded o lw le ∧ (lw.st = sPending ∨ lw.st = sTerminated) := by
  simp only [step] at h
  split at h
  · rename_i o' lw le hs
    split at h
    · rename_i hg; exact ⟨lw, le, by rw [hs, hg.1], hg.2⟩
    · simp at h
  · simp at h

/-- A helper gives up exactly under the code's condition on the words it loaded / remembers. -/
theorem C02_helper_abort_condition (s s' : St) (a o : Nat) (h : step s (.sasAbort a o) = some s') :
    ∃ cur prev he ce, (s.act a).sas = some (o, cur, prev, he, ce) ∧ cur.st = prev.st ∧ cur ≠ prev := by
  simp only [step] at h
  split at h
  · rename_i o' cur prev he ce hs
    split at h
    · rename_i hg; exact ⟨cur, prev, he, ce, by rw [hs, hg.1], hg.2.1, hg.2.2⟩
    · simp at h
  · simp at h


/-- **A request that ends with "nothing to do" was effective.**  If `set_thread_state` returns
    through the noop branch, the word it loaded was `terminated`, or the target was already
    pending (or terminated) when the request was issued (`issue = none`), or the target has made
    a transition into pending between the issue and that load (`ie < le`). -/
theorem C02_noop_effective (s s' : St) (hr : C01.Reachable s) (a o : Nat)
    (h : step s (.stsNoop a o) = some s') :
    ∃ lw le, (s.act a).sts = .loaded o lw le ∧
      (lw.st = sTerminated ∨ (s.act a).issue = none ∨ ∃ ie, (s.act a).issue = some ie ∧ ie < le) := by
  obtain ⟨log, hlog⟩ := hr
  have hi := inv2_of_accepted hlog
  obtain ⟨lw, le, hst, hc⟩ := C02_noop_condition s s' a o h
  refine ⟨lw, le, hst, ?_⟩
  rcases hc with hp | ht
  · cases hiss : (s.act a).issue with
    | none => exact Or.inr (Or.inl rfl)
    | some ie =>
      have := (hi.issue a ie hiss).ld o lw le hst
      exact Or.inr (Or.inr ⟨ie, rfl, this.2 (by simp [pendingish, hp])⟩)
  · exact Or.inl ht

/-- **A request that ends after its own exchange was effective** (same statement for the normal
    return: the loaded word is the pending word the actor itself produced and queued). -/
theorem C02_done_effective (s s' : St) (hr : C01.Reachable s) (a o : Nat)
    (h : step s (.stsDone a o) = some s') :
    ∃ lw le, (s.act a).sts = .loaded o lw le ∧ pendingish lw = true ∧
      ((s.act a).issue = none ∨ ∃ ie, (s.act a).issue = some ie ∧ ie < le) := by
  obtain ⟨log, hlog⟩ := hr
  have hi := inv2_of_accepted hlog
  simp only [step] at h
  split at h
  · rename_i o' lw le hs
    split at h
    · rename_i hg
      obtain ⟨ho, hp⟩ := hg
      subst ho
      refine ⟨lw, le, hs, hp, ?_⟩
      cases hiss : (s.act a).issue with
      | none => exact Or.inl rfl
      | some ie => exact Or.inr ⟨ie, rfl, ((hi.issue a ie hiss).ld o' lw le hs).2 hp⟩
    · simp at h
  · simp at h

/-- **A helper that gives up on a tag change is sound.**  The helper was created from an exact
    observation `prev` (active) made at epoch `he`; it loaded `cur` at epoch `ce`.  If it aborts
    with `cur.tag ≠ prev.tag`, then `he < ce`: the target has made a transition into pending
    (and hence was queued and run again, `C01_no_drop`) since that observation. -/
theorem C02_helper_abort_sound (s s' : St) (hr : C01.Reachable s) (a o : Nat)
    (h : step s (.sasAbort a o) = some s') :
    ∃ cur prev he ce, (s.act a).sas = some (o, cur, prev, he, ce) ∧ prev.st = sActive ∧
      cur.st = sActive ∧ (cur.tag ≠ prev.tag → he < ce) := by
  obtain ⟨log, hlog⟩ := hr
  have hi := inv2_of_accepted hlog
  obtain ⟨cur, prev, he, ce, hs, hst, hne⟩ := C02_helper_abort_condition s s' a o h
  have := hi.sas a o cur prev he ce hs
  obtain ⟨hle, hpa, htag⟩ := this
  refine ⟨cur, prev, he, ce, hs, hpa, by rw [hst]; exact hpa, ?_⟩
  intro hdiff
  by_cases heq : he = ce
  · exact absurd (htag heq (by rw [hst]; exact hpa)) hdiff
  · omega

/-! ## Non-vacuity: a wake-up aimed at a suspended task, and one aimed at an active task -/

def wS : W := ⟨sSuspended, 1, 2⟩

/-- task 1 suspended; actor 2 resumes it: load, exchange, queue, return; worker 1 runs it again -/
def wakeLog : List Ev :=
  C01.exampleLog ++
  [.stsEnter 2 1 sPending, .stsLoad 2 1 wS, .restore2 2 1 wS ⟨sPending, 1, 3⟩, .push 2 1, .stsDone 2 1,
   .got 1 1 ⟨sPending, 1, 3⟩ false, .tagged 1 1 ⟨sPending, 1, 3⟩ ⟨sActive, 1, 4⟩, .phaseBegin 1 1]

example : (runLog step init wakeLog).isSome = true := by decide

/-- the target is still active when the waker looks: helper; the target then suspends; the helper
    re-issues the request, which now finds it suspended -/
def helperLog : List Ev :=
  [.new 0 1 C01.w0, .push 0 1, .got 1 1 C01.w0 false, .tagged 1 1 C01.w0 ⟨sActive, 1, 1⟩, .phaseBegin 1 1,
   .stsEnter 2 1 sPending, .stsLoad 2 1 ⟨sActive, 1, 1⟩, .stsHelper 2 1,
   .phaseEnd 1 1 sSuspended, .restore1 1 1 ⟨sActive, 1, 1⟩ ⟨sSuspended, 1, 2⟩,
   .sasLoad 3 1 ⟨sSuspended, 1, 2⟩ ⟨sActive, 1, 1⟩, .sasRetry 3 1,
   .stsEnter 3 1 sPending, .stsLoad 3 1 ⟨sSuspended, 1, 2⟩, .restore2 3 1 ⟨sSuspended, 1, 2⟩ ⟨sPending, 1, 3⟩,
   .push 3 1, .stsDone 3 1]

example : (runLog step init helperLog).isSome = true := by decide

end PikaVerif.C02
