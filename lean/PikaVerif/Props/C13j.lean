import PikaVerif.Lemmas.JoinCatch
import PikaVerif.Lemmas.JoinCatchProgress
/-!
# C13, follow-up C13j: joins of a task whose user code handled an earlier `thread_interrupted`

Model `JoinCatch` (`Model/JoinCatch.lean`): the join acceptor (every hook event is judged by `Join.step`,
the code as it is) plus the event `caught o` — a handler of the USER code swallows the exception and the
task carries on inside its thread function.  The theorems quantify over every log accepted by that model
(`Reachable`): any number of tasks, handles, joins, interruptions and handlers, any interleaving.

What `thread::join` does with an interruption request that is already pending when it is entered:
`lock; joinable?; self?; interruption_point()` — the request is found **before**
`add_thread_exit_callback`, it is cleared, the lock is released by the unwinding, the exception leaves
`join`: nothing was registered on the target.  The theorems below say that this is what keeps every later
join of the same task sound; `C13j_register_first_releases_join_early` is the machine-checked failing log of
the variant that registers first (seeded change C13f).
-/
namespace PikaVerif.C13j
open PikaVerif PikaVerif.Join PikaVerif.JoinCatch

def Reachable (s : JoinCatch.St) : Prop := ∃ log, runLog JoinCatch.step JoinCatch.init log = some s

theorem Reachable.cinv {s : JoinCatch.St} (h : Reachable s) : CInv s := by
  obtain ⟨log, hl⟩ := h
  exact cinv_of_accepted hl

/-! ## (1) a join that ends with `thread_interrupted` at its entry leaves nothing behind -/

/-- **Callbacks registered = joins currently waiting, per target and joiner.**  In every reachable state, for
    every task `j` and target `o`: if `j` is inside `join` on `o` past the registration and before its wake-up,
    then exactly one of {its callback in `o`'s list, its callback taken out by `o`'s exit loop, the wake-up
    token} exists; otherwise no callback of `j` is on `o` (nor in `o`'s exit loop), and a task that is not
    waiting at all has no wake-up token — whatever interruptions `j` handled before. -/
theorem C13j_callbacks_eq_waiting_joins (s : JoinCatch.St) (hr : Reachable s) (j o : Nat) :
    (waitsB (s.base.jpc j) o = true →
        s.base.tok j + (cntL (s.base.funcs o) j + runCnt (s.base.phase o) j) = 1) ∧
    (waitsB (s.base.jpc j) o = false → cntL (s.base.funcs o) j + runCnt (s.base.phase o) j = 0) ∧
    (waitsAny (s.base.jpc j) = false → s.base.tok j = 0) := by
  have hi := hr.cinv.base
  refine ⟨hi.balance j o, ?_, fun hw => (no_stale_of_inv s.base hi j hw).1⟩
  intro hw
  have := hi.cbOwner j o
  by_cases h : 1 ≤ cntL (s.base.funcs o) j + runCnt (s.base.phase o) j
  · rw [this h] at hw; simp at hw
  · omega

/-- **A join that ends with `thread_interrupted` at its entry registers nothing.**  When the interruption
    point at the entry of `join` (task `j`, handle `h`, target `o`) finds the request, the task is outside
    `join`, `mtx_` of the handle is free again, the handle still refers to what it referred to (it stays
    joinable), no callback list and no token changed, and **no exit callback of `j` is registered on any
    target, none is in any exit loop, and `j` has no wake-up token**. -/
theorem C13j_entry_interruption_registers_nothing (s s' : JoinCatch.St) (hr : Reachable s) (j h o : Nat)
    (thr : Bool) (hp : s.base.jpc j = .checked h o)
    (hs : JoinCatch.step s (.base (.ipHit j thr)) = some s') :
    s'.base.jpc j = .out ∧ s'.base.mtx h = none ∧ s'.base.hid = s.base.hid ∧ s'.base.funcs = s.base.funcs ∧
      s'.base.tok = s.base.tok ∧ s'.entryIntr j = s.entryIntr j + 1 ∧
      s'.base.tok j = 0 ∧ ∀ o', cntL (s'.base.funcs o') j + runCnt (s'.base.phase o') j = 0 := by
  have hi' := (step_cinv s s' _ hr.cinv hs).base
  have shape : s'.base.jpc j = .out ∧ s'.base.mtx h = none ∧ s'.base.hid = s.base.hid ∧
      s'.base.funcs = s.base.funcs ∧ s'.base.tok = s.base.tok ∧ s'.entryIntr j = s.entryIntr j + 1 := by
    simp only [JoinCatch.step] at hs
    split at hs
    · rename_i b hb
      simp only [Option.some.injEq] at hs; subst hs
      simp only [Join.step, hp] at hb
      repeat' split at hb
      all_goals first
        | (simp at hb; done)
        | (simp only [Option.some.injEq] at hb; subst hb; simp [note, hp, atEntry])
    · simp at hs
  obtain ⟨a1, a2, a3, a4, a5, a6⟩ := shape
  have := no_stale_of_inv s'.base hi' j (by simp [a1])
  exact ⟨a1, a2, a3, a4, a5, a6, this.1, this.2⟩

/-! ## (2) every wake-up of a joiner comes from the target of its current join, after that target's function returned -/

/-- **`resume_thread(j)` is only ever run by the target of `j`'s CURRENT join**, from that target's exit-callback
    loop (so after its thread function returned), while `j` is waiting for exactly that target and has no other
    wake-up pending — also when `j` handled interruptions of earlier joins (`s.handled j` is arbitrary). -/
theorem C13j_resume_from_current_target (s s' : JoinCatch.St) (hr : Reachable s) (j r : Nat)
    (hs : JoinCatch.step s (.base (.resume j r)) = some s') :
    waitsB (s.base.jpc j) r = true ∧ started (s.base.phase r) = true ∧ afterBody (s.base.phase r) = true ∧
      s.base.tok j = 0 ∧ s'.base.tok j = 1 := by
  have hi := hr.cinv.base
  simp only [JoinCatch.step] at hs
  split at hs
  · rename_i b hb
    simp only [Option.some.injEq] at hs; subst hs
    simp only [Join.step] at hb
    split at hb
    · rename_i hg
      simp only [Option.some.injEq] at hb; subst hb
      have hw := hi.cbOwner j r (by simp [hg.1])
      have hbal := hi.balance j r hw
      simp only [hg.1, runCnt_run, cbIs_join, if_true] at hbal
      refine ⟨hw, by simp [hg.1], by simp [hg.1], by omega, ?_⟩
      dsimp only; simp only [upd_same]; omega
    · simp at hb
  · simp at hs

/-- **The suspension inside `join` only returns after the target of that join left its thread function**:
    when `jn.woke` is accepted for `j`, `j` is suspended in a join on some `o` and `o`'s exit-callback
    processing has begun. -/
theorem C13j_woke_by_current_target (s s' : JoinCatch.St) (hr : Reachable s) (h j : Nat)
    (hs : JoinCatch.step s (.base (.jnWoke h j)) = some s') :
    ∃ o, s.base.jpc j = .susp h o ∧ started (s.base.phase o) = true ∧ afterBody (s.base.phase o) = true := by
  have hi := hr.cinv.base
  simp only [JoinCatch.step] at hs
  split at hs
  · rename_i b hb
    simp only [Join.step] at hb
    split at hb
    · rename_i h' o hp
      split at hb
      · rename_i hg
        obtain ⟨hh, ht⟩ := hg
        subst hh
        have hst := hi.tokStarted j o (by simp [hp]) (by omega)
        exact ⟨o, hp, hst, started_afterBody _ hst⟩
      · simp at hb
    · simp at hb
  · simp at hs

/-- **join-after-exit, also for joiners that handled an earlier interruption.**  Whenever a `join` completes
    (`jn.done`), its own target has left its thread function and its exit-callback processing has begun — for
    every reachable state of `JoinCatch`, i.e. however many interrupted joins the task handled before. -/
theorem C13j_join_after_exit (s s' : JoinCatch.St) (hr : Reachable s) (h j : Nat)
    (hs : JoinCatch.step s (.base (.jnDone h j)) = some s') :
    ∃ o, (s.base.jpc j = .refused h o ∨ s.base.jpc j = .woke h o) ∧ started (s.base.phase o) = true ∧
      afterBody (s.base.phase o) = true ∧ s'.base.lastJoin j = some (h, o) := by
  simp only [JoinCatch.step] at hs
  split at hs
  · rename_i b hb
    simp only [Option.some.injEq] at hs; subst hs
    exact join_after_body_of_inv s.base b hr.cinv.base h j hb
  · simp at hs

/-- … and it stays true: the target recorded by the last completed join of any task is past its function. -/
theorem C13j_joined_target_finished (s : JoinCatch.St) (hr : Reachable s) (j h o : Nat)
    (hl : s.base.lastJoin j = some (h, o)) : started (s.base.phase o) = true ∧ afterBody (s.base.phase o) = true := by
  have hst := hr.cinv.base.lastJoinOk j h o hl
  exact ⟨hst, started_afterBody _ hst⟩

/-! ## (3) the interruption request is consumed exactly once -/

/-- **Every delivery consumes its own request.**  Per task: deliveries completed + the delivery in progress + the
    request still pending ≤ requests stored; interruptions handled by user code (or still propagating) ≤ deliveries.
    So one `interrupt()` gives at most one `thread_interrupted`: after the join entered with the pending request
    threw, the next join of the task (and every other interruption point) passes unless `interrupt()` is called
    again. -/
theorem C13j_request_consumed_once (s : JoinCatch.St) (hr : Reachable s) (t : Nat) :
    s.ndel t + hitN (s.base.phase t) + pendN (s.base.req t) (s.base.phase t) ≤ s.nreq t ∧
    s.handled t + unwN (s.base.phase t) ≤ s.ndel t :=
  ⟨hr.cinv.once t, hr.cinv.handledLe t⟩

/-- **… and it is consumed**: the delivery clears `requested_interrupt_` (counted once), and an interruption point
    that finds interruption enabled and a request stored cannot pass (`ip.test` miss is not accepted). -/
theorem C13j_delivery_clears_request (s s' : JoinCatch.St) (o : Nat)
    (hs : JoinCatch.step s (.base (.ipClear o)) = some s') :
    s.base.phase o = .hit ∧ s'.base.phase o = .unwinding ∧ s'.base.req o = false ∧ s'.ndel o = s.ndel o + 1 := by
  simp only [JoinCatch.step] at hs
  split at hs
  · rename_i b hb
    simp only [Option.some.injEq] at hs; subst hs
    obtain ⟨g1, g2, g3⟩ := step_ipClear s.base b o hb
    simp [g1, g2, g3, note]
  · simp at hs

theorem C13j_pending_request_is_delivered (s : JoinCatch.St) (o : Nat) (he : s.base.en o = true)
    (hq : s.base.req o = true) : JoinCatch.step s (.base (.ipMiss o)) = none := by
  simp [JoinCatch.step, Join.step, he, hq]

/-- the handler of the user code puts the task back into its thread function and changes nothing else of the join
    state (no callback, token, handle or lock is touched) -/
theorem C13j_caught_effect (s s' : JoinCatch.St) (o : Nat) (hs : JoinCatch.step s (.caught o) = some s') :
    s.base.phase o = .unwinding ∧ s.base.jpc o = .out ∧ s'.base.phase o = .body ∧ s'.handled o = s.handled o + 1 ∧
      s'.base.jpc = s.base.jpc ∧ s'.base.funcs = s.base.funcs ∧ s'.base.tok = s.base.tok ∧ s'.base.hid = s.base.hid ∧
      s'.base.mtx = s.base.mtx ∧ s'.base.req = s.base.req ∧ ∀ t, t ≠ o → s'.base.phase t = s.base.phase t := by
  simp only [JoinCatch.step] at hs
  split at hs
  · rename_i hg
    simp only [Option.some.injEq] at hs; subst hs
    refine ⟨hg.1, hg.2, by simp, by simp, rfl, rfl, rfl, rfl, rfl, rfl, ?_⟩
    intro t ht; simp [upd, ht]
  · simp at hs

/-! ## join always returns, also after handled interruptions -/

/-- the environment's choices are those of the join model (`C13.External`); an exception that propagates is never at
    rest (it reaches a handler of the user code — `caught` — or the one of `thread_function_nullary`) -/
def External (s : JoinCatch.St) : JoinCatch.Ev → Prop
  | .base e => C13.External s.base e
  | .caught _ => False

def Stuck (s : JoinCatch.St) : Prop := ∀ e, JoinCatch.step s e ≠ none → External s e

/-- **join always returns (progress), for tasks that handled interruptions as well.**  The statement of
    `C13_join_returns` over the reachable states of `JoinCatch`: in a stuck state every task is outside `join` or
    suspended in `join` without a wake-up token while ITS target has not left its thread function; no task is inside its
    exit-callback processing, at an interruption delivery or in an unhandled unwinding. -/
theorem C13j_join_returns (s : JoinCatch.St) (hr : Reachable s) (hs : Stuck s) :
    (∀ j, s.base.jpc j = .out ∨ ∃ h o, s.base.jpc j = .susp h o ∧ s.base.tok j = 0 ∧
        (s.base.phase o = .fresh ∨ s.base.phase o = .body)) ∧
    (∀ o, s.base.phase o = .fresh ∨ s.base.phase o = .body ∨ s.base.phase o = .exited) := by
  have hs' : C13.Stuck s.base := by
    intro e he
    have := hs (.base e) (by
      simp only [JoinCatch.step]
      cases h : Join.step s.base e with
      | none => exact absurd h he
      | some b => simp)
    exact this
  exact Join.join_returns_of_inv s.base hr.cinv.base hs'

/-! ## (4) the variant that registers before testing (seeded change C13f) -/

/-- tasks: 1 = creator, 2 = first target (handle 1), 3 = second target (handle 2), 4 = J (handle 3).  J is interrupted
    before it runs; `join(1)`: registered, unlocked, suspending: the interruption point inside `suspend` throws; J's
    handler; `join(2)`: registered, suspended; target 2 exits and runs the callback LEFT BEHIND; J's `join(2)` returns. -/
def rfWitness : List JoinCatch.Ev :=
  [.base (.body 1), .base (.start 1 2 1), .base (.start 2 3 1), .base (.start 3 4 1), .base (.ipReq 4 true),
   .base (.body 2), .base (.body 3), .base (.body 4),
   .base (.jnLock 1 4), .base (.jnChecked 1 4 2), .base (.ecAdd 2 4 1), .base (.jnUnlock 1 4), .base (.jnSusp 1 4),
   .base (.ipHit 4 true), .base (.ipClear 4), .caught 4,
   .base (.jnLock 2 4), .base (.jnChecked 2 4 3), .base (.ecAdd 3 4 1), .base (.jnUnlock 2 4), .base (.jnSusp 2 4),
   .base (.bodyDone 2), .base (.ecBegin 2 1), .base (.ecTake 2 0), .base (.resume 4 2), .base (.ecNext 2 0),
   .base (.ecRan 2), .base (.jnWoke 2 4), .base (.jnDone 2 4)]

/-- **Counterexample for the variant that registers first** (machine-checked, the log of the seeded tree
    `e2_join 1 0 joinpend 1 --pika:threads=1` with small numbers): the log is accepted by `stepRF`, and at its end
    J's second join (handle 2, target 3) has returned **while target 3 is still inside its thread function**; J handled
    exactly one interruption.  So `C13j_join_after_exit` / `C13j_joined_target_finished` are false of that variant. -/
theorem C13j_register_first_releases_join_early :
    ∃ s, runLog JoinCatch.stepRF JoinCatch.init rfWitness = some s ∧ s.base.lastJoin 4 = some (2, 3) ∧
      s.base.phase 3 = .body ∧ afterBody (s.base.phase 3) = false ∧ s.handled 4 = 1 ∧ s.base.hid 1 = some 2 := by
  refine ⟨_, rfl, ?_⟩
  decide

/-- the model of the code as it is rejects that log — at the `ec.add` that follows `jn.checked` without an
    interruption point in between (prefix of 10 events accepted, the 11th rejected) -/
theorem C13j_code_rejects_register_first :
    runLog JoinCatch.step JoinCatch.init rfWitness = none ∧
    (runLog JoinCatch.step JoinCatch.init (rfWitness.take 10)).isSome = true ∧
    runLog JoinCatch.step JoinCatch.init (rfWitness.take 11) = none := by
  decide

/-! ## Non-vacuity -/

/-- the `joinpend` program on the code as it is: J (task 4) interrupted before it runs, `join(1)` throws at its entry,
    J's handler, `join(2)` suspends; the creator joins target 2, which exits: only the creator is resumed -/
def pendLog : List JoinCatch.Ev :=
  [.base (.body 1), .base (.start 1 2 1), .base (.start 2 3 1), .base (.start 3 4 1), .base (.ipReq 4 true),
   .base (.body 2), .base (.body 3), .base (.body 4),
   .base (.jnLock 1 4), .base (.jnChecked 1 4 2), .base (.ipHit 4 true), .base (.ipClear 4), .caught 4,
   .base (.jnLock 2 4), .base (.jnChecked 2 4 3), .base (.ipMiss 4), .base (.ecAdd 3 4 1), .base (.jnUnlock 2 4),
   .base (.jnSusp 2 4),
   .base (.jnLock 1 1), .base (.jnChecked 1 1 2), .base (.ipMiss 1), .base (.ecAdd 2 1 1), .base (.jnUnlock 1 1),
   .base (.jnSusp 1 1), .base (.bodyDone 2), .base (.ecBegin 2 1), .base (.ecTake 2 0), .base (.resume 1 2),
   .base (.ecNext 2 0), .base (.ecRan 2), .base (.exited 2), .base (.term 2), .base (.jnWoke 1 1), .base (.jnDone 1 1)]

/-- after the first target exited J is still suspended in its second join, without a token; it handled one interruption,
    one join ended at its entry, the request was stored once and delivered once, the first handle is no longer joinable
    (the creator joined it), the second still is -/
example : ∃ s, runLog JoinCatch.step JoinCatch.init pendLog = some s ∧ s.base.jpc 4 = .susp 2 3 ∧ s.base.tok 4 = 0 ∧
    s.handled 4 = 1 ∧ s.entryIntr 4 = 1 ∧ s.nreq 4 = 1 ∧ s.ndel 4 = 1 ∧ s.base.req 4 = false ∧
    s.base.phase 3 = .body ∧ s.base.hid 1 = none ∧ s.base.hid 2 = some 3 := by
  refine ⟨_, rfl, ?_⟩
  decide

/-- … and the second join completes once its own target exits -/
example : ∃ s, runLog JoinCatch.step JoinCatch.init (pendLog ++
    [.base (.bodyDone 3), .base (.ecBegin 3 1), .base (.ecTake 3 0), .base (.resume 4 3), .base (.ecNext 3 0),
     .base (.ecRan 3), .base (.jnWoke 2 4), .base (.jnDone 2 4), .base (.bodyDone 4)]) = some s ∧
    s.base.lastJoin 4 = some (2, 3) ∧ started (s.base.phase 3) = true ∧ s.base.phase 4 = .finished ∧
    s.base.interrupted 4 = false := by
  refine ⟨_, rfl, ?_⟩
  decide

/-- the state right after the interrupted entry: handle 1 still joinable, its lock free, nothing registered on target 2 -/
example : ∃ s, runLog JoinCatch.step JoinCatch.init (pendLog.take 12) = some s ∧ s.base.phase 4 = .unwinding ∧
    s.base.hid 1 = some 2 ∧ s.base.mtx 1 = none ∧ s.base.funcs 2 = [] ∧ s.base.jpc 4 = .out := by
  refine ⟨_, rfl, ?_⟩
  decide

/-- without a handler in the user code the same interruption ends the thread as in the main model (`jn.interrupted`) -/
example : (runLog JoinCatch.step JoinCatch.init (pendLog.take 12 ++
    [.base (.interrupted 4), .base (.bodyDone 4), .base (.ecBegin 4 0), .base (.ecRan 4)])).isSome = true := by
  decide

/-- a second `interrupt()` after the handler is delivered at the entry of the next join: two requests, two deliveries -/
example : ∃ s, runLog JoinCatch.step JoinCatch.init (pendLog.take 13 ++
    [.base (.ipReq 4 true), .base (.jnLock 2 4), .base (.jnChecked 2 4 3), .base (.ipHit 4 true), .base (.ipClear 4),
     .caught 4]) = some s ∧ s.handled 4 = 2 ∧ s.entryIntr 4 = 2 ∧ s.nreq 4 = 2 ∧ s.ndel 4 = 2 ∧
     s.base.hid 2 = some 3 ∧ s.base.funcs 3 = [] := by
  refine ⟨_, rfl, ?_⟩
  decide

/-- a stuck state with J legitimately blocked in its second join (after the handled interruption) exists: `pendLog`
    ends in one when nobody releases target 3 (J suspended, no token, target 3 in its body) -/
example : ∃ s, runLog JoinCatch.step JoinCatch.init (pendLog ++ [.base (.joinable 1 1 false)]) = some s ∧
    s.base.jpc 4 = .susp 2 3 ∧ s.base.tok 4 = 0 ∧ s.base.phase 3 = .body ∧ s.base.phase 2 = .exited ∧ s.handled 4 = 1 := by
  refine ⟨_, rfl, ?_⟩
  decide

/-- a handler cannot be entered by a task that is not unwinding -/
example : JoinCatch.step JoinCatch.init (.caught 1) = none := by decide

end PikaVerif.C13j
