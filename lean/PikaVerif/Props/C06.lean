import PikaVerif.Lemmas.Mtx2
import PikaVerif.Lemmas.Rec
import PikaVerif.Lemmas.Excl
/-!
# C06 — Mutexes give mutual exclusion and always hand the lock on

Property theorems about the models `PikaVerif.Mtx` (`pika::mutex`, `pika::timed_mutex`),
`PikaVerif.Rec` (`recursive_mutex_impl<spinlock>`) and `PikaVerif.Spin` (bare spinlock).  Every
theorem quantifies over *all* accepted event logs of the model, i.e. over every number of tasks,
every program (mix of lock / try_lock / try_lock_for / unlock, including misuse) and every
interleaving.

"Holding the lock" is defined from observables only: `holdsG t` = the last lock-type call of
`t` reported success and `t` has not invoked `unlock` since (`inCS t` = `t` is between the
program's `cs.enter` / `cs.exit` marks, which it sets only while `holdsG t`).

Not covered (partial, see notes/C06.md): "writes made in one critical section are visible in
the next" is an acquire/release fact; the models are sequentially consistent.
-/
namespace PikaVerif.C06
open PikaVerif PikaVerif.Mtx

/-! ## pika::mutex / pika::timed_mutex -/

def Reachable (s : St) : Prop := ∃ n log, runLog step (init n) log = some s

/-- **Mutual exclusion.**  In every reachable state at most one task holds the mutex: two
    tasks whose lock / try_lock / try_lock_for reported success and that have not invoked
    `unlock` since are the same task; and that task is the recorded owner. -/
theorem C06_mutex_exclusion (s : St) (hr : Reachable s) (t u : Nat)
    (ht : s.holdsG t = true) (hu : s.holdsG u = true) : t = u ∧ s.owner = some t := by
  obtain ⟨n, log, hlog⟩ := hr
  obtain ⟨_, hi2⟩ := inv2_of_accepted hlog
  have h1 := hi2.hold1 t ht
  have h2 := hi2.hold1 u hu
  rw [h1] at h2
  exact ⟨by simpa using h2, h1⟩

/-- Critical sections of different tasks never overlap (state form). -/
theorem C06_mutex_cs_exclusive (s : St) (hr : Reachable s) (t u : Nat)
    (ht : s.inCS t = true) (hu : s.inCS u = true) : t = u := by
  have hr' := hr
  obtain ⟨n, log, hlog⟩ := hr
  obtain ⟨_, hi2⟩ := inv2_of_accepted hlog
  exact (C06_mutex_exclusion s hr' t u (hi2.csHold t ht) (hi2.csHold u hu)).1

/-- Number of `cs.enter` / `cs.exit` marks in a log. -/
def enters : List Ev → Nat
  | [] => 0
  | .csEnter _ :: l => enters l + 1
  | _ :: l => enters l

def exits : List Ev → Nat
  | [] => 0
  | .csExit _ :: l => exits l + 1
  | _ :: l => exits l

theorem cs_counters_step (s s' : St) (e : Ev) (h : step s e = some s') :
    s'.enters = s.enters + enters [e] ∧ s'.exits = s.exits + exits [e] := by
  cases e <;> simp only [step] at h <;> (repeat' split at h) <;>
    first | (simp at h; done) | (simp only [Option.some.injEq] at h; subst h; simp [enters, exits])

theorem cs_counters_log (log : List Ev) : ∀ (s s' : St), runLog step s log = some s' →
    s'.enters = s.enters + enters log ∧ s'.exits = s.exits + exits log := by
  induction log with
  | nil => intro s s' h; simp at h; subst h; simp [enters, exits]
  | cons e es ih =>
    intro s s' h
    simp only [runLog] at h
    cases hs : step s e with
    | none => simp [hs] at h
    | some s1 =>
      simp only [hs] at h
      have h1 := cs_counters_step s s1 e hs
      have h2 := ih s1 s' h
      have ht : enters (e :: es) = enters [e] + enters es := by cases e <;> simp [enters] <;> omega
      have ha : exits (e :: es) = exits [e] + exits es := by cases e <;> simp [exits] <;> omega
      refine ⟨?_, ?_⟩ <;> omega

/-- **No overlap in any history.**  At every instant of every accepted log (every prefix) the
    number of critical sections entered exceeds the number left by at most one. -/
theorem C06_mutex_no_overlap (n : Nat) (l₁ l₂ : List Ev) (s : St)
    (h : runLog step (init n) (l₁ ++ l₂) = some s) :
    exits l₁ ≤ enters l₁ ∧ enters l₁ ≤ exits l₁ + 1 := by
  obtain ⟨s₁, h1, _⟩ := runLog_prefix h
  obtain ⟨_, hi2⟩ := inv2_of_accepted h1
  have hc := cs_counters_log l₁ _ s₁ h1
  simp only [init] at hc
  have hocc := hi2.occSum
  have hle : sumTo s₁.n (fun t => b2n (s₁.inCS t)) ≤ 1 := by
    apply sumTo_le_one
    · intro t; cases s₁.inCS t <;> simp [b2n]
    · intro t u _ _ ht hu
      have ht' : s₁.inCS t = true := by cases hh : s₁.inCS t <;> simp [hh, b2n] at ht ⊢
      have hu' : s₁.inCS u = true := by cases hh : s₁.inCS u <;> simp [hh, b2n] at hu ⊢
      exact C06_mutex_cs_exclusive s₁ ⟨n, l₁, h1⟩ t u ht' hu'
  omega

/-- A state is *stuck* when the model accepts no event other than program-level ones: a task
    starting a new operation, ending its program, or marking a critical section. -/
def Stuck (s : St) : Prop :=
  ∀ e, (∀ t o, e ≠ .inv t o) → (∀ t, e ≠ .done t) → (∀ t, e ≠ .csEnter t) → (∀ t, e ≠ .csExit t) →
    step s e = none

/-- Parked in `lock()` with no wake-up token. -/
def Blocked (s : St) (t : Nat) : Prop := s.pc t = .susp false ∧ s.tok t = 0

/-- **Progress.**  The model can only be stuck in states where every task is between
    operations, finished, or parked in `lock()` without a pending wake-up: never with a task in
    the middle of `unlock` / `try_lock` / `try_lock_until`, holding the internal spinlock,
    notified-but-not-resumed, or sleeping on a deadline. -/
theorem C06_mutex_stuck_only_when_blocked (s : St) (hr : Reachable s) (hs : Stuck s) :
    ∀ t, t < s.n → s.pc t = .idle ∨ s.pc t = .fin ∨ Blocked s t := by
  obtain ⟨n, log, hlog⟩ := hr
  obtain ⟨hi, hi2⟩ := inv2_of_accepted hlog
  intro t htn
  have en : ∀ e, (∀ t o, e ≠ .inv t o) → (∀ t, e ≠ .done t) → (∀ t, e ≠ .csEnter t) →
      (∀ t, e ≠ .csExit t) → step s e ≠ none → False :=
    fun e h1 h2 h3 h4 h5 => h5 (hs e h1 h2 h3 h4)
  cases hl : s.lock with
  | some r =>
    exfalso
    obtain ⟨hh, hrn⟩ := hi2.lockConv r hl
    cases hp : s.pc r <;> simp [hp, holds] at hh
    case locked o =>
      cases o with
      | lock =>
        by_cases ho : s.owner = some r
        · exact en (.slRel r) (by simp) (by simp) (by simp) (by simp) (by simp [step, hrn, hl, hp, ho])
        · by_cases hn : s.owner = none
          · exact en (.own r 1 false) (by simp) (by simp) (by simp) (by simp) (by simp [step, hrn, hl, hp, hn])
          · exact en (.cvEnq r (s.queue.length + 1) false) (by simp) (by simp) (by simp) (by simp)
              (by simp [step, hrn, hl, hp, hn, ho])
      | tryl =>
        by_cases hn : s.owner = none
        · exact en (.own r 2 false) (by simp) (by simp) (by simp) (by simp) (by simp [step, hrn, hl, hp, hn])
        · exact en (.slRel r) (by simp) (by simp) (by simp) (by simp) (by simp [step, hrn, hl, hp, hn])
      | timed =>
        by_cases hn : s.owner = none
        · exact en (.own r 3 false) (by simp) (by simp) (by simp) (by simp) (by simp [step, hrn, hl, hp, hn])
        · exact en (.cvEnq r (s.queue.length + 1) true) (by simp) (by simp) (by simp) (by simp)
            (by simp [step, hrn, hl, hp, hn])
      | unlock =>
        by_cases ho : s.owner = some r
        · exact en (.disown r) (by simp) (by simp) (by simp) (by simp) (by simp [step, hrn, hl, hp, ho])
        · exact en (.slRel r) (by simp) (by simp) (by simp) (by simp) (by simp [step, hrn, hl, hp, ho])
    case again c =>
      by_cases hn : s.owner = none
      · exact en (.own r 1 false) (by simp) (by simp) (by simp) (by simp) (by simp [step, hrn, hl, hp, hn])
      · exact en (.cvEnq r (s.queue.length + 1) false) (by simp) (by simp) (by simp) (by simp)
          (by simp [step, hrn, hl, hp, hn])
    case sig =>
      by_cases hn : s.owner = none
      · exact en (.own r 3 false) (by simp) (by simp) (by simp) (by simp) (by simp [step, hrn, hl, hp, hn])
      · exact en (.slRel r) (by simp) (by simp) (by simp) (by simp) (by simp [step, hrn, hl, hp, hn])
    case enq tm => exact en (.slRel r) (by simp) (by simp) (by simp) (by simp) (by simp [step, hrn, hl, hp])
    case relk tm p =>
      cases p <;> cases tm
      · exact en (.cvWoke r true false) (by simp) (by simp) (by simp) (by simp) (by simp [step, hrn, hl, hp])
      · exact en (.cvWoke r true true) (by simp) (by simp) (by simp) (by simp) (by simp [step, hrn, hl, hp])
      · exact en (.cvWoke r false false) (by simp) (by simp) (by simp) (by simp) (by simp [step, hrn, hl, hp])
      · exact en (.cvWoke r false true) (by simp) (by simp) (by simp) (by simp) (by simp [step, hrn, hl, hp])
    case timedOut => exact en (.slRel r) (by simp) (by simp) (by simp) (by simp) (by simp [step, hrn, hl, hp])
    case owned o =>
      have hno : o ≠ .unlock := by
        have := hi2.resultOk r; rw [hp] at this; simpa [retnOk] using this
      exact en (.slRel r) (by simp) (by simp) (by simp) (by simp) (by simp [step, hrn, hl, hp, hno])
    case notified => exact en (.slRel r) (by simp) (by simp) (by simp) (by simp) (by simp [step, hrn, hl, hp])
    case disowned =>
      cases hq : s.queue with
      | nil => exact en (.cvNone r) (by simp) (by simp) (by simp) (by simp) (by simp [step, hrn, hl, hp, hq])
      | cons g rest =>
        have hgq : g ∈ s.queue := by rw [hq]; simp
        have hginQ := (hi.qIff g).1 hgq
        have hgr : g ≠ r := by intro he; rw [he, hp] at hginQ; simp [inQ] at hginQ
        have hnh : holds (s.pc g) = false := by
          cases hhg : holds (s.pc g) with
          | false => rfl
          | true => have := hi.lockHolder g hhg; rw [hl] at this; simp at this; exact absurd this.symm hgr
        have hsp : ∃ p', setPopped (s.pc g) = some p' := by
          cases hpg : s.pc g <;> simp [hpg, inQ, holds] at hginQ hnh <;> simp [setPopped, hginQ]
        obtain ⟨p', hp'⟩ := hsp
        exact en (.popResume r rest.length g (decide (s.pc g = .slp false))) (by simp) (by simp)
          (by simp) (by simp) (by simp [step, hrn, hl, hp, hq, hp'])
  | none =>
    have nh : holds (s.pc t) = false := by
      cases hh : holds (s.pc t) with
      | false => rfl
      | true => have := hi.lockHolder t hh; rw [hl] at this; simp at this
    cases hp : s.pc t <;> simp [hp, holds] at nh
    case idle => exact Or.inl rfl
    case fin => exact Or.inr (Or.inl rfl)
    case want o => exact (en (.slAcq t) (by simp) (by simp) (by simp) (by simp) (by simp [step, htn, hl, hp])).elim
    case unl tm p =>
      cases tm
      · exact (en (.suspend t) (by simp) (by simp) (by simp) (by simp) (by simp [step, htn, hp])).elim
      · exact (en (.sleep t) (by simp) (by simp) (by simp) (by simp) (by simp [step, htn, hp])).elim
    case susp p =>
      by_cases htok : 0 < s.tok t
      · exact (en (.woke t) (by simp) (by simp) (by simp) (by simp) (by simp [step, htn, hp, htok])).elim
      · cases p with
        | true => have := hi.wake t (Or.inr hp); omega
        | false => exact Or.inr (Or.inr ⟨hp, by omega⟩)
    case slp p => exact (en (.timeout t) (by simp) (by simp) (by simp) (by simp) (by simp [step, htn, hp])).elim
    case wokeNL tm p => exact (en (.slAcq t) (by simp) (by simp) (by simp) (by simp) (by simp [step, htn, hl, hp])).elim
    case retn o r => exact (en (.ret t r) (by simp) (by simp) (by simp) (by simp) (by simp [step, htn, hp])).elim

/-- **Hand-off / no lost unlock.**  In every reachable stuck state, if some task is still
    parked in `lock()` then the mutex is not free: it is owned by a task that holds it by
    program order (its lock call reported success and it has not invoked `unlock`).  Hence a
    task cannot stay blocked in `lock()` after the owner's `unlock`. -/
theorem C06_mutex_handoff (s : St) (hr : Reachable s) (hs : Stuck s) (t : Nat)
    (hb : Blocked s t) : ∃ u, s.owner = some u ∧ s.holdsG u = true := by
  have hq := C06_mutex_stuck_only_when_blocked s hr hs
  obtain ⟨n, log, hlog⟩ := hr
  obtain ⟨hi, hi2⟩ := inv2_of_accepted hlog
  have hz : wsum s = 0 := by
    apply sumTo_eq_zero
    intro u hu
    rcases hq u hu with h | h | h
    · simp [h, weight]
    · simp [h, weight]
    · simp [h.1, weight, b2n]
  have hin : t ∈ s.queue := (hi.qIff t).2 (by simp [hb.1, inQ])
  have hne : s.queue ≠ [] := by intro h; rw [h] at hin; simp at hin
  cases ho : s.owner with
  | none => have := hi.budget hne ho; omega
  | some u =>
    refine ⟨u, rfl, ?_⟩
    rcases hi2.ownerRev u ho with h | h
    · exact h
    · exfalso
      by_cases hun : u < s.n
      · rcases hq u hun with h' | h' | h'
        · simp [h', midOwn] at h
        · simp [h', midOwn] at h
        · simp [h'.1, midOwn] at h
      · have := hi.outside u (by omega); simp [this, midOwn] at h

/-- An `unlock` skips the notification only when no task is queued. -/
theorem C06_mutex_unlock_notifies (s s' : St) (t : Nat) (h : step s (.cvNone t) = some s') :
    s.queue = [] := by
  simp only [step] at h
  split at h
  · rename_i hg; exact hg.2.2
  · simp at h

theorem ret_pc {s s' : St} {t : Nat} {r : Res} (h : step s (.ret t r) = some s') :
    ∃ o, s.pc t = .retn o r ∧ (r = .ok → o ≠ .unlock → s'.holdsG t = true) := by
  simp only [step] at h
  split at h
  · split at h
    · rename_i o b hp
      split at h
      · rename_i hb; subst hb
        refine ⟨o, hp, ?_⟩
        intro h1 h2
        simp only [Option.some.injEq] at h; subst h
        simp [h1, h2]
      · simp at h
    · simp at h
  · simp at h

/-- Between operations, being the recorded owner and holding by program order coincide. -/
theorem C06_mutex_owner_iff_holds (s : St) (hr : Reachable s) (t : Nat) (hp : s.pc t = .idle) :
    s.owner = some t ↔ s.holdsG t = true := by
  obtain ⟨n, log, hlog⟩ := hr
  obtain ⟨_, hi2⟩ := inv2_of_accepted hlog
  constructor
  · intro ho
    rcases hi2.ownerRev t ho with h | h
    · exact h
    · simp [hp, midOwn] at h
  · exact hi2.hold1 t

/-- **try_lock is honest.**  `try_lock` reports true or false; true exactly when this call
    wrote `owner_id_ = self` (and then the caller is the owner and holds the mutex); false
    means the call changed neither the owner nor the wait queue. -/
theorem C06_mutex_trylock_sound (s s' : St) (hr : Reachable s) (t : Nat) (r : Res)
    (hop : s.curOp t = .tryl) (h : step s (.ret t r) = some s') :
    (r = .ok ∨ r = .fail) ∧ (r = .ok ↔ s.tookOp t = true) ∧
    (r = .ok → s.owner = some t ∧ s'.holdsG t = true) ∧ (r = .fail → s.touched t = false) := by
  obtain ⟨n, log, hlog⟩ := hr
  obtain ⟨_, hi2⟩ := inv2_of_accepted hlog
  obtain ⟨o, hp, hh⟩ := ret_pc h
  have ho : o = .tryl := by have := hi2.opOk t; rw [hp, hop] at this; simpa [pcOpOk] using this
  subst ho
  have h1 := hi2.resultOk t; rw [hp] at h1; simp [retnOk, resOk] at h1
  have h2 := hi2.took t _ (by rw [hp]; rfl)
  have h3 := hi2.ownStage t
  have h4 := hi2.untouchedOk t
  rw [hp] at h3 h4
  refine ⟨h1, ?_, ?_, ?_⟩
  · rw [h2]; simp
  · intro hr'; subst hr'; exact ⟨h3 (by simp [ownSt]), hh rfl (by simp)⟩
  · intro hr'; subst hr'; exact h4 (by simp [untouched])

/-- **try_lock_until / try_lock_for is honest.**  True implies the caller wrote
    `owner_id_ = self`, is the owner and holds the mutex; false implies this call never wrote
    `owner_id_` (ownership unchanged by the call). -/
theorem C06_mutex_timed_sound (s s' : St) (hr : Reachable s) (t : Nat) (r : Res)
    (hop : s.curOp t = .timed) (h : step s (.ret t r) = some s') :
    (r = .ok ∨ r = .fail) ∧ (r = .ok → s.owner = some t ∧ s.tookOp t = true ∧ s'.holdsG t = true) ∧
    (r = .fail → s.tookOp t = false) := by
  obtain ⟨n, log, hlog⟩ := hr
  obtain ⟨_, hi2⟩ := inv2_of_accepted hlog
  obtain ⟨o, hp, hh⟩ := ret_pc h
  have ho : o = .timed := by have := hi2.opOk t; rw [hp, hop] at this; simpa [pcOpOk] using this
  subst ho
  have h1 := hi2.resultOk t; rw [hp] at h1; simp [retnOk, resOk] at h1
  have h2 := hi2.took t _ (by rw [hp]; rfl)
  have h3 := hi2.ownStage t
  rw [hp] at h3
  refine ⟨h1, ?_, ?_⟩
  · intro hr'; subst hr'; exact ⟨h3 (by simp [ownSt]), by rw [h2]; simp, hh rfl (by simp)⟩
  · intro hr'; subst hr'; rw [h2]; simp

/-- `ownedAtInv t` records whether `owner_id_` was the caller when it invoked the operation. -/
theorem C06_mutex_ownedAtInv_def (s s' : St) (t : Nat) (o : Op) (h : step s (.inv t o) = some s') :
    s'.ownedAtInv t = decide (s.owner = some t) := by
  simp only [step] at h
  split at h
  · simp only [Option.some.injEq] at h; subst h; simp
  · simp at h

/-- **Misuse: re-locking an owned mutex is reported.**  `lock()` invoked by the owner reports
    the deadlock error, the call changed neither `owner_id_` nor the wait queue, and the caller
    still owns the mutex; `lock()` invoked by a non-owner reports success with the caller as
    owner (and never the error). -/
theorem C06_mutex_misuse_relock (s s' : St) (hr : Reachable s) (t : Nat) (r : Res)
    (hop : s.curOp t = .lock) (h : step s (.ret t r) = some s') :
    (s.ownedAtInv t = true → r = .errDeadlock ∧ s.touched t = false ∧ s.owner = some t) ∧
    (s.ownedAtInv t = false → r = .ok ∧ s.owner = some t ∧ s.tookOp t = true ∧ s'.holdsG t = true) := by
  obtain ⟨n, log, hlog⟩ := hr
  obtain ⟨_, hi2⟩ := inv2_of_accepted hlog
  obtain ⟨o, hp, hh⟩ := ret_pc h
  have ho : o = .lock := by have := hi2.opOk t; rw [hp, hop] at this; simpa [pcOpOk] using this
  subst ho
  have h1 := hi2.resultOk t; rw [hp] at h1; simp [retnOk, resOk] at h1
  have h2 := hi2.took t _ (by rw [hp]; rfl)
  have h3 := hi2.ownStage t
  have h4 := hi2.untouchedOk t
  have h5 := hi2.owned t (decide (r = .errDeadlock)) (by rw [hp]; simp [expOwned])
  have h6 := hi2.dlOwner t
  rw [hp] at h3 h4 h6
  constructor
  · intro hoi
    rw [hoi] at h5
    have hr' : r = .errDeadlock := by simpa using h5.symm
    subst hr'
    exact ⟨rfl, h4 (by simp [untouched]), h6 (by simp [isDl])⟩
  · intro hoi
    rw [hoi] at h5
    have hne : r ≠ .errDeadlock := by simpa using h5.symm
    have hr' : r = .ok := by
      rcases h1 with h1 | h1
      · exact h1
      · exact absurd h1 hne
    subst hr'
    exact ⟨rfl, h3 (by simp [ownSt]), by rw [h2]; simp, hh rfl (by simp)⟩

/-- **Misuse: unlocking a foreign mutex is reported.**  `unlock()` invoked by a task that is
    not the owner reports `lock_error` and the call changed neither `owner_id_` nor the wait
    queue; `unlock()` invoked by the owner succeeds. -/
theorem C06_mutex_misuse_foreign_unlock (s s' : St) (hr : Reachable s) (t : Nat) (r : Res)
    (hop : s.curOp t = .unlock) (h : step s (.ret t r) = some s') :
    (s.ownedAtInv t = false → r = .errLock ∧ s.touched t = false) ∧
    (s.ownedAtInv t = true → r = .ok) := by
  obtain ⟨n, log, hlog⟩ := hr
  obtain ⟨_, hi2⟩ := inv2_of_accepted hlog
  obtain ⟨o, hp, _⟩ := ret_pc h
  have ho : o = .unlock := by have := hi2.opOk t; rw [hp, hop] at this; simpa [pcOpOk] using this
  subst ho
  have h1 := hi2.resultOk t; rw [hp] at h1; simp [retnOk, resOk] at h1
  have h4 := hi2.untouchedOk t
  have h5 := hi2.owned t (decide (r = .ok)) (by rw [hp]; simp [expOwned])
  rw [hp] at h4
  constructor
  · intro hoi
    rw [hoi] at h5
    have hne : r ≠ .ok := by simpa using h5.symm
    have hr' : r = .errLock := by
      rcases h1 with h1 | h1
      · exact absurd h1 hne
      · exact h1
    subst hr'
    exact ⟨rfl, h4 (by simp [untouched])⟩
  · intro hoi
    rw [hoi] at h5
    simpa using h5.symm

/-! ### Non-vacuity -/

/-- task 0 locks, task 1 blocks in lock(), task 0 unlocks and hands over, task 1 acquires -/
def exampleLog : List Ev :=
  [.inv 0 .lock, .slAcq 0, .own 0 1 false, .slRel 0, .ret 0 .ok, .csEnter 0,
   .inv 1 .lock, .slAcq 1, .cvEnq 1 1 false, .slRel 1, .suspend 1,
   .csExit 0, .inv 0 .unlock, .slAcq 0, .disown 0, .popResume 0 0 1 false, .slRel 0, .ret 0 .ok,
   .woke 1, .slAcq 1, .cvWoke 1 false false, .own 1 1 false, .slRel 1, .ret 1 .ok, .csEnter 1]

example : (runLog step (init 2) exampleLog).isSome = true := by decide

/-- a stuck state with a blocked locker exists (owner never unlocks) -/
example : ∃ s, runLog step (init 2)
    [.inv 0 .lock, .slAcq 0, .own 0 1 false, .slRel 0, .ret 0 .ok,
     .inv 1 .lock, .slAcq 1, .cvEnq 1 1 false, .slRel 1, .suspend 1] = some s ∧ Blocked s 1 := by
  refine ⟨_, rfl, ?_⟩
  simp [Blocked, upd, init]

/-- misuse histories are accepted: relock by the owner, unlock by a non-owner -/
example : (runLog step (init 2)
    [.inv 0 .lock, .slAcq 0, .own 0 1 false, .slRel 0, .ret 0 .ok,
     .inv 0 .lock, .slAcq 0, .slRel 0, .ret 0 .errDeadlock,
     .inv 1 .unlock, .slAcq 1, .slRel 1, .ret 1 .errLock]).isSome = true := by decide

/-- a timed lock that is signalled but finds the mutex taken again returns false -/
example : (runLog step (init 2)
    [.inv 0 .lock, .slAcq 0, .own 0 1 false, .slRel 0, .ret 0 .ok,
     .inv 1 .timed, .slAcq 1, .cvEnq 1 1 true, .slRel 1, .sleep 1,
     .inv 0 .unlock, .slAcq 0, .disown 0, .popResume 0 0 1 true, .slRel 0, .ret 0 .ok,
     .inv 0 .tryl, .slAcq 0, .own 0 2 false, .slRel 0, .ret 0 .ok,
     .timeout 1, .slAcq 1, .cvWoke 1 false true, .slRel 1, .ret 1 .fail]).isSome = true := by decide

end PikaVerif.C06

/-! ## recursive_mutex_impl<spinlock> -/
namespace PikaVerif.C06
open PikaVerif PikaVerif.Rec

def RReachable (s : St) : Prop := ∃ n log, runLog step (init n) log = some s

/-- **Mutual exclusion (recursive).**  `depthG t` = successful `lock`/`try_lock` returns of `t`
    minus its `unlock` invocations.  At most one thread has positive depth, and it is the
    recorded `locking_context`. -/
theorem C06_recursive_exclusion (s : St) (hr : RReachable s) (t u : Nat)
    (ht : 0 < s.depthG t) (hu : 0 < s.depthG u) : t = u ∧ s.ctx = some t := by
  obtain ⟨n, log, hlog⟩ := hr
  have hi := rinv_of_accepted hlog
  have h1 : s.ctx = some t := by
    by_cases hc : s.ctx = some t
    · exact hc
    · have := (hi.notOwner t hc).1; omega
  have h2 : s.ctx = some u := by
    by_cases hc : s.ctx = some u
    · exact hc
    · have := (hi.notOwner u hc).1; omega
  rw [h1] at h2
  exact ⟨by simpa using h2, h1⟩

/-- **Recursive depth.**  Between operations of the owner, `recursion_count` equals the
    owner's locks minus unlocks (and is positive); every other thread has depth 0. -/
theorem C06_recursive_depth (s : St) (hr : RReachable s) (t : Nat) :
    (s.ctx = some t → s.pc t = .idle → s.cnt = s.depthG t ∧ 0 < s.depthG t) ∧
    (s.ctx ≠ some t → s.depthG t = 0) := by
  obtain ⟨n, log, hlog⟩ := hr
  have hi := rinv_of_accepted hlog
  constructor
  · intro hc hp
    have h1 := hi.depth t hc
    have h2 := hi.cntPos t hc
    rw [hp] at h1 h2
    simp [pend, isZeroed] at h1 h2
    omega
  · intro hc; exact (hi.notOwner t hc).1

def renters : List Ev → Nat
  | [] => 0
  | .csEnter _ :: l => renters l + 1
  | _ :: l => renters l

def rexits : List Ev → Nat
  | [] => 0
  | .csExit _ :: l => rexits l + 1
  | _ :: l => rexits l

theorem rcs_counters_step (s s' : St) (e : Ev) (h : step s e = some s') :
    s'.enters = s.enters + renters [e] ∧ s'.exits = s.exits + rexits [e] := by
  cases e <;> simp only [step] at h <;> (repeat' split at h) <;>
    first | (simp at h; done) | (simp only [Option.some.injEq] at h; subst h; simp [renters, rexits])

theorem rcs_counters_log (log : List Ev) : ∀ (s s' : St), runLog step s log = some s' →
    s'.enters = s.enters + renters log ∧ s'.exits = s.exits + rexits log := by
  induction log with
  | nil => intro s s' h; simp at h; subst h; simp [renters, rexits]
  | cons e es ih =>
    intro s s' h
    simp only [runLog] at h
    cases hs : step s e with
    | none => simp [hs] at h
    | some s1 =>
      simp only [hs] at h
      have h1 := rcs_counters_step s s1 e hs
      have h2 := ih s1 s' h
      have ht : renters (e :: es) = renters [e] + renters es := by cases e <;> simp [renters] <;> omega
      have ha : rexits (e :: es) = rexits [e] + rexits es := by cases e <;> simp [rexits] <;> omega
      refine ⟨?_, ?_⟩ <;> omega

/-- Critical sections (outermost lock … outermost unlock) never overlap in any history. -/
theorem C06_recursive_no_overlap (n : Nat) (l₁ l₂ : List Ev) (s : St)
    (h : runLog step (init n) (l₁ ++ l₂) = some s) :
    rexits l₁ ≤ renters l₁ ∧ renters l₁ ≤ rexits l₁ + 1 := by
  obtain ⟨s₁, h1, _⟩ := runLog_prefix h
  have hi := rinv_of_accepted h1
  have hc := rcs_counters_log l₁ _ s₁ h1
  simp only [init] at hc
  have hocc := hi.occSum
  have hle : sumTo s₁.n (fun t => Rec.b2n (s₁.inCS t)) ≤ 1 := by
    apply sumTo_le_one
    · intro t; cases s₁.inCS t <;> simp [Rec.b2n]
    · intro t u _ _ ht hu
      have ht' : s₁.inCS t = true := by cases hh : s₁.inCS t <;> simp [hh, Rec.b2n] at ht ⊢
      have hu' : s₁.inCS u = true := by cases hh : s₁.inCS u <;> simp [hh, Rec.b2n] at hu ⊢
      exact (C06_recursive_exclusion s₁ ⟨n, l₁, h1⟩ t u (hi.csHold t ht') (hi.csHold u hu')).1
  omega

def RStuck (s : St) : Prop :=
  ∀ e, (∀ t o, e ≠ .inv t o) → (∀ t, e ≠ .done t) → (∀ t, e ≠ .csEnter t) → (∀ t, e ≠ .csExit t) →
    step s e = none

/-- Spinning in `lock()`: not the owner, and the internal spinlock is taken. -/
def RWaiting (s : St) (t : Nat) : Prop := s.pc t = .want .rlock ∧ s.ctx ≠ some t ∧ s.v ≠ none

/-- **Progress (recursive).**  Stuck only with every thread between operations, finished, or
    spinning in `lock()` on a taken spinlock. -/
theorem C06_recursive_stuck_only_when_waiting (s : St) (hr : RReachable s) (hs : RStuck s) :
    ∀ t, t < s.n → s.pc t = .idle ∨ s.pc t = .fin ∨ RWaiting s t := by
  obtain ⟨n, log, hlog⟩ := hr
  have hi := rinv_of_accepted hlog
  intro t htn
  have en : ∀ e, (∀ t o, e ≠ .inv t o) → (∀ t, e ≠ .done t) → (∀ t, e ≠ .csEnter t) →
      (∀ t, e ≠ .csExit t) → step s e ≠ none → False :=
    fun e h1 h2 h3 h4 h5 => h5 (hs e h1 h2 h3 h4)
  cases hp : s.pc t
  case idle => exact Or.inl rfl
  case fin => exact Or.inr (Or.inl rfl)
  case want o =>
    cases o with
    | rlock =>
      by_cases hc : s.ctx = some t
      · exact (en (.reent t (s.cnt + 1)) (by simp) (by simp) (by simp) (by simp) (by simp [step, htn, hc, hp])).elim
      · by_cases hv : s.v = none
        · exact (en (.slAcq t) (by simp) (by simp) (by simp) (by simp) (by simp [step, htn, hc, hv, hp])).elim
        · exact Or.inr (Or.inr ⟨hp, hc, hv⟩)
    | rtry =>
      by_cases hc : s.ctx = some t
      · exact (en (.reent t (s.cnt + 1)) (by simp) (by simp) (by simp) (by simp) (by simp [step, htn, hc, hp])).elim
      · by_cases hv : s.v = none
        · exact (en (.slTry t true) (by simp) (by simp) (by simp) (by simp) (by simp [step, htn, hc, hv, hp])).elim
        · exact (en (.slTry t false) (by simp) (by simp) (by simp) (by simp) (by simp [step, htn, hc, hv, hp])).elim
    | runlock =>
      have hc := want_unlock_owner hi t hp
      have hd := hi.depth t hc
      rw [hp] at hd
      simp [pend, Rec.b2n] at hd
      by_cases h1 : s.cnt = 1
      · exact (en (.zero t) (by simp) (by simp) (by simp) (by simp) (by simp [step, htn, h1, hp])).elim
      · exact (en (.dec t (s.cnt - 1)) (by simp) (by simp) (by simp) (by simp)
          (by simp [step, htn, hp]; omega)).elim
  case got o =>
    have hno : o ≠ .runlock := by have := hi.gotWf t; rw [hp] at this; simpa [gotOk] using this
    exact (en (.own t (ownKind o)) (by simp) (by simp) (by simp) (by simp) (by simp [step, htn, hp, hno])).elim
  case zeroed => exact (en (.free t) (by simp) (by simp) (by simp) (by simp) (by simp [step, htn, hp])).elim
  case retn o r => exact (en (.ret t r) (by simp) (by simp) (by simp) (by simp) (by simp [step, htn, hp])).elim

/-- **Hand-off (recursive).**  In a reachable stuck state a thread spinning in `lock()` implies
    that another thread really holds the mutex (positive depth by program order): no unlock
    is lost. -/
theorem C06_recursive_handoff (s : St) (hr : RReachable s) (hs : RStuck s) (t : Nat)
    (hw : RWaiting s t) : ∃ u, u ≠ t ∧ s.ctx = some u ∧ 0 < s.depthG u := by
  have hq := C06_recursive_stuck_only_when_waiting s hr hs
  obtain ⟨n, log, hlog⟩ := hr
  have hi := rinv_of_accepted hlog
  obtain ⟨_, hct, hv⟩ := hw
  cases hvv : s.v with
  | none => exact absurd hvv hv
  | some u =>
    have hpu : s.pc u = .idle ∨ s.pc u = .fin ∨ RWaiting s u := by
      by_cases hun : u < s.n
      · exact hq u hun
      · exact Or.inl (hi.outside u (by omega)).1
    have hcu : s.ctx = some u := by
      rcases hi.vRev u hvv with h | h
      · exact h
      · rcases hpu with h' | h' | h' <;> simp [h', isGot] at h
        simp [h'.1] at h
    have hut : u ≠ t := by intro he; subst he; exact hct hcu
    refine ⟨u, hut, hcu, ?_⟩
    have hd := hi.depth u hcu
    have hp := hi.cntPos u hcu
    rcases hpu with h' | h' | h'
    · rw [h'] at hd hp; simp [pend, isZeroed] at hd hp; omega
    · rw [h'] at hd hp; simp [pend, isZeroed] at hd hp; omega
    · exact absurd hcu h'.2.1

/-- **try_lock / lock results (recursive).**  A lock-type call reports true exactly when it
    re-entered or took ownership in this call; true makes the caller the `locking_context` and
    raises its depth by one, false leaves its depth unchanged. -/
theorem C06_recursive_trylock_sound (s s' : St) (hr : RReachable s) (t : Nat) (o : Op) (r : Bool)
    (hp : s.pc t = .retn o r) (ho : o ≠ .runlock) (h : step s (.ret t r) = some s') :
    s.tookOp t = r ∧ (r = true → s.ctx = some t ∧ s'.depthG t = s.depthG t + 1) ∧
    (r = false → s'.depthG t = s.depthG t) := by
  obtain ⟨n, log, hlog⟩ := hr
  have hi := rinv_of_accepted hlog
  have h1 := hi.took t r (by rw [hp]; simp [expectTook, ho])
  simp only [step, hp] at h
  split at h
  · simp only [if_true, Option.some.injEq] at h
    subst h
    refine ⟨h1, ?_, ?_⟩
    · intro hr'; subst hr'
      refine ⟨?_, by simp [ho]⟩
      by_cases hc : s.ctx = some t
      · exact hc
      · have := (hi.notOwner t hc).2.1; rw [hp] at this; simp [pend, Rec.b2n, ho] at this
    · intro hr'; subst hr'; simp
  · simp at h

/-- non-vacuity: re-entrant locking, hand-over to a spinning thread -/
example : (runLog step (init 2)
    [.inv 0 .rlock, .slAcq 0, .own 0 1, .ret 0 true, .csEnter 0, .inv 0 .rtry, .reent 0 2, .ret 0 true,
     .inv 1 .rtry, .slTry 1 false, .ret 1 false, .inv 1 .rlock,
     .inv 0 .runlock, .dec 0 1, .ret 0 true, .csExit 0, .inv 0 .runlock, .zero 0, .free 0, .ret 0 true,
     .slAcq 1, .own 1 1, .ret 1 true, .csEnter 1]).isSome = true := by decide

example : ∃ s, runLog step (init 2)
    [.inv 0 .rlock, .slAcq 0, .own 0 1, .ret 0 true, .inv 1 .rlock] = some s ∧ RWaiting s 1 := by
  refine ⟨_, rfl, ?_⟩
  simp [RWaiting, upd]

end PikaVerif.C06

/-! ## bare spinlock -/
namespace PikaVerif.C06
open PikaVerif PikaVerif.Spin

def SReachable (s : St) : Prop := ∃ n log, runLog step (init n) log = some s

/-- **Mutual exclusion (spinlock).**  At most one thread holds the spinlock (its `lock` /
    `try_lock` reported success and it has not invoked `unlock` since). -/
theorem C06_spin_exclusion (s : St) (hr : SReachable s) (t u : Nat)
    (ht : s.holdsG t = true) (hu : s.holdsG u = true) : t = u ∧ s.v = some t := by
  obtain ⟨n, log, hlog⟩ := hr
  have hi := sinv_of_accepted hlog
  have h1 := hi.hold1 t ht
  have h2 := hi.hold1 u hu
  rw [h1] at h2
  exact ⟨by simpa using h2, h1⟩

def senters : List Ev → Nat
  | [] => 0
  | .csEnter _ :: l => senters l + 1
  | _ :: l => senters l

def sexits : List Ev → Nat
  | [] => 0
  | .csExit _ :: l => sexits l + 1
  | _ :: l => sexits l

theorem scs_counters_step (s s' : St) (e : Ev) (h : step s e = some s') :
    s'.enters = s.enters + senters [e] ∧ s'.exits = s.exits + sexits [e] := by
  cases e <;> simp only [step] at h <;> (repeat' split at h) <;>
    first | (simp at h; done) | (simp only [Option.some.injEq] at h; subst h; simp [senters, sexits])

theorem scs_counters_log (log : List Ev) : ∀ (s s' : St), runLog step s log = some s' →
    s'.enters = s.enters + senters log ∧ s'.exits = s.exits + sexits log := by
  induction log with
  | nil => intro s s' h; simp at h; subst h; simp [senters, sexits]
  | cons e es ih =>
    intro s s' h
    simp only [runLog] at h
    cases hs : step s e with
    | none => simp [hs] at h
    | some s1 =>
      simp only [hs] at h
      have h1 := scs_counters_step s s1 e hs
      have h2 := ih s1 s' h
      have ht : senters (e :: es) = senters [e] + senters es := by cases e <;> simp [senters] <;> omega
      have ha : sexits (e :: es) = sexits [e] + sexits es := by cases e <;> simp [sexits] <;> omega
      refine ⟨?_, ?_⟩ <;> omega

theorem C06_spin_no_overlap (n : Nat) (l₁ l₂ : List Ev) (s : St)
    (h : runLog step (init n) (l₁ ++ l₂) = some s) :
    sexits l₁ ≤ senters l₁ ∧ senters l₁ ≤ sexits l₁ + 1 := by
  obtain ⟨s₁, h1, _⟩ := runLog_prefix h
  have hi := sinv_of_accepted h1
  have hc := scs_counters_log l₁ _ s₁ h1
  simp only [init] at hc
  have hocc := hi.occSum
  have hle : sumTo s₁.n (fun t => Spin.b2n (s₁.inCS t)) ≤ 1 := by
    apply sumTo_le_one
    · intro t; cases s₁.inCS t <;> simp [Spin.b2n]
    · intro t u _ _ ht hu
      have ht' : s₁.inCS t = true := by cases hh : s₁.inCS t <;> simp [hh, Spin.b2n] at ht ⊢
      have hu' : s₁.inCS u = true := by cases hh : s₁.inCS u <;> simp [hh, Spin.b2n] at hu ⊢
      exact (C06_spin_exclusion s₁ ⟨n, l₁, h1⟩ t u (hi.csHold t ht') (hi.csHold u hu')).1
  omega

def SStuck (s : St) : Prop :=
  ∀ e, (∀ t o, e ≠ .inv t o) → (∀ t, e ≠ .done t) → (∀ t, e ≠ .csEnter t) → (∀ t, e ≠ .csExit t) →
    step s e = none

def SWaiting (s : St) (t : Nat) : Prop := s.pc t = .want .slock ∧ s.v ≠ none

/-- **Progress and hand-off (spinlock).**  Stuck only with every thread between operations,
    finished, or spinning in `lock()`; and then the spinlock is held by a thread that holds it
    by program order (no release is lost). -/
theorem C06_spin_stuck_only_when_waiting (s : St) (_hr : SReachable s) (hs : SStuck s) :
    ∀ t, t < s.n → s.pc t = .idle ∨ s.pc t = .fin ∨ SWaiting s t := by
  intro t htn
  have en : ∀ e, (∀ t o, e ≠ .inv t o) → (∀ t, e ≠ .done t) → (∀ t, e ≠ .csEnter t) →
      (∀ t, e ≠ .csExit t) → step s e ≠ none → False :=
    fun e h1 h2 h3 h4 h5 => h5 (hs e h1 h2 h3 h4)
  cases hp : s.pc t
  case idle => exact Or.inl rfl
  case fin => exact Or.inr (Or.inl rfl)
  case want o =>
    cases o with
    | slock =>
      by_cases hv : s.v = none
      · exact (en (.slAcq t) (by simp) (by simp) (by simp) (by simp) (by simp [step, htn, hv, hp])).elim
      · exact Or.inr (Or.inr ⟨hp, hv⟩)
    | stry =>
      by_cases hv : s.v = none
      · exact (en (.slTry t true) (by simp) (by simp) (by simp) (by simp) (by simp [step, htn, hv, hp])).elim
      · exact (en (.slTry t false) (by simp) (by simp) (by simp) (by simp) (by simp [step, htn, hv, hp])).elim
    | sunlock => exact (en (.slRel t) (by simp) (by simp) (by simp) (by simp) (by simp [step, htn, hp])).elim
  case retn o r => exact (en (.ret t r) (by simp) (by simp) (by simp) (by simp) (by simp [step, htn, hp])).elim

theorem C06_spin_handoff (s : St) (hr : SReachable s) (hs : SStuck s) (t : Nat)
    (hw : SWaiting s t) : ∃ u, s.v = some u ∧ s.holdsG u = true := by
  have hq := C06_spin_stuck_only_when_waiting s hr hs
  obtain ⟨n, log, hlog⟩ := hr
  have hi := sinv_of_accepted hlog
  cases hvv : s.v with
  | none => exact absurd hvv hw.2
  | some u =>
    refine ⟨u, rfl, ?_⟩
    rcases hi.vRev u hvv with h | h
    · exact h
    · exfalso
      have hpu : s.pc u = .idle ∨ s.pc u = .fin ∨ SWaiting s u := by
        by_cases hun : u < s.n
        · exact hq u hun
        · exact Or.inl (hi.outside u (by omega)).1
      rcases hpu with h' | h' | h' <;> simp [h', mid] at h
      simp [h'.1] at h

/-- **try_lock is honest (spinlock).**  `lock`/`try_lock` report true exactly when this call
    performed the successful exchange; then the caller is the holder. -/
theorem C06_spin_trylock_sound (s s' : St) (hr : SReachable s) (t : Nat) (o : Op) (r : Bool)
    (hp : s.pc t = .retn o r) (ho : o ≠ .sunlock) (h : step s (.ret t r) = some s') :
    s.tookOp t = r ∧ (r = true → s.v = some t ∧ s'.holdsG t = true) := by
  obtain ⟨n, log, hlog⟩ := hr
  have hi := sinv_of_accepted hlog
  have h1 := hi.took t r (by rw [hp]; simp [expectTook, ho])
  simp only [step, hp] at h
  split at h
  · simp only [if_true, Option.some.injEq] at h
    subst h
    refine ⟨h1, ?_⟩
    intro hr'; subst hr'
    exact ⟨hi.stage t (by rw [hp]; simp [mid, ho]), by simp [ho]⟩
  · simp at h

example : (runLog step (init 2)
    [.inv 0 .slock, .slAcq 0, .ret 0 true, .csEnter 0, .inv 1 .stry, .slTry 1 false, .ret 1 false,
     .inv 1 .slock, .csExit 0, .inv 0 .sunlock, .slRel 0, .ret 0 true, .slAcq 1, .ret 1 true,
     .csEnter 1]).isSome = true := by decide

end PikaVerif.C06
