import PikaVerif.Lemmas.Life
/-!
# C05 — runtime life cycle: wait/stop drain all work, restart works

Theorems about the life-cycle model `PikaVerif.Life` (global activity counter with the
increment/decrement separated from thread-object creation/destruction exactly as in the
schedulers' `create_thread` / `destroy_thread`, `thread_manager::wait`'s sample, the
`runtime::wait` = `wait_finalize; thread_manager::wait` ordering inside `pika::stop`, runtime
phase machine with incarnations and configuration, pool suspend/resume through the workers'
`sleeping` state).  They hold for every accepted log: every number of OS threads, thread objects,
tasks, incarnations, and every interleaving of the instrumented operations.

"Unit of activity" = one `create_thread` call from its increment to the matching decrement.  A
unit is, at any time, in exactly one of: creation in flight (`creating`), staged task description
(`staged`), a live thread object (`live o`), destruction in flight (`destroying`).

How the statement of the property maps to the theorems:
* "wait() returns only after every task submitted before the call, and every task those tasks
  spawn, has finished": `C05_wait_sound` (the returning sample sees *no* unit at all besides the
  caller's own task) + `C05_spawn_counted` (a task can only create a unit while it is itself a
  live, counted unit, so the counter cannot pass through the returning value between a parent
  and its child) + `C05_idle_closed` (with the counter at zero no task body is executing: new
  work can only come from outside the runtime).
* "stop() returns only after finalize() was called and the runtime is drained, and returns the
  entry function's result": `C05_stop_order`, `C05_stop_after_finalize`, `C05_stop_result`.
* "after stop() the runtime can be started again … with a different configuration":
  `C05_restart_fresh`, `C05_restart_config`, `C05_config_used`.
* "while the runtime is suspended no task body executes": `C05_suspended_no_body`.
* "stop() … on a runtime that is still suspended" (follow-up C05h): `C05_stop_suspended_enterable`,
  `C05_stop_suspended_no_stuck`, `C05_stop_suspended_all_resumed`, `C05_wake_only_by_resume_or_stop`,
  `C05_stop_suspended_pending_waits`.
* "all queued work runs after resume()": `C05_resume_runs_queued` (after resume every worker is
  awake and can take any queued thread) together with `C05_wait_sound` / `C05_stop_after_finalize`
  (the next wait/stop returns only when that work is gone).
-/
namespace PikaVerif.C05
open PikaVerif PikaVerif.Life

def Reachable (s : St) : Prop := ∃ na no log, runLog step (init na no) log = some s

theorem inv_of_reachable {s : St} (h : Reachable s) : Inv s := by
  obtain ⟨na, no, log, hl⟩ := h
  exact inv_of_accepted hl

/-- Nothing the counter covers exists, except (when the caller is itself a pika task) the
    caller's own thread object. -/
def DrainedExcept (s : St) (self : Option Nat) : Prop :=
  s.creating = 0 ∧ s.staged = 0 ∧ s.destroying = 0 ∧ ∀ o, s.live o = true → self = some o

/-- **The counter is exact.**  In every reachable state the global activity counter equals the
    number of units of activity that have been started and not finished: creations in flight +
    staged descriptions + live thread objects + destructions in flight. -/
theorem C05_count_exact (s : St) (hr : Reachable s) :
    s.cnt = s.creating + s.staged + s.destroying + nlive s :=
  (inv_of_reachable hr).count

/-- **Every unit started before an idle sample has finished.**  The counter is the number of
    `create_thread` increments minus the number of `destroy_thread` decrements performed so far;
    when it reads zero, every unit of activity ever started (in particular every task submitted
    before the sampling call) has been completely destroyed. -/
theorem C05_started_finished (s : St) (hr : Reachable s) :
    s.cnt + s.finished = s.started ∧ (s.cnt = 0 → s.finished = s.started) := by
  have h := (inv_of_reachable hr).history
  exact ⟨h, fun h0 => by omega⟩

/-- **wait() is sound.**  Whenever `thread_manager::wait`'s predicate samples a value that lets
    the wait return (`v ≤ 1` if the caller is a pika task, `v ≤ 0` otherwise), no unit of activity
    exists besides the caller's own task: every `create_thread` whose increment happened before
    the sample has been matched by `destroy_thread`, no task description is staged, no thread
    object holds a task. -/
theorem C05_wait_sound (s s' : St) (hr : Reachable s) (a v self : Nat)
    (h : step s (.sample a v self) = some s') (hret : v ≤ self) :
    DrainedExcept s (s.cur a) := by
  have hi := inv_of_reachable hr
  simp only [step] at h
  split at h
  case isFalse => simp at h
  rename_i hg
  obtain ⟨_, hv, hs⟩ := hg
  subst hv hs
  cases hc : s.cur a with
  | none =>
    rw [hc] at hret
    have h0 : s.cnt = 0 := by simpa [b2n] using hret
    obtain ⟨h1, h2, h3, h4⟩ := drained_of_cnt_zero hi h0
    exact ⟨h1, h2, h3, fun o ho => by rw [h4 o] at ho; cases ho⟩
  | some o =>
    rw [hc] at hret
    have h1 : s.cnt ≤ 1 := by simpa [b2n] using hret
    have hlo := (hi.curLive a o hc).1
    have hbo := hi.liveBound o hlo
    have hcount := hi.count
    simp only [nlive] at hcount
    have hle : b2n (s.live o) ≤ sumTo s.no (fun u => b2n (s.live u)) :=
      le_sumTo (f := fun u => b2n (s.live u)) hbo
    rw [hlo] at hle
    have hb1 : b2n true = 1 := rfl
    refine ⟨by omega, by omega, by omega, ?_⟩
    intro o' ho'
    by_cases heq : o' = o
    · rw [heq]
    · have hbo' := hi.liveBound o' ho'
      have h2 := two_le_sumTo (f := fun u => b2n (s.live u)) hbo' hbo heq
      simp only [ho', hlo] at h2
      omega

/-- **An observed return of wait() is backed by an idle sample.**  The harness' observation
    "`pika::wait()` returned on OS thread `a`" is accepted only if the most recent sample of the
    counter taken on that thread let the predicate return (`C05_wait_sound` then applies to that
    sample), and that flag is raised by nothing but such a sample. -/
theorem C05_wait_exit_backed (s s' : St) (a : Nat) (h : step s (.waitExit a) = some s') :
    s.lastRet a = true := by
  simp only [step] at h
  split at h
  · rename_i hg; exact hg.2
  · simp at h

theorem C05_lastRet_only_by_idle_sample (s s' : St) (e : Ev) (a : Nat) (h : step s e = some s')
    (h0 : s.lastRet a = false) (h1 : s'.lastRet a = true) :
    ∃ v self, e = .sample a v self ∧ v ≤ self := by
  cases e <;> simp only [step] at h <;> (repeat' split at h) <;>
    first
    | (simp at h; done)
    | (simp only [Option.some.injEq] at h; subst h; simp_all; done)
    | (simp only [Option.some.injEq] at h; subst h; simp only [upd] at h1; split at h1 <;> simp_all <;>
        exact ⟨_, _, ⟨rfl, rfl⟩, by assumption⟩)

/-- **Children are created while the parent is counted.**  When a running task body performs the
    increment of a `create_thread` call, the task's own thread object is live, hence the counter
    is at least 1 before and at least 2 after: no sample in between can see the idle value. -/
theorem C05_spawn_counted (s s' : St) (hr : Reachable s) (a n o : Nat)
    (h : step s (.inc a n) = some s') (hc : s.cur a = some o) :
    s.live o = true ∧ 1 ≤ s.cnt ∧ s'.cnt = s.cnt + 1 ∧ s'.live o = true := by
  have hi := inv_of_reachable hr
  have hlo := (hi.curLive a o hc).1
  have hbo := hi.liveBound o hlo
  have hcount := hi.count
  simp only [nlive] at hcount
  have hle : b2n (s.live o) ≤ sumTo s.no (fun u => b2n (s.live u)) :=
    le_sumTo (f := fun u => b2n (s.live u)) hbo
  rw [hlo] at hle
  have hb1 : b2n true = 1 := rfl
  simp only [step] at h
  split at h
  · simp only [Option.some.injEq] at h
    subst h
    exact ⟨hlo, by omega, rfl, hlo⟩
  · simp at h

/-- **An idle runtime stays idle unless work arrives from outside.**  With the counter at zero no
    worker is inside a phase of any task, so no task body can create, resume or spawn anything:
    the only event that can raise the counter is an increment by a thread that is not running a
    task (an external submission). -/
theorem C05_idle_closed (s : St) (hr : Reachable s) (h0 : s.cnt = 0) :
    (∀ a, s.cur a = none) ∧
    (∀ s' a n, step s (.inc a n) = some s' → s.cur a = none) ∧
    (∀ a o, step s (.body a o) = none) ∧ (∀ a o, step s (.phaseEnd a o) = none) := by
  have hi := inv_of_reachable hr
  obtain ⟨_, _, _, h4⟩ := drained_of_cnt_zero hi h0
  have hcur : ∀ a, s.cur a = none := by
    intro b
    cases hc : s.cur b with
    | none => rfl
    | some o => have := (hi.curLive b o hc).1; rw [h4 o] at this; cases this
  refine ⟨hcur, fun _ a _ _ => hcur a, ?_, ?_⟩ <;> (intro a o; simp [step, hcur a])

/-- **Inside stop(), the drain check runs only after finalize.**  Every sample of the counter
    taken by the thread that is inside `pika::stop()` happens after `wait_finalize` has returned,
    and `wait_finalize` returns only after `finalize()` was signalled. -/
theorem C05_stop_order (s s' : St) (hr : Reachable s) (a v self : Nat)
    (h : step s (.sample a v self) = some s') (hst : s.stopper = some a) :
    s.spc = .waitedFin ∧ s.fin = true := by
  have hi := inv_of_reachable hr
  simp only [step] at h
  split at h
  case isFalse => simp at h
  simp only [hst] at h
  split at h
  · rename_i hw
    exact ⟨hw, hi.stopFin (by rw [hw]; simp) (by rw [hw]; simp)⟩
  · simp at h

/-- **stop() returns only after finalize() and with the runtime drained.**  When the model
    accepts the return of `pika::stop()`, `finalize()` has been signalled, the counter is zero and
    no unit of activity exists. -/
theorem C05_stop_after_finalize (s s' : St) (hr : Reachable s) (a r : Nat)
    (h : step s (.stopExit a r) = some s') :
    s.fin = true ∧ s.cnt = 0 ∧ DrainedExcept s none := by
  have hi := inv_of_reachable hr
  simp only [step] at h
  split at h
  case isFalse => simp at h
  rename_i hg
  have hph : s.ph = .stopping := hi.stopPc.1 (Or.inr (Or.inr hg.2.1))
  have h0 := hi.stoppingDrained (Or.inl hph)
  obtain ⟨h1, h2, h3, h4⟩ := drained_of_cnt_zero hi h0
  refine ⟨hi.stopFin (by rw [hg.2.1]; simp) (by rw [hg.2.1]; simp), h0, h1, h2, h3, ?_⟩
  intro o ho; rw [h4 o] at ho; cases ho

/-- **Each incarnation runs its own work completely.**  When `pika::stop()` returns, every unit of
    activity ever started — in this incarnation or an earlier one — has finished; together with
    `C05_restart_config` (a new runtime starts from an idle counter) each incarnation starts with
    nothing left over and ends with nothing left behind. -/
theorem C05_incarnation_complete (s s' : St) (hr : Reachable s) (a r : Nat)
    (h : step s (.stopExit a r) = some s') : s.finished = s.started ∧ s'.finished = s'.started := by
  have h0 := (C05_stop_after_finalize s s' hr a r h).2.1
  have hh := (C05_started_finished s hr).2 h0
  simp only [step] at h
  split at h
  · simp only [Option.some.injEq] at h
    subst h
    exact ⟨hh, hh⟩
  · simp at h

/-- **stop() returns the entry function's result.**  The value returned by `pika::stop()` is the
    runtime's `result_` … -/
theorem C05_stop_result (s s' : St) (a r : Nat) (h : step s (.stopExit a r) = some s') :
    r = s.result := by
  simp only [step] at h
  split at h
  · rename_i hg; exact hg.2.2.1
  · simp at h

/-- … and `result_` is 0 when the runtime is constructed and is afterwards only ever written with
    the value the entry function returned. -/
theorem C05_result_is_entry (s s' : St) (e : Ev) (h : step s e = some s') :
    s'.result = s.result ∨ (∃ a r, e = .result a r ∧ s'.result = r) ∨
      (∃ a, e = .rtState a rsInitialized ∧ s'.result = 0) := by
  cases e <;> simp only [step] at h <;> (repeat' split at h) <;>
    first
    | (simp at h; done)
    | (simp only [Option.some.injEq] at h; subst h; simp; done)
    | (simp only [Option.some.injEq] at h; subst h; simp_all)

/-- **After stop() nothing of the old incarnation is left.**  The state after `pika::stop()`
    returned has no runtime, no worker, no sleeping worker, no finalize signal, no thread inside
    `stop()`, no unit of activity, and no actor inside a task. -/
theorem C05_restart_fresh (s s' : St) (hr : Reachable s) (a r : Nat)
    (h : step s (.stopExit a r) = some s') :
    s'.ph = .none ∧ s'.cnt = 0 ∧ DrainedExcept s' none ∧ s'.nworkers = 0 ∧ s'.nsleep = 0 ∧
    s'.fin = false ∧ s'.stopper = none ∧ s'.spc = .out ∧
    (∀ b, s'.cur b = none ∧ s'.worker b = false ∧ s'.asleep b = false) ∧
    s'.incarnation = s.incarnation := by
  have hi := inv_of_reachable hr
  have hi' := step_inv s s' _ hi h
  obtain ⟨_, h0, hd⟩ := C05_stop_after_finalize s s' hr a r h
  simp only [step] at h
  split at h
  case isFalse => simp at h
  simp only [Option.some.injEq] at h
  subst h
  have hcur : ∀ b, s.cur b = none := by
    intro b
    cases hc : s.cur b with
    | none => rfl
    | some o => have := hd.2.2.2 o (hi.curLive b o hc).1; cases this
  exact ⟨rfl, h0, hd, rfl, rfl, rfl, rfl, rfl, fun b => ⟨hcur b, rfl, rfl⟩, rfl⟩

/-- **A restart is a new incarnation with the new configuration.**  Constructing a runtime is only
    possible when none exists; it starts a new incarnation whose configuration is the one
    requested for *this* start, with the finalize signal and the result cleared, no workers yet
    and an idle counter. -/
theorem C05_restart_config (s s' : St) (hr : Reachable s) (a : Nat)
    (h : step s (.rtState a rsInitialized) = some s') :
    s.ph = .none ∧ s'.ph = .starting ∧ s'.incarnation = s.incarnation + 1 ∧ s'.cfg = s.cfgReq ∧
    s'.fin = false ∧ s'.result = 0 ∧ s'.nworkers = 0 ∧ s'.cnt = 0 := by
  have hi := inv_of_reachable hr
  simp only [step] at h
  split at h
  case isFalse => simp at h
  simp only [if_true] at h
  split at h
  · rename_i hn
    simp only [Option.some.injEq] at h
    subst h
    exact ⟨hn, rfl, rfl, rfl, rfl, rfl, hi.noneOut hn, hi.stoppingDrained (Or.inr hn)⟩
  · simp at h

/-- **The configuration in use is the one of the current incarnation.**  Once the runtime of an
    incarnation has reached `running`, the number of worker threads that entered the scheduling
    loop in this incarnation equals the thread count of this incarnation's configuration. -/
theorem C05_config_used (s : St) (hr : Reachable s) (h1 : s.ph ≠ .none) (h2 : s.ph ≠ .starting) :
    s.nworkers = s.cfg.th ∧ s.nworkers = sumTo s.na (fun a => b2n (s.worker a)) :=
  ⟨(inv_of_reachable hr).cfgWorkers h1 h2, (inv_of_reachable hr).nworkersSum⟩

/-- **While the runtime is suspended no task body executes.**  In every reachable state whose
    runtime phase is `suspended` (between the return of `suspend()` and the next `resume()`) every
    worker is asleep, no actor is inside a phase of any task, and the model accepts neither the
    start of a phase nor a task-body event. -/
theorem C05_suspended_no_body (s : St) (hr : Reachable s) (hs : s.ph = .suspended) :
    (∀ a, s.worker a = true → s.asleep a = true) ∧ (∀ a, s.cur a = none) ∧
    (∀ a o, step s (.phaseBegin a o) = none) ∧ (∀ a o, step s (.body a o) = none) := by
  have hi := inv_of_reachable hr
  have hsum := hi.suspendedAll hs
  rw [hi.nsleepSum, hi.nworkersSum] at hsum
  have hle : ∀ t, t < s.na → b2n (s.asleep t) ≤ b2n (s.worker t) := by
    intro t _
    cases ha : s.asleep t with
    | false => simp [b2n]
    | true => rw [hi.asleepWorker t ha]; exact Nat.le_refl _
  have hpt := sumTo_eq_pointwise hle hsum
  have hall : ∀ a, s.worker a = true → s.asleep a = true := by
    intro a hw
    have := hpt a (hi.workerBound a hw)
    rw [hw] at this
    cases ha : s.asleep a with
    | true => rfl
    | false => rw [ha] at this; simp [b2n] at this
  have hcur : ∀ a, s.cur a = none := by
    intro a
    cases hc : s.cur a with
    | none => rfl
    | some o =>
      have h1 := hi.curWorker a (by rw [hc]; rfl)
      have := hall a h1.1
      rw [h1.2] at this; cases this
  refine ⟨hall, hcur, ?_, ?_⟩
  · intro a o
    simp only [step]
    split
    · rename_i hg
      have := hall a hg.2.2.2.2.2.1
      rw [hg.2.2.2.2.2.2] at this; cases this
    · rfl
  · intro a o
    simp [step, hcur a]

/-- **After resume() every worker is awake and can take queued work.**  In every reachable state
    whose phase is `running` (in particular after `resume()` returned) no worker is asleep, and
    the model accepts the start of a phase of *any* live, not running thread object by *any* idle
    worker: nothing queued during the suspension is held back by a sleeping worker. -/
theorem C05_resume_runs_queued (s : St) (hr : Reachable s) (hrun : s.ph = .running) :
    (∀ a, s.asleep a = false) ∧
    (∀ a o, s.worker a = true → s.cur a = none → s.live o = true → s.running o = false →
      (step s (.phaseBegin a o)).isSome = true) := by
  have hi := inv_of_reachable hr
  have h0 := hi.awake (by rw [hrun]; simp) (by rw [hrun]; simp) (by rw [hrun]; simp) (by rw [hrun]; simp)
  rw [hi.nsleepSum] at h0
  have hall : ∀ a, s.asleep a = false := by
    intro a
    cases ha : s.asleep a with
    | false => rfl
    | true =>
      have hb := hi.workerBound a (hi.asleepWorker a ha)
      have := le_sumTo (f := fun u => b2n (s.asleep u)) hb
      simp only [ha] at this
      have hb1 : b2n true = 1 := rfl
      omega
  refine ⟨hall, ?_⟩
  intro a o hw hc hl hrn
  simp [step, hi.workerBound a hw, hi.liveBound o hl, hl, hrn, hc, hw, hall a]

/-- The transition `resuming → running` (the return of `resume()`) is only accepted when every
    worker has left the `sleeping` state. -/
theorem C05_resume_waits_for_all (s s' : St) (a : Nat) (h : step s (.rtState a rsRunning) = some s')
    (hp : s.ph = .resuming) : s.nsleep = 0 ∧ s'.ph = .running := by
  simp [step, hp] at h
  obtain ⟨_, _, h0, h⟩ := h
  subst h
  exact ⟨h0, rfl⟩

/-! ## Follow-up C05h: `stop()` entered while the runtime is SUSPENDED

`pika::stop()` only requires an initialised runtime and a caller that is not a pika task.  After
`finalize()` (called while running) and `suspend()`, `stop()` finds every worker parked in
`scheduler_base::suspend`; `runtime::wait` succeeds at once if the runtime was drained,
`runtime::stopping` stores `stopped`, and the pool's `stop_locked` wakes the workers ("wake up if
suspended": `resume_internal`) before joining them.  The statements are in enabledness /
no-stuck-state form (the model has no fairness): at every program counter of the stopping thread
the next event of the stop path is enabled, a parked worker's wake-up is enabled once
`runtime::stopping` ran, and the return of `stop()` is enabled exactly when no worker is parked. -/

/-- **stop() may be entered on a running or on a suspended runtime** (documented precondition:
    initialised, caller not a pika task). -/
theorem C05_stop_suspended_enterable (s : St) (a : Nat) (ha : a < s.na)
    (hph : s.ph = .running ∨ s.ph = .suspended) (hst : s.stopper = none) (hspc : s.spc = .out)
    (hc : s.cur a = none) (hw : s.worker a = false) :
    ∃ s', step s (.stopEnter a) = some s' ∧ s'.stopper = some a ∧ s'.spc = .entered ∧ s'.ph = s.ph ∧
      s'.nsleep = s.nsleep := by
  refine ⟨{ s with stopper := some a, spc := .entered }, ?_, rfl, rfl, rfl, rfl⟩
  simp [step, ha, hph, hst, hspc, hc, hw]

/-- **stop() entered in the suspended phase is never stuck** (and neither is one entered while
    running).  In every reachable state with thread `a` inside `pika::stop()`:
    * after `finalize()` the return of `wait_finalize` is enabled;
    * with `wait_finalize` passed and the counter at zero, the idle sample is enabled in phase
      `running` *and* in phase `suspended`, it moves the runtime to `stopping` and leaves every
      parked worker parked (no body can run: `C05_suspended_no_body`);
    * then `runtime::wait`'s return with `result_` and `runtime::stopping` are enabled;
    * once `runtime::stopping` ran, the wake-up of *every* parked worker is enabled, the return of
      `stop()` with `result_` is enabled as soon as no worker is parked, and as long as the parked
      count is not zero some parked worker exists (whose wake-up is enabled): no state on the stop
      path is stuck. -/
theorem C05_stop_suspended_no_stuck (s : St) (hr : Reachable s) (a : Nat) (hst : s.stopper = some a) :
    (s.spc = .entered → s.fin = true → (step s (.waitFin a)).isSome = true) ∧
    (s.spc = .waitedFin → s.cnt = 0 → (s.ph = .running ∨ s.ph = .suspended) →
      ∃ s', step s (.sample a 0 0) = some s' ∧ s'.spc = .drained ∧ s'.ph = .stopping ∧
        s'.nsleep = s.nsleep ∧ s'.asleep = s.asleep) ∧
    (s.spc = .drained → (step s (.waited a s.result)).isSome = true) ∧
    (s.spc = .waited → (step s (.rtState a rsStopped)).isSome = true) ∧
    (s.spc = .halted →
      (∀ b, s.asleep b = true → ∃ s', step s (.wake b) = some s' ∧ s'.nsleep + 1 = s.nsleep) ∧
      (s.nsleep = 0 → (step s (.stopExit a s.result)).isSome = true) ∧
      (s.nsleep ≠ 0 → ∃ b, s.asleep b = true)) := by
  have hi := inv_of_reachable hr
  have ha : a < s.na := hi.stopperBound a hst
  have hnw : s.worker a = false := hi.stopperNotWorker a hst
  have hcur : s.cur a = none := by
    cases hc : s.cur a with
    | none => rfl
    | some o =>
      have := (hi.curWorker a (by rw [hc]; rfl)).1
      rw [hnw] at this; cases this
  refine ⟨?_, ?_, ?_, ?_, ?_⟩
  · intro hp hf
    simp [step, hst, hp, hf]
  · intro hp h0 hph
    refine ⟨{ s with spc := .drained, ph := .stopping, lastRet := upd s.lastRet a true }, ?_, rfl, rfl, rfl, rfl⟩
    simp [step, ha, h0, hcur, b2n, hst, hp, hph]
  · intro hp
    simp [step, hst, hp]
  · intro hp
    have hph : s.ph = .stopping := hi.stopPc.1 (Or.inr (Or.inl hp))
    simp [step, ha, hph, hp, hst, rsStopped, rsInitialized, rsPreStartup, rsStartup, rsPreMain, rsRunning, rsSleeping]
  · intro hp
    have hph : s.ph = .stopping := hi.stopPc.1 (Or.inr (Or.inr hp))
    refine ⟨?_, ?_, ?_⟩
    · intro b hb
      have hbb : b < s.na := hi.workerBound b (hi.asleepWorker b hb)
      have hle := le_sumTo (f := fun u => b2n (s.asleep u)) hbb
      simp only [hb] at hle
      have hb1 : b2n true = 1 := rfl
      have hns := hi.nsleepSum
      refine ⟨{ s with asleep := upd s.asleep b false, nsleep := s.nsleep - 1 }, ?_, ?_⟩
      · simp [step, hbb, hph, hp, hb]
      · show s.nsleep - 1 + 1 = s.nsleep
        omega
    · intro h0
      simp [step, hst, hp, h0]
    · intro hne
      have hpos : 0 < sumTo s.na (fun u => b2n (s.asleep u)) := by
        rw [← hi.nsleepSum]; omega
      obtain ⟨t, _, hp⟩ := exists_pos_of_sumTo_pos hpos
      refine ⟨t, ?_⟩
      cases hat : s.asleep t with
      | true => rfl
      | false => rw [hat] at hp; simp [b2n] at hp

/-- **stop() returns only with the runtime drained and every worker resumed.**  When the model
    accepts the return of `pika::stop()` — whether it was entered running or suspended — the counter
    is zero, no unit of activity exists, finalize was signalled, and no worker is parked in
    `scheduler_base::suspend` any more (each one that slept has logged its wake-up: the join in
    `remove_processing_unit_internal` cannot complete for a parked worker). -/
theorem C05_stop_suspended_all_resumed (s s' : St) (hr : Reachable s) (a r : Nat)
    (h : step s (.stopExit a r) = some s') :
    s.fin = true ∧ s.cnt = 0 ∧ DrainedExcept s none ∧ s.nsleep = 0 ∧ (∀ b, s.asleep b = false) := by
  have hi := inv_of_reachable hr
  obtain ⟨hf, h0, hd⟩ := C05_stop_after_finalize s s' hr a r h
  simp only [step] at h
  split at h
  case isFalse => simp at h
  rename_i hg
  have hz : s.nsleep = 0 := hg.2.2.2
  refine ⟨hf, h0, hd, hz, ?_⟩
  intro b
  cases hb : s.asleep b with
  | false => rfl
  | true =>
    have hbb : b < s.na := hi.workerBound b (hi.asleepWorker b hb)
    have hle := le_sumTo (f := fun u => b2n (s.asleep u)) hbb
    simp only [hb] at hle
    have hb1 : b2n true = 1 := rfl
    have hns := hi.nsleepSum
    omega

/-- **A parked worker is woken only by resume() or by stop() after `runtime::stopping`.**  In
    particular nothing wakes a worker while the phase is `suspended`, also not a `stop()` that is
    still waiting for finalize or for the counter. -/
theorem C05_wake_only_by_resume_or_stop (s s' : St) (b : Nat) (h : step s (.wake b) = some s') :
    s.asleep b = true ∧ (s.ph = .resuming ∨ (s.ph = .stopping ∧ s.spc = .halted)) := by
  simp only [step] at h
  split at h
  · rename_i hg; exact ⟨hg.2.2, hg.2.1⟩
  · simp at h

/-- **stop() on a suspended runtime that holds queued work keeps waiting** (what the unchanged code
    does: `thread_manager::wait` polls the counter and "no progress will be made" while suspended).
    A sample by the stopping thread that sees more than its own task leaves the stop program
    counter, the phase, the counter and the parked workers unchanged; with `C05_suspended_no_body`
    (no body or phase event is possible in phase `suspended`) the queued work is neither run nor
    dropped, and `C05_stop_suspended_all_resumed` shows that `stop()` cannot return in between. -/
theorem C05_stop_suspended_pending_waits (s s' : St) (a v self : Nat) (hst : s.stopper = some a)
    (h : step s (.sample a v self) = some s') (hbusy : self < v) :
    s'.spc = s.spc ∧ s'.ph = s.ph ∧ s'.cnt = s.cnt ∧ s'.nsleep = s.nsleep ∧ s'.live = s.live ∧
      s'.staged = s.staged := by
  simp only [step] at h
  split at h
  case isFalse => simp at h
  simp only [hst] at h
  split at h
  · have hn : ¬ v ≤ self := by omega
    simp only [hn, if_false] at h
    simp only [Option.some.injEq] at h
    subst h
    exact ⟨rfl, rfl, rfl, rfl, rfl, rfl⟩
  · simp at h

/-! ## Non-vacuity: a complete history with two incarnations is accepted

Actors: 0 = main thread, 1 = helper OS thread, 2,3 = workers of incarnation 1, 4 = worker of
incarnation 2.  Objects: 0 = run_helper's thread object, 1 = a task's (recycled).
Incarnation 1 (2 threads): start, an externally submitted staged task runs and spawns a child,
`wait()` from outside returns on 0, suspend / resume, a task is queued while suspended and runs
after resume, `stop()` is entered *before* finalize, the helper submits a task and finalizes,
stop drains and returns 7.  Incarnation 2 (1 thread): start with the other configuration, stop. -/
def exampleLog : List Ev :=
  [ .reqCfg 0 2 1, .rtState 0 0, .worker 2, .worker 3,
    .inc 0 1, .new 0 0,                         -- run_helper created (run_now)
    .phaseBegin 2 0, .rtState 2 1, .rtState 2 2, .rtState 2 5, .result 2 7, .phaseEnd 2 0,
    .destroy 2 0, .dec 2 0,
    .seenCfg 0 2 1,
    -- external staged task, converted by worker 3, spawns a child while running
    .inc 1 1, .stage 1, .unstage 3, .new 3 1, .phaseBegin 3 1, .body 3 1,
    .inc 3 2, .new 3 0, .body 3 1, .phaseEnd 3 1,
    .sample 0 2 0,                              -- wait(): 2 > 0, keeps waiting
    .destroy 3 1, .dec 3 1, .phaseBegin 2 0, .body 2 0, .phaseEnd 2 0, .destroy 2 0,
    .sample 0 1 0, .dec 2 0, .waitEnter 0, .sample 0 0 0, .waitExit 0,     -- wait() returns
    -- suspend / resume with a task queued in between
    .suspendEnter 0, .sample 0 0 0, .sleep 2, .sleep 3, .rtState 0 8,
    .inc 1 1, .new 1 1,
    .resumeEnter 0, .wake 3, .wake 2, .rtState 0 5,
    .phaseBegin 3 1, .body 3 1, .phaseEnd 3 1, .destroy 3 1, .dec 3 0,
    -- stop() entered before finalize; helper submits, then finalizes
    .stopEnter 0, .inc 1 1, .new 1 1, .fin 1, .waitFin 0, .sample 0 1 0,
    .phaseBegin 2 1, .body 2 1, .phaseEnd 2 1, .destroy 2 1, .dec 2 0,
    .sample 0 0 0, .waited 0 7, .rtState 0 13, .stopExit 0 7,
    -- second incarnation, one thread, other policy
    .reqCfg 0 1 4, .rtState 0 0, .worker 4, .inc 0 1, .new 0 0, .phaseBegin 4 0, .rtState 4 5,
    .phaseEnd 4 0, .destroy 4 0, .dec 4 0, .seenCfg 0 1 4,
    .fin 0, .stopEnter 0, .waitFin 0, .sample 0 0 0, .waited 0 0, .rtState 0 13, .stopExit 0 0 ]

example : (runLog step (init 5 2) exampleLog).isSome = true := by decide

/-- Follow-up C05h: finalize while running, suspend (twice: the second call has no event), `stop()`
    entered while SUSPENDED; the workers wake only after `runtime::stopping`, then stop returns.
    Actors: 0 main, 1,2 workers. -/
def exampleStopSuspended : List Ev :=
  [ .reqCfg 0 2 1, .rtState 0 0, .worker 1, .worker 2, .inc 0 1, .new 0 0, .phaseBegin 1 0, .rtState 1 5,
    .result 1 9, .phaseEnd 1 0, .destroy 1 0, .dec 1 0, .seenCfg 0 2 1,
    .fin 0, .suspendEnter 0, .sample 0 0 0, .sleep 1, .sleep 2, .rtState 0 8,
    .waitEnter 0, .sample 0 0 0, .waitExit 0,                       -- wait() on the idle suspended runtime
    .stopEnter 0, .waitFin 0, .sample 0 0 0, .waited 0 9, .rtState 0 13, .wake 2, .wake 1, .stopExit 0 9,
    .reqCfg 0 1 2, .rtState 0 0 ]

example : (runLog step (init 3 1) exampleStopSuspended).isSome = true := by decide

/-- the seeded removal of "wake up if suspended" cannot return from stop(): with a worker still
    parked the return of `stop()` is not a model history -/
example : runLog step (init 3 1)
    [ .reqCfg 0 2 1, .rtState 0 0, .worker 1, .worker 2, .inc 0 1, .new 0 0, .phaseBegin 1 0, .rtState 1 5,
      .phaseEnd 1 0, .destroy 1 0, .dec 1 0, .fin 0, .suspendEnter 0, .sample 0 0 0, .sleep 1, .sleep 2,
      .rtState 0 8, .stopEnter 0, .waitFin 0, .sample 0 0 0, .waited 0 0, .rtState 0 13, .wake 2,
      .stopExit 0 0 ] = none := by decide

/-- a worker does not wake while `stop()` on a suspended runtime is still before `runtime::stopping` -/
example : runLog step (init 3 1)
    [ .reqCfg 0 1 1, .rtState 0 0, .worker 1, .inc 0 1, .new 0 0, .phaseBegin 1 0, .rtState 1 5,
      .phaseEnd 1 0, .destroy 1 0, .dec 1 0, .fin 0, .suspendEnter 0, .sample 0 0 0, .sleep 1,
      .rtState 0 8, .stopEnter 0, .waitFin 0, .sample 0 0 0, .wake 1 ] = none := by decide

/-- the seeded reordering (`thread_manager::wait` before `wait_finalize`) is not a model history -/
example : runLog step (init 5 2)
    [ .reqCfg 0 1 1, .rtState 0 0, .worker 2, .inc 0 1, .new 0 0, .phaseBegin 2 0, .rtState 2 5,
      .phaseEnd 2 0, .destroy 2 0, .dec 2 0, .stopEnter 0, .sample 0 0 0 ] = none := by decide

/-- a body event while suspended is not a model history -/
example : runLog step (init 5 2)
    [ .reqCfg 0 1 1, .rtState 0 0, .worker 2, .inc 0 1, .new 0 0, .phaseBegin 2 0, .rtState 2 5,
      .phaseEnd 2 0, .destroy 2 0, .dec 2 0, .suspendEnter 0, .sample 0 0 0, .sleep 2, .rtState 0 8,
      .inc 1 1, .new 1 1, .phaseBegin 2 1 ] = none := by decide

end PikaVerif.C05
