import PikaVerif.Lemmas.DequeTag2
/-!
# C17 — concurrent queues return every element exactly once (lock-free deque, back-end adapters)

Property theorems about the model `PikaVerif.Deque` of `pika::concurrency::detail::deque`
(`deque.hpp`) and of the adapters in `lockfree_queue_backends.hpp`.  The contiguous index queue
part of C17 is in `Props/C17Index.lean`.

**The full concurrent statement is false of the pinned code** (and therefore of the model, which
follows the code): `alloc_node` / `push_*` restart a node's link tags at 0 in every life of the
node, so the link CAS of `stabilize_left/right` — the only shared write that is not protected by
the anchor tag — can succeed on a node that was popped, recycled and pushed again since the
helper read it (ABA).  `C17_deque_conc_refuted` is the machine-checked witness (the event log of
the real code under a directed schedule, `findings/C17-aba-link.case`): value 3 is returned by
two pops, value 5 is never returned although the deque reports empty.

Full statement that does **not** hold (kept for reference):
```
theorem C17_deque_conc (n) (log) (s) (h : runLog step (init n) log = some s) :
    (∀ v, s.popped.count v ≤ s.pushed.count v) ∧ (s.chain = [] → s.popped.Perm s.pushed)
```
-/
namespace PikaVerif.C17
open PikaVerif PikaVerif.Deque

/-- Event log of the real code (`findings/C17-aba-link.case`, node addresses renamed 1, 2, 3). -/
def abaLog : List Ev :=
  [.inv 0 true true 3, .alloc 0 1, .inv 1 true false 1, .alloc 1 2, .ld 1 ⟨0, 0, 0, 0⟩, .cas 1 true,
   .ret 1 true 0, .inv 1 true false 2, .alloc 1 3, .ld 1 ⟨2, 2, 0, 1⟩, .link 1 3 2, .cas 1 true,
   .rd 1 ⟨2, 0⟩, .chk 1 true, .rd 1 ⟨0, 0⟩, .chk 1 true, .lcas 1 true, .cas 1 true, .ret 1 true 0,
   .inv 1 false true 0, .ld 1 ⟨3, 2, 0, 3⟩, .chk 1 true, .rd 1 ⟨3, 1⟩, .cas 1 true, .ld 0 ⟨3, 3, 0, 4⟩,
   .link 0 1 3, .cas 0 true, .rd 0 ⟨3, 0⟩, .chk 0 true, .rd 0 ⟨2, 0⟩, .chk 0 true, .free 1 2,
   .ret 1 true 1, .inv 1 false false 0, .ld 1 ⟨3, 1, 1, 5⟩, .rd 1 ⟨3, 0⟩, .chk 1 true, .rd 1 ⟨2, 0⟩,
   .chk 1 true, .lcas 1 true, .cas 1 true, .ld 1 ⟨3, 1, 0, 6⟩, .chk 1 true, .rd 1 ⟨1, 1⟩, .cas 1 true,
   .free 1 3, .ret 1 true 2, .inv 1 true true 4, .alloc 1 3, .ld 1 ⟨1, 1, 0, 7⟩, .link 1 3 1,
   .cas 1 true, .rd 1 ⟨1, 0⟩, .chk 1 true, .rd 1 ⟨0, 0⟩, .chk 1 true, .lcas 1 true, .cas 1 true,
   .ret 1 true 0, .inv 1 true true 5, .alloc 1 2, .ld 1 ⟨1, 3, 0, 9⟩, .link 1 2 3, .cas 1 true,
   .rd 1 ⟨3, 0⟩, .chk 1 true, .rd 1 ⟨0, 0⟩, .chk 1 true, .lcas 1 true, .cas 1 true, .ret 1 true 0,
   .inv 1 false false 0, .ld 1 ⟨1, 2, 0, 11⟩, .chk 1 true, .rd 1 ⟨3, 1⟩, .cas 1 true, .free 1 1,
   .ret 1 true 3, .inv 1 false false 0, .ld 1 ⟨3, 2, 0, 12⟩, .chk 1 true, .rd 1 ⟨2, 1⟩, .cas 1 true,
   .free 1 3, .ret 1 true 4, .inv 1 true false 6, .alloc 1 3, .ld 1 ⟨2, 2, 0, 13⟩, .link 1 3 2,
   .cas 1 true, .rd 1 ⟨2, 0⟩, .chk 1 true, .rd 1 ⟨3, 0⟩, .lcas 0 true, .cas 0 false, .ret 0 true 0,
   .done 0, .cas 1 true, .ret 1 true 0, .inv 1 false false 0, .ld 1 ⟨3, 2, 0, 15⟩, .chk 1 true,
   .rd 1 ⟨1, 1⟩, .cas 1 true, .free 1 3, .ret 1 true 6, .inv 1 false false 0, .ld 1 ⟨1, 2, 0, 16⟩,
   .chk 1 true, .rd 1 ⟨3, 1⟩, .cas 1 true, .free 1 1, .ret 1 true 3, .done 1]

/-- **Refutation of the unrestricted concurrent clause** (genuine defect of the pinned tree).
    There is an accepted log — produced by the real `deque.hpp` — with six pushes of distinct
    values after which value 3 has been popped twice, value 5 was never popped, every thread has
    finished and the chain is empty; a stabilisation link-CAS succeeded on a recycled node
    (`stale`). -/
theorem C17_deque_conc_refuted :
    ∃ s, runLog step (init 2) abaLog = some s ∧ s.pushed = [6, 5, 4, 3, 2, 1] ∧
      s.popped = [3, 6, 4, 3, 2, 1] ∧ s.popped.count 3 = 2 ∧ s.pushed.count 3 = 1 ∧
      s.popped.count 5 = 0 ∧ s.chain = [] ∧ s.stale = true ∧ s.pc 0 = .fin ∧ s.pc 1 = .fin := by
  have h : (runLog step (init 2) abaLog).map
      (fun s => (s.pushed, s.popped, s.chain, s.stale, s.pc 0, s.pc 1)) =
      some ([6, 5, 4, 3, 2, 1], [3, 6, 4, 3, 2, 1], [], true, .fin, .fin) := by decide
  cases hs : runLog step (init 2) abaLog with
  | none => simp [hs] at h
  | some s =>
    simp only [hs, Option.map_some, Option.some.injEq, Prod.mk.injEq] at h
    obtain ⟨h1, h2, h3, h4, h5, h6⟩ := h
    refine ⟨s, rfl, h1, h2, ?_, ?_, ?_, h3, h4, h5, h6⟩ <;> simp [h1, h2]

/-! ## What does hold: executions without a stale link CAS

`s.stale = false` says that no stabilisation link-CAS succeeded after the anchor it was computed
for had changed (`stale` is a history flag of the model, set by `lcas`; it is sticky).  Without
node recycling that situation cannot arise (link tags only grow); with the freelist it is exactly
the ABA window exhibited above.  Under this hypothesis the deque is correct for every number of
threads, every operation mix and every interleaving of the atomic steps, including the unstable
`lpush`/`rpush` states, helping, and recycling of nodes. -/

/-- **Exactly once (partial: no stale link CAS).**  At every point of every execution the values
    pushed so far are, as a multiset, the values popped so far plus the values still stored in the
    chain.  Hence nothing is invented or popped twice (`count popped ≤ count pushed` for every
    value), and once the chain is empty the popped values are exactly the pushed values. -/
theorem C17_deque_conc_partial (n : Nat) (log : List Ev) (s : St)
    (h : runLog step (init n) log = some s) (hs : s.stale = false) :
    s.pushed.Perm (s.popped ++ contents s) ∧
    (∀ v, s.popped.count v ≤ s.pushed.count v) ∧
    (s.chain = [] → s.popped.Perm s.pushed) := by
  have hi := inv_of_accepted h hs
  refine ⟨hi.cons, ?_, ?_⟩
  · intro v
    have := hi.cons.count_eq v
    rw [List.count_append] at this
    omega
  · intro hc
    have := hi.cons
    simp only [contents, hc, List.map_nil, List.append_nil] at this
    exact this.symm

/-- **No element is delivered twice (partial: no stale link CAS).**  If the pushed values are
    pairwise distinct then so are the popped values. -/
theorem C17_deque_no_duplicate_partial (n : Nat) (log : List Ev) (s : St)
    (h : runLog step (init n) log = some s) (hs : s.stale = false) (hd : s.pushed.Nodup) :
    s.popped.Nodup := by
  have hi := inv_of_accepted h hs
  have := hi.cons.nodup_iff.1 hd
  exact (List.nodup_append.1 this).1

/-- **The anchor and the links describe the chain (partial: no stale link CAS).**  In every
    reachable state the anchor's end pointers are the first and last node of the chain (null iff
    it is empty), the chain has no repeated node, every chain node is allocated, and — outside the
    one link that an unfinished push still has to set — neighbouring nodes point at each other. -/
theorem C17_deque_chain_partial (n : Nat) (log : List Ev) (s : St)
    (h : runLog step (init n) log = some s) (hs : s.stale = false) :
    Glob s.anchor s.chain s.nodes s.used ∧ (s.anchor.l = 0 ↔ s.chain = []) ∧
    (s.anchor.r = 0 ↔ s.chain = []) := by
  have hi := inv_of_accepted h hs
  refine ⟨hi.glob, ⟨fun h0 => hi.glob.nil_of_end false (by simpa [Anchor.endp] using h0), ?_⟩,
    ⟨fun h0 => hi.glob.nil_of_end true (by simpa [Anchor.endp] using h0), ?_⟩⟩
  · intro hc; have := hi.glob.hd; rw [hc] at this; simpa using this
  · intro hc; have := hi.glob.lst; rw [hc] at this; simpa using this

/-- **A pop reports "empty" only when the deque is empty (partial: no stale link CAS).**  The only
    way a pop returns false is the anchor load that finds its end pointer null; at that moment the
    chain is empty.  So a pop on a non-empty deque — quiescent or not — never fails. -/
theorem C17_deque_pop_false_only_if_empty_partial (n : Nat) (log : List Ev) (s s' : St)
    (h : runLog step (init n) log = some s) (hs : s.stale = false) (t : Nat) (a : Anchor) (d : Bool)
    (hpc : s.pc t = .popLd d) (hstep : step s (.ld t a) = some s')
    (hret : s'.pc t = .retn false 0) : contents s = [] := by
  have hi := inv_of_accepted h hs
  simp only [step, stepG] at hstep
  split at hstep
  case isFalse => simp at hstep
  rename_i hg
  obtain ⟨_, ha⟩ := hg
  subst ha
  rw [hpc] at hstep
  simp only [Option.some.injEq] at hstep
  subst hstep
  simp only [upd_same] at hret
  by_cases h0 : s.anchor.endp d = 0
  · simp [contents, hi.glob.nil_of_end d h0]
  · simp only [h0, if_false] at hret
    split at hret
    · simp at hret
    · split at hret <;> simp at hret

/-- **Refinement to a list (partial: no stale link CAS).**  Seen through the abstraction
    `contents` (values stored in the chain, left to right) every accepted step of every execution
    is one of (`Lin`): nothing happens; a value is inserted at end `d` (`d = false`: in front,
    `d = true`: at the back) and recorded as pushed; or the value at end `d` is removed, recorded as
    popped and handed to the popping thread (it is the value that thread's `pop` returns).  These are
    the transitions of a sequential double-ended queue, so every concurrent execution is
    linearizable with the successful anchor CASes as linearisation points. -/
theorem C17_deque_refines_list_partial (n : Nat) (log : List Ev) (s s' : St) (e : Ev)
    (h : runLog step (init n) log = some s) (hstep : step s e = some s') (hs : s'.stale = false) :
    Lin s s' :=
  step_lin (inv_of_accepted h (stale_mono hstep hs)) hstep

/-- **Sequential refinement (full strength).**  In single-threaded use no hypothesis is needed:
    no link CAS is ever stale, so the deque behaves as a list — `push_left/right` insert in front /
    at the back, `pop_left/right` remove and return the first / last element (`Lin`), a pop reports
    "empty" only on the empty list, and the anchor/links always describe the list. -/
theorem C17_deque_seq_refines_list (log : List Ev) (s s' : St) (e : Ev)
    (h : runLog step (init 1) log = some s) (hstep : step s e = some s') :
    s'.stale = false ∧ Lin s s' ∧ Glob s'.anchor s'.chain s'.nodes s'.used ∧
    s'.pushed.Perm (s'.popped ++ contents s') ∧
    (∀ t d a, e = .ld t a → s.pc t = .popLd d → s'.pc t = .retn false 0 → contents s = []) := by
  have h' : runLog step (init 1) (log ++ [e]) = some s' := by
    rw [runLog_append, h]; simp [runLog, hstep]
  have hs' := (inv1_of_accepted h').fresh
  have hi' := inv_of_accepted h' hs'
  refine ⟨hs', C17_deque_refines_list_partial 1 log s s' e h hstep hs', hi'.glob, hi'.cons, ?_⟩
  intro t d a he hpc hret
  subst he
  exact C17_deque_pop_false_only_if_empty_partial 1 log s s' h (stale_mono hstep hs') t a d hpc hstep hret

/-! ## Follow-up C17s (1): when exactly do the concurrent theorems hold for the pinned tree?

The hypothesis `stale = false` of the `_partial` theorems is a flag of the model.  Here it is
replaced by a condition **on the log**, phrased in terms of node recycling, computed by the
monitor `Deque.Mon` that runs beside the acceptor (`Deque.stepM`, `Lemmas/DequeTag.lean`):

* a thread that passed the second `anchor_ != lrs` re-check of `stabilize_left/right` (event
  `chk … true` at `stChk2`) holds a *link snapshot* `(prev, prevnext)` until its link CAS;
* `dirty t` — node `prev` was handed to `pool_.deallocate` (event `free`) while `t` held it;
* `aba` — a link CAS **succeeded** although the thread's snapshot was dirty.

`NoRecycledCas n log` ("no link CAS succeeds on a node that was freed after the thread took its
snapshot of it") is what hazard pointers would enforce.  Recycling as such is allowed, also of a
snapshotted node, as long as the late CAS fails. -/

/-- the log condition: running model + recycling monitor over `log` never raises `aba` -/
def NoRecycledCas (n : Nat) (log : List Ev) : Prop :=
  ∀ s m, runLog (stepM false) (init n, mon0) log = some (s, m) → m.aba = false

/-- **Characterisation (sufficiency).**  For every number of threads and every accepted log of the
    pinned tree's model: if no link CAS succeeded on a node freed under the thread's snapshot, then
    no stabilisation link CAS was stale — so every `_partial` theorem above applies. -/
theorem C17_deque_stale_only_by_recycling (n : Nat) (log : List Ev) (s : St)
    (h : runLog step (init n) log = some s) (hr : NoRecycledCas n log) : s.stale = false := by
  obtain ⟨m, hm⟩ := runM_exists (fx := false) mon0 h
  exact (stale_false_of_aba_false hm (hr s m hm)).1

/-- **Characterisation (exactness).**  Along every run of the pinned tree's model with the recycling
    monitor: a stabilisation link CAS was stale **iff** a link CAS succeeded on a node that had been
    freed while the thread held its snapshot of it.  So `stale = false` *is* the recycling
    condition: `NoRecycledCas` is not merely sufficient for the `_partial` theorems, it is their
    hypothesis restated on the log. -/
theorem C17_deque_stale_iff_recycled_cas (n : Nat) (log : List Ev) (s : St) (m : Mon)
    (h : runLog (stepM false) (init n, mon0) log = some (s, m)) :
    s.stale = false ↔ m.aba = false :=
  ⟨aba_false_of_stale_false h, fun hm => (stale_false_of_aba_false h hm).1⟩

/-- **Exactly once, pinned tree, under the recycling condition** (all thread counts, operation
    mixes and interleavings): conservation as a multiset, nothing popped twice or invented, drained
    = pushed; the anchor/links describe the chain; every step refines the list deque. -/
theorem C17_deque_conc_norecycle (n : Nat) (log : List Ev) (s : St)
    (h : runLog step (init n) log = some s) (hr : NoRecycledCas n log) :
    s.pushed.Perm (s.popped ++ contents s) ∧
    (∀ v, s.popped.count v ≤ s.pushed.count v) ∧
    (s.chain = [] → s.popped.Perm s.pushed) ∧
    (s.pushed.Nodup → s.popped.Nodup) ∧
    Glob s.anchor s.chain s.nodes s.used := by
  have hs := C17_deque_stale_only_by_recycling n log s h hr
  have hc := C17_deque_conc_partial n log s h hs
  exact ⟨hc.1, hc.2.1, hc.2.2, C17_deque_no_duplicate_partial n log s h hs,
    (C17_deque_chain_partial n log s h hs).1⟩

/-- **Linearizability, pinned tree, under the recycling condition**: if the log extended by `e`
    satisfies the condition, the step `e` is a stutter, an insert at an end, or the removal of the
    end element handed to the popping thread; and a pop answers "empty" only on the empty deque. -/
theorem C17_deque_refines_list_norecycle (n : Nat) (log : List Ev) (s s' : St) (e : Ev)
    (h : runLog step (init n) log = some s) (hstep : step s e = some s')
    (hr : NoRecycledCas n (log ++ [e])) :
    Lin s s' ∧ (∀ t d a, e = .ld t a → s.pc t = .popLd d → s'.pc t = .retn false 0 → contents s = []) := by
  have h' : runLog step (init n) (log ++ [e]) = some s' := by
    rw [runLog_append, h]; simp [runLog, hstep]
  have hs' := C17_deque_stale_only_by_recycling n (log ++ [e]) s' h' hr
  refine ⟨C17_deque_refines_list_partial n log s s' e h hstep hs', ?_⟩
  intro t d a he hpc hret
  subst he
  exact C17_deque_pop_false_only_if_empty_partial n log s s' h (stale_mono hstep hs') t a d hpc hstep hret

/-- **The finding violates exactly this condition.**  On the witness log of the defect the
    recycling monitor fires: thread 0 takes its snapshot of node 3 (`chk 0 true`), node 3 is freed
    twice and re-allocated under it (`free 1 3`), thread 0's link CAS then succeeds (`lcas 0 true`):
    `aba = true`; on the log without that CAS and what follows it the condition still holds. -/
theorem C17_deque_witness_is_recycled_cas :
    (runLog (stepM false) (init 2, mon0) abaLog).map (fun x => (x.2.aba, x.1.stale)) = some (true, true) ∧
    (runLog (stepM false) (init 2, mon0) (abaLog.take 93)).map
      (fun x => (x.2.aba, x.2.dirty 0, x.1.stale, x.1.pc 0)) =
      some (false, true, false, .stLink .pushDone true ⟨3, 1, 1, 5⟩ ⟨3, 0⟩ ⟨2, 0⟩) ∧
    ¬ NoRecycledCas 2 abaLog := by
  refine ⟨by decide, by decide, ?_⟩
  intro hr
  have h : (runLog (stepM false) (init 2, mon0) abaLog).map (fun x => x.2.aba) = some true := by decide
  cases hx : runLog (stepM false) (init 2, mon0) abaLog with
  | none => simp [hx] at h
  | some x =>
    obtain ⟨s, m⟩ := x
    have := hr s m hx
    simp [hx, this] at h

/-! ## Follow-up C17s (1b): the weakest condition proved sufficient — no stale link CAS on a live link

`stale = false` (equivalently: no CAS on a node freed under the snapshot) is sufficient but not
necessary: random schedules of the real code do produce stale link CASes that succeed and do no
harm.  `harmFreeB false (init n) log` (`Lemmas/DequeHarm.lean`, a decidable test run beside the
acceptor) only forbids a stale link CAS that hits a **live** link: one of a chain node that is not
the end node on that side, the already stored inward link of another push's private node, or the
freelist's word of a free node.  Chain of implications, all proved:
`NoRecycledCas` ⟹ `stale = false` ⟹ `harmFreeB`; the last one is strict (`harmlessStaleLog`). -/

/-- **Exactly once, pinned tree, weakest proved condition.**  For every thread count and every
    accepted log without a stale link CAS on a live link: conservation as a multiset, nothing popped
    twice or invented, drained = pushed, distinct pushes give distinct pops, and the anchor and
    links describe the chain. -/
theorem C17_deque_conc_harmfree (n : Nat) (log : List Ev) (s : St)
    (h : runLog step (init n) log = some s) (hf : harmFreeB false (init n) log = true) :
    s.pushed.Perm (s.popped ++ contents s) ∧
    (∀ v, s.popped.count v ≤ s.pushed.count v) ∧
    (s.chain = [] → s.popped.Perm s.pushed) ∧
    (s.pushed.Nodup → s.popped.Nodup) ∧
    Glob s.anchor s.chain s.nodes s.used := by
  have hi := inv_of_harmFree h hf
  have hc := conc_of_inv hi
  exact ⟨hc.1, hc.2.1, hc.2.2, fun hd => (List.nodup_append.1 (hi.cons.nodup_iff.1 hd)).1, hi.glob⟩

/-- **Linearizability, pinned tree, weakest proved condition**: if the log extended by `e` has no
    harmful link CAS, step `e` refines the list deque and a pop answers "empty" only when empty. -/
theorem C17_deque_refines_list_harmfree (n : Nat) (log : List Ev) (s s' : St) (e : Ev)
    (h : runLog step (init n) log = some s) (hstep : step s e = some s')
    (hf : harmFreeB false (init n) log = true) :
    Lin s s' ∧ (∀ t d a, e = .ld t a → s.pc t = .popLd d → s'.pc t = .retn false 0 → contents s = []) := by
  have hi := inv_of_harmFree h hf
  refine ⟨step_lin hi hstep, ?_⟩
  intro t d a he hpc hret
  subst he
  exact pop_false_only_if_empty_G hi t a d hpc hstep hret

/-- **The condition is weaker than `stale = false`** (hence than `NoRecycledCas`). -/
theorem C17_deque_harmfree_of_not_stale (n : Nat) (log : List Ev) (s : St)
    (h : runLog step (init n) log = some s) (hs : s.stale = false) :
    harmFreeB false (init n) log = true :=
  harmFree_of_stale_false h hs

/-- **The finding violates exactly this condition**: the witness log fails the test, at the link
    CAS of thread 0 (position 93): the anchor has changed, node 3 is in the chain `[3, 2]` and is
    not its right end, so its `right` link is live. -/
theorem C17_deque_witness_is_harmful :
    harmFreeB false (init 2) abaLog = false ∧ harmFreeB false (init 2) (abaLog.take 93) = true ∧
    (runLog step (init 2) (abaLog.take 93)).map
      (fun s => (s.chain, s.anchor, harmStep s (.lcas 0 true))) = some ([3, 2], ⟨3, 2, 2, 14⟩, false) := by
  refine ⟨by decide, by decide, by decide⟩

/-- A **harmless stale link CAS with recycling** (non-vacuity and strictness): thread 0 is stopped
    before the link CAS of its `push_right(3)` holding the snapshot `1->right = (null, 0)`; thread 1
    finishes the stabilisation, pops 3 and 1 (both nodes go to the freelist), pushes 7 into the
    re-allocated node 1; thread 0's CAS then succeeds on the recycled node (`stale`, and the
    recycling monitor fires), but node 1 is the right end of the chain: nothing is lost. -/
def harmlessStaleLog : List Ev :=
  [.inv 1 true false 1, .alloc 1 1, .ld 1 ⟨0, 0, 0, 0⟩, .cas 1 true, .ret 1 true 0,
   .inv 0 true true 3, .alloc 0 2, .ld 0 ⟨1, 1, 0, 1⟩, .link 0 2 1, .cas 0 true,
   .rd 0 ⟨1, 0⟩, .chk 0 true, .rd 0 ⟨0, 0⟩, .chk 0 true,
   .inv 1 false true 0, .ld 1 ⟨1, 2, 1, 2⟩, .rd 1 ⟨1, 0⟩, .chk 1 true, .rd 1 ⟨0, 0⟩, .chk 1 true,
   .lcas 1 true, .cas 1 true, .ld 1 ⟨1, 2, 0, 3⟩, .chk 1 true, .rd 1 ⟨1, 0⟩, .cas 1 true,
   .free 1 2, .ret 1 true 3,
   .inv 1 false false 0, .ld 1 ⟨1, 1, 0, 4⟩, .cas 1 true, .free 1 1, .ret 1 true 1,
   .inv 1 true false 7, .alloc 1 1, .ld 1 ⟨0, 0, 0, 5⟩, .cas 1 true, .ret 1 true 0,
   .lcas 0 true, .cas 0 false, .ret 0 true 0,
   .inv 1 false false 0, .ld 1 ⟨1, 1, 0, 6⟩, .cas 1 true, .free 1 1, .ret 1 true 7]

example : (runLog (stepM false) (init 2, mon0) harmlessStaleLog).map
      (fun x => (x.1.stale, x.2.aba, x.1.pushed, x.1.popped, x.1.chain)) =
      some (true, true, [7, 3, 1], [7, 1, 3], []) ∧
    harmFreeB false (init 2) harmlessStaleLog = true := by
  refine ⟨by decide, by decide⟩

/-- ordinary concurrent history with recycling that satisfies all three conditions: the helped
    push / pop example below, and the witness of the defect cut before the fatal CAS (six pushes,
    five pops, nodes 1-3 recycled several times, thread 0's snapshot node freed twice). -/
example : (runLog (stepM false) (init 2, mon0) (abaLog.take 93)).map
      (fun x => (x.1.stale, x.2.aba, x.1.pushed, x.1.popped, contents x.1)) =
      some (false, false, [6, 5, 4, 3, 2, 1], [4, 3, 2, 1], [6, 5]) := by decide

/-! ## Follow-up C17s (2): the repaired code (`fix:` commit on deque.hpp, model `stepF = stepG true`)

`alloc_node` keeps and increments the tags it finds in the recycled memory and the inward-link
store of `push_left/right` increments the link's tag: the tag of a link word grows with every
write for the whole life of the deque.  Then a link CAS can only succeed if the link was not
written since it was loaded, and (`Lemmas/DequeTag.lean`, invariant `TagInv`) the link *is* written
before the anchor can leave the unstable state the snapshot belongs to — so a link CAS is never
stale and the **unrestricted** statement holds. -/

/-- **Exactly once, repaired code, full strength** — the statement `C17_deque_conc` that is false
    of the pinned tree: for every number of threads, every operation mix and every interleaving,
    with helping and node recycling: no link CAS is stale, pushed = popped + contents as multisets,
    nothing is popped twice or invented, and once the chain is empty popped = pushed. -/
theorem C17_deque_fixed_conc (n : Nat) (log : List Ev) (s : St)
    (h : runLog stepF (init n) log = some s) :
    s.stale = false ∧
    s.pushed.Perm (s.popped ++ contents s) ∧
    (∀ v, s.popped.count v ≤ s.pushed.count v) ∧
    (s.chain = [] → s.popped.Perm s.pushed) := by
  have hi := stale_false_fixed h
  exact ⟨hi.1, conc_of_inv hi.2⟩

/-- **No element is delivered twice, repaired code, full strength.** -/
theorem C17_deque_fixed_no_duplicate (n : Nat) (log : List Ev) (s : St)
    (h : runLog stepF (init n) log = some s) (hd : s.pushed.Nodup) : s.popped.Nodup := by
  have hi := (stale_false_fixed h).2
  exact (List.nodup_append.1 (hi.cons.nodup_iff.1 hd)).1

/-- **The anchor and the links describe the chain, repaired code, full strength.** -/
theorem C17_deque_fixed_chain (n : Nat) (log : List Ev) (s : St)
    (h : runLog stepF (init n) log = some s) :
    Glob s.anchor s.chain s.nodes s.used ∧ (s.anchor.l = 0 ↔ s.chain = []) ∧
    (s.anchor.r = 0 ↔ s.chain = []) := by
  have hi := (stale_false_fixed h).2
  refine ⟨hi.glob, ⟨fun h0 => hi.glob.nil_of_end false (by simpa [Anchor.endp] using h0), ?_⟩,
    ⟨fun h0 => hi.glob.nil_of_end true (by simpa [Anchor.endp] using h0), ?_⟩⟩
  · intro hc; have := hi.glob.hd; rw [hc] at this; simpa using this
  · intro hc; have := hi.glob.lst; rw [hc] at this; simpa using this

/-- **Linearizability, repaired code, full strength**: every accepted step of every execution is
    a stutter, an insert at end `d`, or the removal of the element at end `d` handed to the popping
    thread (`Lin`); a pop answers "empty" only when the deque is empty (so a pop on a non-empty
    deque, quiescent or not, never fails). -/
theorem C17_deque_fixed_refines_list (n : Nat) (log : List Ev) (s s' : St) (e : Ev)
    (h : runLog stepF (init n) log = some s) (hstep : stepF s e = some s') :
    Lin s s' ∧ (∀ t d a, e = .ld t a → s.pc t = .popLd d → s'.pc t = .retn false 0 → contents s = []) := by
  have hi := (stale_false_fixed h).2
  refine ⟨step_lin hi hstep, ?_⟩
  intro t d a he hpc hret
  subst he
  exact pop_false_only_if_empty_G hi t a d hpc hstep hret

/-- Event log of the **repaired** code under the directed schedule of the finding
    (`findings/C17-aba-link.case`, node addresses renamed 1, 2, 3; note the link tags that now
    survive recycling, e.g. `.rd 1 ⟨2, 7⟩`). -/
def fixedAbaLog : List Ev :=
  [.inv 0 true true 3, .alloc 0 1, .inv 1 true false 1, .alloc 1 2, .ld 1 ⟨0, 0, 0, 0⟩,
   .cas 1 true, .ret 1 true 0, .inv 1 true false 2, .alloc 1 3, .ld 1 ⟨2, 2, 0, 1⟩, .link 1 3 2,
   .cas 1 true, .rd 1 ⟨2, 2⟩, .chk 1 true, .rd 1 ⟨0, 1⟩, .chk 1 true, .lcas 1 true, .cas 1 true,
   .ret 1 true 0, .inv 1 false true 0, .ld 1 ⟨3, 2, 0, 3⟩, .chk 1 true, .rd 1 ⟨3, 2⟩, .cas 1 true,
   .ld 0 ⟨3, 3, 0, 4⟩, .link 0 1 3, .cas 0 true, .rd 0 ⟨3, 2⟩, .chk 0 true, .rd 0 ⟨2, 2⟩,
   .chk 0 true, .free 1 2, .ret 1 true 1, .inv 1 false false 0, .ld 1 ⟨3, 1, 1, 5⟩, .rd 1 ⟨3, 2⟩,
   .chk 1 true, .rd 1 ⟨2, 2⟩, .chk 1 true, .lcas 1 true, .cas 1 true, .ld 1 ⟨3, 1, 0, 6⟩,
   .chk 1 true, .rd 1 ⟨1, 3⟩, .cas 1 true, .free 1 3, .ret 1 true 2, .inv 1 true true 4,
   .alloc 1 3, .ld 1 ⟨1, 1, 0, 7⟩, .link 1 3 1, .cas 1 true, .rd 1 ⟨1, 3⟩, .chk 1 true,
   .rd 1 ⟨0, 1⟩, .chk 1 true, .lcas 1 true, .cas 1 true, .ret 1 true 0, .inv 1 true true 5,
   .alloc 1 2, .ld 1 ⟨1, 3, 0, 9⟩, .link 1 2 3, .cas 1 true, .rd 1 ⟨3, 4⟩, .chk 1 true,
   .rd 1 ⟨0, 4⟩, .chk 1 true, .lcas 1 true, .cas 1 true, .ret 1 true 0, .inv 1 false false 0,
   .ld 1 ⟨1, 2, 0, 11⟩, .chk 1 true, .rd 1 ⟨3, 2⟩, .cas 1 true, .free 1 1, .ret 1 true 3,
   .inv 1 false false 0, .ld 1 ⟨3, 2, 0, 12⟩, .chk 1 true, .rd 1 ⟨2, 5⟩, .cas 1 true, .free 1 3,
   .ret 1 true 4, .inv 1 true false 6, .alloc 1 3, .ld 1 ⟨2, 2, 0, 13⟩, .link 1 3 2, .cas 1 true,
   .rd 1 ⟨2, 7⟩, .chk 1 true, .rd 1 ⟨3, 4⟩, .lcas 0 false, .ret 0 true 0, .done 0, .cas 1 true,
   .ret 1 true 0, .inv 1 false false 0, .ld 1 ⟨3, 2, 0, 15⟩, .chk 1 true, .rd 1 ⟨2, 7⟩,
   .cas 1 true, .free 1 3, .ret 1 true 6, .inv 1 false false 0, .ld 1 ⟨2, 2, 0, 16⟩, .cas 1 true,
   .free 1 2, .ret 1 true 5, .done 1]

/-- **The directed schedule that failed before passes after the repair.**  The log of the repaired
    code under the schedule of the finding is an accepted log of the repaired model in which thread
    0's late link CAS fails (`.lcas 0 false` — the only difference in control flow to `abaLog`), all
    six values are popped exactly once, the deque ends empty, no link CAS was stale; and the pinned
    tree's model does not accept this log (the tie tells the two disciplines apart). -/
theorem C17_deque_fixed_aba_schedule :
    (runLog stepF (init 2) fixedAbaLog).map (fun s => (s.pushed, s.popped, s.chain, s.stale, s.pc 0, s.pc 1)) =
      some ([6, 5, 4, 3, 2, 1], [5, 6, 4, 3, 2, 1], [], false, .fin, .fin) ∧
    runLog step (init 2) fixedAbaLog = none ∧ runLog stepF (init 2) abaLog = none := by
  refine ⟨by decide, ?_, ?_⟩
  · have h : (runLog step (init 2) fixedAbaLog).isSome = false := by decide
    cases hx : runLog step (init 2) fixedAbaLog with
    | none => rfl
    | some x => simp [hx] at h
  · have h : (runLog stepF (init 2) abaLog).isSome = false := by decide
    cases hx : runLog stepF (init 2) abaLog with
    | none => rfl
    | some x => simp [hx] at h

/-! ## Non-vacuity -/

/-- single-threaded: push_left 1, push_left 2 (with its stabilisation), pop_right returns 1 -/
def seqLog : List Ev :=
  [.inv 0 true false 1, .alloc 0 10, .ld 0 ⟨0, 0, 0, 0⟩, .cas 0 true, .ret 0 true 0,
   .inv 0 true false 2, .alloc 0 20, .ld 0 ⟨10, 10, 0, 1⟩, .link 0 20 10, .cas 0 true,
   .rd 0 ⟨10, 0⟩, .chk 0 true, .rd 0 ⟨0, 0⟩, .chk 0 true, .lcas 0 true, .cas 0 true, .ret 0 true 0,
   .inv 0 false true 0, .ld 0 ⟨20, 10, 0, 3⟩, .chk 0 true, .rd 0 ⟨20, 1⟩, .cas 0 true, .free 0 10,
   .ret 0 true 1]

example : (runLog step (init 1) seqLog).map (fun s => (s.pushed, s.popped, contents s, s.stale)) =
    some ([2, 1], [1], [2], false) := by decide

/-- two threads: thread 1 helps the unfinished push_left of thread 0 and then pops its element -/
example : (runLog step (init 2)
    [.inv 0 true false 1, .alloc 0 10, .ld 0 ⟨0, 0, 0, 0⟩, .cas 0 true, .ret 0 true 0,
     .inv 0 true false 2, .alloc 0 20, .ld 0 ⟨10, 10, 0, 1⟩, .link 0 20 10, .cas 0 true,
     .inv 1 false false 0, .ld 1 ⟨20, 10, 2, 2⟩, .rd 1 ⟨10, 0⟩, .chk 1 true, .rd 1 ⟨0, 0⟩, .chk 1 true,
     .lcas 1 true, .cas 1 true, .ld 1 ⟨20, 10, 0, 3⟩, .chk 1 true, .rd 1 ⟨10, 0⟩, .cas 1 true,
     .free 1 20, .ret 1 true 2,
     .rd 0 ⟨10, 0⟩, .chk 0 false, .ret 0 true 0]).map
      (fun s => (s.pushed, s.popped, contents s, s.stale)) = some ([2, 1], [2], [1], false) := by
  decide

/-! ## Back-end adapters use the ends they claim -/

/-- `lockfree_lifo_backend`: `pop` takes from the end the default `push` (other_end = false)
    inserts at (LIFO); `push(.., other_end = true)` inserts at the opposite end. -/
theorem C17_backend_lifo_ends (steal : Bool) :
    Backend.popEnd .lifo steal = Backend.pushEnd .lifo false ∧
    Backend.pushEnd .lifo true ≠ Backend.popEnd .lifo steal := by
  cases steal <;> decide

/-- `lockfree_abp_fifo_backend`: every push goes to the left end; the owner (`steal = false`)
    pops at the opposite end (FIFO), a thief at the push end. -/
theorem C17_backend_abp_fifo_ends (other : Bool) :
    Backend.popEnd .abpFifo false ≠ Backend.pushEnd .abpFifo other ∧
    Backend.popEnd .abpFifo true = Backend.pushEnd .abpFifo other := by
  cases other <;> decide

/-- `lockfree_abp_lifo_backend`: the owner pops at the end of the default push (LIFO), a thief
    at the opposite end. -/
theorem C17_backend_abp_lifo_ends :
    Backend.popEnd .abpLifo false = Backend.pushEnd .abpLifo false ∧
    Backend.popEnd .abpLifo true ≠ Backend.pushEnd .abpLifo false ∧
    Backend.pushEnd .abpLifo true = Backend.popEnd .abpLifo true := by decide

end PikaVerif.C17
