import PikaVerif.Props.C14
import PikaVerif.Lemmas.StopRemAll
import PikaVerif.Lemmas.StopSpin
/-!
# C14q — request_stop never touches a destroyed callback object (follow-up to `Props/C14.lean`)

`Props/C14.lean` (C14p) proves that a callback body is never *entered* after the destructor of
its `stop_callback` has returned.  After the body has returned, `request_stop` still writes into
the callback object (`cb->is_removed_ = nullptr; cb->callback_finished_executing_ = true`)
unless its stack local `is_removed` was set by a destructor that ran on the same thread from
inside the callback.  This file proves that the flag is exact — it is set **iff** the destructor
has returned or is at its `return` — hence the stores after the callback only ever go into an
object that still exists, whether the object is destroyed on the running thread (inside its own
invocation: the stores are skipped) or on another thread (the destructor is still waiting).

`ReachableF` (from `Props/C14.lean`): state after an accepted log of the repaired code with
`K > 0` threads and thread identities that tell exactly the threads apart.  `intact s c`: the
object exists and no destructor of `c` has returned or is even at its `return`.
`gone s c` (from C14p) is the opposite for a callback whose destructor was invoked.
-/
namespace PikaVerif.C14q
open PikaVerif PikaVerif.Stop PikaVerif.C14

theorem invSafe_of_reachableF {s : St} (h : ReachableF s) : InvSafe s := by
  obtain ⟨n, K, ident, fc, srcs, log, hK, hid, hl⟩ := h
  exact invSafe_of_accepted hK hid hl

/-- `intact`, spelled out -/
theorem intact_spec (s : St) (c : Nat) :
    intact s c ↔ (s.life c ≠ .dead ∧ s.life c ≠ .new ∧ ∀ b, retUnreg (s.pc b) ≠ some c) := Iff.rfl

/-- what the acceptor demands of `stop.fin` -/
theorem finStore_pre {s s' : St} {a c : Nat} {r : Bool} (h : step s (.finStore a c r) = some s') :
    a < s.n ∧ s.pc a = .post c false ∧ r = s.remFlag a := by
  simp only [step] at h
  split at h
  · assumption
  · simp at h

/-! ## (1) the stores after the callback go into an existing object -/

/-- **The finished store never goes into a destroyed object.**  Whenever the model accepts
    `stop.fin` of request_stop for callback `c` with `is_removed = false` — the only case in
    which `request_stop` writes `cb->is_removed_` and `cb->callback_finished_executing_` after the
    callback has returned — the object of `c` exists, its destructor has not returned, and no
    destructor of `c` (on any thread, at any nesting depth) is even past its last access to the
    stop state. -/
theorem C14q_finished_store_into_live_object (s s' : St) (hr : ReachableF s) (a c : Nat)
    (h : step s (.finStore a c false) = some s') :
    s.life c ≠ .dead ∧ s.life c ≠ .new ∧ ∀ b, retUnreg (s.pc b) ≠ some c := by
  obtain ⟨_, hp, hf⟩ := finStore_pre h
  exact (invSafe_of_reachableF hr).noflag_intact (w := a) (by simp [hp, runPhase]) hf.symm

/-- **Destroyed on the running thread** (the callback destroyed its own `stop_callback`, or
    code called from it did): if the destructor of `c` has returned, or is at its `return`,
    when request_stop comes back from the callback, then `stop.fin` is only accepted with
    `is_removed = true`, and that step does not write to the callback object at all: finished
    flag, `is_removed_` pointer and every other field of every callback are unchanged. -/
theorem C14q_no_store_after_own_thread_dtor (s s' : St) (hr : ReachableF s) (a c : Nat) (removed : Bool)
    (h : step s (.finStore a c removed) = some s') (hg : gone s c) :
    removed = true ∧ s'.fin = s.fin ∧ s'.remPtr = s.remPtr ∧ s'.life = s.life ∧ s'.running = s.running := by
  obtain ⟨hn, hp, hf⟩ := finStore_pre h
  have hfl := (invSafe_of_reachableF hr).gone_flag (w := a) (by simp [hp, runPhase]) hg
  have hrm : removed = true := by rw [hf, hfl]
  subst hrm
  simp only [step] at h
  rw [if_pos ⟨hn, hp, hf⟩] at h
  simp only [if_true, Option.some.injEq] at h
  subst h
  exact ⟨rfl, rfl, rfl, rfl, rfl⟩

/-- … and such a destructor ran on the thread of that request_stop (it was called from inside the
    invocation of `c`; `thr K x = x % K`) -/
theorem C14q_removed_means_own_thread (s s' : St) (hr : ReachableF s) (a c : Nat)
    (h : step s (.finStore a c true) = some s') :
    gone s c ∧ thr s.K (s.dtorBy c) = thr s.K a := by
  obtain ⟨_, hp, hf⟩ := finStore_pre h
  have hP := invSafe_of_reachableF hr
  have hw : runPhase (s.pc a) = some c := by simp [hp, runPhase]
  have hg := hP.flag_gone hw hf.symm
  refine ⟨hg, ?_⟩
  rcases hg with hd | hd
  · exact hP.all.T.sameThrD a c (runPhase_win hw) hd
  · exact hP.all.T.sameThrR a _ c (runPhase_win hw) hd

/-- **Destroyed on another thread**: a destructor of `c` that is in progress on any thread when
    request_stop stores the finished flag is still inside `remove_callback`, before its `return`
    (in its lock loop, at the thread comparison, or waiting for exactly this store); together
    with `C14_dtor_does_not_wait_for_own_thread` / `C14_dtor_waits_for_other_thread`: the one
    on another thread waits, and `stop.waited` is only accepted after this store. -/
theorem C14q_other_thread_dtor_still_inside (s s' : St) (hr : ReachableF s) (a c b : Nat)
    (h : step s (.finStore a c false) = some s') (hb : unregOf (s.pc b) = some c) :
    unregPath (s.pc b) = some c ∧ s.fin c = false ∧ s'.fin c = true := by
  have h3 := (C14q_finished_store_into_live_object s s' hr a c h).2.2 b
  obtain ⟨hn, hp, hf⟩ := finStore_pre h
  have hP := invSafe_of_reachableF hr
  refine ⟨?_, hP.all.D.winNoFin a c (by simp [hp, winPhase]), ?_⟩
  · rcases unregOf_split hb with h1 | h1
    · exact h1
    · exact absurd h1 h3
  · simp only [step] at h
    rw [if_pos ⟨hn, hp, hf⟩] at h
    simp only [Bool.false_eq_true, if_false, Option.some.injEq] at h
    subst h
    simp

/-! ## (2) the bookkeeping fact: `is_removed` is exact -/

/-- **`is_removed` is set iff the object is gone** (state form; `→` is `InvR.remA/remP` of C14p,
    `←` is the converse that was missing).  While request_stop `w` is between the store
    `cb->is_removed_ = &is_removed` and the finished store for `c` (about to call the callback,
    inside it, or back from it), its local `is_removed` is true exactly when the destructor of
    `c` has returned or is at its `return`. -/
theorem C14q_is_removed_iff_gone (s : St) (hr : ReachableF s) (w c : Nat)
    (hw : runPhase (s.pc w) = some c) : (s.remFlag w = true ↔ gone s c) :=
  ⟨(invSafe_of_reachableF hr).flag_gone hw, (invSafe_of_reachableF hr).gone_flag hw⟩

/-- event form: the value of `is_removed` that `stop.fin` reports (and the acceptor compares
    with the implementation's) is true iff the destructor of `c` has returned or is at its
    `return` -/
theorem C14q_fin_removed_iff_gone (s s' : St) (hr : ReachableF s) (a c : Nat) (removed : Bool)
    (h : step s (.finStore a c removed) = some s') : (removed = true ↔ gone s c) := by
  obtain ⟨_, hp, hf⟩ := finStore_pre h
  rw [hf]
  exact C14q_is_removed_iff_gone s hr a c (by simp [hp, runPhase])

/-- during that window `is_removed_` of the callback points into the frame of the request_stop
    that processes it (`runPhase ⇒ remPtr = some w`), and conversely a pointer seen by a
    destructor that has not passed its thread check belongs to a request_stop that is still in
    that window: the store `*cb->is_removed_ = true` of `remove_callback` (`stop.self` with the
    own-thread branch and a non-null pointer) goes into a live stack frame. -/
theorem C14q_setrem_into_live_frame (s s' : St) (hr : ReachableF s) (b c : Nat)
    (h : step s (.selfChk b c true true) = some s') :
    ∃ w, s.remPtr c = some w ∧ runPhase (s.pc w) = some c ∧ thr s.K b = thr s.K w ∧
      s'.remFlag w = true := by
  have hP := invSafe_of_reachableF hr
  simp only [step] at h
  split at h
  · rename_i hg
    simp only [if_true] at h
    split at h
    · rename_i w hw
      simp only [Option.some.injEq] at h
      have hrun := hP.R.ptrP w c b hw (by simp [hg.2.1, unregPath])
      refine ⟨w, hw, hrun, ?_, ?_⟩
      · have hwin := hP.all.A.winPhaseWinner w c (runPhase_win hrun)
        have hs := hP.all.S.sigW w hwin
        have he : s.sig = s.ident b := by simpa using hg.2.2.symm
        exact (hP.all.F.2 b w).1 (by rw [← he, hs])
      · subst h; simp
    · simp at h
  · simp at h

theorem C14q_ptr_during_run (s : St) (hr : ReachableF s) (w c : Nat)
    (hw : runPhase (s.pc w) = some c) : s.remPtr c = some w :=
  (invSafe_of_reachableF hr).C.ptrRun w c hw

/-! ## (3) never after the destructor: every access, not only the invocation -/

/-- the callback object an event of `request_stop` / `add_callback` reads or writes: unlinking
    the list head (`stop.deq`), `cb->is_removed_ = &is_removed` (`stop.pre_exec`), the invocation
    (`cb.begin`), the stores after it (`stop.fin` with `is_removed = false`, `stop.infin`), and
    linking it into the list (`stop.push`) -/
def touches : Ev → Option Nat
  | .deq _ c _ | .preExec _ c | .cbBegin _ c | .finStore _ c false | .inFin _ c | .push _ c _ => some c
  | _ => none

/-- **No access after the destructor** (full statement; `C14_not_after_dtor_partial` and
    `C14_not_after_dtor` of `Props/C14.lean` are the `cb.begin` instance and are kept).
    Whenever the model accepts an event by which `request_stop` or a constructor reads or writes
    the object of callback `c` — dequeue, publishing `is_removed_`, the invocation itself, the
    stores after the invocation, the push — the object exists, its destructor has not returned
    and no destructor of `c` is past its last access to the stop state. -/
theorem C14q_no_access_after_dtor (s s' : St) (hr : ReachableF s) (e : Ev) (c : Nat)
    (h : step s e = some s') (ht : touches e = some c) :
    s.life c ≠ .dead ∧ s.life c ≠ .new ∧ ∀ b, retUnreg (s.pc b) ≠ some c := by
  have hP := invSafe_of_reachableF hr
  have hB := hP.all.B
  cases e with
  | deq a c' more =>
    simp only [touches, Option.some.injEq] at ht; subst ht
    simp only [step] at h
    split at h
    · split at h
      · rename_i hd rest hl
        split at h
        · rename_i hc
          exact hP.listed_intact (by rw [hl, ← hc.1]; simp)
        · simp at h
      · simp at h
    · simp at h
  | preExec a c' =>
    simp only [touches, Option.some.injEq] at ht; subst ht
    simp only [step] at h
    split at h
    · rename_i hg
      have hw : winPhase (s.pc a) = some c' := by simp [hg.2, winPhase]
      exact hP.pending_intact (hB.winP a c' hw) (by simpa [hg.2, ranOf] using hB.runsW a c' hw)
    · simp at h
  | cbBegin a c' =>
    simp only [touches, Option.some.injEq] at ht; subst ht
    exact C14_not_after_dtor s s' hr a c' h
  | finStore a c' r =>
    cases r with
    | true => simp [touches] at ht
    | false =>
      simp only [touches, Option.some.injEq] at ht; subst ht
      exact C14q_finished_store_into_live_object s s' hr a c' h
  | inFin a c' =>
    simp only [touches, Option.some.injEq] at ht; subst ht
    simp only [step] at h
    split at h
    · rename_i hg
      exact hP.ctor_intact (hB.regP a c' (by simp [hg.2, regPhase])).1
    · simp at h
  | push a c' hn =>
    simp only [touches, Option.some.injEq] at ht; subst ht
    simp only [step] at h
    split at h
    · rename_i hg
      exact hP.ctor_intact (hB.regP a c' (by simp [hg.2.2.1, regPhase])).1
    · simp at h
  | _ => simp [touches] at ht

theorem reachableF_step {s s' : St} {e : Ev} (hr : ReachableF s) (h : step s e = some s') : ReachableF s' := by
  obtain ⟨n, K, ident, fc, srcs, log, hK, hid, hl⟩ := hr
  refine ⟨n, K, ident, fc, srcs, log ++ [e], hK, hid, ?_⟩
  rw [runLog_append, hl]
  simp [runLog, h]

theorem reachableF_run {s s' : St} {l : List Ev} (hr : ReachableF s) (h : runLog step s l = some s') :
    ReachableF s' := by
  induction l generalizing s with
  | nil => simp at h; exact h ▸ hr
  | cons e es ih =>
    simp only [runLog] at h
    cases hs : step s e with
    | none => simp [hs] at h
    | some s1 => simp only [hs] at h; exact ih (reachableF_step hr hs) h

theorem dead_run {s s' : St} {l : List Ev} (hr : ReachableF s) (h : runLog step s l = some s') (c : Nat)
    (hd : s.life c = .dead) : s'.life c = .dead := by
  induction l generalizing s with
  | nil => simp at h; exact h ▸ hd
  | cons e es ih =>
    simp only [runLog] at h
    cases hs : step s e with
    | none => simp [hs] at h
    | some s1 =>
      simp only [hs] at h
      exact ih (reachableF_step hr hs) h (C14_dead_is_final s s1 e hr.reachable hs c hd)

/-- **Log form.**  In an accepted log of the repaired code no event that accesses the object of
    callback `c` (in particular `cb.begin` and the finished store) comes after the return of the
    destructor of `c`: if `l₁ ++ [ret b r] ++ l₂ ++ [e]` is accepted, where `ret b r` is the return
    of `remove_callback(c)`, then `e` does not touch `c`. -/
theorem C14q_never_after_dtor_returned (n K : Nat) (ident : Nat → Nat) (fc : Bool) (srcs : Nat)
    (hK : 0 < K) (hid : ∀ a b, ident a = ident b ↔ a % K = b % K)
    (l₁ l₂ : List Ev) (b c : Nat) (r r' : Bool) (e : Ev) (s₁ s : St)
    (h1 : runLog step (init n K ident true fc srcs) l₁ = some s₁) (hb : s₁.pc b = .retn (.unreg c) r')
    (h2 : runLog step s₁ (.ret b r :: (l₂ ++ [e])) = some s) : touches e ≠ some c := by
  intro ht
  have hr1 : ReachableF s₁ := ⟨n, K, ident, fc, srcs, l₁, hK, hid, h1⟩
  simp only [runLog] at h2
  cases hs : step s₁ (.ret b r) with
  | none => simp [hs] at h2
  | some s2 =>
    simp only [hs] at h2
    have hd2 : s2.life c = .dead := by
      simp only [step] at hs
      split at hs
      · rw [hb] at hs
        simp only [Option.some.injEq] at hs
        subst hs; simp
      · simp at hs
    obtain ⟨s3, h3, h4⟩ := runLog_prefix h2
    have hr3 := reachableF_run (reachableF_step hr1 hs) h3
    have hd3 := dead_run (reachableF_step hr1 hs) h3 c hd2
    simp only [runLog] at h4
    cases hs4 : step s3 e with
    | none => simp [hs4] at h4
    | some s4 => exact (C14q_no_access_after_dtor s3 s4 hr3 e c hs4 ht).1 hd3

/-! ## (4) bounded termination of the spin loops (solo continuations)

The lock is only ever held for one step of its holder: every productive event of the holder
releases it (`holder_releases` — dequeue + unlock, end of loop + unlock, push + unlock, unlink +
unlock), and one is always enabled.  A thread that runs alone while the lock is free leaves its
lock loop after at most two of its own productive steps (`spinDist ≤ 2`): re-load, CAS — not
counting spurious failures of the weak CAS, which the model (like the hardware) allows without
bound.  Hence:
under the assumption that the lock holder takes its next step, every spin loop of the model
terminates within a bound; nothing is claimed for schedules in which other threads keep taking
the lock (the loops are not starvation free, in the code as in the model). -/

/-- **The lock holder releases the lock with its next step**: in every reachable state with the
    lock held by `h`, `h` has an enabled productive event, and *every* productive event of `h`
    that the model accepts leaves the lock free (bound 1 for every maximal solo continuation of
    the holder). -/
theorem C14q_holder_releases_in_one_step (s : St) (hr : Reachable s) (h : Nat) (hl : s.lock = some h) :
    (∃ e, actor e = h ∧ productive e = true ∧ enabled s e = true) ∧
    (∀ e s', actor e = h → productive e = true → step s e = some s' → s'.lock = none) := by
  have hA := invA_of_reachable hr
  obtain ⟨e, h1, h2, h3, _⟩ := holder_steps hA hl
  exact ⟨⟨e, h1, h2, h3⟩, fun e s' he hp hs => holder_releases hA hl he hp hs⟩

/-- **A spinning thread that runs alone gets out within two steps.**  While the lock is free,
    an activity `a` in a lock loop (`cas` / `spin`) always has an enabled productive event that
    is not a spurious CAS failure, and every such event of `a` that the model accepts strictly
    decreases `spinDist` (`≤ 2`) and leaves the lock free while `a` is still in the loop; so after
    at most two solo steps `a` has left the loop (it holds the lock, or took the function's own
    exit: stop already requested / stop not possible).  `spurious`: a failed CAS although lock bit
    and stop bit of the word equal the expected ones (stale source count in the expected value,
    or `compare_exchange_weak` failing spuriously) — the model accepts these without bound, as
    the hardware may. -/
theorem C14q_spin_solo_progress (s : St) (hr : Reachable s) (a : Nat) (hn : a < s.n)
    (hloop : lockLoop (s.pc a) = true) (hl : s.lock = none) :
    spinDist s a ≤ 2 ∧
    (∃ e, actor e = a ∧ productive e = true ∧ spurious s e = false ∧ enabled s e = true) ∧
    (∀ e s', actor e = a → productive e = true → spurious s e = false → step s e = some s' →
      spinDist s' a < spinDist s a ∧ (lockLoop (s'.pc a) = true → s'.lock = none)) := by
  have hA := invA_of_reachable hr
  exact ⟨spinDist_le s a, spin_enabled hn hloop hl,
    fun e s' he hp hq hs => spin_decreases hA hloop hl he hp hq hs⟩

/-- **Bound.**  From a reachable state with the lock held by `h` and `a` spinning: after the
    holder's next productive step and any two productive, non-spurious steps of `a` alone, `a` is
    out of its lock loop (bound 1 + 2 on every such continuation). -/
theorem C14q_spin_loop_bound (s s1 s2 s3 : St) (hr : Reachable s) (a h : Nat) (eh e1 e2 : Ev)
    (hloop : lockLoop (s.pc a) = true) (hl : s.lock = some h)
    (hh : actor eh = h) (hph : productive eh = true) (hsh : step s eh = some s1)
    (ha1 : actor e1 = a) (hp1 : productive e1 = true) (hq1 : spurious s1 e1 = false) (hs1 : step s1 e1 = some s2)
    (ha2 : actor e2 = a) (hp2 : productive e2 = true) (hq2 : spurious s2 e2 = false) (hs2 : step s2 e2 = some s3) :
    lockLoop (s2.pc a) = false ∨ lockLoop (s3.pc a) = false := by
  have hA := invA_of_reachable hr
  exact spin_bound hA hloop hl hh hph hsh ha1 hp1 hq1 hs1 ha2 hp2 hq2 hs2

/-! ## Non-vacuity -/

theorem ident2_faithful : ∀ a b : Nat, (fun a => a % 2 + 1) a = (fun a => a % 2 + 1) b ↔ a % 2 = b % 2 := by
  intro a b; simp

/-- the callback destroys its own `stop_callback` from inside its body (nested activity
    `2 = 0 + K` on thread 0), up to the point where request_stop is back from the callback -/
def selfDestroyPrefix : List Ev :=
  [.inv 0 (.reg 0), .load 0 false false 2, .acq 0, .push 0 0 false, .ret 0 false,
   .inv 0 .rs, .load 0 false false 2, .acq 0, .deq 0 0 false, .preExec 0 0, .cbBegin 0 0,
   .inv 2 (.unreg 0), .load 2 false true 2, .acq 2, .unlink 2 0 false, .selfChk 2 0 true true, .ret 2 false,
   .cbEnd 0 0]

/-- … the object is gone (destructor returned), `stop.fin` is accepted with `is_removed = true`
    only, does not write, and request_stop completes -/
example : ∃ s, runLog step (init 4 2 (fun a => a % 2 + 1) true true 2) selfDestroyPrefix = some s ∧
    s.life 0 = .dead ∧ s.pc 0 = .post 0 false ∧ s.remFlag 0 = true ∧
    step s (.finStore 0 0 false) = none ∧
    (∃ s', step s (.finStore 0 0 true) = some s' ∧ s'.fin 0 = false ∧
      (runLog step s' [.load 0 false true 2, .acq 0, .rsDone 0, .ret 0 true]).isSome = true) := by
  refine ⟨_, rfl, ?_⟩
  decide

example : ∃ s s', ReachableF s ∧ step s (.finStore 0 0 true) = some s' ∧ gone s 0 ∧
    thr s.K (s.dtorBy 0) = thr s.K 0 ∧ s.dtorBy 0 ≠ 0 :=
  ⟨_, _, ⟨4, 2, _, true, 2, selfDestroyPrefix, by decide, ident2_faithful, rfl⟩, rfl, Or.inl (by decide), by decide⟩

/-- the same with the destructor still at its `return` (nested activity not yet returned is
    impossible — `cb.end` needs the child idle — so the `retUnreg` half of `gone` is met inside
    the body): the flag is already set there -/
example : ∃ s, runLog step (init 4 2 (fun a => a % 2 + 1) true true 2) (selfDestroyPrefix.take 16) = some s ∧
    s.pc 2 = .retn (.unreg 0) false ∧ s.life 0 = .dying ∧ runPhase (s.pc 0) = some 0 ∧ s.remFlag 0 = true := by
  refine ⟨_, rfl, ?_⟩
  decide

/-- another thread destroys the callback while it runs: it has to wait; up to the point where
    request_stop is back from the callback -/
def otherThreadPrefix : List Ev :=
  [.inv 0 (.reg 0), .load 0 false false 2, .acq 0, .push 0 0 false, .ret 0 false,
   .inv 0 .rs, .load 0 false false 2, .acq 0, .deq 0 0 false, .preExec 0 0, .cbBegin 0 0,
   .inv 1 (.unreg 0), .load 1 false true 2, .acq 1, .unlink 1 0 false, .selfChk 1 0 false false,
   .cbEnd 0 0]

/-- … the destructor is waiting, the object is intact, `stop.fin` is accepted with
    `is_removed = false` only and stores the flag; only then may the destructor return -/
example : ∃ s, runLog step (init 4 2 (fun a => a % 2 + 1) true true 2) otherThreadPrefix = some s ∧
    s.pc 1 = .wait 0 ∧ s.life 0 = .dying ∧ s.remFlag 0 = false ∧ step s (.waited 1 0) = none ∧
    step s (.finStore 0 0 true) = none ∧
    (∃ s', step s (.finStore 0 0 false) = some s' ∧ s'.fin 0 = true ∧ s'.remPtr 0 = none ∧
      (runLog step s' [.waited 1 0, .ret 1 false, .load 0 false true 2, .acq 0, .rsDone 0, .ret 0 true]).isSome = true) := by
  refine ⟨_, rfl, ?_⟩
  decide

example : ∃ s s', ReachableF s ∧ step s (.finStore 0 0 false) = some s' ∧
    unregOf (s.pc 1) = some 0 ∧ unregPath (s.pc 1) = some 0 ∧ thr s.K 1 ≠ thr s.K 0 :=
  ⟨_, _, ⟨4, 2, _, true, 2, otherThreadPrefix, by decide, ident2_faithful, rfl⟩, rfl, by decide⟩

/-- log form: after the return of the waiting destructor the model accepts neither another
    invocation nor another finished store of callback 0 -/
example : ∃ s, runLog step (init 4 2 (fun a => a % 2 + 1) true true 2)
      (otherThreadPrefix ++ [.finStore 0 0 false, .waited 1 0, .ret 1 false]) = some s ∧
    step s (.cbBegin 0 0) = none ∧ step s (.finStore 0 0 false) = none ∧ step s (.preExec 0 0) = none := by
  refine ⟨_, rfl, ?_⟩
  decide

/-- spin loops: thread 1 spins while thread 0 holds the lock for its push; the holder's step
    frees the lock, then thread 1 alone needs re-load + CAS -/
def spinPrefix : List Ev :=
  [.inv 0 (.reg 0), .load 0 false false 2, .inv 1 (.reg 1), .load 1 false false 2, .acq 0,
   .casFail 1 true false 2]

example : ∃ s, runLog step (init 4 2 (fun a => a % 2 + 1) true true 2) spinPrefix = some s ∧
    s.lock = some 0 ∧ lockLoop (s.pc 1) = true ∧ spinDist s 1 = 2 ∧
    (∃ s3, runLog step s [.push 0 0 false, .reload 1 false false 2, .acq 1] = some s3 ∧
      lockLoop (s3.pc 1) = false ∧ s3.lock = some 1) := by
  refine ⟨_, rfl, ?_⟩
  decide

end PikaVerif.C14q
