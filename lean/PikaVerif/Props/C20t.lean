import PikaVerif.Props.C20
import PikaVerif.Lemmas.MpiT
import PikaVerif.Lemmas.MpiFin
import PikaVerif.Lemmas.MpiSolo
/-!
# C20t — termination given MPI's reports (follow-up of C20)

`Props/C20.lean` states the poller's progress as enabledness (`C20_poller_progress`).  This file
strengthens it to TERMINATION GIVEN MPI'S REPORTS for the model `PikaVerif.Mpi`.

**Event classes** (`Lemmas/MpiT.lean`, `ev_trichotomy`: every event is in exactly one)
* `isPost`: `post` — a new operation is created (the submitting program's move);
* `moves`: the 19 events that move one existing operation: pika's 14 obligatory steps (`pika`:
  `sig reg gacInc ifInc enq addv q2v deq ifDec call cb ret gacDec woke`), MPI's four reports
  (`eager ydone ready testany` — the environment) and `rel` (release of *owned* arguments; the model
  does not know whether an operation owns its arguments, so `rel` is optional);
* `neutral`: `lock unlock pollOn pollOff stopRet waitRet` — they change no operation.

**Stutter (stated precisely).**  The model accepts events that can repeat for ever:
* the poller's round `lock a ; unlock a` with no `q2v` / `ready` in between returns to the same state
  (`C20t_lock_round_is_stutter`) — a poll that found nothing;
* `waitRet`, `stopRet` and `pollOff` with nothing installed are pure observations: they are accepted
  without changing the state (`C20t_observations_are_stutter`);
* `pollOn ; pollOff` rounds of the user program (possible whenever `all_in_flight_ = 0`) change only
  the registration counters.
Hence the statement "a measure decreases with every accepted event other than `post` and the
`lock`/`unlock` rounds" is FALSE as requested: `C20t_requested_measure_impossible` (witness: the
accepted stutter `waitRet` at the initial state, `decide`-checked to be accepted).  The corrected
statement is `C20t_measure_decreases`: `mu` strictly decreases with every `moves` event, is unchanged
by every `neutral` event, and `post` adds at most 15.  Termination is therefore *modulo neutral
events*: every accepted log with `n` operations has at most `15 n` moving events (`C20t_bounded`;
attained: `tightLog`), whatever the interleaving, the handler methods and the poller mode.

**Maximal runs.**  `Maximal s`: none of pika's obligatory steps is accepted in `s`, nor after a
poller has taken the poll lock.  Every reachable state extends, by pika's own steps and lock
acquisitions only, to a maximal state within `2 mu s ≤ 30 n` events (`C20t_maximal_exists`).  In a
maximal state every operation is `Finished` (receiver signalled exactly once, callback — if
registered — invoked exactly once and returned, entry gone) or `AwaitsMpi` (`C20t_final_state`);
if MPI has reported every successfully posted request, all are finished, `inFlight = 0`, `gac = 0`
(`C20t_all_reported_settled`); an operation that has not signalled is one MPI has not reported
(`C20t_unsignalled_awaits_mpi`).  `C20t_solo_signal` / `C20t_dist_after_report`: run alone, the
poller and the continuing task signal the receiver exactly `sigDist` steps after MPI's report
(1 after the early / `yield_while` poll; 5 after `MPI_Testsome` in the multi-threaded poller, 4
after `MPI_Testany` in the single-threaded one; one more for `suspend_resume`).
-/
namespace PikaVerif.C20t
open PikaVerif PikaVerif.Mpi PikaVerif.C20

/-- **The measure decreases.**  For every state (reachable or not, both `bug` values) and every
    accepted event: an event that moves an operation strictly decreases `mu`; a neutral event
    changes neither `mu` nor any operation nor the two counters; `post` creates one operation and
    adds its potential (15 if the MPI call succeeded, 4 if it failed). -/
theorem C20t_measure_decreases (s s' : St) (e : Ev) (h : step s e = some s') :
    (moves e = true → mu s' < mu s) ∧
    (neutral e = true → mu s' = mu s ∧ s'.op = s.op ∧ s'.n = s.n ∧ s'.inFlight = s.inFlight ∧ s'.gac = s.gac) ∧
    (∀ a x m ok, e = .post a x m ok → s'.n = s.n + 1 ∧ mu s' = mu s + (if ok then 15 else 4)) := by
  refine ⟨fun hm => mu_moves s s' e hm h, fun hn => ⟨mu_neutral s s' e hn h, neutral_op s s' e hn h⟩, ?_⟩
  intro a x m ok he
  subst he
  exact mu_post s s' a x m ok h

/-- Every event belongs to exactly one of the three classes. -/
theorem C20t_event_classes (e : Ev) :
    (moves e = true ∧ neutral e = false ∧ isPost e = false) ∨
    (moves e = false ∧ neutral e = true ∧ isPost e = false) ∨
    (moves e = false ∧ neutral e = false ∧ isPost e = true) := ev_trichotomy e

/-- **The poller's stutter.**  A poll round that takes the lock and releases it without moving an
    entry (`lock a ; unlock a`, no `q2v` / `ready` in between) is accepted whenever the lock is free
    and leads back to the very same state. -/
theorem C20t_lock_round_is_stutter (s : St) (a : Nat) (h : s.lock = none) :
    runLog step s [.lock a, .unlock a] = some s := by
  cases s
  simp only at h
  subst h
  simp [runLog, step]

/-- **Observation stutters.**  `wait() returned`, `stop_polling returned` and an `unregister_polling`
    with nothing installed are accepted without changing the state. -/
theorem C20t_observations_are_stutter (s s' : St) :
    (∀ a v k, step s (.waitRet a v k) = some s' → s' = s) ∧
    (∀ a v, step s (.stopRet a v) = some s' → s' = s) ∧
    (∀ a, s.installed = false → step s (.pollOff a) = some s' → s' = s) := by
  refine ⟨?_, ?_, ?_⟩
  · intro a v k h
    simp only [step] at h
    split at h <;> simp at h
    exact h.symm
  · intro a v h
    simp only [step] at h
    split at h <;> simp at h
    exact h.symm
  · intro a hi h
    simp only [step, hi] at h
    simp at h
    exact h.symm

/-- the stutter `waitRet` is accepted in the initial state (`decide`-checked) … -/
theorem C20t_stutter_witness : (step (init false) (.waitRet 0 0 0)).isSome = true := by decide

/-- … hence **the requested statement is false**: no natural-number function on states decreases
    with every accepted event other than `post`, `lock`, `unlock` — not even on reachable states. -/
theorem C20t_requested_measure_impossible :
    ¬ ∃ m : St → Nat, ∀ s e s', Reachable s → step s e = some s' → isPost e = false →
        (∀ a, e ≠ .lock a) → (∀ a, e ≠ .unlock a) → m s' < m s := by
  intro ⟨m, hm⟩
  have hs : step (init false) (.waitRet 0 0 0) = some (init false) := by simp [step, init]
  have := hm (init false) (.waitRet 0 0 0) (init false) ⟨[], rfl⟩ hs rfl (by intro a h; cases h) (by intro a h; cases h)
  omega

/-- **Bounded runs (termination modulo neutral events).**  In every accepted log the number of
    events that move an operation, plus the measure of the final state, is at most 15 per operation
    created (`s.n` = number of `post` events of the log): about a constant per operation, whatever
    the interleaving, the handler methods, the poller mode and the order of MPI's reports. -/
theorem C20t_bounded (log : List Ev) (s : St) (h : runLog step (init false) log = some s) :
    nMoves log + mu s ≤ 15 * s.n := by
  have := mu_runLog log (init false) s h
  simp only [mu_init] at this
  have h0 : (init false).n = 0 := rfl
  omega

/-- … in terms of the log alone: at most 15 moving events per `post` event. -/
theorem C20t_bounded_per_post (log : List Ev) (s : St) (h : runLog step (init false) log = some s) :
    nMoves log ≤ 15 * nPosts log := by
  have h1 := C20t_bounded log s h
  have h2 := n_runLog log (init false) s h
  have h0 : (init false).n = 0 := rfl
  rw [h2, h0] at h1
  omega

/-- the same bound from any state: a run that posts nothing new makes at most `mu s` moving steps -/
theorem C20t_bounded_from (log : List Ev) (s s' : St) (h : runLog step s log = some s') :
    nMoves log + mu s' + 15 * s.n ≤ mu s + 15 * s'.n := mu_runLog log s s' h

/-- **Maximal runs exist and are short.**  Every reachable state extends — by pika's own obligatory
    steps and lock acquisitions only: no new operation, no further report of MPI, no release — to a
    maximal state within `2 * mu s ≤ 30 * s.n` events. -/
theorem C20t_maximal_exists (s : St) (hr : Reachable s) :
    ∃ ext s', runLog step s ext = some s' ∧ Reachable s' ∧ Maximal s' ∧ ext.length ≤ 2 * mu s ∧
      ext.length ≤ 30 * s.n ∧ (∀ e, e ∈ ext → pika e = true ∨ ∃ a, e = .lock a) := by
  obtain ⟨ext, s', hrun, hmax, hlen, hall⟩ := exists_maximal (mu s) s (Nat.le_refl _)
  obtain ⟨log, hl⟩ := hr
  have hb := C20t_bounded log s hl
  refine ⟨ext, s', hrun, ⟨log ++ ext, ?_⟩, hmax, hlen, by omega, hall⟩
  rw [runLog_append, hl]; simpa using hrun

/-- **Final states of maximal runs.**  In a reachable maximal state every operation is either
    finished — its receiver was signalled exactly once, it is `done`, and its registry entry was
    never created (no callback) or is completely gone (callback invoked exactly once), and if the
    MPI call succeeded MPI has reported the request — or it waits for MPI's report: not signalled,
    no callback yet, and either in its own poll (`posted`: early poll / `yield_while` loop, or the
    polling function is not installed) or in the pollers' vector. -/
theorem C20t_final_state (s : St) (hr : Reachable s) (hm : Maximal s) (x : Nat) (hx : x < s.n) :
    Finished (s.op x) ∨ AwaitsMpi s (s.op x) := by
  obtain ⟨log, hl⟩ := hr
  have h12 := inv12_of_accepted hl
  exact final_op s h12.i1 h12.i2 hm x hx

/-- … and conversely: a state all of whose operations are finished or wait for MPI is maximal, so
    `Finished ∨ AwaitsMpi` characterises the final states of maximal runs exactly. -/
theorem C20t_maximal_iff (s : St) (hr : Reachable s) :
    Maximal s ↔ ∀ x, x < s.n → Finished (s.op x) ∨ AwaitsMpi s (s.op x) :=
  ⟨fun hm x hx => C20t_final_state s hr hm x hx, maximal_of_final s⟩

/-- **(3) Nothing is lost by pika.**  In a reachable maximal state an operation that has not
    signalled its receiver is one whose MPI call succeeded and whose request MPI has not reported
    complete. -/
theorem C20t_unsignalled_awaits_mpi (s : St) (hr : Reachable s) (hm : Maximal s) (x : Nat) (hx : x < s.n)
    (hs : (s.op x).sigs ≠ 1) :
    (s.op x).okPost = true ∧ (s.op x).mpiDone = false ∧ AwaitsMpi s (s.op x) := by
  rcases C20t_final_state s hr hm x hx with h | h
  · exact absurd h.2.1 hs
  · exact ⟨h.1, h.2.1, h⟩

/-- counters of a maximal state: `all_in_flight_` and the registry's share of the activity count
    both equal the number of operations waiting in the vector for MPI's report -/
theorem C20t_final_counts (s : St) (hr : Reachable s) (hm : Maximal s) :
    s.inFlight = sumTo s.n (fun x => Mpi.b2n ((s.op x).pc == .waiting)) ∧ s.gac = s.inFlight := by
  have hinv := inv_of_reachable hr
  have h1 : s.inFlight = sumTo s.n (fun x => Mpi.b2n ((s.op x).pc == .waiting)) := by
    rw [hinv.inflight]
    exact sumTo_congr (fun x hx => (ifW_final s _ (C20t_final_state s hr hm x hx)).1)
  have h2 : s.gac = sumTo s.n (fun x => Mpi.b2n ((s.op x).pc == .waiting)) := by
    rw [hinv.gac]
    exact sumTo_congr (fun x hx => (ifW_final s _ (C20t_final_state s hr hm x hx)).2)
  exact ⟨h1, by rw [h2, h1]⟩

/-- **(2) A sender signals its receiver exactly once (maximal runs).**  In a reachable maximal state
    in which MPI has reported every successfully posted request complete, every operation is
    finished: receiver signalled exactly once, callback (if registered) invoked exactly once and
    returned; `all_in_flight_ = 0`, the registry's share of the activity count is 0, every operation
    is `Settled`; the stored arguments were released at most once, and exactly once if the
    operation's release is not pending any more (an operation that owns its arguments). -/
theorem C20t_all_reported_settled (s : St) (hr : Reachable s) (hm : Maximal s)
    (hrep : ∀ x, x < s.n → (s.op x).okPost = true → (s.op x).mpiDone = true) :
    (∀ x, x < s.n → Finished (s.op x)) ∧ s.inFlight = 0 ∧ s.gac = 0 ∧ (∀ x, Settled (s.op x)) ∧
    (∀ x, x < s.n → (s.op x).rel ≤ 1 ∧ ((∀ a, step s (.rel a x) = none) → (s.op x).rel = 1)) := by
  have hinv := inv_of_reachable hr
  have hfin : ∀ x, x < s.n → Finished (s.op x) := by
    intro x hx
    rcases C20t_final_state s hr hm x hx with h | h
    · exact h
    · have := hrep x hx h.1
      rw [h.2.1] at this
      exact absurd this (by decide)
  have hcnt := C20t_final_counts s hr hm
  have h0 : s.inFlight = 0 := by
    rw [hcnt.1]
    apply sumTo_eq_zero
    intro x hx
    simp [(hfin x hx).1, Mpi.b2n]
  have hg : s.gac = 0 := by rw [hcnt.2, h0]
  refine ⟨hfin, h0, hg, C20_quiescent_settled s hr hg, ?_⟩
  intro x hx
  have hro := (hinv.ops x).relOnce
  refine ⟨hro, ?_⟩
  intro hno
  have h1 := hno 0
  have hf := hfin x hx
  simp only [step, hx, true_and] at h1
  by_cases hr0 : (s.op x).rel = 0
  · exfalso
    by_cases hok : (s.op x).okPost = true
    · simp [hr0, hf.2.2.2 hok] at h1
    · simp [hr0, hok] at h1
  · omega

/-- **(4) From MPI's report to the signal, run alone.**  For an operation whose request MPI has
    reported (or whose MPI call failed), the poller that holds the entry and the continuing task,
    running alone, signal the receiver after exactly `sigDist` steps, at most 6: there is an accepted
    log of that length, made of pika's obligatory steps on that operation only, after which the
    operation is `done` and has signalled exactly once.  (`a` = the thread that dequeues / signals
    where the model leaves the actor open.) -/
theorem C20t_solo_signal (s : St) (hr : Reachable s) (x a : Nat) (hx : x < s.n)
    (hrep : (s.op x).okPost = true → (s.op x).mpiDone = true) :
    ∃ log s', log.length = sigDist (s.op x) ∧ log.length ≤ 6 ∧ runLog step s log = some s' ∧
      (∀ e, e ∈ log → pika e = true ∧ evOp e = some x) ∧ (s'.op x).pc = .done ∧ (s'.op x).sigs = 1 := by
  obtain ⟨log0, hl⟩ := hr
  have h12 := inv12_of_accepted hl
  obtain ⟨log, s', hlen, hrun, hall, hd, hs⟩ := solo_run a _ s h12.i1 h12.i2 x hx hrep rfl
  exact ⟨log, s', hlen, by rw [hlen]; exact sigDist_le _, hrun, hall, hd, hs⟩

/-- **… per handler method and poller mode.**  The distance right after each of MPI's four reports:
    1 after a successful early poll or `yield_while` poll (every handler method); after
    `MPI_Testsome`/`MPI_Testany` in the multi-threaded poller 5 (`deq ifDec call cb sig`) for
    `continuation` / `new_task` and 6 for `suspend_resume` (`… cb woke sig`); after `MPI_Testany` in
    the single-threaded poller 4 resp. 5. -/
theorem C20t_dist_after_report (s s' : St) (hr : Reachable s) (a x : Nat) :
    (step s (.eager a x) = some s' → sigDist (s'.op x) = 1) ∧
    (step s (.ydone a x) = some s' → sigDist (s'.op x) = 1) ∧
    (∀ e, step s (.ready a x e) = some s' → sigDist (s'.op x) = 5 + susp (s.op x)) ∧
    (∀ e, step s (.testany a x e) = some s' → sigDist (s'.op x) = 4 + susp (s.op x)) := by
  have hi := (inv_of_reachable hr).ops x
  refine ⟨?_, ?_, ?_, ?_⟩
  · intro h
    simp only [step] at h
    split at h <;> simp at h
    subst h
    simp [setOp, sigDist]
  · intro h
    simp only [step] at h
    split at h <;> simp at h
    subst h
    simp [setOp, sigDist]
  · intro e h
    simp only [step] at h
    split at h
    · rename_i hg
      have hw := hi.earlyWait (by rw [hg.2.1]; rfl)
      simp at h
      subst h
      simp [setOp, sigDist, susp, hw]
    · simp at h
  · intro e h
    simp only [step] at h
    split at h
    · rename_i hg
      have hw := hi.earlyWait (by rw [hg.2.1]; rfl)
      simp at h
      subst h
      simp [setOp, sigDist, susp, hw]
    · simp at h

/-! ## Non-vacuity -/

/-- suspend_resume through the multi-threaded poller with owned arguments: one operation, 15 moving
    events — the bound of `C20t_bounded` is attained, the final state has measure 0 and is maximal -/
def tightLog : List Ev :=
  [.pollOn 0 false, .post 1 0 mSuspend true, .reg 1 0, .gacInc 1 0, .ifInc 1 0 1, .enq 1 0,
   .lock 2, .q2v 2 0, .ready 2 0 0, .unlock 2, .deq 2 0 0, .ifDec 2 0 0, .call 2 0, .cb 2 0 0,
   .ret 2 0, .gacDec 2 0, .woke 1 0, .sig 1 0, .rel 1 0]

example : nMoves tightLog = 15 := by decide
example : (runLog step (init false) tightLog).map (fun s => (mu s, s.n, s.inFlight, s.gac, (s.op 0).sigs, (s.op 0).cbs))
    = some (0, 1, 0, 0, 1, 1) := by decide

example : ∃ s, runLog step (init false) tightLog = some s ∧ Maximal s ∧ nMoves tightLog + mu s = 15 * s.n := by
  refine ⟨_, rfl, maximal_of_mu_zero _ (by decide), by decide⟩

/-- the measure along the example run of `Props/C20.lean`: 15 after the post, 1 at the end (the
    arguments are not released in that run) -/
example : (runLog step (init false) (C20.exampleLog.take 2)).map mu = some 15 := by decide
example : (runLog step (init false) C20.exampleLog).map mu = some 1 := by decide

/-- stutters are accepted: lock rounds that find nothing, observations, registration rounds -/
example : (runLog step (init false)
    [.lock 1, .unlock 1, .lock 2, .unlock 2, .waitRet 0 0 0, .waitRet 0 0 0, .pollOff 0, .stopRet 0 0,
     .pollOn 0 false, .pollOff 0, .pollOn 0 true, .pollOff 0]).map mu = some 0 := by decide

/-- the distance right after MPI's report (multi-threaded poller, suspend_resume): 6, and the six
    solo steps are accepted and end with one signal -/
example : (runLog step (init false) (tightLog.take 9)).map (fun s => sigDist (s.op 0)) = some 6 := by decide
example : (runLog step (init false) (tightLog.take 9 ++
    [.deq 2 0 0, .ifDec 2 0 0, .call 2 0, .cb 2 0 0, .woke 1 0, .sig 1 0])).map (fun s => (s.op 0).sigs) = some 1 := by
  decide

/-- an operation waiting in the vector for MPI: not signalled, not reported (the `AwaitsMpi` side of
    `C20t_final_state` is inhabited) -/
example : (runLog step (init false) (tightLog.take 8 ++ [.unlock 2])).map
    (fun s => ((s.op 0).pc == .waiting, (s.op 0).rs == .vec, (s.op 0).mpiDone, (s.op 0).sigs, s.inFlight, s.gac))
    = some (true, true, false, 0, 1, 1) := by decide

/-- … and that state is maximal: a maximal run in which MPI has not reported ends with the operation
    waiting, `all_in_flight_ = 1` (so `wait()` / `stop_polling` do not return, `Props/C20.lean`) -/
def awaitSt : St := (runLog step (init false) (tightLog.take 8 ++ [.unlock 2])).getD (init false)

example : Maximal awaitSt ∧ AwaitsMpi awaitSt (awaitSt.op 0) ∧ awaitSt.inFlight = 1 := by
  have hn : awaitSt.n = 1 := by decide
  have hw : AwaitsMpi awaitSt (awaitSt.op 0) := by unfold AwaitsMpi; decide
  refine ⟨maximal_of_final _ (fun x hx => ?_), hw, by decide⟩
  have : x = 0 := by omega
  subst this
  exact Or.inr hw

end PikaVerif.C20t
