import PikaVerif.Lemmas.Stop3
import PikaVerif.Lemmas.Stop9
import PikaVerif.Lemmas.StopRef
/-!
# C14 — stop_token: one winning stop request, each callback exactly once

Property theorems about the model `PikaVerif.Stop` (one stop state, any number of threads,
activities and callbacks).  `Reachable s` = `s` is the state after some accepted event log of
the *repaired* code (`fixCas = true`); the pinned tree (`fixCas = false`) has machine-checked
counterexamples below.
-/
namespace PikaVerif.C14
open PikaVerif PikaVerif.Stop

/-- reachable in the model of the repaired code, any thread identities, any source count -/
def Reachable (s : St) : Prop :=
  ∃ n K ident fixCtor srcs log, runLog step (init n K ident true fixCtor srcs) log = some s

theorem invA_of_reachable {s : St} (h : Reachable s) : InvA s := by
  obtain ⟨n, K, ident, fc, srcs, log, hl⟩ := h
  exact inv_of_runLog InvA (fun s e s' => stepA s s' e) (invA_init n K ident fc srcs) hl

/-- **One winner.**  In every execution at most one `request_stop` call returns true
    (`rsTrue` counts the accepted `ret a true` events of request_stop activities); when one
    has, stop is requested. -/
theorem C14_one_winner (s : St) (hr : Reachable s) : s.rsTrue ≤ 1 ∧ (0 < s.rsTrue → s.req = true) := by
  have hi := invA_of_reachable hr
  cases hw : s.winner with
  | none => have := hi.winNone hw; omega
  | some w =>
    have h1 := (hi.winOne w hw).1
    refine ⟨by omega, fun _ => ?_⟩
    cases hq : s.req with
    | true => rfl
    | false => have := hi.winReq hq; rw [hw] at this; simp at this

/-- the ghost counter `rsTrue` is exactly the number of `true` returns of request_stop -/
theorem rsTrue_step (s s' : St) (e : Ev) (h : step s e = some s') :
    s'.rsTrue = s.rsTrue ∨ (∃ a, e = .ret a true ∧ s.pc a = .retn .rs true ∧ s'.rsTrue = s.rsTrue + 1) := by
  cases e <;> simp only [step] at h <;> (repeat' split at h) <;>
    first
    | (simp at h; done)
    | (simp only [Option.some.injEq] at h; subst h; simp [b2n]; done)
    | (simp only [Option.some.injEq] at h; subst h; simp_all [b2n]; try grind)

/-- **A losing call returns false only after the stop request exists**: whenever the model
    accepts a `false` return of request_stop, stop is requested. -/
theorem C14_false_means_requested (s s' : St) (hr : Reachable s) (a : Nat)
    (hp : s.pc a = .retn .rs false) (_h : step s (.ret a false) = some s') : s.req = true := by
  -- `retn rs false` is only entered from a load / re-load / failed CAS that observed the bit
  obtain ⟨n, K, ident, fc, srcs, log, hl⟩ := hr
  have key : ∀ (log : List Ev) (s0 s : St), (∀ a, s0.pc a = .retn .rs false → s0.req = true) →
      runLog step s0 log = some s → (∀ a, s.pc a = .retn .rs false → s.req = true) := by
    intro log
    induction log with
    | nil => intro s0 s h0 h; simp at h; exact h ▸ h0
    | cons e es ih =>
      intro s0 s h0 h
      simp only [runLog] at h
      cases hs : step s0 e with
      | none => simp [hs] at h
      | some s1 =>
        simp only [hs] at h
        refine ih s1 s ?_ h
        clear ih h
        cases e <;> simp only [step] at hs <;> (repeat' split at hs) <;>
          first
          | (simp at hs; done)
          | (simp only [Option.some.injEq] at hs; subst hs; try dsimp only
             intro u hu
             first
             | exact h0 u hu
             | (simp only [upd_apply] at hu; split at hu <;> first | exact h0 u hu | (simp [checked] at hu; done) | skip
                all_goals (try cases ‹Kind›) 
                all_goals (simp [checked] at hu <;> grind [checked]))
             | grind [upd, checked])
  exact key log _ s (by intro a h; simp [init] at h) hl a hp

/-- **Sticky.**  A stop request is never withdrawn: once the stop-requested bit is set it is
    set in every later state, and every query (`stop_requested()` on any token) the model
    accepts reports the current bit. -/
theorem C14_sticky_step (s s' : St) (e : Ev) (h : step s e = some s') (hq : s.req = true) :
    s'.req = true := by
  cases e <;> simp only [step] at h <;> (repeat' split at h) <;>
    first | (simp at h; done) | (simp only [Option.some.injEq] at h; subst h; first | exact hq | rfl)

theorem C14_sticky (s s' : St) (log : List Ev) (h : runLog step s log = some s') (hq : s.req = true) :
    s'.req = true :=
  inv_of_runLog (fun s => s.req = true) (fun s e s' hi hs => C14_sticky_step s s' e hs hi) hq h

theorem C14_query_reports_bit (s s' : St) (a : Nat) (rq poss : Bool)
    (h : step s (.query a rq poss) = some s') :
    rq = s.req ∧ poss = (s.req || decide (0 < s.srcs)) := by
  simp only [step] at h
  split at h
  · rename_i hg; exact ⟨hg.2.1, hg.2.2⟩
  · simp at h


/-! ## Callback life cycle (invariant B) -/

theorem invAB_of_reachable {s : St} (h : Reachable s) : InvA s ∧ InvB s := by
  obtain ⟨n, K, ident, fc, srcs, log, hl⟩ := h
  exact invAB_of_accepted hl

/-- **At most once.**  In every execution every callback body is entered at most once. -/
theorem C14_at_most_once (s : St) (hr : Reachable s) (c : Nat) : s.runs c ≤ 1 :=
  (invAB_of_reachable hr).2.runsLe c

/-- **Exactly once if stop is requested.**  In every reachable state in which stop is requested
    and the winning `request_stop` has left its callback loop (in particular in every state in
    which all activities are idle), every callback whose constructor has returned, whose
    destructor has not been started and that was registered (`add_callback` returned true) or
    run from its constructor has been invoked exactly once. -/
theorem C14_exactly_once_if_requested (s : St) (hr : Reachable s) (hq : s.req = true)
    (hdone : ∀ w, s.winner = some w → wAct (s.pc w) = 0)
    (c : Nat) (hl : s.life c = .live) (hreg : s.kept c = true ∨ s.ranInl c = true) :
    s.runs c = 1 := by
  obtain ⟨hA, hB⟩ := invAB_of_reachable hr
  rcases hreg with hk | hi
  · have hp : s.pushed c = true := by
      have := hB.keptP c (by simp [hl, started]); rw [← this]; exact hk
    have hw : ∃ w, s.winner = some w := by
      cases hwn : s.winner with
      | none => have := hA.winReq2 hwn; rw [hq] at this; simp at this
      | some w => exact ⟨w, rfl⟩
    obtain ⟨w, hw⟩ := hw
    rcases hB.pushedWhere c hp with h1 | h1 | h1 | h1
    · have hne : s.list ≠ [] := by intro e; rw [e] at h1; simp at h1
      have := hA.listWin hne w hw
      rw [hdone w hw] at this; simp at this
    · have hle := hB.runsLe c
      by_cases h0 : s.runs c = 0
      · have hwo := hB.deqWinner c h1
        have hz := hdone _ hwo
        rcases hB.deqRuns c h1 h0 with hpc | hpc <;> rw [hpc] at hz <;> simp [wAct, b2n] at hz
      · omega
    · rw [hl] at h1; simp at h1
    · rw [hl] at h1; simp at h1
  · exact hB.inlRuns c hi

/-- the loop-exit hypothesis of the previous theorem holds whenever every activity is idle or finished -/
theorem C14_quiescent_loop_done (s : St) (hq : ∀ a, s.pc a = .idle ∨ s.pc a = .fin) :
    ∀ w, s.winner = some w → wAct (s.pc w) = 0 := by
  intro w _
  rcases hq w with h | h <;> simp [h, wAct]

/-- **Immediately in the constructor if stop was already requested.**  `reqAtReg c` records the
    stop-requested bit at the moment the constructor of `c` was invoked (`reqAtReg_spec`); if it
    was set, then once the constructor has returned the callback has been run from inside that
    constructor, exactly once. -/
theorem C14_immediate_if_already (s : St) (hr : Reachable s) (c : Nat)
    (hl : started (s.life c) = true) (hq : s.reqAtReg c = true) :
    s.ranInl c = true ∧ s.runs c = 1 := by
  obtain ⟨_, hB⟩ := invAB_of_reachable hr
  have h1 := hB.atRegLive c hl hq
  exact ⟨h1, hB.inlRuns c h1⟩

theorem reqAtReg_spec (s s' : St) (a c : Nat) (h : step s (.inv a (.reg c)) = some s') :
    s'.reqAtReg c = s.req := by
  simp only [step] at h
  split at h
  · split at h
    · simp only [Option.some.injEq] at h; subst h; simp
    · simp at h
  · simp at h

/-- **A callback is invoked only while its object is alive, from the constructor, or after it
    was dequeued** (partial form of "never after its destructor has returned"): whenever the model
    accepts `cb.begin`, the callback has never run before, and it is either being constructed by
    the invoking activity or was dequeued by the invoking `request_stop`.  The full clause (the
    object's destructor has not returned) additionally needs the program order of each thread;
    it is checked on every implementation history by the monitor
    "callback invoked after its destructor returned". -/
theorem C14_not_after_dtor_partial (s s' : St) (hr : Reachable s) (a c : Nat)
    (h : step s (.cbBegin a c) = some s') :
    s.runs c = 0 ∧ s.owner c = a ∧ (s.life c = .ctor ∨ s.deqd c = true) := by
  obtain ⟨_, hB⟩ := invAB_of_reachable hr
  simp only [step] at h
  split at h
  · split at h
    · rename_i c' inl hp
      split at h
      · rename_i hc; subst hc
        cases inl with
        | true =>
          have h1 := hB.regP a c' (by simp [hp, regPhase])
          have h2 := hB.runsR a c' (by simp [hp, regPhase])
          have h3 := hB.ownerR a c' (by simp [hp, regPhase])
          exact ⟨by simpa [hp, ranOf] using h2, h3, Or.inl h1.1⟩
        | false =>
          have h1 := hB.winP a c' (by simp [hp, winPhase])
          have h2 := hB.runsW a c' (by simp [hp, winPhase])
          have h3 := hB.ownerW a c' (by simp [hp, winPhase])
          exact ⟨by simpa [hp, ranOf] using h2, h3, Or.inr h1⟩
      · simp at h
    · simp at h
  · simp at h

/-! ## Follow-up C14p: program order of a thread (call stack), destructor versus running callback

`thr K a = a % K` is the *thread* of activity `a`: the pika thread when the caller is a pika
task, the OS thread for a plain OS thread (that is what `remove_callback` compares after the
repair: `get_self_id()`, and the OS thread id only when that id is invalid).  `ReachableF`
adds to `Reachable` that the identities `ident` tell exactly these threads apart. -/

/-- reachable in the model of the repaired code, `K > 0` threads, faithful thread identities -/
def ReachableF (s : St) : Prop :=
  ∃ n K ident fixCtor srcs log, 0 < K ∧ (∀ a b, ident a = ident b ↔ a % K = b % K) ∧
    runLog step (init n K ident true fixCtor srcs) log = some s

theorem ReachableF.reachable {s : St} (h : ReachableF s) : Reachable s := by
  obtain ⟨n, K, ident, fc, srcs, log, _, _, hl⟩ := h
  exact ⟨n, K, ident, fc, srcs, log, hl⟩

theorem invAll_of_reachableF {s : St} (h : ReachableF s) : InvAll s := by
  obtain ⟨n, K, ident, fc, srcs, log, hK, hid, hl⟩ := h
  exact invAll_of_accepted hK hid hl

/-- the callback `c` is being invoked or processed by activity `w`: from the constructor
    (`regPhase`, stop already requested) or by request_stop between dequeue and finished-store
    (`winPhase`); in particular `s.pc w = .body c _` (the body is running) -/
def processes (s : St) (w c : Nat) : Prop :=
  winPhase (s.pc w) = some c ∨ (regPhase (s.pc w) = some c ∧ regLockPhase (s.pc w) = none)

theorem body_processes {s : St} {w c : Nat} {inl : Bool} (h : s.pc w = .body c inl) : processes s w c := by
  cases inl <;> simp [processes, h, winPhase, regPhase, regLockPhase]

/-- **Never after the destructor has returned** (full clause 1).  Whenever the model accepts
    `cb.begin` for callback `c`, the object exists (constructor invoked, destructor not
    returned), and no destructor of `c` is even past its last access to the stop state
    (`retUnreg`: only the `return` of `remove_callback` is left).  `cb.begin` is the only event
    that enters a callback body, `life c = dead` is set by the return of the destructor. -/
theorem C14_not_after_dtor (s s' : St) (hr : ReachableF s) (a c : Nat)
    (h : step s (.cbBegin a c) = some s') :
    s.life c ≠ .dead ∧ s.life c ≠ .new ∧ ∀ b, retUnreg (s.pc b) ≠ some c := by
  have hI := invAll_of_reachableF hr
  have hB := hI.B
  simp only [step] at h
  split at h
  · split at h
    · rename_i c' inl hp
      split at h
      · rename_i hc; subst hc
        cases inl with
        | true =>
          have h1 := (hB.regP a c' (by simp [hp, regPhase])).1
          refine ⟨by simp [h1], by simp [h1], ?_⟩
          intro b hb
          have := hB.unregP b c' (unregDone_unregOf (retUnreg_unregDone hb))
          rw [h1] at this; simp at this
        | false =>
          have h1 := hB.winP a c' (by simp [hp, winPhase])
          have h2 : s.runs c' = 0 := by simpa [hp, ranOf] using hB.runsW a c' (by simp [hp, winPhase])
          refine ⟨hI.D.pend c' h1 h2, ?_, fun b hb => hI.D.pendR b c' hb h1 h2⟩
          intro hn
          have := (hB.fresh c' hn).2.1
          rw [h1] at this; simp at this
      · simp at h
    · simp at h
  · simp at h

/-- once returned, a destructor stays returned: `life c = dead` is never left -/
theorem C14_dead_is_final (s s' : St) (e : Ev) (hr : Reachable s) (h : step s e = some s') (c : Nat)
    (hd : s.life c = .dead) : s'.life c = .dead := by
  have hB := (invAB_of_reachable hr).2
  have hreg : ∀ a b, s.pc a = .retn (.reg c) b → False := by
    intro a b hp; have := (hB.retRegP a c b hp).1; rw [hd] at this; simp at this
  cases e <;> simp only [step] at h <;> (repeat' split at h) <;>
    first
    | (simp at h; done)
    | (simp only [Option.some.injEq] at h; subst h; exact hd)
    | (simp only [Option.some.injEq] at h; subst h; dsimp only; simp only [upd_apply]; split
       · rename_i hc; subst hc
         first
         | rfl
         | (exfalso; rename_i hp _; exact hreg _ _ hp)
         | (exfalso; simp_all; done)
         | (exfalso; grind)
       · exact hd)

/-- **The destructor waits for a callback running on another thread** (clause 2, first half).
    In every reachable state: if callback `c` is being processed by activity `w` (in particular
    while its body runs) and the destructor of `c` has returned, or has passed its last access
    and is about to return, then that destructor runs on the thread of `w` (it was called from
    inside the callback).  Contrapositive: a destructor on *another* thread does not return
    before request_stop has stored `callback_finished_executing_`. -/
theorem C14_dtor_waits_for_other_thread (s : St) (hr : ReachableF s) (w c : Nat)
    (hw : processes s w c) :
    (s.life c = .dead → thr s.K (s.dtorBy c) = thr s.K w) ∧
    (∀ b, retUnreg (s.pc b) = some c → thr s.K b = thr s.K w) := by
  have hI := invAll_of_reachableF hr
  rcases hw with hw | ⟨hw, _⟩
  · exact ⟨hI.T.sameThrD w c hw, fun b hb => hI.T.sameThrR w b c hw hb⟩
  · have h1 := (hI.B.regP w c hw).1
    refine ⟨fun hd => by rw [h1] at hd; simp at hd, fun b hb => ?_⟩
    have := hI.B.unregP b c (unregDone_unregOf (retUnreg_unregDone hb))
    rw [h1] at this; simp at this

/-- event form: a destructor that returns while the callback body is running returns on the
    thread that runs the callback -/
theorem C14_dtor_return_while_running (s s' : St) (hr : ReachableF s) (b c w : Nat) (r r' inl : Bool)
    (hb : s.pc b = .retn (.unreg c) r') (_h : step s (.ret b r) = some s') (hw : s.pc w = .body c inl) :
    thr s.K b = thr s.K w :=
  (C14_dtor_waits_for_other_thread s hr w c (body_processes hw)).2 b (by simp [hb, retUnreg])

/-- **… but not for one running on its own thread** (clause 2, second half).  An activity that
    waits in `remove_callback` for `callback_finished_executing_` of `c` is never on the thread
    that processes `c`: a destructor called from inside the callback (at any nesting depth)
    does not wait. -/
theorem C14_dtor_does_not_wait_for_own_thread (s : St) (hr : ReachableF s) (b c w : Nat)
    (hb : s.pc b = .wait c) (hw : processes s w c) : thr s.K w ≠ thr s.K b := by
  have hI := invAll_of_reachableF hr
  rcases hw with hw | ⟨hw, _⟩
  · intro ht
    have hwin := hI.A.winPhaseWinner w c hw
    have hs := hI.S.sigW w hwin
    have := hI.D.waitOther b c hb
    apply this
    rw [hs]; exact (hI.F.2 w b).2 ht
  · have h1 := (hI.B.regP w c hw).1
    have := hI.B.unregP b c (by simp [hb, unregOf])
    rw [h1] at this; simp at this

/-- the decision of `remove_callback` (`stop.self`): it takes the non-waiting branch exactly
    when it runs on the thread of the request_stop that won -/
theorem C14_self_check_iff_signalling_thread (s s' : St) (hr : ReachableF s) (b c w : Nat) (eq hadPtr : Bool)
    (h : step s (.selfChk b c eq hadPtr) = some s') (hw : s.winner = some w) :
    (eq = true ↔ thr s.K b = thr s.K w) := by
  have hI := invAll_of_reachableF hr
  have hs := hI.S.sigW w hw
  simp only [step] at h
  split at h
  · rename_i hg
    rw [hg.2.2, hs]
    simp only [decide_eq_true_eq]
    constructor
    · intro he; exact ((hI.F.2 w b).1 he).symm
    · intro ht; exact (hI.F.2 w b).2 ht.symm
  · simp at h

/-! ### Progress (clause 3)

`productive e`: every event except the environment's choices (invoking a new operation,
finishing a thread, copying / dropping a stop_source, a query) and futile spins (a failed CAS
or a re-load that saw the lock bit held).  `enabled s e`: the model accepts `e` in `s`.
Callback bodies are the harness' scripts (a body can always return once its nested operation
has returned); blocking bodies are outside the model. -/

/-- reachable with the repaired constructor (`fixCtor = true`) as well -/
def ReachableP (s : St) : Prop :=
  ∃ n K ident srcs log, 0 < K ∧ (∀ a b, ident a = ident b ↔ a % K = b % K) ∧
    runLog step (init n K ident true true srcs) log = some s

theorem ReachableP.reachableF {s : St} (h : ReachableP s) : ReachableF s := by
  obtain ⟨n, K, ident, srcs, log, hK, hid, hl⟩ := h
  exact ⟨n, K, ident, true, srcs, log, hK, hid, hl⟩

theorem invProg_of_reachableP {s : St} (h : ReachableP s) : InvProg s := by
  obtain ⟨n, K, ident, srcs, log, hK, hid, hl⟩ := h
  exact invProg_of_accepted hK hid hl

/-- **Progress.**  In every reachable state every activity `a` that is inside a stop_state
    operation (at any nesting depth)
    1. is inside a callback body whose nested operation `a + K` is active (the thread is busy
       there, and the theorem applies to `a + K`), or
    2. can perform a productive step itself, or
    3. spins in a lock loop while another activity holds the lock, and that holder can perform
       its next step, which releases the lock (the lock is never held across a wait), or
    4. *legitimately* waits in `remove_callback`: the finished flag of `c` is not yet stored and
       `c` is being processed by request_stop on **another** thread (which by this theorem is
       not stuck, and by `C14_dtor_does_not_wait_for_own_thread` never waits itself).
    In particular a callback that destroys itself or another callback never blocks. -/
theorem C14_progress (s : St) (hr : ReachableP s) (a : Nat) (ha : act (s.pc a) = true) :
    (isBody (s.pc a) = true ∧ act (s.pc (a + s.K)) = true)
    ∨ (∃ e, actor e = a ∧ productive e = true ∧ enabled s e = true)
    ∨ (∃ h e, s.lock = some h ∧ h ≠ a ∧ lockLoop (s.pc a) = true ∧ actor e = h ∧ productive e = true ∧
          enabled s e = true ∧ ∀ s', step s e = some s' → s'.lock = none)
    ∨ (∃ c w, s.pc a = .wait c ∧ s.fin c = false ∧ winPhase (s.pc w) = some c ∧ thr s.K w ≠ thr s.K a) :=
  progress_local (invProg_of_reachableP hr) a ha

/-- **No deadlock.**  A reachable state in which the model accepts no productive event has
    every activity idle or finished: no thread is stuck inside a stop_state operation, whatever
    the callbacks destroy, register or request (nesting of any depth). -/
theorem C14_no_deadlock (s : St) (hr : ReachableP s)
    (hstuck : ∀ e, productive e = true → enabled s e = false) (a : Nat) :
    s.pc a = .idle ∨ s.pc a = .fin := by
  have := stuck_all_idle (invProg_of_reachableP hr) hstuck a
  cases hp : s.pc a <;> simp_all [act]

/-! ## The pinned tree (`fixCas = false`): machine-checked counterexamples -/

/-- Two threads; thread 1 loads the word before thread 0 wins, dequeues a callback and
    unlocks; thread 1's CAS then fails against an *unlocked* word with the stop-requested bit
    set and the loop retries without looking at the bit: the second CAS succeeds. -/
def pinnedTwoWinners : List Ev :=
  [.inv 0 (.reg 0), .load 0 false false 2, .acq 0, .push 0 0 false, .ret 0 false,
   .inv 0 .rs, .load 0 false false 2, .inv 1 .rs, .load 1 false false 2,
   .acq 0, .deq 0 0 false,
   .casFail 1 false true 2, .acq 1, .rsDone 1, .ret 1 true,
   .preExec 0 0, .cbBegin 0 0, .cbEnd 0 0, .finStore 0 0 false, .load 0 false true 2, .acq 0,
   .rsDone 0, .ret 0 true]

/-- In the pinned tree two `request_stop` calls return true. -/
theorem C14_pinned_two_winners :
    ∃ s, runLog step (init 4 2 (fun a => a % 2 + 1) false false 2) pinnedTwoWinners = some s ∧
      s.rsTrue = 2 := by
  refine ⟨_, rfl, ?_⟩
  decide

/-- The same window in `lock_if_not_stopped`: the callback is queued after the stop request
    has completed and is never invoked. -/
def pinnedLateRegistration : List Ev :=
  [.inv 1 (.reg 0), .load 1 false false 2,
   .inv 0 .rs, .load 0 false false 2, .acq 0, .rsDone 0, .ret 0 true,
   .casFail 1 false true 2, .acq 1, .push 1 0 false, .ret 1 false]

theorem C14_pinned_registered_after_stop :
    ∃ s, runLog step (init 4 2 (fun a => a % 2 + 1) false false 2) pinnedLateRegistration = some s ∧
      s.req = true ∧ s.rsTrue = 1 ∧ s.list = [0] ∧ s.runs 0 = 0 ∧ s.life 0 = .live ∧
      (∀ a, a < 4 → s.pc a = .idle) := by
  refine ⟨_, rfl, ?_⟩
  decide

/-- the repaired model rejects both logs at the retried CAS -/
example : runLog step (init 4 2 (fun a => a % 2 + 1) true true 2) pinnedTwoWinners = none := by decide
example : runLog step (init 4 2 (fun a => a % 2 + 1) true true 2) pinnedLateRegistration = none := by decide



/-- Pinned tree, plain OS threads: `get_self_id()` is the same invalid id on every OS thread
    (`ident = fun _ => 0`), so `remove_callback` on thread 1 takes the "own thread" branch while
    the callback runs on thread 0 inside `request_stop`: the destructor returns (and even sets
    `*is_removed_`) while the callback is still running on another thread. -/
def pinnedOsThreads : List Ev :=
  [.inv 0 (.reg 0), .load 0 false false 2, .acq 0, .push 0 0 false, .ret 0 false,
   .inv 0 .rs, .load 0 false false 2, .acq 0, .deq 0 0 false, .preExec 0 0, .cbBegin 0 0,
   .inv 1 (.unreg 0), .load 1 false true 2, .acq 1, .unlink 1 0 false, .selfChk 1 0 true true,
   .ret 1 false]

theorem C14_pinned_os_thread_dtor_does_not_wait :
    ∃ s, runLog step (init 4 2 (fun _ => 0) false false 2) pinnedOsThreads = some s ∧
      s.life 0 = .dead ∧ s.running 0 = true ∧ s.owner 0 = 0 ∧ s.pc 1 = .idle ∧ s.remFlag 0 = true := by
  refine ⟨_, rfl, ?_⟩
  decide

/-- with identities that tell the threads apart the same log is rejected at the comparison -/
example : runLog step (init 4 2 (fun a => a % 2 + 1) false false 2) pinnedOsThreads = none := by decide

/-- Pinned tree: a stop_callback constructed on a token whose state has no source left and no
    stop request is not registered, but its destructor still calls `remove_callback`, which on a
    pika task (identity differs from the default-constructed `signalling_thread_`) waits for
    `callback_finished_executing_` — which nobody will ever set. -/
def pinnedDtorHang : List Ev :=
  [.inv 0 (.reg 0), .load 0 false false 0, .ret 0 false,
   .inv 0 (.unreg 0), .load 0 false false 0, .acq 0, .unlink 0 0 false, .selfChk 0 0 false false]

theorem C14_pinned_dtor_waits_for_ever :
    ∃ s, runLog step (init 2 1 (fun a => a % 1 + 1) false false 0) pinnedDtorHang = some s ∧
      s.pc 0 = .wait 0 ∧ s.fin 0 = false ∧ s.runs 0 = 0 ∧ s.running 0 = false ∧ s.req = false ∧
      s.srcs = 0 ∧ s.pc 1 = .idle := by
  refine ⟨_, rfl, ?_⟩
  decide

/-- repaired constructor: the destructor returns at once -/
example : (runLog step (init 2 1 (fun a => a % 1 + 1) true true 0)
    [.inv 0 (.reg 0), .load 0 false false 0, .ret 0 false, .inv 0 (.unreg 0), .ret 0 false]).isSome = true := by
  decide

/-! ## Reference-count histories (model `PikaVerif.StopRef`) -/

/-- **stop_possible.**  After every history of construction, copy, move, copy-assignment,
    move-assignment, swap and destruction of stop_sources and stop_tokens (and stop requests)
    on any number of stop states, the source count stored in each state word is the number of
    live stop_source objects owning that state; hence a token that owns state `st` reports
    `stop_possible()` exactly when stop was requested on `st` or a stop_source for `st` still
    exists.  (Repaired code; the pinned tree fails, see below.) -/
theorem C14_stop_possible_iff (H : Nat) (log : List StopRef.Op) (s : StopRef.St)
    (h : runLog StopRef.step (StopRef.init true H) log = some s) (k st : Nat)
    (hk : s.tok k = some (some st)) :
    s.srcs st = StopRef.liveSources s st ∧
    (StopRef.possible s (s.tok k) = true ↔ (s.req st = true ∨ 0 < StopRef.liveSources s st)) := by
  have hi := StopRef.inv_of_accepted h
  have hc := hi.cnt st
  refine ⟨hc, ?_⟩
  rw [hk]
  simp [StopRef.possible, hc]

/-- Pinned tree, copy-assignment: `b = a` leaves the source count of `b`'s previous state
    untouched; after every source of that state is gone its token still reports
    `stop_possible()`. -/
theorem C14_pinned_copy_assign_leaks :
    ∃ s, runLog StopRef.step (StopRef.init false 4)
        [.snew 0, .snew 1, .tget 0 1, .sassign 1 0, .sdel 1, .sdel 0] = some s ∧
      s.tok 0 = some (some 1) ∧ StopRef.liveSources s 1 = 0 ∧ s.req 1 = false ∧
      StopRef.possible s (s.tok 0) = true := by
  refine ⟨_, rfl, ?_⟩
  decide

/-- Pinned tree, (defaulted) move-assignment: the same leak. -/
theorem C14_pinned_move_assign_leaks :
    ∃ s, runLog StopRef.step (StopRef.init false 4)
        [.snew 0, .snew 1, .tget 0 1, .smassign 1 0, .sdel 1, .sdel 0] = some s ∧
      s.tok 0 = some (some 1) ∧ StopRef.liveSources s 1 = 0 ∧ s.req 1 = false ∧
      StopRef.possible s (s.tok 0) = true := by
  refine ⟨_, rfl, ?_⟩
  decide

/-- the repaired model on the same histories: stop is no longer possible -/
example : ∃ s, runLog StopRef.step (StopRef.init true 4)
    [.snew 0, .snew 1, .tget 0 1, .sassign 1 0, .sdel 1, .sdel 0] = some s ∧
    StopRef.possible s (s.tok 0) = false := by
  refine ⟨_, rfl, ?_⟩
  decide

/-! ## Non-vacuity -/

/-- a stop request that runs one registered callback, with a losing concurrent request -/
def exampleLog : List Ev :=
  [.inv 0 (.reg 0), .load 0 false false 2, .acq 0, .push 0 0 false, .ret 0 false,
   .inv 0 .rs, .load 0 false false 2, .inv 1 .rs, .load 1 false false 2,
   .acq 0, .deq 0 0 false, .casFail 1 false true 2, .ret 1 false,
   .preExec 0 0, .cbBegin 0 0, .cbEnd 0 0, .finStore 0 0 false, .load 0 false true 2, .acq 0,
   .rsDone 0, .ret 0 true, .query 1 true true]

example : ∃ s, runLog step (init 4 2 (fun a => a % 2 + 1) true true 2) exampleLog = some s ∧
    s.rsTrue = 1 ∧ s.runs 0 = 1 := by
  refine ⟨_, rfl, ?_⟩
  decide

/-- C14p: a callback that destroys itself from inside its body (nested activity `2 = 0 + K`):
    the destructor takes the own-thread branch, sets `is_removed`, returns without waiting;
    request_stop skips the finished store and completes -/
def selfDestroyLog : List Ev :=
  [.inv 0 (.reg 0), .load 0 false false 2, .acq 0, .push 0 0 false, .ret 0 false,
   .inv 0 .rs, .load 0 false false 2, .acq 0, .deq 0 0 false, .preExec 0 0, .cbBegin 0 0,
   .inv 2 (.unreg 0), .load 2 false true 2, .acq 2, .unlink 2 0 false, .selfChk 2 0 true true, .ret 2 false,
   .cbEnd 0 0, .finStore 0 0 true, .load 0 false true 2, .acq 0, .rsDone 0, .ret 0 true]

example : ∃ s, runLog step (init 4 2 (fun a => a % 2 + 1) true true 2) selfDestroyLog = some s ∧
    s.life 0 = .dead ∧ s.runs 0 = 1 ∧ s.rsTrue = 1 ∧ (∀ a, a < 4 → s.pc a = .idle) := by
  refine ⟨_, rfl, ?_⟩
  decide

/-- C14p: the destructor on another thread takes the waiting branch, `stop.waited` is rejected
    while the body runs and accepted after the finished store -/
def otherThreadWaitsLog : List Ev :=
  [.inv 0 (.reg 0), .load 0 false false 2, .acq 0, .push 0 0 false, .ret 0 false,
   .inv 0 .rs, .load 0 false false 2, .acq 0, .deq 0 0 false, .preExec 0 0, .cbBegin 0 0,
   .inv 1 (.unreg 0), .load 1 false true 2, .acq 1, .unlink 1 0 false, .selfChk 1 0 false false]

example : ∃ s, runLog step (init 4 2 (fun a => a % 2 + 1) true true 2) otherThreadWaitsLog = some s ∧
    s.pc 1 = .wait 0 ∧ s.pc 0 = .body 0 false ∧ step s (.waited 1 0) = none ∧
    (runLog step s [.cbEnd 0 0, .finStore 0 0 false, .waited 1 0, .ret 1 false]).isSome = true := by
  refine ⟨_, rfl, ?_⟩
  decide

end PikaVerif.C14
