import PikaVerif.Props.C09
import PikaVerif.Lemmas.OnceU8
/-!
# C09u (call_once part) — termination modulo the spin round, final states of maximal runs

Model: `PikaVerif.Once` (`Model/Once.lean`, unchanged).  Program layer (`Lemmas/OnceU2.lean`):
`Once.pstep` = the model's `step` restricted to a program (`callers thr`: each of the `k` threads
calls `call_once` once on the same flag, `thr t` = the callable of caller `t` throws), plus the
observation `res t` = the value the call of `t` returned (0 normally, 2 = exception).

**Stutter.**  No single accepted event leaves the state unchanged (`C09u_once_no_stutter_event`).
What repeats is the *spin round* of the finding `call-once-spin-window`: a caller that lost the
CAS while the status is `running` and the flag of `event_` is still `true` (left by the `set` of an
earlier failed attempt; the re-elected winner has not yet executed `event_.reset()`, or that late
`set` landed after the reset) goes `onceLoad t, onceLost t false, evLoad t true` and the model is
back in exactly the same state (`C09u_once_spin_round`).  The event closing the round — the
fast-path return `evLoad t true` of `event_.wait()` inside `call_once` — is the only accepted
event that does not decrease the measure (`C09u_once_measure`); in a program of callers every
`evLoad _ true` is of this kind (`C09u_once_spin_is_retry`).

**Termination modulo spins.**  `log.length ≤ 21 k² + 12 k + 3 · spins log`
(`C09u_once_bounded_modulo_spins`; `spins` = number of `evLoad _ true`; 3 = events of a round).
Quadratic: a throwing winner makes the others retry, so up to `k` attempts, and the `event_.set()`
ending an attempt may wake up to `k` waiters (`21 k + 11` per caller: its own possible set costs
`7 k` for raising waiters that will now see the flag + `14 k` for the tokens of `notify_all`).
The unit that has to be discounted is the whole round (3 events), not only its closing event:
without the qualification, and also when only the `evLoad _ true` events are left out of the
count, the statement is false (`C09u_once_unbounded_spin`: 3 callers, `19 + 3 m` events of which
`2 + m` are spins, so `17 + 2 m` non-spin events, for every `m`).

**Final states.**  A run is maximal when no event at all is accepted (`Once.PStuck`; a state in
which only a spin is enabled is *not* final: after the spin the caller is at the status load,
whose event is not a spin: `C09u_once_progress_modulo_spins`).  Every run extends to a maximal
one (`C09u_once_maximal_exists`).  `C09u_once_final_states`,
`C09u_once_normal_return_after_completion`.
-/
namespace PikaVerif.C09uOnce
open PikaVerif PikaVerif.Once PikaVerif.C09

/-- **No stutter event.**  Every accepted event changes the model state. -/
theorem C09u_once_no_stutter_event (s s' : St) (e : Ev) (h : step s e = some s') : s' ≠ s :=
  step_ne s s' e h

/-- **The spin round is the stutter.**  In any state where thread `t` is at the status load of
    `call_once`, the status is `running` and the event flag is `true`, the three events
    `onceLoad t, onceLost t false, evLoad t true` are accepted and lead back to the same state
    (so they can be repeated any number of times). -/
theorem C09u_once_spin_round (s : St) (t : Nat) (thr : Bool) (htn : t < s.n)
    (hpc : s.pc t = .cLoad thr) (hst : s.status = .running) (hf : s.flag = true) :
    runLog step s [.onceLoad t, .onceLost t false, .evLoad t true] = some s :=
  spin_round s t thr htn hpc hst hf

/-- the hypotheses of `C09u_once_spin_round` hold in a reachable state (the finding's witness) -/
example : ∃ s, runLog step (init 3) onceSpinLog = some s ∧ 2 < s.n ∧ s.pc 2 = .cLoad false ∧
    s.status = .running ∧ s.flag = true := by
  refine ⟨_, rfl, ?_⟩
  decide

/-- **The measure.**  For every accepted event `e` (any state): an invocation adds the price of
    the operation; the fast-path return of `event_.wait()` inside `call_once` (`evLoad t true` at
    `wWant (once _)`) raises `mu` by exactly 2; the same event in a stand-alone `wait` and every
    other event strictly decrease `mu`. -/
theorem C09u_once_measure (s s' : St) (e : Ev) (h : step s e = some s') :
    (∀ t o, e = .inv t o → mu s' + 1 = mu s + rank s.n false (entry o)) ∧
    ((∀ t o, e ≠ .inv t o) → (∀ t, e ≠ .evLoad t true) → mu s' < mu s) ∧
    (∀ t, e = .evLoad t true →
      (∀ thr, s.pc t = .wWant (.once thr) → mu s' = mu s + 2) ∧
      (s.pc t = .wWant .top → mu s' < mu s)) := by
  refine ⟨?_, fun h1 h2 => mu_step s s' e h1 h2 h, ?_⟩
  · intro t o he; subst he; exact mu_inv s s' t o h
  · intro t he; subst he
    have := mu_evLoad s s' t true h
    exact ⟨fun thr hpc => this.2 rfl thr hpc, fun hpc => this.1 (Or.inr hpc)⟩

/-- **Termination modulo spins, `k` callers.**  Every accepted log of `k` callers of `call_once`
    (any throwing pattern, any interleaving) has at most `21 k² + 12 k` events plus 3 per
    fast-path return (`spins log`); in particular a log without spin has at most `21 k² + 12 k`
    events. -/
theorem C09u_once_bounded_modulo_spins (thr : Nat → Bool) (k : Nat) (log : List Ev) (p : PSt)
    (h : runLog pstep (pinit k (callers thr)) log = some p) :
    log.length ≤ 21 * k * k + 12 * k + 3 * spins log ∧
    log.length - 3 * spins log ≤ 21 * k * k + 12 * k ∧
    (spins log = 0 → log.length ≤ 21 * k * k + 12 * k) := by
  have := runLog_phi log _ p h
  rw [phi_pinit, bound_callers] at this
  refine ⟨by omega, by omega, ?_⟩
  intro h0; omega

/-- the same for any finite program over the event / call_once operations (`bound n prog` =
    `n` + Σ price of the operations: `wait` 8, `set` `21 n + 6`, `reset` 3, `occurred` 2,
    `call_once` `21 n + 11`) -/
theorem C09u_once_bounded_modulo_spins_prog (n : Nat) (prog : Nat → List Op) (log : List Ev) (p : PSt)
    (h : runLog pstep (pinit n prog) log = some p) :
    log.length ≤ bound n prog + 3 * spins log := by
  have := runLog_phi log _ p h
  rw [phi_pinit] at this
  omega

/-- **Every counted spin is the retry of a loser.**  In a run of `k` callers every accepted
    `evLoad t true` is the fast-path return of `event_.wait()` called from inside `call_once`: the
    caller had lost the CAS, the flag is `true`, and the caller is back at the status load. -/
theorem C09u_once_spin_is_retry (thr : Nat → Bool) (k : Nat) (log : List Ev) (p p' : PSt) (t : Nat)
    (h : runLog pstep (pinit k (callers thr)) log = some p)
    (he : pstep p (.evLoad t true) = some p') :
    p.s.pc t = .wWant (.once (thr t)) ∧ p.s.flag = true ∧ p'.s.pc t = .cLoad (thr t) := by
  obtain ⟨hA, _, _, hJ⟩ := J_of_accepted thr k log p h
  exact callers_spin_ctx thr p p' t hA hJ he

/-- three callers; the callable of caller 0 throws -/
def thrSpin : Nat → Bool := fun t => decide (t = 0)

/-- **The unqualified statement is false.**  Three callers: for every `m` there is an accepted log
    with `19 + 3 m` events (`onceSpinLog` of the finding followed by `m` spin rounds of caller 2,
    while winner 1 sits in its callable). -/
theorem C09u_once_unbounded_spin (m : Nat) :
    ∃ p, runLog pstep (pinit 3 (callers thrSpin)) (onceSpinLog ++ rounds 2 m) = some p ∧
      (onceSpinLog ++ rounds 2 m).length = 19 + 3 * m ∧ spins (onceSpinLog ++ rounds 2 m) = 2 + m := by
  obtain ⟨p0, hp0, h1, h2, h3, h4⟩ : ∃ p0, runLog pstep (pinit 3 (callers thrSpin)) onceSpinLog = some p0 ∧
      2 < p0.s.n ∧ p0.s.pc 2 = .cLoad false ∧ p0.s.status = .running ∧ p0.s.flag = true := by
    refine ⟨_, rfl, ?_⟩
    decide
  refine ⟨p0, ?_, ?_, ?_⟩
  · rw [runLog_append, hp0]
    exact pspin_rounds p0 2 false h1 h2 h3 h4 m
  · rw [List.length_append, rounds_length]; rfl
  · have : ∀ l, spins (onceSpinLog ++ l) = 2 + spins l := by
      intro l; simp [onceSpinLog, spins]; omega
    rw [this, rounds_spins]

/-- **Final states of maximal runs of `k` callers.**  Let `log` be an accepted log of `k` callers
    after which no event at all is accepted.  Then
    * every caller has called, returned and finished, with result 0 (normal) or 2 (exception), and
      an exception only if its own callable throws;
    * if at least one callable does not throw: the status is `complete`, exactly one non-throwing
      callable was entered and exactly one `complete` stored in the whole run (exactly one
      successful execution), nobody is inside the winner's section, and every caller whose
      callable does not throw returned normally;
    * if every callable throws: every caller returned with its (own) exception, no non-throwing
      callable was entered and `complete` was never stored. -/
theorem C09u_once_final_states (thr : Nat → Bool) (k : Nat) (log : List Ev) (p' : PSt)
    (h : runLog pstep (pinit k (callers thr)) log = some p') (hst : PStuck p') :
    (∀ t, t < k → p'.s.pc t = .fin ∧ p'.prog t = [] ∧
      ∃ r, p'.res t = some r ∧ (r = 0 → p'.s.status = .complete) ∧ (r = 0 ∨ (r = 2 ∧ thr t = true))) ∧
    ((∃ t, t < k ∧ thr t = false) →
      p'.s.status = .complete ∧ okBodies log = 1 ∧ completes log = 1 ∧ rsum p'.s = 0 ∧
      ∀ t, t < k → thr t = false → p'.res t = some 0) ∧
    ((∀ t, t < k → thr t = true) →
      (∀ t, t < k → p'.res t = some 2) ∧ okBodies log = 0 ∧ completes log = 0 ∧
      p'.s.status ≠ .complete) :=
  ⟨callers_final thr k log p' h hst, callers_some_ok thr k log p' h hst,
   callers_all_throw thr k log p' h hst⟩

/-- **Normal returns come after the successful execution.**  In every accepted log of `k` callers
    (maximal or not), in front of every normal return `ret t 0` the log contains exactly one entry
    of a non-throwing callable and exactly one store of `complete`: the unique successful
    execution has finished before any caller returns normally. -/
theorem C09u_once_normal_return_after_completion (thr : Nat → Bool) (k : Nat) (log1 log2 : List Ev)
    (t : Nat) (p' : PSt)
    (h : runLog pstep (pinit k (callers thr)) (log1 ++ .ret t 0 :: log2) = some p') :
    okBodies log1 = 1 ∧ completes log1 = 1 :=
  callers_ret_after thr k log1 log2 t p' h

/-- **A state where only spins are enabled is not final; progress modulo spins.**  From every
    reachable state of `k` callers in which some event is accepted there is an accepted
    continuation of at most 4 events that lowers `phi` (one non-spin event if one is enabled;
    otherwise only spins `evLoad t true` are enabled, then the status is not `running` and the
    spinning caller continues `onceLoad, onceWon, stored false` or `onceLoad, ret 0, done`). -/
theorem C09u_once_progress_modulo_spins (thr : Nat → Bool) (k : Nat) (log : List Ev) (p : PSt)
    (h : runLog pstep (pinit k (callers thr)) log = some p) (hns : ¬ PStuck p) :
    ∃ ext p1, ext.length ≤ 4 ∧ runLog pstep p ext = some p1 ∧ phi p1 < phi p :=
  progress thr k p ⟨log, h⟩ hns

/-- **Maximal runs exist.**  Every accepted log of `k` callers extends to a maximal one (so
    `C09u_once_final_states` speaks about the end of every run that is not cut short and does not
    spin forever). -/
theorem C09u_once_maximal_exists (thr : Nat → Bool) (k : Nat) (log : List Ev) (p : PSt)
    (h : runLog pstep (pinit k (callers thr)) log = some p) :
    ∃ ext p', runLog pstep (pinit k (callers thr)) (log ++ ext) = some p' ∧ PStuck p' := by
  obtain ⟨ext, p', he, hs⟩ := exists_maximal thr k (phi p) p ⟨log, h⟩ (Nat.le_refl _)
  exact ⟨ext, p', by rw [runLog_append, h]; exact he, hs⟩

/-! ### Non-vacuity -/

/-- two callers, the callable of caller 1 throws -/
def thr2 : Nat → Bool := fun t => decide (t = 1)

/-- a maximal run of two callers: caller 1 wins, throws; caller 0 lost the CAS, blocked, is woken
    by the failed winner's `set`, retries, wins, completes; results 0 and 2 -/
example : ∃ p', runLog pstep (pinit 2 (callers thr2)) (onceExampleLog ++ [.done 0, .done 1]) = some p' ∧
    PStuck p' ∧ p'.res 0 = some 0 ∧ p'.res 1 = some 2 ∧ p'.s.status = .complete := by
  refine ⟨_, rfl, fin_stuck _ ?_, rfl, rfl, rfl⟩
  intro t ht
  have : t = 0 ∨ t = 1 := by simp only [pinit, init] at ht; omega
  rcases this with rfl | rfl <;> rfl

/-- a maximal run of two callers whose callables both throw: both return with the exception -/
example : ∃ p', runLog pstep (pinit 2 (callers (fun _ => true)))
      [.inv 0 (.call true), .onceLoad 0, .onceWon 0, .stored 0 false, .body 0 true, .onceStored 0 false,
       .stored 0 true, .slAcq 0, .notifyAll 0 [], .slRel 0, .ret 0 2, .done 0,
       .inv 1 (.call true), .onceLoad 1, .onceWon 1, .stored 1 false, .body 1 true, .onceStored 1 false,
       .stored 1 true, .slAcq 1, .notifyAll 1 [], .slRel 1, .ret 1 2, .done 1] = some p' ∧
    PStuck p' ∧ p'.res 0 = some 2 ∧ p'.res 1 = some 2 ∧ p'.s.status = .zero := by
  refine ⟨_, rfl, fin_stuck _ ?_, rfl, rfl, rfl⟩
  intro t ht
  have : t = 0 ∨ t = 1 := by simp only [pinit, init] at ht; omega
  rcases this with rfl | rfl <;> rfl

/-- the bound for 3 callers is 225; the finding's spin log (19 events, 2 spins) is within
    `225 + 3 * 2` -/
example : 21 * 3 * 3 + 12 * 3 = 225 ∧ onceSpinLog.length = 19 ∧ spins onceSpinLog = 2 := by decide

end PikaVerif.C09uOnce
