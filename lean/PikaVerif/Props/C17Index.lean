import PikaVerif.Lemmas.IndexQueue
/-!
# `contiguous_index_queue`: every index of the initial range is popped at most once (C11, C17)

Theorems about the model `PikaVerif.IQ` (one range word, CAS loops of `pop_left` /
`pop_right` with the per-iteration computation generated from the C++ source).  Each theorem
quantifies over all accepted event logs, i.e. over every number of threads, every sequence
of operations and every interleaving of loads and compare-exchanges.
-/
namespace PikaVerif.C17Index
open PikaVerif PikaVerif.IQ

/-- `s` is reachable from a queue reset to `[f, l)` with `0 ≤ f ≤ l < 2^32`. -/
def Reachable (n : Nat) (f l : Int) (s : St) : Prop :=
  0 ≤ f ∧ f ≤ l ∧ l < 4294967296 ∧ ∃ log, runLog step (init n f l) log = some s

/-- **popped ⊎ remaining = initial range.**  In every reachable state, for every integer `i`:
    the number of times `i` has been popped (from either end) plus 1 if `i` is still in the
    queue equals 1 if `i` was in the initial range, else 0.  Hence no index is popped twice,
    no index outside `[f, l)` is ever popped, and an index is popped or still queued. -/
theorem popped_partition (n : Nat) (f l : Int) (s : St) (h : Reachable n f l s) (i : Int) :
    (s.poppedL ++ s.poppedR).count i + (if s.first ≤ i ∧ i < s.last then 1 else 0) =
      if f ≤ i ∧ i < l then 1 else 0 := by
  obtain ⟨h0, h1, h2, log, hl⟩ := h
  have hi := inv_of_accepted h0 h1 h2 hl
  obtain ⟨_, _, ef, el⟩ := retd_frame_of_accepted hl
  rw [List.count_append, hi.histL, hi.histR, count_descFrom, count_ascFrom]
  have a := hi.cntL; have b := hi.cntR; have c := hi.fl
  rw [ef] at a; rw [el] at b
  repeat' split
  all_goals omega

/-- No index is returned twice (by any combination of left and right pops). -/
theorem no_duplicates (n : Nat) (f l : Int) (s : St) (h : Reachable n f l s) :
    (s.poppedL ++ s.poppedR).Nodup := by
  rw [List.nodup_iff_count]
  intro i
  have := popped_partition n f l s h i
  repeat' split at this
  all_goals omega

/-- **Left pops ascend, right pops descend** — in the order of their successful CAS, for all
    interleavings (in particular in single-threaded use): the `k`-th successful `pop_left`
    returned `f + k`, the `k`-th successful `pop_right` returned `l - 1 - k`
    (`poppedL`, `poppedR` list the results newest first). -/
theorem pops_in_order (n : Nat) (f l : Int) (s : St) (h : Reachable n f l s) :
    s.poppedL = descFrom (f + s.poppedL.length - 1) s.poppedL.length ∧
    s.poppedR = ascFrom (l - s.poppedR.length) s.poppedR.length := by
  obtain ⟨h0, h1, h2, log, hl⟩ := h
  have hi := inv_of_accepted h0 h1 h2 hl
  obtain ⟨_, _, ef, el⟩ := retd_frame_of_accepted hl
  have a := hi.cntL; have b := hi.cntR
  rw [ef] at a; rw [el] at b
  refine ⟨?_, ?_⟩
  · rw [← a]; exact hi.histL
  · rw [← b]; exact hi.histR

/-- The value a `pop_*` returns is the one its successful CAS removed from the range. -/
theorem returned_was_popped (n : Nat) (f l : Int) (s s' : St) (h : Reachable n f l s) (t : Nat)
    (i : Int) (hs : step s (.ret t (some i)) = some s') : i ∈ s.poppedL ++ s.poppedR := by
  obtain ⟨h0, h1, h2, log, hl⟩ := h
  obtain ⟨hr, _⟩ := retd_frame_of_accepted hl
  simp only [step] at hs
  split at hs
  · split at hs
    · simp at hs
    · rename_i i' hpc
      split at hs
      · rename_i hrr
        simp only [Option.some.injEq] at hrr; subst hrr
        rw [List.mem_append]; exact hr t i hpc
      · simp at hs
    · simp at hs
  · simp at hs

/-- **`nullopt` only from an empty queue.**  A pop returns `nullopt` only when the queue is
    empty at that moment (and, the range only shrinking, for ever after). -/
theorem nullopt_only_if_empty (n : Nat) (f l : Int) (s s' : St) (h : Reachable n f l s) (t : Nat)
    (hs : step s (.ret t none) = some s') : s.last ≤ s.first := by
  obtain ⟨h0, h1, h2, log, hl⟩ := h
  have hi := inv_of_accepted h0 h1 h2 hl
  simp only [step] at hs
  split at hs
  · split at hs
    · rename_i sd ef el hpc
      have hseen := hi.seen t sd ef el hpc
      have a := hi.lo; have b := hi.hi; have c := hi.f0; have d := hi.fl; have e := hi.l0
      split at hs
      · rename_i hnone
        cases sd
        · simp only [popTry] at hnone
          rw [popLeftTry_exact ef el (by omega) (by omega) (by omega) (by omega)] at hnone
          by_cases hlt : ef < el
          · simp [hlt] at hnone
          · omega
        · simp only [popTry] at hnone
          rw [popRightTry_exact ef el (by omega) (by omega) (by omega) (by omega)] at hnone
          by_cases hlt : ef < el
          · simp [hlt] at hnone
          · omega
      · simp at hs
    · split at hs
      · rename_i hx; simp at hx
      · simp at hs
    · simp at hs
  · simp at hs

/-- **A CAS fails only under interference.**  If the word still equals the value a thread
    loaded, its `compare_exchange` is accepted only with outcome `true` (no spurious failure,
    no lost update); if the word has changed, only with outcome `false`. -/
theorem cas_outcome (s s' : St) (t : Nat) (ok : Bool) (f l : Int) (sd : Side) (ef el : Int)
    (hpc : s.pc t = .loaded sd ef el) (hs : step s (.cas t ok f l) = some s') :
    ok = decide (ef = s.first ∧ el = s.last) := by
  simp only [step, hpc] at hs
  split at hs
  · split at hs
    · simp at hs
    · split at hs
      · rename_i hcur
        split at hs
        · rename_i hok; simp [hok.1, hcur]
        · simp at hs
      · rename_i hcur
        split at hs
        · rename_i hok; simp [hok.1, hcur]
        · simp at hs
  · simp at hs

/-- **A pop on a non-empty quiescent queue succeeds.**  In a reachable state in which no
    thread is inside an operation and the queue is non-empty, a `pop_left` run by thread `t`
    alone goes load → CAS (succeeds at the first attempt) → returns the first index; a
    `pop_right` likewise returns the last index. -/
theorem pop_succeeds_when_quiescent (n : Nat) (f l : Int) (s : St) (h : Reachable n f l s)
    (t : Nat) (ht : t < s.n) (hq : s.pc t = .idle) (hne : s.first < s.last) :
    (runLog step s [.inv t .L, .load t s.first s.last, .cas t true (s.first + 1) s.last,
        .ret t (some s.first)]).isSome = true ∧
    (runLog step s [.inv t .R, .load t s.first s.last, .cas t true s.first (s.last - 1),
        .ret t (some (s.last - 1))]).isSome = true := by
  obtain ⟨h0, h1, h2, log, hl⟩ := h
  have hi := inv_of_accepted h0 h1 h2 hl
  have a := hi.lo; have b := hi.hi; have c := hi.f0; have d := hi.fl; have e := hi.l0
  have eL := popLeftTry_exact s.first s.last (by omega) (by omega) (by omega) (by omega)
  have eR := popRightTry_exact s.first s.last (by omega) (by omega) (by omega) (by omega)
  simp only [hne, if_true] at eL eR
  constructor
  · simp [runLog, step, ht, hq, upd, popTry, eL, pushPop]
  · simp [runLog, step, ht, hq, upd, popTry, eR, pushPop]

/-! ## Non-vacuity -/

/-- two threads race on `[3, 5)`: thread 1's first CAS fails because thread 0 popped, it
    retries; a third pop finds the queue empty -/
def exampleLog : List Ev :=
  [.inv 0 .L, .inv 1 .R, .load 0 3 5, .load 1 3 5, .cas 0 true 4 5, .ret 0 (some 3),
   .cas 1 false 4 5, .cas 1 true 4 4, .ret 1 (some 4), .inv 0 .L, .load 0 4 4, .ret 0 none]

example : (runLog step (init 2 3 5) exampleLog).isSome = true := by decide +kernel

end PikaVerif.C17Index
