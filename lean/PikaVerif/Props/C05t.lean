import PikaVerif.Props.C05
import PikaVerif.Lemmas.LifeHistReach
/-!
# C05t — termination of finite life-cycle histories (follow-up of C05)

`Props/C05.lean` states liveness only as enabledness (`C05_resume_runs_queued`,
`C05_stop_suspended_no_stuck`).  This file strengthens it to TERMINATION for the model
`PikaVerif.Life`.

**Why a history layer.**  `Life.step` is an acceptor of every log: it accepts unboundedly many
submissions, phases, suspensions and incarnations, so no measure exists on `Life.St` alone.  A
*finite history* (`Lemmas/LifeHist.lean`) fixes the program: a controller (OS thread 0, not a pika
task) runs a finite script `start th pol | submit | wait | suspend | resume | finalize | stop`
(any number of incarnations); task bodies spawn at most `kids` children and yield at most `yields`
times in total; every unit passes through the staged queue at most once; every thread object runs
the task it holds once (`tp o`: created, first phase begun, `body.enter`, switched out, `body.exit`,
terminated; `destroy` needs a terminated task).  `hstep` = `Life.step` restricted to the logs of the
history; every accepted history log is an accepted model log (`C05t_refines`), so every theorem of
`Props/C05.lean` holds along it.

**Stutter (stated precisely, `Life.neutral`).**  The events the model accepts without progress:
* `sample a v self` with `self < v` — the poll of `wait()` / of `stop()`'s drain check that samples a
  busy counter: it can repeat for ever (`C05t_busy_poll_repeats`) and changes nothing but the flag
  "the last sample let wait return" (`C05t_neutral_is_stutter`);
* `rtState` with `pre_startup / startup / pre_main` (no-ops of the phase machine), the harness'
  configuration observation `seenCfg`, and the store of the entry function's result.
Hence "a measure decreases with every accepted event" is FALSE (`C05t_requested_measure_impossible`);
the corrected statement is `C05t_measure_decreases`: `phi` strictly decreases with every accepted
non-neutral event and is unchanged by neutral ones.  Termination is *modulo the stutter*: an
accepted log of a history has at most `scost 0 script + 10 kids + 2 yields` non-neutral events
(`C05t_bounded`): 10 per task, 2 per yield, 1–3 per `finalize`/`wait`, `th + 2` per
`suspend`/`resume`, `th + 3` per `start`, `th + 6` per `stop` — linear in the number of tasks and
calls (`C05t_bounded_linear`).

**Maximal runs.**  `Maximal h`: no non-neutral event is accepted.  Every reachable state extends to a
maximal one within `phi h` events (`C05t_maximal_exists`).  In a maximal state either everything is
done (`Final`: the script is exhausted and every call has returned, the counter is zero, every unit
started has finished, every task was entered and left exactly once, nothing is live, no thread is
inside `stop()`), or the runtime is *suspended and still holds work* and the controller has ended its
script, polls in `wait()`, or polls in `stop()`'s drain check (`Holding` — `C05t_final_state`).  The
second shape is the one the documented preconditions exclude ("work can be scheduled while suspended
but no progress will be made"); it is a legal, non-terminating shape of the model:
`holdWitness` is a reachable maximal state inside `stop()` that has NOT returned
(`C05t_stop_suspended_pending_is_maximal`), so `C05t_wait_stop_return` needs its hypothesis.
A maximal run that does not end suspended — in particular one in which every `suspend` of the last
incarnation was followed by its `resume` (`nsusp = nres`) — ends `Final`: everything submitted while
suspended has run, after the resume (`C05t_submitted_while_suspended_runs`,
`C05t_suspended_bodies_frozen`).
-/
namespace PikaVerif.C05t
open PikaVerif PikaVerif.Life

/-- **Refinement.**  Every accepted log of a history is an accepted log of the life-cycle model, with
    the same model state: the theorems of `Props/C05.lean` hold in every state of every history. -/
theorem C05t_refines (na no : Nat) (script : List Call) (kids yields : Nat) (log : List Ev) (h : HSt)
    (hl : runLog hstep (hinit na no script kids yields) log = some h) :
    runLog step (init na no) log = some h.s ∧ C05.Reachable h.s := by
  have := runLog_hstep_step log _ h hl
  exact ⟨this, na, no, log, this⟩

/-- **The measure decreases.**  In every reachable state of a history, an accepted event that is not a
    stutter strictly decreases `phi`; a stutter leaves it unchanged. -/
theorem C05t_measure_decreases (h h' : HSt) (e : Ev) (hr : HReach h) (hs : hstep h e = some h') :
    (neutral e = false → phi h' < phi h) ∧ (neutral e = true → phi h' = phi h) :=
  phi_step h h' e (allInv_of_reach hr).i hs

/-- **The stutter changes nothing.**  An accepted neutral event leaves the script, the controller's
    position, the budgets, every task's progress, the activity counter and its four components, the
    phase, the stop position, the sleeping workers and the history counters unchanged. -/
theorem C05t_neutral_is_stutter (h h' : HSt) (e : Ev) (hn : neutral e = true) (hs : hstep h e = some h') :
    h'.script = h.script ∧ h'.cpc = h.cpc ∧ h'.kids = h.kids ∧ h'.yields = h.yields ∧ h'.tp = h.tp ∧
    h'.s.cnt = h.s.cnt ∧ h'.s.creating = h.s.creating ∧ h'.s.staged = h.s.staged ∧
    h'.s.destroying = h.s.destroying ∧ h'.s.live = h.s.live ∧ h'.s.ph = h.s.ph ∧ h'.s.spc = h.s.spc ∧
    h'.s.nsleep = h.s.nsleep ∧ h'.s.fin = h.s.fin ∧ h'.bodies = h.bodies ∧ h'.exits = h.exits ∧
    h'.s.started = h.s.started ∧ h'.s.finished = h.s.finished := by
  cases e <;> simp only [neutral] at hn <;> first | (cases hn; done) | skip
  all_goals (
    hist_open
    all_goals first
      | (refine ⟨rfl, rfl, rfl, rfl, rfl, rfl, rfl, rfl, rfl, rfl, rfl, rfl, rfl, rfl, rfl, rfl, rfl, rfl⟩; done)
      | (simp_all; done)
      | (simp_all; omega))

/-- **The stutter repeats for ever.**  While the controller polls in `wait()` with a non-zero counter,
    the busy sample is accepted any number of times in a row (and is neutral). -/
theorem C05t_busy_poll_repeats (c : Nat) (hc : 0 < c) (n : Nat) : ∀ (h : HSt), Polling c h →
    ∃ h', runLog hstep h (List.replicate n (.sample 0 c 0)) = some h' ∧ Polling c h' ∧
      neutral (.sample 0 c 0) = true := by
  induction n with
  | zero => intro h hp; exact ⟨h, rfl, hp, by simp [neutral, hc]⟩
  | succ k ih =>
    intro h hp
    obtain ⟨h1, hs, hp1⟩ := poll_step c hc h hp
    obtain ⟨h', hr, hp', hn⟩ := ih h1 hp1
    refine ⟨h', ?_, hp', hn⟩
    simp only [List.replicate_succ, runLog, hs]; exact hr

/-- a reachable state with an exact stutter: the runtime is being constructed -/
def stutterLog : List Ev := [.reqCfg 0 1 0, .rtState 0 rsInitialized]
def stutterSt : HSt := (runLog hstep (hinit 2 1 [.start 1 0] 0 0) stutterLog).getD (hinit 0 0 [] 0 0)

theorem C05t_stutter_witness_accepted : (runLog hstep (hinit 2 1 [.start 1 0] 0 0) stutterLog).isSome = true := by decide

/-- **The requested statement is false.**  No natural-number function on history states decreases
    with every accepted event, not even on reachable states: `rtState pre_startup` is accepted in the
    reachable state `stutterSt` and leads back to the very same state. -/
theorem C05t_requested_measure_impossible :
    ¬ ∃ m : HSt → Nat, ∀ h e h', HReach h → hstep h e = some h' → m h' < m h := by
  intro ⟨m, hm⟩
  have hr : HReach stutterSt := by
    refine ⟨2, 1, [.start 1 0], 0, 0, stutterLog, ⟨by simp [wf], by simp [nsub]⟩, ?_⟩
    have := C05t_stutter_witness_accepted
    simp only [stutterSt]
    cases hx : runLog hstep (hinit 2 1 [.start 1 0] 0 0) stutterLog with
    | none => rw [hx] at this; cases this
    | some v => rfl
  have hs : hstep stutterSt (.rtState 0 rsPreStartup) = some stutterSt := by
    have hph : stutterSt.s.ph = .starting := by decide
    have hna : 0 < stutterSt.s.na := by decide
    simp [hstep, step, led, hph, hna, rsPreStartup, rsInitialized]
  have := hm stutterSt _ stutterSt hr hs
  omega

/-- **Bounded runs (termination modulo the stutter).**  In every accepted log of a history the number
    of non-neutral events plus the measure of the state reached is at most the initial potential:
    the cost of the script plus 10 per child a body may spawn plus 2 per yield. -/
theorem C05t_bounded (na no : Nat) (script : List Call) (kids yields : Nat) (log : List Ev) (h : HSt)
    (hl : runLog hstep (hinit na no script kids yields) log = some h) :
    nMoves log + phi h ≤ scost 0 script + 10 * kids + 2 * yields := by
  have := (runLog_phi log _ h (inv_init na no) hl).1
  rw [phi_hinit] at this
  exact this

/-- the same bound from any state of a history -/
theorem C05t_bounded_from (h h' : HSt) (log : List Ev) (hr : HReach h) (hl : runLog hstep h log = some h') :
    nMoves log + phi h' ≤ phi h :=
  (runLog_phi log h h' (allInv_of_reach hr).i hl).1

/-- **… linear in the number of tasks and calls.**  With at most `M` worker threads per incarnation,
    an accepted log has at most `(M + 10) · #calls + 10 · #children + 2 · #yields` non-neutral events
    (`#calls` counts the `submit`s: every task costs at most 10 events plus its share of the calls). -/
theorem C05t_bounded_linear (na no M : Nat) (script : List Call) (kids yields : Nat) (log : List Ev) (h : HSt)
    (hM : ∀ t p, Call.start t p ∈ script → t ≤ M)
    (hl : runLog hstep (hinit na no script kids yields) log = some h) :
    nMoves log ≤ (M + 10) * script.length + 10 * kids + 2 * yields := by
  have h1 := C05t_bounded na no script kids yields log h hl
  have h2 := scost_le M script 0 (Nat.zero_le _) hM
  omega

/-- **Maximal runs exist and are short.**  Every reachable state of a history extends — by progress
    events only — to a maximal state within `phi h` events. -/
theorem C05t_maximal_exists (h : HSt) (hr : HReach h) :
    ∃ ext h', runLog hstep h ext = some h' ∧ HReach h' ∧ Maximal h' ∧ ext.length ≤ phi h := by
  obtain ⟨ext, h', hrun, hmax, hlen, _⟩ := exists_maximal (phi h) h (allInv_of_reach hr).i (Nat.le_refl _)
  exact ⟨ext, h', hrun, reach_append hr ext hrun, hmax, hlen⟩

/-- **Final states of maximal runs.**  A reachable maximal state of a history is either `Final` —
    every issued `wait()` / `suspend()` / `resume()` / `stop()` has returned, every task ran to
    completion exactly once, the counter is zero — or `Holding`: the runtime is suspended and still
    holds work, and the controller ended its script there, or polls in `wait()`, or polls in
    `stop()`'s drain check (the shape excluded by the documented preconditions). -/
theorem C05t_final_state (h : HSt) (hr : HReach h) (hm : Maximal h) : Final h ∨ Holding h := by
  have hall := allInv_of_reach hr
  rcases max_final hall.i hall.a hall.b hm with ⟨h1, h2, h3⟩ | hh
  · exact Or.inl (final_of_drained hall h1 h2 h3)
  · exact Or.inr hh

/-- **wait() and stop() return once the work has drained.**  A maximal run that does not end on a
    suspended runtime has returned from every call and run every task. -/
theorem C05t_wait_stop_return (h : HSt) (hr : HReach h) (hm : Maximal h) (hns : h.s.ph ≠ .suspended) : Final h := by
  rcases C05t_final_state h hr hm with hf | hh
  · exact hf
  · exact absurd hh.1 hns

/-- the converse: nothing can move in a `Final` state whose script is exhausted, so `Final ∨ Holding`
    are exactly the ends of maximal runs on the `Final` side -/
theorem C05t_final_is_maximal (h : HSt) (hr : HReach h) (hf : Final h) : Maximal h := by
  obtain ⟨f1, f2, f3, f4, f5, f6, f7, f8, f9, f10, f11, f12, f13⟩ := hf
  have hall := allInv_of_reach hr
  have hidle := hall.b.idle f2
  intro e h' hs
  cases e <;> (
    obtain ⟨s', l, h1, h2, h3⟩ := hstep_some _ _ _ hs
    simp only [step] at h1
    simp only [led] at h2
    simp_all [neutral]) <;> (try (repeat' split at h2) <;> simp_all) <;> (try omega)

/-- **While the runtime is suspended no body event is accepted**, so the counts of `body.enter` /
    `body.exit` events are frozen in phase `suspended`. -/
theorem C05t_suspended_bodies_frozen (h h' : HSt) (e : Ev) (hr : HReach h) (hph : h.s.ph = .suspended)
    (hs : hstep h e = some h') : h'.bodies = h.bodies ∧ h'.exits = h.exits ∧ (∀ a o, e ≠ .body a o) := by
  obtain ⟨na, no, script, kids, yields, log, _, hl⟩ := hr
  have hreach := (C05t_refines na no script kids yields log h hl).2
  have hno := (C05.C05_suspended_no_body h.s hreach hph).2.2.2
  have hst := hstep_step h h' e hs
  have hnb : ∀ a o, e ≠ .body a o := by
    intro a o he; subst he; rw [hno a o] at hst; cases hst
  refine ⟨?_, ?_, hnb⟩
  all_goals (
    cases e
    case body a o => exact absurd rfl (hnb a o)
    all_goals (hist_open <;> rfl))

/-- **(3) A task submitted while suspended runs after the resume.**  Take any reachable state `h1` in
    which the runtime is suspended, and any continuation to a maximal state `h2` in which every
    `suspend` of the current incarnation has been followed by its `resume` (`nsusp = nres`; in
    particular: the run contains the resume and no later suspend).  Then `h2` is `Final`: every unit
    started so far — including every unit submitted while the runtime was suspended — was entered and
    left exactly once; and none of these bodies ran while the runtime was suspended
    (`C05t_suspended_bodies_frozen`), so they ran after the resume. -/
theorem C05t_submitted_while_suspended_runs (h1 h2 : HSt) (log : List Ev) (hr : HReach h1)
    (_hph : h1.s.ph = .suspended) (hl : runLog hstep h1 log = some h2) (hm : Maximal h2)
    (hres : h2.nsusp = h2.nres) :
    Final h2 ∧ h2.bodies = h2.s.started ∧ h2.exits = h2.s.started ∧ h2.s.finished = h2.s.started := by
  have hr2 := reach_append hr log hl
  have hall := allInv_of_reach hr2
  have hns : h2.s.ph ≠ .suspended := by
    intro hp
    have := hall.b.suspCount.1 (Or.inr hp)
    omega
  have hf := C05t_wait_stop_return h2 hr2 hm hns
  exact ⟨hf, hf.2.2.2.2.2.2.2.2.2.2.1, hf.2.2.2.2.2.2.2.2.2.2.2.1, hf.2.2.2.2.2.2.2.2.2.1⟩

/-- **`Holding` states are ends of maximal runs too.**  A reachable state in which the runtime is
    suspended and holds work that cannot move without a worker (nothing in flight, staged or being
    destroyed; every live task is waiting for its next phase), with the controller at the end of its
    script, polling in `wait()` or polling in `stop()`'s drain check, accepts only stutters: it is a
    legal, non-terminating shape of the model. -/
theorem C05t_holding_is_maximal (h : HSt) (hr : HReach h) (hh : Holding h)
    (h0 : h.s.creating = 0 ∧ h.s.staged = 0 ∧ h.s.destroying = 0)
    (htp : ∀ o, h.s.live o = true → h.tp o = 0 ∨ h.tp o = 3) : Maximal h := by
  obtain ⟨hph, hcnt, hshape⟩ := hh
  obtain ⟨c1, c2, c3⟩ := h0
  have hall := allInv_of_reach hr
  obtain ⟨na, no, script, kids, yields, log, _, hl⟩ := hr
  have hreach := (C05t_refines na no script kids yields log h hl).2
  have hcur := (C05.C05_suspended_no_body h.s hreach hph).2.1
  have hasl := (C05.C05_suspended_no_body h.s hreach hph).1
  have hstop := hall.b.stop
  have hsf := hall.i.stopPc
  intro e h' hs
  cases e <;> (
    obtain ⟨s', l, h1, h2, h3⟩ := hstep_some _ _ _ hs
    simp only [step] at h1
    simp only [led] at h2
    simp_all [neutral, b2n]) <;> (try (repeat' split at h2) <;> simp_all [b2n]) <;> (try omega) <;> (try grind)

/-- **Exact characterisation of the ends of maximal runs.**  A reachable state is maximal iff it is
    `Final`, or it is `Holding` with nothing in flight, staged or being destroyed and every live task
    waiting for its next phase (created and not begun, or switched out inside its body). -/
theorem C05t_maximal_iff (h : HSt) (hr : HReach h) :
    Maximal h ↔ Final h ∨ (Holding h ∧ (h.s.creating = 0 ∧ h.s.staged = 0 ∧ h.s.destroying = 0) ∧
      ∀ o, h.s.live o = true → h.tp o = 0 ∨ h.tp o = 3) := by
  constructor
  · intro hm
    rcases C05t_final_state h hr hm with hf | hh
    · exact Or.inl hf
    · refine Or.inr ⟨hh, ?_, ?_⟩
      · have hall := allInv_of_reach hr
        have hth := hall.b.thOk (Or.inr (by rw [hh.1]; simp))
        have hna : 0 < h.s.na := by omega
        have h1 : ¬ 0 < h.s.creating := fun hx => prog_anon hall.i hall.a hna (Or.inl hx) hm
        have h2 : ¬ 0 < h.s.staged := fun hx => prog_anon hall.i hall.a hna (Or.inr (Or.inl hx)) hm
        have h3 : ¬ 0 < h.s.destroying := fun hx => prog_anon hall.i hall.a hna (Or.inr (Or.inr (Or.inl hx))) hm
        omega
      · intro o hl
        have hall := allInv_of_reach hr
        have hth := hall.b.thOk (Or.inr (by rw [hh.1]; simp))
        have hna : 0 < h.s.na := by omega
        have h5 : h.tp o ≠ 5 := fun h5 => prog_anon hall.i hall.a hna (Or.inr (Or.inr (Or.inr ⟨o, hl, h5⟩))) hm
        have hin : ¬ (h.tp o = 1 ∨ h.tp o = 2 ∨ h.tp o = 4) := by
          intro hx
          exact prog_inphase hall.i hall.a (hall.a.tpIn o hl hx) hm
        have hle := hall.a.tpLe o hl
        omega
  · intro hx
    rcases hx with hf | ⟨hh, h0, htp⟩
    · exact C05t_final_is_maximal h hr hf
    · exact C05t_holding_is_maximal h hr hh h0 htp

/-! ## Non-vacuity -/

/-- one incarnation with one worker: a task that spawns a child, a suspension during which a task is
    submitted (and staged), the resume, a `wait()` that first polls a busy counter while the queued task
    runs (and yields once), finalize, stop -/
def exScript : List Call := [.start 1 0, .submit, .suspend, .submit, .resume, .wait, .finalize, .stop]

def exLog : List Ev :=
  [.reqCfg 0 1 0, .rtState 0 rsInitialized, .rtState 0 rsPreStartup, .worker 1, .rtState 0 rsRunning, .seenCfg 0 1 0,
   -- submit; the task spawns a child, both run to completion
   .inc 0 1, .new 0 0, .phaseBegin 1 0, .body 1 0, .inc 1 2, .new 1 1, .body 1 0, .phaseEnd 1 0, .destroy 1 0, .dec 1 1,
   .phaseBegin 1 1, .body 1 1, .body 1 1, .phaseEnd 1 1, .destroy 1 1, .dec 1 0,
   -- suspend; submit while suspended (staged); resume
   .suspendEnter 0, .sleep 1, .rtState 0 rsSleeping, .inc 0 1, .stage 0, .resumeEnter 0, .wake 1, .rtState 0 rsRunning,
   -- wait: two busy polls (stutter), the queued task runs (one yield), idle sample, return
   .waitEnter 0, .sample 0 1 0, .unstage 1, .new 1 0, .sample 0 1 0, .phaseBegin 1 0, .body 1 0, .phaseEnd 1 0,
   .phaseBegin 1 0, .body 1 0, .phaseEnd 1 0, .destroy 1 0, .dec 1 0, .sample 0 0 0, .waitExit 0,
   -- finalize; stop
   .fin 0, .stopEnter 0, .waitFin 0, .sample 0 0 0, .waited 0 0, .rtState 0 rsStopped, .stopExit 0 0]

/-- the example is accepted; it ends with the script exhausted, the controller idle, no runtime,
    counter 0, three units started / finished / entered / left; the remaining measure 5 is unused
    slack (two units were not staged, `stop()` was entered on a running runtime: no worker to wake) -/
example : (runLog hstep (hinit 2 3 exScript 1 1) exLog).map
    (fun h => (h.script.length, h.s.cnt, h.s.started, h.s.finished)) = some (0, 0, 3, 3) := by decide
example : (runLog hstep (hinit 2 3 exScript 1 1) exLog).map
    (fun h => (h.bodies, h.exits, phi h)) = some (3, 3, 5) := by decide
example : (runLog hstep (hinit 2 3 exScript 1 1) exLog).map
    (fun h => (h.cpc == .idle, h.s.ph == .none, h.s.spc == .out)) = some (true, true, true) := by decide

/-- the bound of `C05t_bounded` is attained with equality: 48 non-neutral events + final measure 5
    = initial potential 53 = `scost 0 exScript + 10 kids + 2 yields` (the log has 52 events: 4 stutters) -/
example : nMoves exLog = 48 ∧ exLog.length = 52 ∧ scost 0 exScript + 10 * 1 + 2 * 1 = 53 := by decide

/-- the history satisfies the documented preconditions -/
example : HOk 2 3 exScript 1 := ⟨by simp [exScript, wf], by decide⟩

/-- the measure along the run: 53 at the start, 49 when `start` has returned -/
example : phi (hinit 2 3 exScript 1 1) = 53 := by decide
example : (runLog hstep (hinit 2 3 exScript 1 1) (exLog.take 6)).map phi = some 49 := by decide

/-- while suspended (after 27 events: the second submit is staged) the body counts are those of the
    first two tasks; at the end all three have run: the task submitted while suspended ran after the
    resume -/
example : (runLog hstep (hinit 2 3 exScript 1 1) (exLog.take 27)).map
    (fun h => (h.s.ph == .suspended, h.s.cnt, h.s.staged, h.bodies)) = some (true, 1, 1, 2) := by decide
example : (runLog hstep (hinit 2 3 exScript 1 1) (exLog.take 27)).map
    (fun h => (h.s.started, h.nsusp, h.nres)) = some (3, 1, 0) := by decide

/-- **The excluded history (witness).**  `finalize; suspend; submit; stop`: `stop()` is entered on a
    suspended runtime that holds one queued task.  The log below is accepted; the state it reaches has
    the controller inside `stop()` at the drain check (`waitedFin`), phase `suspended`, counter 1 … -/
def holdScript : List Call := [.start 1 0, .finalize, .suspend, .submit, .stop]
def holdLog : List Ev :=
  [.reqCfg 0 1 0, .rtState 0 rsInitialized, .worker 1, .rtState 0 rsRunning, .fin 0, .suspendEnter 0, .sleep 1,
   .rtState 0 rsSleeping, .inc 0 1, .new 0 0, .stopEnter 0, .waitFin 0, .sample 0 1 0, .sample 0 1 0]
def holdWitness : HSt := (runLog hstep (hinit 2 1 holdScript 0 0) holdLog).getD (hinit 0 0 [] 0 0)

theorem C05t_holdWitness_accepted : (runLog hstep (hinit 2 1 holdScript 0 0) holdLog).isSome = true := by decide

theorem C05t_holdWitness_shape :
    holdWitness.s.ph = .suspended ∧ holdWitness.cpc = .stop ∧ holdWitness.s.spc = .waitedFin ∧
    holdWitness.s.cnt = 1 ∧ holdWitness.s.creating = 0 ∧ holdWitness.s.staged = 0 ∧
    holdWitness.s.destroying = 0 ∧ holdWitness.s.live 0 = true ∧ holdWitness.tp 0 = 0 ∧ holdWitness.s.no = 1 ∧
    holdWitness.script.length = 0 ∧ holdWitness.bodies = 0 := by decide

theorem C05t_holdWitness_reach : HReach holdWitness := by
  refine ⟨2, 1, holdScript, 0, 0, holdLog, ⟨by simp [holdScript, wf], by decide⟩, ?_⟩
  have := C05t_holdWitness_accepted
  simp only [holdWitness]
  cases hx : runLog hstep (hinit 2 1 holdScript 0 0) holdLog with
  | none => rw [hx] at this; cases this
  | some v => rfl

/-- … **and it is the end of a maximal run in which `stop()` has NOT returned**: the history respects
    every precondition the model encodes (`HOk`), the state is reachable and maximal (only the busy
    poll is accepted), the controller is still inside `stop()`, the submitted task never ran.  So
    `C05t_wait_stop_return` needs its hypothesis "the run does not end on a suspended runtime". -/
theorem C05t_stop_suspended_pending_is_maximal :
    HReach holdWitness ∧ Maximal holdWitness ∧ Holding holdWitness ∧ ¬ Final holdWitness ∧
    holdWitness.cpc = .stop ∧ holdWitness.s.spc = .waitedFin ∧ holdWitness.s.cnt = 1 ∧ holdWitness.bodies = 0 ∧
    (hstep holdWitness (.sample 0 1 0)).isSome = true := by
  have hs := C05t_holdWitness_shape
  obtain ⟨s1, s2, s3, s4, s5, s6, s7, s8, s9, s10, s11, s12⟩ := hs
  have hhold : Holding holdWitness := ⟨s1, by omega, Or.inr (Or.inr ⟨s2, s3⟩)⟩
  have hmax : Maximal holdWitness := by
    apply C05t_holding_is_maximal _ C05t_holdWitness_reach hhold ⟨s5, s6, s7⟩
    intro o hl
    have ho := (allInv_of_reach C05t_holdWitness_reach).i.liveBound o hl
    have : o = 0 := by omega
    subst this
    exact Or.inl s9
  refine ⟨C05t_holdWitness_reach, hmax, hhold, ?_, s2, s3, s4, s12, by decide⟩
  intro hf
  have := hf.2.1
  rw [s2] at this
  cases this

end PikaVerif.C05t
