import PikaVerif.Lemmas.Place2
/-!
# C10 — work runs where it was sent: scheduler, pool and hint placement

Theorems about the placement model `PikaVerif.Place` (`Model/Place.lean`).  They hold for every
accepted log: any number of pools, workers, queues, tasks, sender operations, hints, priorities,
yields, suspensions, steals, object recyclings, and every interleaving of the hook events.
"Actor" = one OS thread; "task" = one `thread_data` object; "operation" = one schedule
operation state (or one `execute` call).
-/
namespace PikaVerif.C10
open PikaVerif PikaVerif.Place

def Reachable (s : St) : Prop := ∃ log, runLog step init log = some s

theorem inv_of_reachable {s : St} (h : Reachable s) : Inv s := by
  obtain ⟨log, hl⟩ := h
  exact inv_of_accepted hl

/-- an accepted `step` is an accepted `core` -/
theorem core_of_step {s s' : St} {e : Ev} (h : step s e = some s') : ∃ s1, core s e = some s1 := by
  simp only [step] at h
  split at h
  · rename_i s1 hc; exact ⟨s1, hc⟩
  · simp at h

/-- **Pool.**  Every phase of a task is run by a worker of the pool of the task's own scheduler
    (the pool its creating `register_work`/`create_work` named): whenever the model accepts the
    start of a phase of task `o` by actor `a` reporting worker number `w`, `a` is registered as
    worker `w` of pool `(task o).sched`. -/
theorem C10_pool (s s' : St) (hr : Reachable s) (a o w : Nat)
    (h : step s (.phaseBegin a o w) = some s') :
    (s.act a).worker = some ((s.task o).sched, w) := by
  have hi := (inv_of_reachable hr).i1
  obtain ⟨s1, hc⟩ := core_of_step h
  simp only [core] at hc
  split at hc
  · simp at hc
  · rename_i p w' hw
    split at hc
    · rename_i hg
      obtain ⟨hl, _, hww, _⟩ := hg
      subst hww
      split at hc
      · split at hc
        · rename_i hg2
          rw [hw, hg2.1]
        · simp at hc
      · split at hc
        · rename_i hh
          have h1 := hi.holdWorker o a hl hh
          have h2 := hi.holdPool o hl (by simp [hh])
          rw [hw] at h1
          simp only [Option.some.injEq, Prod.mk.injEq] at h1
          rw [hw, h1.1, h2]
        · simp at hc
    · simp at hc

/-- In every reachable state, a task that sits in a queue sits in a queue of its own scheduler's
    pool, and a task held by a worker is held by a worker of that pool. -/
theorem C10_pool_state (s : St) (hr : Reachable s) (o : Nat) (hl : (s.task o).live = true) :
    ((s.task o).loc.isSome = true → (s.task o).lpool = (s.task o).sched) ∧
    (∀ a, (s.task o).holder = some a → (s.act a).worker = some ((s.task o).sched, (s.task o).hidx)) := by
  have hi := (inv_of_reachable hr).i1
  refine ⟨hi.locPool o hl, ?_⟩
  intro a ha
  have h1 := hi.holdWorker o a hl ha
  have h2 := hi.holdPool o hl (by simp [ha])
  rw [h1, h2]

/-- **Never inline.**  When the receiver of schedule operation `k` is signalled (event `run`), this
    happens inside a phase of a task, on the actor holding that task, and no actor that is
    (still) inside `start(k)` is that actor: starting the operation performs no receiver signal in
    the caller's step.  (Pools whose queues are modelled; for `shared_priority` pools the acceptor
    itself checks the pool of the running task.) -/
theorem C10_never_inline (s s' : St) (hr : Reachable s) (a o k : Nat)
    (hq : (s.pool (s.op k).target).opq = false)
    (h : step s (.run a o k) = some s') :
    (s.task o).inPhase = true ∧ (s.task o).holder = some a ∧ (s.task o).payload = some k ∧
    ∀ b, (s.act b).starting = some k → b ≠ a := by
  have hi := (inv_of_reachable hr).i2
  obtain ⟨s1, hc⟩ := core_of_step h
  simp only [core] at hc
  split at hc
  · rename_i hg
    obtain ⟨hl, hp, hh, _, _, _, hpay'⟩ := hg
    have hpay := hpay' hq
    refine ⟨hp, hh, hpay, ?_⟩
    intro b hb hba
    subst hba
    exact hi.notInline o b k hl hpay hb hh
  · simp at hc

/-- **continues_on / schedule / transfer_just / execute.**  The continuation of an operation whose
    target scheduler belongs to pool `p` runs on a worker of `p` — whoever started the operation
    (an external thread, a worker of another pool, the predecessor's completing thread). -/
theorem C10_continues_on (s s' : St) (hr : Reachable s) (a o k : Nat)
    (h : step s (.run a o k) = some s') :
    (s.act a).worker = some ((s.op k).target, (s.task o).hidx) := by
  have hi1 := (inv_of_reachable hr).i1
  have hi2 := (inv_of_reachable hr).i2
  obtain ⟨s1, hc⟩ := core_of_step h
  simp only [core] at hc
  split at hc
  · rename_i hg
    obtain ⟨hl, hp, hh, _, _, hopq, hpay⟩ := hg
    have h1 := hi1.holdWorker o a hl hh
    have h2 := hi1.holdPool o hl (by simp [hh])
    rw [h1, h2]
    cases hq : (s.pool (s.op k).target).opq with
    | true => rw [hopq hq]
    | false => rw [hi2.payTarget o k hl (hpay hq)]
  · simp at hc

/-- the pool can neither steal nor redirect and every worker has its own high priority queue
    (`static`: always; `static-priority`: with the default number of high priority queues) -/
abbrev PinnedPool := Place.PinnedP

/-- **Static hint (partial).**  On a pinned pool, a normal-priority task created with a worker hint
    naming worker `h` (`h = size_t(hint) mod n`) runs every phase on worker `h` — provided it was
    never re-queued by `set_thread_state` with a hint that names no worker (`strayed`; see the two
    counterexamples below for what happens otherwise / on non-pinned pools).

    Full statement (not provable — false of the code, see `C10_static_hint_cex_*`):
    the same without the hypotheses `strayed = false` and `prioQ → nhp = n`. -/
theorem C10_static_hint_partial (s s' : St) (hr : Reachable s) (a o w h : Nat)
    (hP : PinnedPool (s.pool (s.task o).sched)) (hprio : (s.task o).prio = pNormal)
    (hstr : (s.task o).strayed = false)
    (hpin : pinTarget (s.pool (s.task o).sched) (s.task o).hint = some h)
    (hstep : step s (.phaseBegin a o w) = some s') :
    w = h := by
  have hi := inv_of_reachable hr
  have hpool := C10_pool s s' hr a o w hstep
  obtain ⟨s1, hc⟩ := core_of_step hstep
  simp only [core] at hc
  split at hc
  · simp at hc
  · rename_i p w' hw
    split at hc
    · rename_i hg
      obtain ⟨hl, _, hww, _⟩ := hg
      subst hww
      rw [hw] at hpool
      simp only [Option.some.injEq, Prod.mk.injEq] at hpool
      split at hc
      · rename_i hopq
        rw [hpool.1] at hopq
        have := hP.2.2.2.1
        rw [this] at hopq
        simp at hopq
      · split at hc
        · rename_i hh
          have h1 := hi.i1.holdWorker o a hl hh
          rw [hw] at h1
          simp only [Option.some.injEq, Prod.mk.injEq] at h1
          have h3 := hi.i4.pinHold o h hl hP hprio hstr hpin (by simp [hh])
          rw [h1.2, h3]
        · simp at hc
    · simp at hc

/-- In every reachable state a pinned, un-strayed, hinted task is queued only in a queue of the
    hinted worker and has only ever recorded the hinted worker as its last worker. -/
theorem C10_static_hint_state (s : St) (hr : Reachable s) (o h : Nat) (hl : (s.task o).live = true)
    (hP : PinnedPool (s.pool (s.task o).sched)) (hprio : (s.task o).prio = pNormal)
    (hstr : (s.task o).strayed = false)
    (hpin : pinTarget (s.pool (s.task o).sched) (s.task o).hint = some h) :
    ((s.task o).loc.isSome = true → (s.task o).lidx = h ∧ (s.task o).lcls ≠ cLow) ∧
    (∀ v ∈ (s.task o).lw, v = -1 ∨ v = (h : Int)) := by
  have hi := (inv_of_reachable hr).i4
  exact ⟨hi.pinLoc o h hl hP hprio hstr hpin, fun v hv => hi.pinLw o h v hl hP hprio hstr hpin hv⟩

/-- **std_thread_scheduler.**  The work of a `std_thread_scheduler` operation runs on an OS thread
    that has produced no event before: it is no worker of any pool, is not inside any `start` call
    (in particular it is not the submitter inside `start(k)`), and holds no pika task. -/
theorem C10_std_thread (s s' : St) (hr : Reachable s) (a k : Nat)
    (h : step s (.runStd a k) = some s') :
    (s.op k).target = poolStd ∧ (s.act a).worker = none ∧ (s.act a).starting = none ∧
    ∀ o, (s.task o).live = true → (s.task o).holder ≠ some a := by
  have hi := (inv_of_reachable hr).i3
  obtain ⟨s1, hc⟩ := core_of_step h
  simp only [core] at hc
  split at hc
  · rename_i hg
    obtain ⟨hseen, _, ht, _⟩ := hg
    exact ⟨ht, (hi.freshAct a hseen).1, (hi.freshAct a hseen).2, fun o hl => hi.freshHold a o hseen hl⟩
  · simp at hc

/-! ## The placement function -/

/-- a worker hint that names a worker is reduced modulo the number of workers -/
theorem C10_pick_hint (n : Nat) (h : Nat) : pickIdx n 1 (h : Int) = some (h % n) := pick_nat n h

/-- hint `-1` in thread mode and every hint in mode `none` fall back to the round-robin counter -/
theorem C10_pick_rr (n : Nat) (v : Int) : pickIdx n 1 (-1) = none ∧ pickIdx n 0 v = none := by
  constructor <;> simp [pickIdx, hintNum]

/-! ## Counterexamples to the full static-hint statement (machine-checked, by evaluation)

Both were replayed on the real runtime (see notes/C10.md): the first before the `fix:` commit
on the scheduling loop, the second is a property of `static-priority` with fewer high priority
queues than workers. -/

/-- pool 0: static-priority-like, 2 workers, no stealing -/
def cfg (nhp : Nat) : List Ev :=
  [.poolCfg 0 0 2 nhp true false false false,
   .queueReg 0 10 0 cNormal 0 2 nhp, .queueReg 0 11 0 cNormal 1 2 nhp, .queueReg 0 12 0 cHigh 0 2 nhp,
   .worker 1 0 0, .worker 2 0 1]

/-- (1) a `set_thread_state` whose caller supplies no usable worker hint (mode `none`, or the
    value `-1` read from `last_worker_thread_num_`) re-queues by round robin: the task hinted to
    worker 1 runs its second phase on worker 0. -/
def cexStale : List Ev := cfg 1 ++
  [.create 3 1 0 1 1 1 pNormal 11,            -- external actor 3: hint = worker 1
   .convert 2 1 5 11 11 0 pNormal, .pop 2 5 11, .phaseBegin 2 5 1,
   .stsHint 3 5 1 (-1),                         -- waker read the initial value −1
   .phaseEnd 2 5 3,                             -- suspended
   .sched 3 5 0 0 1 (-1) pNormal false 10,      -- round robin picked queue 0
   .pop 1 5 10, .phaseBegin 1 5 0]

example : (match runLog step init cexStale with
    | some s => (s.task 5).hint == some 1 && (s.task 5).hidx == 0 && (s.task 5).inPhase && (s.task 5).strayed
    | none => false) = true := by decide

/-- (2) one high priority queue for two workers: a boosted re-queue (`pending_boost`, e.g. from
    `yield_while`) of the task on worker 1 goes to high queue `1 mod 1 = 0` and worker 0 runs it. -/
def cexBoost : List Ev := cfg 1 ++
  [.create 3 1 0 1 1 1 pNormal 11,
   .convert 2 1 5 11 11 0 pNormal, .pop 2 5 11, .phaseBegin 2 5 1,
   .phaseEnd 2 5 rBoost,
   .sched 2 5 0 1 1 1 pBoost true 12,
   .pop 1 5 12, .phaseBegin 1 5 0]

example : (match runLog step init cexBoost with
    | some s => (s.task 5).hint == some 1 && (s.task 5).hidx == 0 && (s.task 5).inPhase && !(s.task 5).strayed
    | none => false) = true := by decide

/-! ## Non-vacuity -/

/-- external actor 3 starts operation 7 on pool 0 with hint 1; worker 1 converts, pops, runs the
    continuation; the task yields and is re-queued on worker 1; runs again; terminates -/
def exampleLog : List Ev := cfg 2 ++
  [.start 3 7 0, .create 3 1 0 1 1 1 pNormal 11, .started 3 7,
   .convert 2 1 5 11 11 0 pNormal, .pop 2 5 11, .phaseBegin 2 5 1, .run 2 5 7, .obs 2 5 0 1,
   .lwStore 2 5 1, .phaseEnd 2 5 rPending, .sched 2 5 0 1 1 1 pNormal true 11,
   .pop 2 5 11, .phaseBegin 2 5 1, .phaseEnd 2 5 4,
   .start 3 8 poolStd, .started 3 8, .runStd 4 8]

example : (runLog step init exampleLog).isSome = true := by decide

/-- the hypotheses of `C10_static_hint_partial` are satisfiable at a `phaseBegin` -/
example : (match runLog step init (exampleLog.take 11) with
    | some s => (s.task 5).prio == pNormal && !(s.task 5).strayed && (pinTarget (s.pool 0) (s.task 5).hint == some 1)
        && (step s (.phaseBegin 2 5 1)).isSome
    | none => false) = true := by decide

end PikaVerif.C10
