import PikaVerif.Lemmas.Barrier6
import PikaVerif.Lemmas.BarrierT5
/-!
# C09 (barrier part) — `pika::barrier` releases exactly when due

Property theorems about the model `PikaVerif.Barrier` (tournament-tree barrier with `uint8`
phase tickets).  Every theorem quantifies over *all* accepted event logs of the model: every
number of threads `n`, every expected count `N`, every well-formed client program (the
acceptor enforces only the standard's preconditions of `arrive` / `arrive_and_drop`), every
starting node of every arrival, and every interleaving.  `Reachable s` = `s` is the state
after some accepted log from `init n N`.
-/
namespace PikaVerif.C09Barrier
open PikaVerif PikaVerif.Barrier

def Reachable (s : St) : Prop := ∃ n N log, runLog step (init n N) log = some s

theorem Reachable.inv {s : St} (h : Reachable s) : InvA s ∧ InvB s := by
  obtain ⟨n, N, log, hl⟩ := h
  exact inv_of_accepted hl

/-! ## The last arriver -/

/-- **`base.arrive` returns `true` only after all expected arrivals of the phase.**
    If `base.arrive` has returned `true` to thread `t` (and the phase is not yet published) then
    the whole expected count of the phase has been claimed by invoked operations (`count = 0`),
    no other thread is still inside an arriving operation — i.e. each of the other `expected − 1`
    calls of `base.arrive` of this phase has returned (`false`) — `t` itself has no further call
    to make, and every ticket of every round of the tree is full. -/
theorem C09B_last_only_after_all (s : St) (hr : Reachable s) (t : Nat) (ht : t < s.n)
    (hl : isWin (s.pc t) = true) :
    s.count = 0 ∧ rem (s.pc t) = 0 ∧
    (∀ t', t' < s.n → t' ≠ t → arriving (s.pc t') = false) ∧
    (∀ k c, c < nodes s.e0 k → s.tk k c = fullB s.phase) := by
  obtain ⟨_, hb⟩ := hr.inv
  have hw := hb.winOk t hl
  obtain ⟨hrem, hinr, hcnt, _, hfull⟩ := win_some_facts hb t hw
  refine ⟨hcnt, hrem t ht, ?_, hfull⟩
  intro t' ht' hne
  exact not_arriving_of_quiet (hrem t' ht') (fun k => hinr t' k ht' hne) (hb.shape t')

/-- **At most one arriver per phase gets `true`**: two threads are never both between the
    `true` return of `base.arrive` and the phase store. -/
theorem C09B_last_unique (s : St) (hr : Reachable s) (t t' : Nat)
    (h : isWin (s.pc t) = true) (h' : isWin (s.pc t') = true) : t = t' := by
  obtain ⟨_, hb⟩ := hr.inv
  have := hb.winOk t h
  have := hb.winOk t' h'
  simp_all

/-- **Exactly one `true` return and exactly one completion call per phase, completion before
    the release.**  In every accepted log the number of `true` returns of `base.arrive` equals
    the number of published phases, plus one exactly while a last arriver is between its `true`
    return and the phase store; the number of completion-function calls equals the number of
    published phases, plus one exactly while that thread is between the completion call and the
    phase store.  (A phase store is accepted only from that program point, so every phase store is
    preceded by the one completion call of its phase.) -/
theorem C09B_completion_once_before_release (n N : Nat) (log : List Ev) (s : St)
    (h : runLog step (init n N) log = some s) :
    ((∃ t, isWin (s.pc t) = true) → lasts log = publishes log + 1) ∧
    ((¬ ∃ t, isWin (s.pc t) = true) → lasts log = publishes log) ∧
    ((∃ t, isPub (s.pc t) = true) → complCalls log = publishes log + 1) ∧
    ((¬ ∃ t, isPub (s.pc t) = true) → complCalls log = publishes log) := by
  obtain ⟨_, hb⟩ := inv_of_accepted h
  have hc := counters_log log _ s h
  simp only [init, Nat.zero_add] at hc
  obtain ⟨hc1, hc2, hc3, _⟩ := hc
  cases hw : s.win with
  | none =>
    obtain ⟨_, _, h3, h4⟩ := hb.noWin hw
    have n1 : ¬ ∃ t, isWin (s.pc t) = true := by
      intro ⟨t, ht⟩; have := hb.winOk t ht; simp [hw] at this
    have n2 : ¬ ∃ t, isPub (s.pc t) = true := by
      intro ⟨t, ht⟩; exact n1 ⟨t, by simp [isWin, ht]⟩
    exact ⟨fun h => absurd h n1, fun _ => by omega, fun h => absurd h n2, fun _ => by omega⟩
  | some t =>
    obtain ⟨h1, _, h3⟩ := hb.winConv t hw
    have y1 : ∃ t, isWin (s.pc t) = true := ⟨t, h1⟩
    refine ⟨fun _ => by omega, fun h => absurd y1 h, ?_⟩
    by_cases hp : isPub (s.pc t) = true
    · have y2 : ∃ t, isPub (s.pc t) = true := ⟨t, hp⟩
      have := (hb.pubF t hp).1
      exact ⟨fun _ => by omega, fun h => absurd y2 h⟩
    · have hwon : isWon (s.pc t) = true := by
        simp only [isWin, Bool.or_eq_true] at h1; rcases h1 with h1 | h1
        · exact h1
        · exact absurd h1 hp
      have n2 : ¬ ∃ t, isPub (s.pc t) = true := by
        intro ⟨t', ht'⟩
        have := hb.winOk t' (by simp [isWin, ht'])
        rw [hw] at this; simp at this; subst this; exact hp ht'
      have := (hb.wonF t hwon).2.2
      exact ⟨fun h => absurd h n2, fun _ => by omega⟩

/-! ## Waiters -/

/-- **Nobody leaves `wait` of phase `k` before phase `k` was published** (which happens after
    all its arrivals and its one completion call, by the theorems above).  If the model accepts a
    poll of thread `t` that ends its wait, then the phase in which `t` obtained its token
    (`tokIdx t`) is strictly below the number of published phases, and the completion function has
    run for it. -/
theorem C09B_no_early_leave (s s' : St) (hr : Reachable s) (t tok seen : Nat)
    (h : step s (.poll t tok seen) = some s') (hleft : s'.pc t = .retn) :
    s.tokIdx t < s.ph ∧ s.tokIdx t < s.compls := by
  obtain ⟨_, hb⟩ := hr.inv
  simp only [step] at h
  split at h
  · rename_i hg
    obtain ⟨_, hpc, htok, hseen⟩ := hg
    simp only [Option.some.injEq] at h; subst h
    simp only [upd_same] at hleft
    have hne : seen ≠ tok := by
      intro he; simp [he] at hleft
    have h1 := hb.tokIdxOk t
    have h2 := hb.phaseEq
    have hlt : s.tokIdx t < s.ph := by
      by_cases hq : s.tokIdx t = s.ph
      · exfalso; apply hne; rw [hseen, htok, h1.1, h2, hq]
      · omega
    refine ⟨hlt, ?_⟩
    cases hw : s.win with
    | none => have := (hb.noWin hw).2.2.1; omega
    | some t1 =>
      obtain ⟨hwin, _, _⟩ := hb.winConv t1 hw
      simp only [isWin, Bool.or_eq_true] at hwin
      rcases hwin with hwin | hwin
      · have := (hb.wonF t1 hwin).2.2; omega
      · have := (hb.pubF t1 hwin).1; omega
  · simp at h

/-- **A waiter whose phase is published is released by its next poll**, as long as fewer than
    128 phases were published since it obtained its token (the standard's precondition of `wait`
    allows only the current or the immediately preceding phase; after exactly 128 further phases
    the `uint8` phase byte would be equal again). -/
theorem C09B_waiter_released (s : St) (hr : Reachable s) (t : Nat) (ht : t < s.n)
    (hpc : s.pc t = .polling) (hdone : s.tokIdx t < s.ph) (hnear : s.ph - s.tokIdx t < 128) :
    ∃ s', step s (.poll t (s.tok t) s.phase) = some s' ∧ s'.pc t = .retn := by
  obtain ⟨_, hb⟩ := hr.inv
  have h1 := (hb.tokIdxOk t).1
  have h2 := hb.phaseEq
  have hne : s.phase ≠ s.tok t := by rw [h1, h2]; omega
  refine ⟨{ s with pc := upd s.pc t .retn }, ?_, by simp⟩
  simp [step, ht, hpc, hne]

/-! ## Reusability across phases, including the `uint8` wrap-around -/

/-- **The phase byte is `2 · (number of published phases) mod 256`, and every ticket in range
    for the phase's expected count is `phase`, `phase+1` or `phase+2` (mod 256)** — in every
    reachable state, hence also after the byte has wrapped around. -/
theorem C09B_tickets_in_phase (s : St) (hr : Reachable s) :
    s.phase = (2 * s.ph) % 256 ∧
    ∀ r c, c < nodes s.e0 r → s.tk r c = s.phase ∨ s.tk r c = halfB s.phase ∨ s.tk r c = fullB s.phase := by
  obtain ⟨_, hb⟩ := hr.inv
  refine ⟨hb.phaseEq, ?_⟩
  intro r c hc
  rcases hb.tix r c hc with h | h | h
  · exact Or.inl h
  · exact Or.inr (Or.inl h.1)
  · exact Or.inr (Or.inr h)

/-- **Reusable: at the start of a phase every in-range ticket equals the phase byte.**  In every
    reachable state in which no participant of the current phase has invoked its arrival yet
    (`count = e0`: the whole expected count is still outstanding) — in particular right after a
    phase store, with the new (possibly smaller, after `arrive_and_drop`) expected count, and
    after any number of phases (wrap-around of the byte included) — all tickets of all rounds that
    are in range for the expected count equal the phase byte, so the tree is in the same condition
    as a freshly constructed one. -/
theorem C09B_reusable (s : St) (hr : Reachable s) (hfresh : s.count = s.e0) :
    ∀ r c, c < nodes s.e0 r → s.tk r c = s.phase := by
  obtain ⟨_, hb⟩ := hr.inv
  have hW : ∀ r, Wsum s.e0 s.phase s.tk r = 0 ∧ Fsum s.e0 s.phase s.tk r = 0 := by
    have hF : ∀ r, Wsum s.e0 s.phase s.tk r = 0 → Fsum s.e0 s.phase s.tk r = 0 := by
      intro r h0
      unfold Fsum; apply sumTo_eq_zero; intro c hc
      have := zero_of_sumTo_zero (by unfold Wsum at h0; exact h0) c hc
      have := (wt_zero_imp (cap_pos s.e0 r c) this).1
      simp [isF, this]
    intro r
    induction r with
    | zero => have := hb.c0; have h0 : Wsum s.e0 s.phase s.tk 0 = 0 := by omega
              exact ⟨h0, hF 0 h0⟩
    | succ k ih =>
      have := hb.cr k
      have h0 : Wsum s.e0 s.phase s.tk (k + 1) = 0 := by omega
      exact ⟨h0, hF (k + 1) h0⟩
  intro r c hc
  have h0 := (hW r).1
  have := zero_of_sumTo_zero (by unfold Wsum at h0; exact h0) c hc
  obtain ⟨n1, n2⟩ := wt_zero_imp (cap_pos s.e0 r c) this
  rcases hb.tix r c hc with h | h | h
  · exact h
  · exact absurd h.1 n2
  · exact absurd h n1

/-- A phase store starts the next phase with the whole (adjusted) expected count outstanding:
    together with `C09B_reusable` the barrier is reusable after every phase. -/
theorem C09B_publish_fresh (s s' : St) (t np ne : Nat) (h : step s (.publish t np ne) = some s') :
    s'.count = s'.e0 ∧ s'.e0 = s.expected ∧ s'.expected = s.expected ∧ s'.ph = s.ph + 1 ∧
    s'.phase = fullB (s.tok t) := by
  simp only [step] at h
  split at h
  · rename_i hg
    split at h
    · simp only [Option.some.injEq] at h; subst h; simp [hg.2.1]
    · simp at h
  · simp at h

/-! ## `arrive_and_drop` -/

/-- **The expected count shrinks by the number of drops of the phase, at the phase end.**  The
    completion step of a phase sets `expected` to the phase's expected count minus the number of
    `arrive_and_drop` calls of that phase (`drops` counts the `fetch_sub`s since the last phase
    store); it is the only event that changes `expected`. -/
theorem C09B_drop (s s' : St) (hr : Reachable s) (t : Nat) (h : step s (.compl t) = some s') :
    s'.expected = s.e0 - s.drops ∧ s.expected = s.e0 := by
  obtain ⟨_, hb⟩ := hr.inv
  simp only [step] at h
  split at h
  · split at h
    · rename_i u r hpc
      simp only [Option.some.injEq] at h; subst h
      obtain ⟨h1, h2, _⟩ := hb.wonF t (by simp [hpc, isWon])
      simp [h1, h2]
    · simp at h
  · simp at h

/-- **The drops of a phase never exceed its expected count**: the signed update
    `expected += expected_adjustment` of the code never goes below zero, so the natural-number
    subtraction in `C09B_drop` is exact, and the next phase expects exactly `e0 − drops`
    participants. -/
theorem C09B_drops_bounded (s : St) (hr : Reachable s) : s.drops + s.count ≤ s.e0 := by
  obtain ⟨n, N, log, hl⟩ := hr
  have := (invC_of_accepted hl).dropB
  omega

/-! ## Progress of the search loop -/

/-- **A searching arriver always has a free slot in its round.**  Whenever a thread is in the
    ticket search of round `r` (at `bar.try` / `bar.try2`), some node of that round still accepts
    an arrival: its ticket is either untouched (a CAS `old → half`, or `old → full` on the odd
    last node, succeeds there) or half-taken on a two-slot node (the CAS `half → full` succeeds).
    So the `while (true) … ++current` loop cannot spin forever on its own: the round never holds
    more arrivals than it has capacity. -/
theorem C09B_slot_available (s : St) (hr : Reachable s) (t : Nat) (ht : t < s.n) (r : Nat)
    (hin : inR r (s.pc t) = 1) (hm : 1 < mr s.e0 r) :
    ∃ c, c < nodes s.e0 r ∧ (s.tk r c = s.phase ∨ (s.tk r c = halfB s.phase ∧ cap s.e0 r c = 2)) := by
  obtain ⟨_, hb⟩ := hr.inv
  have hX := X_bound hb r
  have hA := le_sumTo (f := fun u => inR r (s.pc u)) ht
  simp only [hin] at hA
  have hcap := sumTo_cap hm
  have hlt : sumTo (nodes s.e0 r) (fun c => wt s.phase (cap s.e0 r c) (s.tk r c)) <
      sumTo (nodes s.e0 r) (cap s.e0 r) := by
    unfold Wsum Asum at hX; omega
  obtain ⟨c, hc, hw⟩ := exists_lt_of_sumTo_lt hlt
  refine ⟨c, hc, ?_⟩
  rcases hb.tix r c hc with h | h | h
  · exact Or.inl h
  · exact Or.inr h
  · rw [h] at hw; simp [wt] at hw

/-- A state is *quiescent* when the only events the model accepts are a thread starting a new
    operation, ending its program, or a poll of `wait` that finds the phase unchanged. -/
def Quiescent (s : St) : Prop :=
  ∀ e s', step s e = some s' →
    (∃ t o, e = .inv t o) ∨ (∃ t, e = .done t) ∨ (∃ t tok seen, e = .poll t tok seen ∧ s'.pc t = .polling)

/-- **Progress: no thread is ever stuck inside an arriving operation.**  In every reachable
    quiescent state every thread is between operations, finished, or polling in `wait` for a phase
    whose byte still equals its token (the phase is not yet complete — or the token is a multiple
    of 128 phases old, which the precondition of `wait` excludes).  In particular every thread
    inside `arrive` / `arrive_and_drop` / the completion step always has an enabled step
    (together with `C09B_slot_available`: its ticket search always has a free slot), and a waiter
    whose phase byte has moved is released by its next poll. -/
theorem C09B_progress (s : St) (hr : Reachable s) (hq : Quiescent s) :
    ∀ t, t < s.n → s.pc t = .idle ∨ s.pc t = .fin ∨ (s.pc t = .polling ∧ s.phase = s.tok t) := by
  obtain ⟨_, hb⟩ := hr.inv
  intro t ht
  have en : ∀ e, step s e ≠ none → (∀ t o, e ≠ .inv t o) → (∀ t, e ≠ .done t) →
      (∀ t a b, e ≠ .poll t a b) → False := by
    intro e hne h1 h2 h3
    cases hs : step s e with
    | none => exact hne hs
    | some s' =>
    rcases hq e s' hs with ⟨t, o, h⟩ | ⟨t, h⟩ | ⟨t, a, b, h, _⟩
    · exact h1 t o h
    · exact h2 t h
    · exact h3 t a b h
  cases hp : s.pc t
  case idle => exact Or.inl rfl
  case fin => exact Or.inr (Or.inl rfl)
  case polling =>
    refine Or.inr (Or.inr ⟨rfl, ?_⟩)
    have hs : step s (.poll t (s.tok t) s.phase) =
        some { s with pc := upd s.pc t (if s.phase = s.tok t then .polling else .retn) } := by
      simp [step, ht, hp]
    rcases hq _ _ hs with ⟨_, _, h⟩ | ⟨_, h⟩ | ⟨t', a, b, h, hpc⟩
    · simp at h
    · simp at h
    · simp only [Ev.poll.injEq] at h
      obtain ⟨rfl, _, _⟩ := h
      simp only [upd_same] at hpc
      by_cases he : s.phase = s.tok t
      · exact he
      · simp [he] at hpc
  case want u =>
    exact (en (.load t s.phase s.expected) (by simp [step, ht, hp]) (by simp) (by simp) (by simp)).elim
  case wantDrop =>
    exact (en (.adj t) (by simp [step, ht, hp]) (by simp) (by simp) (by simp)).elim
  case arr u =>
    have hu : 1 ≤ u := by have := hb.shape t; rw [hp] at this; exact this
    have hrem : 1 ≤ rem (s.pc t) := by rw [hp]; exact hu
    have hwn := no_win_of_rem hb t ht hrem
    have hexp := (hb.noWin hwn).1
    have hc0 := hb.c0
    have := le_sumTo (f := fun u => rem (s.pc u)) ht
    have he : 1 ≤ s.expected := by unfold Remsum at hc0; omega
    exact (en (.start t 0) (by simp [step, ht, hp, hu]; omega) (by simp) (by simp) (by simp)).elim
  case won u r =>
    exact (en (.compl t) (by simp [step, ht, hp]) (by simp) (by simp) (by simp)).elim
  case pub u r =>
    exact (en (.publish t (fullB (s.tok t)) s.expected) (by simp [step, ht, hp]) (by simp) (by simp) (by simp)).elim
  case retn =>
    exact (en (.ret t) (by simp [step, ht, hp]) (by simp) (by simp) (by simp)).elim
  case try2 u cur r m =>
    by_cases hv : s.tk r cur = halfB (s.tok t)
    · exact (en (.cas2 t cur r .up) (by simp [step, ht, hp, hv]) (by simp) (by simp) (by simp)).elim
    · exact (en (.cas2 t cur r (.miss (s.tk r cur))) (by simp [step, ht, hp, hv]) (by simp) (by simp) (by simp)).elim
  case «try» u cur r m =>
    by_cases hm : m ≤ 1
    · exact (en (.last t (s.tok t) s.expected) (by simp [step, ht, hp, hm]) (by simp) (by simp) (by simp)).elim
    · have hm' : 1 < m := by omega
      generalize hc : (if cur = (m + 1) / 2 then 0 else cur) = c
      by_cases hl : c = (m + 1) / 2 - 1 ∧ m % 2 = 1
      · by_cases hv : s.tk r c = s.tok t
        · exact (en (.cas t c r .up) (by have := hl.1; subst this; simp [step, ht, hp, hm', hc, hl, hv]) (by simp) (by simp) (by simp)).elim
        · exact (en (.cas t c r (.miss (s.tk r c))) (by have := hl.1; subst this; simp [step, ht, hp, hm', hc, hl, hv]) (by simp) (by simp) (by simp)).elim
      · by_cases hv : s.tk r c = s.tok t
        · exact (en (.cas t c r .half) (by simp [step, ht, hp, hm', hc, hl, hv]) (by simp) (by simp) (by simp)).elim
        · by_cases hv2 : s.tk r c = halfB (s.tok t)
          · exact (en (.cas t c r .seen) (by simp [step, ht, hp, hm', hc, hl, hv, hv2, halfB_ne]) (by simp) (by simp) (by simp)).elim
          · exact (en (.cas t c r (.miss (s.tk r c))) (by simp [step, ht, hp, hm', hc, hl, hv, hv2, halfB_ne]) (by simp) (by simp) (by simp)).elim
/-! ## Non-vacuity: concrete accepted logs -/

/-- one participant, two phases (arrive_and_wait, then arrive + wait) -/
example : (runLog step (init 1 1)
    [.inv 0 .aw, .load 0 0 1, .start 0 0, .last 0 0 1, .compl 0, .publish 0 2 1, .poll 0 0 2, .ret 0,
     .inv 0 (.arrive 1), .load 0 2 1, .start 0 0, .last 0 2 1, .compl 0, .publish 0 4 1, .ret 0]).isSome = true := by
  decide

/-- three participants on two threads (thread 1 stands for two), one of them drops: a CAS that
    observes a half-taken ticket, the odd last node, a second round, the last arriver, completion,
    publication with the expected count reduced to 2, and the release of a waiter -/
def exampleLog : List Ev :=
  [.inv 0 .aw, .load 0 0 3, .start 0 0, .cas 0 0 0 .half,
   .inv 1 .drop, .adj 1, .load 1 0 3, .start 1 0, .cas 1 0 0 .seen, .poll 0 0 0, .cas2 1 0 0 .up,
   .cas 1 0 1 .half, .ret 1,
   .inv 1 (.arrive 1), .load 1 0 3, .start 1 1, .cas 1 1 0 .up, .cas 1 0 1 .seen, .cas2 1 0 1 .up,
   .last 1 0 3, .compl 1, .publish 1 2 2, .ret 1, .poll 0 0 2, .ret 0]

example : (runLog step (init 2 3) exampleLog).isSome = true := by decide

/-- a state with a last arriver exists (`C09B_last_only_after_all` is not vacuous) -/
example : ∃ s, runLog step (init 2 3) (exampleLog.take 20) = some s ∧ isWin (s.pc 1) = true := by
  refine ⟨_, rfl, ?_⟩
  decide

/-- the events of phase `k` of a one-participant barrier -/
def soloPhase (k : Nat) : List Ev :=
  let p := (2 * k) % 256
  [.inv 0 (.arrive 1), .load 0 p 1, .start 0 0, .last 0 p 1, .compl 0, .publish 0 ((p + 2) % 256) 1, .ret 0]

def soloLog : Nat → List Ev
  | 0 => []
  | k + 1 => soloLog k ++ soloPhase k

/-- 130 phases are accepted and the phase byte has wrapped around (130 · 2 mod 256 = 4): the
    reachable states of the theorems above include states beyond the `uint8` wrap -/
example : ((runLog step (init 1 1) (soloLog 130)).map (fun s => (s.ph, s.phase))) = some (130, 4) := by
  decide +kernel

/-- why `C09B_waiter_released` needs `ph − tokIdx < 128`: a thread that waits with a token that is
    exactly 128 phases old (here: the never-used initial token 0 after 128 phases) sees the same
    byte and keeps polling — the precondition of `wait` (token of the current or the immediately
    preceding phase) excludes this -/
example : ((runLog step (init 2 1) (soloLog 128 ++ [.inv 1 .wait, .poll 1 0 0])).map
    (fun s => (s.ph, s.phase, decide (s.pc 1 = .polling)))) = some (128, 0, true) := by
  decide +kernel

/-! # Follow-up C09t: the timed busy-wait path of `wait`, and the completion step as the code does it

The theorems below are about the *fine* model `PikaVerif.BarrierT` (`Model/BarrierT.lean`):
`wait` / `arrive_and_wait` with a non-zero `busy_wait_timeout` (busy-wait phase
`yield_while_timeout`, then the blocking phase `yield_while`; the time-out may fire at any
iteration), and the completion step as three separate atomic steps (completion function;
`expected += expected_adjustment.load()`; `expected_adjustment.store(0)`) with the `fetch_sub` of
`arrive_and_drop` *not* excluded in between by the model.  `FReachable s` = `s` is the state after
some accepted log of the fine model: every `n`, `N`, program, interleaving, every choice of
time-outs. -/

open PikaVerif.BarrierT (FInv refines)

def FReachable (s : BarrierT.St) : Prop :=
  ∃ n N log, runLog BarrierT.step (BarrierT.init n N) log = some s

theorem FReachable.finv {s : BarrierT.St} (h : FReachable s) : FInv s := by
  obtain ⟨n, N, log, hl⟩ := h
  exact (refines hl).2

/-- **Refinement.**  Every log the fine model accepts projects — event by event, `invT ↦ inv`,
    `spinok ↦ poll`, the adjustment load / store and the entry into the blocking phase dropped —
    to a log the coarse model accepts, ending in the abstraction of the fine final state.  Hence
    every theorem of the first part (`C09B_…`, stated for `Reachable`) holds for `abs s` of every
    state of the fine model (`C09T_reachable_abs`), in particular with `wait`s that time out of
    their busy-wait phase and with the load and the store of the adjustment as separate steps. -/
theorem C09T_refines (n N : Nat) (log : List BarrierT.Ev) (s : BarrierT.St)
    (h : runLog BarrierT.step (BarrierT.init n N) log = some s) :
    runLog step (init n N) (BarrierT.projLog log) = some (BarrierT.abs s) :=
  (refines h).1

theorem C09T_reachable_abs (s : BarrierT.St) (hr : FReachable s) : Reachable (BarrierT.abs s) := by
  obtain ⟨n, N, log, hl⟩ := hr
  exact ⟨n, N, BarrierT.projLog log, (refines hl).1⟩

/-! ## Release exactly when due, on both paths of `wait` -/

/-- **Nobody leaves `wait` early, on either path.**  If thread `t` leaves its wait — by a poll of
    the blocking phase (`c (.poll …)`) or by a poll of the busy-wait phase that makes
    `yield_while_timeout` return `true` (`spinok`) — then the phase of its token has been published
    and its completion function has run. -/
theorem C09T_no_early_leave (s s' : BarrierT.St) (hr : FReachable s) (t tok seen : Nat)
    (h : BarrierT.step s (.c (.poll t tok seen)) = some s' ∨ BarrierT.step s (.spinok t tok seen) = some s')
    (hleft : s'.c.pc t = .retn) : s.c.tokIdx t < s.c.ph ∧ s.c.tokIdx t < s.c.compls :=
  C09B_no_early_leave (BarrierT.abs s) (BarrierT.abs s') (C09T_reachable_abs s hr) t tok seen
    (BarrierT.poll_abs hr.finv h) hleft

/-- **A spinning waiter observes the phase flip.**  A waiter in its busy-wait phase whose phase is
    published (fewer than 128 phases ago, the precondition of `wait`) leaves at its next poll:
    `yield_while_timeout` returns `true`. -/
theorem C09T_spinning_waiter_released (s : BarrierT.St) (hr : FReachable s) (t : Nat) (ht : t < s.c.n)
    (hpc : s.c.pc t = .polling) (htm : s.timed t = true) (hb : s.blk t = false)
    (hdone : s.c.tokIdx t < s.c.ph) (hnear : s.c.ph - s.c.tokIdx t < 128) :
    ∃ s', BarrierT.step s (.spinok t (s.c.tok t) s.c.phase) = some s' ∧ s'.c.pc t = .retn := by
  have hb' := hr.finv.b
  have h1 := (hb'.tokIdxOk t).1
  have h2 := hb'.phaseEq
  simp only [BarrierT.abs_tok, BarrierT.abs_tokIdx, BarrierT.abs_phase, BarrierT.abs_ph] at h1 h2
  have hne : s.c.phase ≠ s.c.tok t := by rw [h1, h2]; omega
  refine ⟨{ s with c := { s.c with pc := upd s.c.pc t .retn } }, ?_, by simp⟩
  simp [BarrierT.step, step, ht, hpc, htm, hb, hne]

/-- **A waiter in the blocking phase is released** by its next poll after the flip (the task
    re-polls after every `yield_k`; there is no notification to lose). -/
theorem C09T_blocked_waiter_released (s : BarrierT.St) (hr : FReachable s) (t : Nat) (ht : t < s.c.n)
    (hpc : s.c.pc t = .polling) (hb : s.blk t = true)
    (hdone : s.c.tokIdx t < s.c.ph) (hnear : s.c.ph - s.c.tokIdx t < 128) :
    ∃ s', BarrierT.step s (.c (.poll t (s.c.tok t) s.c.phase)) = some s' ∧ s'.c.pc t = .retn := by
  have hb' := hr.finv.b
  have h1 := (hb'.tokIdxOk t).1
  have h2 := hb'.phaseEq
  simp only [BarrierT.abs_tok, BarrierT.abs_tokIdx, BarrierT.abs_phase, BarrierT.abs_ph] at h1 h2
  have hne : s.c.phase ≠ s.c.tok t := by rw [h1, h2]; omega
  refine ⟨{ s with c := { s.c with pc := upd s.c.pc t .retn } }, ?_, by simp⟩
  simp [BarrierT.step, step, ht, hpc, hb, hne]

/-- **The flip cannot be missed, whatever happens in between.**  Once the phase of a waiter's token
    is published, every accepted step of *any* thread — further phase stores, the waiter's own
    unsuccessful or late polls, its time-out (`block`), yields — leaves it published, and leaves
    the waiter's token unchanged, as long as the waiter is still in `wait`. -/
theorem C09T_flip_never_missed (s s' : BarrierT.St) (e : BarrierT.Ev) (h : BarrierT.step s e = some s')
    (t : Nat) (hpc : s.c.pc t = .polling) (hdone : s.c.tokIdx t < s.c.ph) :
    s'.c.tokIdx t < s'.c.ph ∧ s'.c.tok t = s.c.tok t ∧ s'.c.tokIdx t = s.c.tokIdx t := by
  obtain ⟨h1, h2, h3⟩ := BarrierT.fine_flip_stable h t hpc
  exact ⟨by omega, h2, h1⟩

/-- **A waiter that times out of the busy-wait phase and then blocks does not miss a flip that
    happened in between.**  In a state where the phase of a spinning waiter's token is already
    published (e.g. the phase store fell between its last unsuccessful poll and the time check that
    fires), the time-out is accepted, and the first poll of the blocking phase ends the wait. -/
theorem C09T_timeout_cannot_miss_flip (s : BarrierT.St) (hr : FReachable s) (t : Nat) (ht : t < s.c.n)
    (hpc : s.c.pc t = .polling) (htm : s.timed t = true) (hb : s.blk t = false)
    (hdone : s.c.tokIdx t < s.c.ph) (hnear : s.c.ph - s.c.tokIdx t < 128) :
    ∃ s1 s2, BarrierT.step s (.block t true) = some s1 ∧
      BarrierT.step s1 (.c (.poll t (s.c.tok t) s.c.phase)) = some s2 ∧ s2.c.pc t = .retn := by
  have hb' := hr.finv.b
  have h1 := (hb'.tokIdxOk t).1
  have h2 := hb'.phaseEq
  simp only [BarrierT.abs_tok, BarrierT.abs_tokIdx, BarrierT.abs_phase, BarrierT.abs_ph] at h1 h2
  have hne : s.c.phase ≠ s.c.tok t := by rw [h1, h2]; omega
  refine ⟨{ s with blk := upd s.blk t true },
    { s with blk := upd s.blk t true, c := { s.c with pc := upd s.c.pc t .retn } }, ?_, ?_, by simp⟩
  · simp [BarrierT.step, ht, hpc, htm, hb]
  · simp [BarrierT.step, step, ht, hpc, hne]

/-! ## The completion step in three steps -/

/-- **Nothing can interleave with the adjustment.**  While a thread is between its completion call
    and the store `expected_adjustment = 0` (sub-states `cdone`, `adjd`), the expected count of the
    phase is used up, no other thread is inside an arriving operation (so nobody reads the plain
    member `expected` that is being written), and in particular no thread is at the `fetch_sub` of
    `arrive_and_drop`: the event `adj` is not enabled for any thread.  This is the fact the first
    model assumed ("one atomic block by the client preconditions"); here it is a theorem about the
    model in which load and store are separate steps. -/
theorem C09T_adjust_window_exclusive (s : BarrierT.St) (hr : FReachable s) (t : Nat)
    (hx : s.wx t ≠ .none) :
    t < s.c.n ∧ s.c.count = 0 ∧ (∀ t', t' < s.c.n → t' ≠ t → arriving (s.c.pc t') = false) ∧
    (∀ t', BarrierT.step s (.c (.adj t')) = none) := by
  have hi := hr.finv
  have hpub := hi.j.wxPub t hx
  have hwin := BarrierT.win_of_wx hi hx
  have htn : t < s.c.n := (hi.b.winConv t (by simpa using hwin)).2.1
  obtain ⟨hc, _, hoth, _⟩ := C09B_last_only_after_all (BarrierT.abs s) (C09T_reachable_abs s hr) t htn
    (by simp [isWin, hpub])
  refine ⟨htn, hc, hoth, ?_⟩
  intro t'
  simp only [BarrierT.step, step]
  split
  · rename_i hg
    exfalso
    by_cases he : t' = t
    · subst he; rw [hg.2] at hpub; simp [isPub] at hpub
    · have := hoth t' hg.1 he
      simp only [BarrierT.abs_pc] at this
      rw [hg.2] at this; simp [arriving] at this
  · rfl

/-- **No drop is ever lost**: the ghost counting `fetch_sub`s overwritten by the store of `0`
    stays zero in every reachable state. -/
theorem C09T_no_lost_drop (s : BarrierT.St) (hr : FReachable s) : s.lost = 0 := hr.finv.j.lost0

/-- **The load sees all drops of the phase and nothing else.**  The adjustment load of the
    completion step reads exactly the number of `arrive_and_drop` calls of the phase, `expected`
    still is the phase's expected count, and the new value is their difference. -/
theorem C09T_adjust_exact (s s' : BarrierT.St) (hr : FReachable s) (t a e : Nat)
    (h : BarrierT.step s (.adjLoad t a e) = some s') :
    a = s.c.drops ∧ s.c.expected = s.c.e0 ∧ e = s.c.e0 - s.c.drops := by
  simp only [BarrierT.step] at h
  split at h
  · rename_i hg
    obtain ⟨_, hx, ha, he⟩ := hg
    obtain ⟨h1, h2⟩ := hr.finv.j.cdoneEq t hx
    exact ⟨by omega, h1, by rw [he, ha, h1, h2]⟩
  · simp at h

/-- **The store overwrites exactly what was loaded**: at `expected_adjustment.store(0)` the
    variable still holds the loaded value (the drops of the phase), `expected` is the phase's count
    minus its drops, and afterwards the adjustment is zero for the next phase. -/
theorem C09T_drop (s s' : BarrierT.St) (hr : FReachable s) (t : Nat)
    (h : BarrierT.step s (.adjStore t) = some s') :
    s.c.adj = s.c.drops ∧ s'.c.expected = s.c.e0 - s.c.drops ∧ s'.c.adj = 0 ∧ s'.lost = 0 := by
  have hi' := BarrierT.finv_step s s' _ hr.finv h
  simp only [BarrierT.step] at h
  split at h
  · split at h
    · rename_i a hx
      simp only [Option.some.injEq] at h
      obtain ⟨h1, h2⟩ := hr.finv.j.adjdVal t a hx
      have h3 := hr.finv.j.adjdEq t a hx
      have h4 := hi'.j.lost0
      subst h
      exact ⟨by omega, h2, rfl, h4⟩
    · simp at h
  · simp at h

/-! ## Progress of the fine model -/

/-- The fine model is *quiescent* when the only events it accepts are a thread starting a new
    operation, ending its program, or a poll of `wait` that finds the phase unchanged.  (The
    time-out of a busy-wait phase is an internal step: real time passes.) -/
def FQuiescent (s : BarrierT.St) : Prop :=
  ∀ e s', BarrierT.step s e = some s' →
    (∃ t o, e = .c (.inv t o)) ∨ (∃ t o, e = .invT t o) ∨ (∃ t, e = .c (.done t)) ∨
    (∃ t tok seen, e = .c (.poll t tok seen) ∧ s'.c.pc t = .polling)

/-- **Progress on both paths.**  In every reachable quiescent state of the fine model every thread
    is between operations, finished, or polling in the *blocking* phase of `wait` for a phase whose
    byte still equals its token.  In particular no thread is stuck inside `arrive`, inside the
    completion step (between any two of its three steps), or in a busy-wait phase. -/
theorem C09T_progress (s : BarrierT.St) (hr : FReachable s) (hq : FQuiescent s) :
    ∀ t, t < s.c.n → s.c.pc t = .idle ∨ s.c.pc t = .fin ∨
      (s.c.pc t = .polling ∧ s.blk t = true ∧ s.c.phase = s.c.tok t) := by
  have hi := hr.finv
  intro t ht
  have en : ∀ e, BarrierT.step s e ≠ none → (∀ t o, e ≠ .c (.inv t o)) → (∀ t o, e ≠ .invT t o) →
      (∀ t, e ≠ .c (.done t)) → (∀ t a b, e ≠ .c (.poll t a b)) → False := by
    intro e hne h1 h2 h3 h4
    cases hs : BarrierT.step s e with
    | none => exact hne hs
    | some s' =>
    rcases hq e s' hs with ⟨t, o, h⟩ | ⟨t, o, h⟩ | ⟨t, h⟩ | ⟨t, a, b, h, _⟩
    · exact h1 t o h
    · exact h2 t o h
    · exact h3 t h
    · exact h4 t a b h
  cases hp : s.c.pc t
  case idle => exact Or.inl rfl
  case fin => exact Or.inr (Or.inl rfl)
  case polling =>
    refine Or.inr (Or.inr ⟨rfl, ?_⟩)
    cases hbk : s.blk t
    · exact (en (.block t (s.timed t)) (by simp [BarrierT.step, ht, hp, hbk]) (by simp) (by simp)
        (by simp) (by simp)).elim
    · refine ⟨rfl, ?_⟩
      have hs : BarrierT.step s (.c (.poll t (s.c.tok t) s.c.phase)) =
          some { s with c := { s.c with pc := upd s.c.pc t (if s.c.phase = s.c.tok t then .polling else .retn) } } := by
        simp [BarrierT.step, step, ht, hp, hbk]
      rcases hq _ _ hs with ⟨_, _, h⟩ | ⟨_, _, h⟩ | ⟨_, h⟩ | ⟨t', a, b, h, hpc⟩
      · simp at h
      · simp at h
      · simp at h
      · simp only [BarrierT.Ev.c.injEq, Ev.poll.injEq] at h
        obtain ⟨rfl, _, _⟩ := h
        simp only [upd_same] at hpc
        by_cases he : s.c.phase = s.c.tok t
        · exact he
        · simp [he] at hpc
  case want u =>
    exact (en (.c (.load t s.c.phase s.c.expected)) (by simp [BarrierT.step, step, ht, hp]) (by simp) (by simp) (by simp) (by simp)).elim
  case wantDrop =>
    exact (en (.c (.adj t)) (by simp [BarrierT.step, step, ht, hp]) (by simp) (by simp) (by simp) (by simp)).elim
  case arr u =>
    have hb := hi.b
    have hu : 1 ≤ u := by have := hb.shape t; rw [BarrierT.abs_pc, hp] at this; exact this
    have hrem : 1 ≤ rem ((BarrierT.abs s).pc t) := by rw [BarrierT.abs_pc, hp]; exact hu
    have hwn := no_win_of_rem hb t ht hrem
    have habs : BarrierT.abs s = s.c := BarrierT.abs_eq_of_none (by simpa using hwn)
    rw [habs] at hb
    have hexp := (hb.noWin (by simpa using hwn)).1
    have hc0 := hb.c0
    have hle := le_sumTo (f := fun u => rem (s.c.pc u)) ht
    have hrt : rem (s.c.pc t) = u := by rw [hp]; rfl
    have he : 1 ≤ s.c.expected := by unfold Remsum at hc0; simp only [hrt] at hle; omega
    exact (en (.c (.start t 0)) (by simp [BarrierT.step, step, ht, hp, hu]; omega) (by simp) (by simp) (by simp) (by simp)).elim
  case won u r =>
    exact (en (.compl t) (by simp [BarrierT.step, ht, hp]) (by simp) (by simp) (by simp) (by simp)).elim
  case pub u r =>
    cases hx : s.wx t
    case none =>
      exact (en (.c (.publish t (fullB (s.c.tok t)) s.c.expected)) (by simp [BarrierT.step, step, ht, hp, hx]) (by simp) (by simp) (by simp) (by simp)).elim
    case cdone =>
      exact (en (.adjLoad t s.c.adj (s.c.expected - s.c.adj)) (by simp [BarrierT.step, ht, hx]) (by simp) (by simp) (by simp) (by simp)).elim
    case adjd a =>
      exact (en (.adjStore t) (by simp [BarrierT.step, ht, hx]) (by simp) (by simp) (by simp) (by simp)).elim
  case retn =>
    exact (en (.c (.ret t)) (by simp [BarrierT.step, step, ht, hp]) (by simp) (by simp) (by simp) (by simp)).elim
  case try2 u cur r m =>
    by_cases hv : s.c.tk r cur = halfB (s.c.tok t)
    · exact (en (.c (.cas2 t cur r .up)) (by simp [BarrierT.step, step, ht, hp, hv]) (by simp) (by simp) (by simp) (by simp)).elim
    · exact (en (.c (.cas2 t cur r (.miss (s.c.tk r cur)))) (by simp [BarrierT.step, step, ht, hp, hv]) (by simp) (by simp) (by simp) (by simp)).elim
  case «try» u cur r m =>
    by_cases hm : m ≤ 1
    · exact (en (.c (.last t (s.c.tok t) s.c.expected)) (by simp [BarrierT.step, step, ht, hp, hm]) (by simp) (by simp) (by simp) (by simp)).elim
    · have hm' : 1 < m := by omega
      generalize hc : (if cur = (m + 1) / 2 then 0 else cur) = c
      by_cases hl : c = (m + 1) / 2 - 1 ∧ m % 2 = 1
      · by_cases hv : s.c.tk r c = s.c.tok t
        · exact (en (.c (.cas t c r .up)) (by have := hl.1; subst this; simp [BarrierT.step, step, ht, hp, hm', hc, hl, hv]) (by simp) (by simp) (by simp) (by simp)).elim
        · exact (en (.c (.cas t c r (.miss (s.c.tk r c)))) (by have := hl.1; subst this; simp [BarrierT.step, step, ht, hp, hm', hc, hl, hv]) (by simp) (by simp) (by simp) (by simp)).elim
      · by_cases hv : s.c.tk r c = s.c.tok t
        · exact (en (.c (.cas t c r .half)) (by simp [BarrierT.step, step, ht, hp, hm', hc, hl, hv]) (by simp) (by simp) (by simp) (by simp)).elim
        · by_cases hv2 : s.c.tk r c = halfB (s.c.tok t)
          · exact (en (.c (.cas t c r .seen)) (by simp [BarrierT.step, step, ht, hp, hm', hc, hl, hv, hv2, halfB_ne]) (by simp) (by simp) (by simp) (by simp)).elim
          · exact (en (.c (.cas t c r (.miss (s.c.tk r c)))) (by simp [BarrierT.step, step, ht, hp, hm', hc, hl, hv, hv2, halfB_ne]) (by simp) (by simp) (by simp) (by simp)).elim

/-! ## Non-vacuity of the follow-up theorems -/

/-- two participants; thread 0 waits with a time-out that fires after one unsuccessful poll, the
    phase store of thread 1 (completion step in three steps) falls between that poll and the
    time-out, the first poll of the blocking phase releases thread 0; thread 1 itself waits in a
    busy-wait phase that sees the flip -/
def exampleLogT : List BarrierT.Ev :=
  [.invT 0 .aw, .c (.load 0 0 2), .c (.start 0 0), .c (.cas 0 0 0 .half), .c (.poll 0 0 0),
   .invT 1 .aw, .c (.load 1 0 2), .c (.start 1 0), .c (.cas 1 0 0 .seen), .c (.cas2 1 0 0 .up),
   .c (.last 1 0 2), .compl 1, .adjLoad 1 0 2, .adjStore 1, .c (.publish 1 2 2),
   .block 0 true, .c (.poll 0 0 2), .c (.ret 0), .spinok 1 0 2, .c (.ret 1)]

example : (runLog BarrierT.step (BarrierT.init 2 2) exampleLogT).isSome = true := by decide

/-- a state inside the adjustment window exists (`C09T_adjust_window_exclusive` is not vacuous) -/
example : ∃ s, runLog BarrierT.step (BarrierT.init 2 2) (exampleLogT.take 13) = some s ∧ s.wx 1 = .adjd 0 := by
  refine ⟨_, rfl, ?_⟩
  decide

/-- an untimed wait must enter the blocking phase before its first poll, and a poll of the
    busy-wait phase that sees the flip is `spinok`, not `poll`: both logs are rejected -/
example : (runLog BarrierT.step (BarrierT.init 1 1) [.c (.inv 0 .wait), .c (.poll 0 0 0)]).isSome = false := by decide
example : (runLog BarrierT.step (BarrierT.init 2 2) (exampleLogT.take 15 ++ [.c (.poll 0 0 2)])).isSome = false := by
  decide

/-- The model does **not** build the atomicity of the adjustment in: put a thread at the
    `fetch_sub` of `arrive_and_drop` while another one is between the load and the store (no
    well-formed client gets there — the standard makes calling `arrive_and_drop` during the
    completion step undefined — and `C09T_adjust_window_exclusive` proves it unreachable), and the
    two-step code loses the drop: the `fetch_sub` is accepted and the store overwrites it. -/
example : ((runLog BarrierT.step (BarrierT.init 2 2) (exampleLogT.take 13)).bind fun s =>
      (runLog BarrierT.step { s with c := { s.c with pc := upd s.c.pc 0 .wantDrop } }
        [.c (.adj 0), .adjStore 1]).map fun s' => (s'.lost, s'.c.adj, s'.c.expected)) = some (1, 0, 2) := by
  decide

end PikaVerif.C09Barrier
