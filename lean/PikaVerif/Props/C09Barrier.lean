import PikaVerif.Model.Barrier
/-!
# C09 (barrier part) — `pika::barrier` releases exactly when due

Property theorems about the model `PikaVerif.Barrier`.
-/
namespace PikaVerif.C09Barrier
open PikaVerif PikaVerif.Barrier

/-- `s` is the state after some accepted event log, for some number of threads and some
    expected count. -/
def Reachable (s : St) : Prop := ∃ n N log, runLog step (init n N) log = some s

/-- one participant, two phases -/
example : (runLog step (init 1 1)
    [.inv 0 .aw, .load 0 0 1, .start 0 0, .last 0 0 1, .compl 0, .publish 0 2 1, .poll 0 0 2, .ret 0,
     .inv 0 (.arrive 1), .load 0 2 1, .start 0 0, .last 0 2 1, .compl 0, .publish 0 4 1, .ret 0]).isSome = true := by
  decide

theorem mr_zero (N : Nat) : mr N 0 = N := rfl

end PikaVerif.C09Barrier
