import PikaVerif.Props.C07
import PikaVerif.Lemmas.CVFin
import PikaVerif.Lemmas.CVCov
import PikaVerif.Lemmas.CVSolo
import PikaVerif.Lemmas.CVCnt
import PikaVerif.Lemmas.CVWf
import PikaVerif.Lemmas.CVHold
/-!
# C07t — termination / bounded progress of the condition-variable operations (follow-up of C07)

`Props/C07.lean` states progress as "no stuck state" (`C07_stuck_only_when_blocked`) and "no lost
notification" as a quiescence property (`C07_no_lost_notification`).  This file strengthens both to
**termination** of finite programs and a characterisation of the final states of maximal runs.

**Stutter.**  The model `PikaVerif.CV` has **no stutter**: every accepted event changes the program
counter of its actor or shortens the wait queue.  A failed attempt on the internal spinlock, on
the user lock or on the lock bit of the stop state is not an event of the model (`slAcq`, `ulAcq`,
`stAcq` are accepted only when the lock is free; the `sl.lock` / `ag.yield` / `stop.load` /
`stop.cas` / `stop.casfail` / `stop.reload` lines of a spinning thread are dropped by the driver
before the acceptor), so the bounds below count every accepted event and are, for the real code,
bounds *modulo spinning on one of these three locks*.  Deadline expiry is a schedule event
(`timeout`), accepted once per sleep.

* `CV.mu` is a natural-number measure on model states that strictly decreases with every accepted
  event other than the invocation of a new operation; an invocation of `o` adds exactly
  `CV.opCost n o` (`C07t_measure_decreases`).
* A *program* gives each of the `n` threads a finite list of operations (`CV.PSt`, `CV.pstep`,
  `Lemmas/CVProg.lean`).  Every accepted log of a program has at most `CV.bound n prog` events
  (`C07t_bounded`: 1 per thread + 2 per lock / unlock / set, 33 per notify_one, `29 n + 6` per
  notify_all, 19 / 20 per plain / predicate wait — timed or not —, `29 n + 32` per stop-token wait,
  4 per request_stop), every accepted log extends to a maximal one (`C07t_maximal_exists`).
* In the final state of a maximal run every thread has finished its whole program, except
  (a) waiters parked in an **untimed** wait to which **no notification is owed**: still linked,
  not popped, no wake-up token, and — in log order — since their last `cv.enq` no `notify_all`
  swapped the queue out, no `notify_one` found the queue empty and no notifier popped them
  (every `notify_one` issued since was consumed by another waiter); (b) threads queueing for the
  user lock that a thread keeps which ended its program, or stopped at a refused operation, while
  holding it; (c) threads whose next operation violates its precondition (`wait` / `unlock` /
  `set` without the user lock, `lock` while holding it) — (b) and (c) are errors of the program,
  not of the condition variable (`C07t_final_state`).
* One `notify_all` run alone (`|queue| + 4` events) followed by the woken waiters run alone (at
  most 9 events each) completes all of them (`C07t_notify_all_wakes`).
* Covering (`C07t_covered_all_return`, `C07t_pred_covered`) and the classic lost wake-up as a
  checked witness (`lostProg`, `lostRun`).
-/
namespace PikaVerif.C07t
open PikaVerif PikaVerif.CV PikaVerif.C07

/-- **The measure decreases.**  In every reachable state, every accepted event that is not the
    invocation of a new operation strictly decreases `mu`; an invocation of `o` adds exactly the
    potential of `o`. -/
theorem C07t_measure_decreases (n : Nat) (f : Bool) (log : List Ev) (s s' : St) (e : Ev)
    (h : runLog step (init n f) log = some s) (he : step s e = some s') :
    (∀ t o, e = .inv t o → mu s' = mu s + opCost s.n o) ∧
    ((∀ t o, e ≠ .inv t o) → mu s' < mu s) := by
  have hA := inv_of_accepted h
  have hB := (inv2_of_accepted h).2
  refine ⟨?_, fun hne => mu_step s s' e hA hB hne he⟩
  intro t o heq; subst heq; exact mu_inv s s' t o he

/-- **Bounded runs.**  Any accepted log of a finite program (`n` threads, `prog t` the operations
    of thread `t`) has at most `bound n prog` events — whatever the interleaving, including all
    deadline expiries and spurious wake-ups the model allows. -/
theorem C07t_bounded (n : Nat) (f : Bool) (prog : Nat → List Op) (log : List Ev) (p : PSt)
    (h : runLog pstep (pinit n f prog) log = some p) : log.length ≤ bound n prog := by
  have := (runLog_phi log _ p (good_init n f) h).1
  rw [phi_pinit] at this
  omega

/-- An accepted log of a program is an accepted log of the model (so every theorem of
    `Props/C07.lean` applies to the states of program runs). -/
theorem C07t_program_refines (n : Nat) (f : Bool) (prog : Nat → List Op) (log : List Ev) (p : PSt)
    (h : runLog pstep (pinit n f prog) log = some p) : runLog step (init n f) log = some p.s :=
  runLog_pstep_step log _ p h

/-- **Maximal runs exist and are finite.**  Every accepted log of a program extends to an accepted
    log after which no event at all is accepted; its length is at most `bound n prog`. -/
theorem C07t_maximal_exists (n : Nat) (f : Bool) (prog : Nat → List Op) (log : List Ev) (p : PSt)
    (h : runLog pstep (pinit n f prog) log = some p) :
    ∃ ext p', runLog pstep (pinit n f prog) (log ++ ext) = some p' ∧ PStuck p' ∧
      (log ++ ext).length ≤ bound n prog := by
  have hr := (runLog_phi log _ p (good_init n f) h).2
  obtain ⟨ext, p', hrun, hst⟩ := exists_maximal_from (phi p) p hr (Nat.le_refl _)
  have hfull : runLog pstep (pinit n f prog) (log ++ ext) = some p' := by
    rw [runLog_append, h]; simpa using hrun
  exact ⟨ext, p', hfull, hst, C07t_bounded n f prog _ p' hfull⟩

/-- **A linked waiter that was covered since its enqueue is being popped.**  `cov` (ghost state
    folded over the log, `Lemmas/CVCov.lean`) is set for every thread by `cv.all` (a `notify_all`
    or stop callback swaps the queue out) and by `cv.none` (a `notify_one` finds the queue empty),
    for the target by `cv.pop` / `cv.popall`, and reset for `t` by `cv.enq t`.  If `t` is still
    linked and covered, the internal lock is held by a thread inside the pop loop of a
    `notify_all` — which cannot release it before it has popped `t`
    (`C07_notify_all_wakes_all`). -/
theorem C07t_linked_covered_is_being_popped (n : Nat) (f : Bool) (log : List Ev) (s : St) (t : Nat)
    (h : runLog step (init n f) log = some s) (hq : t ∈ s.queue)
    (hc : (obsGLog gh0 log).cov t = true) : ∃ r, s.lock = some r ∧ allPc (s.pc r) = true := by
  have hA := inv_of_accepted h
  have hcov := cov_of_runLog log _ s gh0 (inv_init n f) (inv2_init n f) (cov_init n f) h
  have := hcov.gn t ((hA.qIff t).1 hq) hc
  simp only [allHolder] at this
  split at this
  · rename_i r hl; exact ⟨r, hl, this⟩
  · simp at this

/-- Parked in an untimed wait with no notification owed: suspended, no wake-up token, still
    linked, not popped, and not covered by any notification since its last `cv.enq` (log order). -/
def ParkedUnowed (s : St) (log : List Ev) (t : Nat) : Prop :=
  s.pc t = .susp false ∧ s.tok t = 0 ∧ isTimed (s.curOp t) = false ∧ t ∈ s.queue ∧
    s.poppedOp t = false ∧ (obsGLog gh0 log).cov t = false

/-- The next operation of the thread is refused by the model: its precondition is violated
    (`wait` / `unlock` / `set` without owning the user lock, `lock` while owning it). -/
def Refused (p : PSt) (t : Nat) : Prop :=
  p.s.pc t = .idle ∧ ∃ o rest, p.prog t = o :: rest ∧ step p.s (.inv t o) = none

theorem stuck_of_pstuck (p : PSt) (hs : PStuck p) : Stuck p.s := by
  intro e h1 h2
  have := hs e
  cases e <;> simp only [pstep] at this <;>
    first
    | (exact absurd rfl (h1 _ _))
    | (exact absurd rfl (h2 _))
    | (simpa using this)

/-- the internal lock is free at the end of a maximal run -/
theorem lock_free_of_pstuck (p : PSt) (hr : Reachable p.s) (hs : PStuck p) : p.s.lock = none := by
  cases hl : p.s.lock with
  | none => rfl
  | some r =>
    exfalso
    obtain ⟨hh, hrn⟩ := hr.inv.1.lockConv r hl
    rcases C07_stuck_only_when_blocked p.s hr (stuck_of_pstuck p hs) r hrn with h | h | h | h
    · rw [h] at hh; simp [holds] at hh
    · rw [h] at hh; simp [holds] at hh
    · rw [h.1] at hh; simp [holds] at hh
    · rcases h.1 with h | ⟨b, h⟩ <;> rw [h] at hh <;> simp [holds] at hh

/-- **Final states.**  In the final state of a maximal run of a program every thread has finished
    its whole program, or is parked in an untimed wait with no notification owed to it
    (`ParkedUnowed`), or queues for the user lock kept by a thread that is finished or idle
    (`BlockedOnUserLock`; the holder is itself finished or `Refused`), or its next operation is
    refused (`Refused`).  No thread ends inside `notify_one` / `notify_all` / `request_stop`, in a
    timed wait, notified but not resumed, or about to return. -/
theorem C07t_final_state (n : Nat) (f : Bool) (prog : Nat → List Op) (log : List Ev)
    (p : PSt) (h : runLog pstep (pinit n f prog) log = some p) (hs : PStuck p) :
    ∀ t, t < n → (p.s.pc t = .fin ∧ p.prog t = []) ∨ ParkedUnowed p.s log t ∨
      BlockedOnUserLock p.s t ∨ Refused p t := by
  have hlog := runLog_pstep_step log _ p h
  have hreach : Reachable p.s := ⟨n, f, log, hlog⟩
  have hstuck := stuck_of_pstuck p hs
  have hfin : FinOk p := runLog_finOk log _ p (by intro t ht; simp [pinit, init] at ht) h
  have hn : p.s.n = n := by
    have : ∀ (l : List Ev) (s s' : St), runLog step s l = some s' → s'.n = s.n := by
      intro l
      induction l with
      | nil => intro s s' h; simp at h; subst h; rfl
      | cons e es ih =>
        intro s s' h
        simp only [runLog] at h
        cases hs : step s e with
        | none => simp [hs] at h
        | some s1 => simp only [hs] at h; rw [ih s1 s' h, step_n _ _ _ hs]
    exact this log _ _ hlog
  have hl := lock_free_of_pstuck p hreach hs
  intro t ht
  rcases C07_stuck_only_when_blocked p.s hreach hstuck t (by omega) with hi | hf | hb | hb
  · right; right; right
    refine ⟨hi, ?_⟩
    cases hp : p.prog t with
    | nil =>
      exfalso
      have := hs (.done t)
      simp [pstep, hp, step, hi, hn, ht] at this
    | cons o rest =>
      refine ⟨o, rest, rfl, ?_⟩
      have := hs (.inv t o)
      simpa [pstep, hp] using this
  · exact Or.inl ⟨hf, hfin t hf⟩
  · right; left
    obtain ⟨h1, h2, h3⟩ := C07_no_lost_notification p.s hreach t hb.1
    have hop := hreach.inv.2.opOk t
    rw [hb.1] at hop
    refine ⟨hb.1, hb.2, ?_, h2, h1, ?_⟩
    · simp [pcOpOk] at hop; exact hop.2
    · cases hc : (obsGLog gh0 log).cov t with
      | false => rfl
      | true =>
        obtain ⟨r, hr1, _⟩ := C07t_linked_covered_is_being_popped n f log p.s t hlog h2 hc
        rw [hl] at hr1; simp at hr1
  · exact Or.inr (Or.inr (Or.inl hb))

/-- **Covering, in log order.**  If every thread that is parked at the end of a maximal run was
    covered after its last `cv.enq` — a `notify_all` swapped the queue out, a `notify_one` found
    the queue empty, or a notifier popped it — then no thread is parked at all: the hypothesis is
    contradictory for a parked thread, so every wait has returned.  Equivalently: *a waiter
    followed in the log by a `notify_all` is not parked at the end of any maximal run.* -/
theorem C07t_covered_all_return (n : Nat) (f : Bool) (prog : Nat → List Op) (log : List Ev)
    (p : PSt) (h : runLog pstep (pinit n f prog) log = some p) (hs : PStuck p)
    (hcov : ∀ t, t < n → p.s.pc t = .susp false → (obsGLog gh0 log).cov t = true) :
    ∀ t, t < n → (p.s.pc t = .fin ∧ p.prog t = []) ∨ BlockedOnUserLock p.s t ∨ Refused p t := by
  intro t ht
  rcases C07t_final_state n f prog log p h hs t ht with hf | hp | hb | hr
  · exact Or.inl hf
  · have := hcov t ht hp.1
    rw [hp.2.2.2.2.2] at this; simp at this
  · exact Or.inr (Or.inl hb)
  · exact Or.inr (Or.inr hr)

/-- **Predicate waits: set the flag, then notify_all.**  If a maximal run ends with the flag true
    and not *dirty* — i.e. in log order a `notify_all` swapped the queue out after the flag was
    last set (`dirty` is set by `setFlag true`, cleared by `cv.all`) — then no thread is parked in
    a predicate wait: every predicate waiter has been woken, has re-tested the predicate under
    the user lock and (by `C07_wait_pred_returns_true`) returned with the predicate true, or is
    queueing for the user lock. -/
theorem C07t_pred_covered (n : Nat) (f : Bool) (prog : Nat → List Op) (log : List Ev)
    (p : PSt) (h : runLog pstep (pinit n f prog) log = some p) (hs : PStuck p)
    (hflag : p.s.flag = true) (hd : (obsGLog gh0 log).dirty = false) :
    ∀ t, t < n → isPred (p.s.curOp t) = true →
      (p.s.pc t = .fin ∧ p.prog t = []) ∨ BlockedOnUserLock p.s t ∨ Refused p t := by
  intro t ht hpr
  have hlog := runLog_pstep_step log _ p h
  rcases C07t_final_state n f prog log p h hs t ht with hf | hp | hb | hr
  · exact Or.inl hf
  · exfalso
    have hcov := cov_of_runLog log _ p.s gh0 (inv_init n f) (inv2_init n f) (cov_init n f) hlog
    have := hcov.j3 t hpr (by rw [hp.1]; rfl) hflag hd
    rw [hp.2.2.2.2.2] at this; simp at this
  · exact Or.inr (Or.inl hb)
  · exact Or.inr (Or.inr hr)

/-- **Position of a linked waiter.**  `z t` = size of the queue right after `t`'s last `cv.enq` (its
    position, from 1), `k t` = number of pops (`cv.pop` of a `notify_one`, `cv.popall` of a
    `notify_all`) since then (ghost state folded over the log, `Lemmas/CVCnt.lean`).  A waiter that
    is still linked sits at an index below `z t - k t`; in particular fewer than `z t` pops have
    happened since it enqueued: **after as many successful `notify_one` calls as waiters were linked
    when `t` enqueued (itself included), `t` has been popped** (or has removed itself). -/
theorem C07t_linked_position (n : Nat) (f : Bool) (log : List Ev) (s : St) (t : Nat)
    (h : runLog step (init n f) log = some s) (hq : t ∈ s.queue) :
    s.queue.idxOf t + (obsKLog gk0 log).k t < (obsKLog gk0 log).z t := by
  have hc := cnt_of_runLog log _ s gk0 (inv_init n f) (by intro u hu; simp [init] at hu) h
  exact hc t hq

/-- **Covering by `notify_one` calls, in log order.**  If for every thread that is parked at the end
    of a maximal run at least as many pops happened since its last `cv.enq` as entries were linked
    at that moment (`z t ≤ k t`), no thread is parked: every wait has returned. -/
theorem C07t_covered_by_notify_one (n : Nat) (f : Bool) (prog : Nat → List Op) (log : List Ev)
    (p : PSt) (h : runLog pstep (pinit n f prog) log = some p) (hs : PStuck p)
    (hcov : ∀ t, t < n → p.s.pc t = .susp false → (obsKLog gk0 log).z t ≤ (obsKLog gk0 log).k t) :
    ∀ t, t < n → (p.s.pc t = .fin ∧ p.prog t = []) ∨ BlockedOnUserLock p.s t ∨ Refused p t := by
  intro t ht
  rcases C07t_final_state n f prog log p h hs t ht with hf | hp | hb | hr
  · exact Or.inl hf
  · have h1 := hcov t ht hp.1
    have h2 := C07t_linked_position n f log p.s t (runLog_pstep_step log _ p h) hp.2.2.2.1
    omega
  · exact Or.inr (Or.inl hb)
  · exact Or.inr (Or.inr hr)

/-! ## Programs that respect the lock discipline

`CV.wf false l`: started without the user lock, every `wait` / `wait(pred)` / `wait_for` /
stop-token wait / `set` / `unlock` of `l` is executed with the lock held, every `lock` without it,
and `l` ends without it (`notify_one` / `notify_all` / `request_stop` are allowed in both states). -/

/-- **Final states of disciplined programs.**  If every thread's program respects the lock
    discipline, the final state of a maximal run has *every thread finished with its whole program
    executed, except waiters parked in an untimed wait with no notification owed to them*. -/
theorem C07t_final_state_wf (n : Nat) (f : Bool) (prog : Nat → List Op) (hwf : ∀ t, wf false (prog t) = true)
    (log : List Ev) (p : PSt) (h : runLog pstep (pinit n f prog) log = some p) (hs : PStuck p) :
    ∀ t, t < n → (p.s.pc t = .fin ∧ p.prog t = []) ∨ ParkedUnowed p.s log t := by
  have hw : WfOk p := runLog_wfOk log _ p (good_init n f) (wfOk_init n f prog hwf) h
  have hlog := runLog_pstep_step log _ p h
  have hreach : Reachable p.s := ⟨n, f, log, hlog⟩
  have hnoref : ∀ x, x < p.s.n → ¬ Refused p x := by
    intro x hx ⟨hi, o, rest, hp, hr⟩
    have := hw x; rw [hp] at this
    exact inv_accepted p.s x o rest hx hi this hr
  intro t ht
  rcases C07t_final_state n f prog log p h hs t ht with hf | hp | hb | hr
  · exact Or.inl hf
  · exact Or.inr hp
  · exfalso
    obtain ⟨_, x, hux, _, hx⟩ := hb
    have hxn := hreach.inv.1.uConv x hux
    have hfin : FinOk p := runLog_finOk log _ p (by intro t ht; simp [pinit, init] at ht) h
    rcases hx with hi | hf
    · cases hp : p.prog x with
      | nil =>
        have := hs (.done x)
        simp [pstep, hp, step, hi, hxn] at this
      | cons o rest =>
        have := hs (.inv x o)
        exact hnoref x hxn ⟨hi, o, rest, hp, by simpa [pstep, hp] using this⟩
    · have := hw x
      rw [hfin x hf] at this
      simp [heldAfter, hf, wf, hux] at this
  · exfalso
    have hn : p.s.n = n := runLog_n log _ _ hlog
    have hxn : t < p.s.n := by omega
    exact hnoref t hxn hr

/-- **Covered disciplined programs return.**  For a program that respects the lock discipline: if
    every thread parked at the end of a maximal run was covered after its last `cv.enq` by a
    `notify_all`, or by as many `notify_one` pops as entries were linked when it enqueued (log
    order), then the hypothesis is contradictory for parked threads — **every maximal run ends with
    all operations returned and every thread finished.** -/
theorem C07t_covered_all_return_wf (n : Nat) (f : Bool) (prog : Nat → List Op)
    (hwf : ∀ t, wf false (prog t) = true) (log : List Ev) (p : PSt)
    (h : runLog pstep (pinit n f prog) log = some p) (hs : PStuck p)
    (hcov : ∀ t, t < n → p.s.pc t = .susp false →
      (obsGLog gh0 log).cov t = true ∨ (obsKLog gk0 log).z t ≤ (obsKLog gk0 log).k t) :
    ∀ t, t < n → p.s.pc t = .fin ∧ p.prog t = [] := by
  intro t ht
  rcases C07t_final_state_wf n f prog hwf log p h hs t ht with hf | hp
  · exact hf
  · exfalso
    rcases hcov t ht hp.1 with hc | hc
    · rw [hp.2.2.2.2.2] at hc; simp at hc
    · have h2 := C07t_linked_position n f log p.s t (runLog_pstep_step log _ p h) hp.2.2.2.1
      omega

/-- **Predicate waiters of disciplined programs return true.**  For a program that respects the
    lock discipline: if a maximal run ends with the flag true and a `notify_all` was issued after
    the flag was last set (log order: not `dirty`), every thread whose last operation was a
    predicate wait has finished its program (its `wait(pred)` returned — with the predicate true,
    `C07_wait_pred_returns_true`). -/
theorem C07t_pred_covered_wf (n : Nat) (f : Bool) (prog : Nat → List Op)
    (hwf : ∀ t, wf false (prog t) = true) (log : List Ev) (p : PSt)
    (h : runLog pstep (pinit n f prog) log = some p) (hs : PStuck p)
    (hflag : p.s.flag = true) (hd : (obsGLog gh0 log).dirty = false) :
    ∀ t, t < n → isPred (p.s.curOp t) = true → p.s.pc t = .fin ∧ p.prog t = [] := by
  intro t ht hpr
  rcases C07t_final_state_wf n f prog hwf log p h hs t ht with hf | hp
  · exact hf
  · exfalso
    have hlog := runLog_pstep_step log _ p h
    have hcov := cov_of_runLog log _ p.s gh0 (inv_init n f) (inv2_init n f) (cov_init n f) hlog
    have := hcov.j3 t hpr (by rw [hp.1]; rfl) hflag hd
    rw [hp.2.2.2.2.2] at this; simp at this

/-! ## Non-vacuity and the classic lost wake-up -/

/-- the classic shape without a predicate: thread 0 `lock; wait; unlock`, thread 1
    `lock; notify_all; unlock` -/
def lostProg : Nat → List Op :=
  fun t => if t = 0 then [.lock, .wait false false, .unlock]
           else if t = 1 then [.lock, .notify true, .unlock] else []

/-- the notifier runs first: `notify_all` finds the queue empty, then the waiter enqueues and parks -/
def lostRun : List Ev :=
  [.inv 1 .lock, .ulAcq 1, .inv 1 (.notify true), .slAcq 1, .cvAll 1 0, .slRel 1, .ret 1 0,
   .inv 1 .unlock, .ulRel 1, .done 1,
   .inv 0 .lock, .ulAcq 0, .inv 0 (.wait false false), .slAcq 0, .ulRel 0, .cvEnq 0 1 false,
   .slRel 0, .suspend 0]

/-- the waiter runs first: it is popped by the `notify_all`, every operation returns -/
def goodRun : List Ev :=
  [.inv 0 .lock, .ulAcq 0, .inv 0 (.wait false false), .slAcq 0, .ulRel 0, .cvEnq 0 1 false,
   .slRel 0, .suspend 0,
   .inv 1 .lock, .ulAcq 1, .inv 1 (.notify true), .slAcq 1, .cvAll 1 1, .popAll 1 0 0 false,
   .slRel 1, .ret 1 0, .inv 1 .unlock, .ulRel 1, .done 1,
   .woke 0, .slAcq 0, .cvWoke 0 false false, .slRel 0, .ulAcq 0, .ret 0 0, .inv 0 .unlock,
   .ulRel 0, .done 0]

/-- both runs are accepted logs of the program (`decide`-checked) -/
example : (runLog pstep (pinit 2 false lostProg) lostRun).isSome = true := by decide
example : (runLog pstep (pinit 2 false lostProg) goodRun).isSome = true := by decide

/-- **The lost wake-up blocks for ever.**  `lostRun` is a *maximal* run of `lostProg` (no event is
    accepted after it) that ends with the notifier finished and the waiter parked in `wait` with no
    notification owed to it — the `notify_all` was issued before it enqueued (`cov 0 = false`).
    So "the program contains a `notify_all`" does not imply that all operations return: covering
    has to be stated in log order (`C07t_covered_all_return`), or with a predicate
    (`C07t_pred_covered`). -/
example : ∃ p, runLog pstep (pinit 2 false lostProg) lostRun = some p ∧ PStuck p ∧
    p.s.pc 1 = .fin ∧ ParkedUnowed p.s lostRun 0 ∧ lostRun.length ≤ bound 2 lostProg := by
  refine ⟨_, rfl, ?_, by decide, ⟨by decide, by decide, by decide, by decide, by decide, by decide⟩, by decide⟩
  apply pstuck_of_rest
  intro t ht
  have ht' : t < 2 := ht
  revert t
  decide

/-- the same program has a maximal run in which every operation returns: the waiter was covered
    (`cov 0 = true`, hypothesis of `C07t_covered_all_return`) -/
example : ∃ p, runLog pstep (pinit 2 false lostProg) goodRun = some p ∧ PStuck p ∧
    (∀ t, t < 2 → p.s.pc t = .fin) ∧ (obsGLog gh0 goodRun).cov 0 = true ∧
    goodRun.length ≤ bound 2 lostProg := by
  refine ⟨_, rfl, ?_, by decide, rfl, by decide⟩
  apply pstuck_of_rest
  intro t ht
  have ht' : t < 2 := ht
  left
  revert t
  decide

/-- the counting ghost on the two runs: in `lostRun` the waiter enqueued at position 1 and no pop
    followed (`k = 0 < z = 1`); in `goodRun` one pop followed (`z = 1 ≤ k = 1`, hypothesis of
    `C07t_covered_by_notify_one`) -/
example : (obsKLog gk0 lostRun).z 0 = 1 ∧ (obsKLog gk0 lostRun).k 0 = 0 ∧
    (obsKLog gk0 goodRun).z 0 = 1 ∧ (obsKLog gk0 goodRun).k 0 = 1 := by decide

/-- both example programs respect the lock discipline -/
example : ∀ t, wf false (lostProg t) = true := by
  intro t; simp only [lostProg]; split
  · rfl
  · split <;> rfl

/-- the predicate shape: thread 0 `lock; wait(pred); unlock`, thread 1
    `lock; flag = true; notify_all; unlock` -/
def predProg : Nat → List Op :=
  fun t => if t = 0 then [.lock, .wait false true, .unlock]
           else if t = 1 then [.lock, .set true, .notify true, .unlock] else []

/-- waiter first, woken by the `notify_all`, returns `true` -/
def predRun : List Ev :=
  [.inv 0 .lock, .ulAcq 0, .inv 0 (.wait false true), .pred 0 false, .slAcq 0, .ulRel 0,
   .cvEnq 0 1 false, .slRel 0, .suspend 0,
   .inv 1 .lock, .ulAcq 1, .inv 1 (.set true), .setFlag 1 true, .inv 1 (.notify true), .slAcq 1,
   .cvAll 1 1, .popAll 1 0 0 false, .slRel 1, .ret 1 0, .inv 1 .unlock, .ulRel 1, .done 1,
   .woke 0, .slAcq 0, .cvWoke 0 false false, .slRel 0, .ulAcq 0, .pred 0 true, .ret 0 1,
   .inv 0 .unlock, .ulRel 0, .done 0]

/-- notifier first: the waiter finds the predicate true and never enqueues -/
def predRun2 : List Ev :=
  [.inv 1 .lock, .ulAcq 1, .inv 1 (.set true), .setFlag 1 true, .inv 1 (.notify true), .slAcq 1,
   .cvAll 1 0, .slRel 1, .ret 1 0, .inv 1 .unlock, .ulRel 1, .done 1,
   .inv 0 .lock, .ulAcq 0, .inv 0 (.wait false true), .pred 0 true, .ret 0 1,
   .inv 0 .unlock, .ulRel 0, .done 0]

example : ∀ t, wf false (predProg t) = true := by
  intro t; simp only [predProg]; split
  · rfl
  · split <;> rfl

/-- both orders are accepted, maximal, end with every thread finished and satisfy the hypotheses
    of `C07t_pred_covered` (flag true, not dirty) -/
example : ∃ p, runLog pstep (pinit 2 false predProg) predRun = some p ∧ PStuck p ∧
    (∀ t, t < 2 → p.s.pc t = .fin) ∧ p.s.flag = true ∧ (obsGLog gh0 predRun).dirty = false ∧
    predRun.length ≤ bound 2 predProg := by
  refine ⟨_, rfl, ?_, by decide, rfl, rfl, by decide⟩
  apply pstuck_of_rest
  intro t ht
  have ht' : t < 2 := ht
  left
  revert t
  decide

example : ∃ p, runLog pstep (pinit 2 false predProg) predRun2 = some p ∧ PStuck p ∧
    (∀ t, t < 2 → p.s.pc t = .fin) ∧ p.s.flag = true ∧ (obsGLog gh0 predRun2).dirty = false := by
  refine ⟨_, rfl, ?_, by decide, rfl, rfl⟩
  apply pstuck_of_rest
  intro t ht
  have ht' : t < 2 := ht
  left
  revert t
  decide

/-- the measure along `goodRun`: it starts at `n = 2` (two idle threads), every `inv` adds the
    potential of its operation, every other event takes at least 1 -/
example : mu (init 2 false) = 2 := by decide
example : bound 2 lostProg = 2 + (2 + 19 + 2) + (2 + (29 * 2 + 6) + 2) := by decide

/-! ## Solo bound -/

/-- **One `notify_all` wakes and completes every parked waiter, with explicit step bounds.**  In any
    reachable state where thread `r` has invoked `notify_all`, the internal lock and the user lock
    are free and the threads on the wait queue are parked in an untimed `wait` / `wait(pred)` (for
    the predicate form the flag is true): the notifier running alone (`nallSolo`, exactly
    `|queue| + 4` events) pops and resumes every queued waiter (each gets its wake-up token) and
    returns; then the woken waiters, each running alone in queue order (`wakeAllLog`, `8` events per
    plain wait, `9` per predicate wait: wake, re-take the internal lock, `cv.woke`, release it,
    re-take the user lock, [re-test the predicate], return, `unlock`), all return — at most
    `10 |queue| + 4` events in total — and the run ends with the queue empty and both locks free. -/
theorem C07t_notify_all_wakes (s : St) (hr : Reachable s) (r : Nat) (hrn : r < s.n)
    (hl : s.lock = none) (hu : s.ulock = none) (hp : s.pc r = .nWant) (hc : s.curOp r = .notify true)
    (hpark : ∀ g, g ∈ s.queue → s.pc g = .susp false ∧
      ∃ pr, s.curOp g = .wait false pr ∧ (pr = true → s.flag = true)) :
    ∃ s2, runLog step s (nallSolo r s.queue ++ wakeAllLog (fun g => isPred (s.curOp g)) s.queue) = some s2 ∧
      (nallSolo r s.queue).length = s.queue.length + 4 ∧
      (wakeAllLog (fun g => isPred (s.curOp g)) s.queue).length ≤ 9 * s.queue.length ∧
      (nallSolo r s.queue ++ wakeAllLog (fun g => isPred (s.curOp g)) s.queue).length ≤ 10 * s.queue.length + 4 ∧
      s2.pc r = .idle ∧ (∀ g, g ∈ s.queue → s2.pc g = .idle) ∧
      s2.queue = [] ∧ s2.lock = none ∧ s2.ulock = none := by
  obtain ⟨hi, _⟩ := hr.inv
  have hnd := hi.qNodup
  have hqn : ∀ g, g ∈ s.queue → g < s.n := by
    intro g hg
    have h1 := (hi.qIff g).1 hg
    apply Classical.byContradiction
    intro hge
    rw [hi.outside g (by omega)] at h1; simp [inQ] at h1
  have hrq : r ∉ s.queue := by intro hm; have := (hpark r hm).1; rw [hp] at this; simp at this
  obtain ⟨s1, a1, a2, a3, a4, a5, a6, a7, a8, a9⟩ :=
    nallSolo_spec r s hl hrn hp hc (fun g hg => (hpark g hg).1) hnd
  obtain ⟨s2, b1, b2, b3, b4, b5, b6, b7, b8⟩ :=
    wakeAll_spec (fun g => isPred (s.curOp g)) s.queue s1 a2 (by rw [a6]; exact hu) hnd
      (by intro g hg
          obtain ⟨c1, c2, c3⟩ := a8 g hg
          obtain ⟨_, pr, d1, d2⟩ := hpark g hg
          refine ⟨by rw [a3]; exact hqn g hg, c1, by omega, ?_, ?_⟩
          · rw [c3, d1]; simp [isPred]
          · intro hpr; rw [a7]; apply d2; rw [d1] at hpr; simpa [isPred] using hpr)
  have hlen1 := nallSolo_length r s.queue
  have hlen2 := wakeAllLog_length (fun g => isPred (s.curOp g)) s.queue
  refine ⟨s2, ?_, hlen1, hlen2, by rw [List.length_append]; omega, ?_, b7, by rw [b5, a5], b2, b3⟩
  · rw [runLog_append, a1]; simpa using b1
  · rw [(b8 r hrq).1]; exact a4

/-- non-vacuity: two threads parked in `wait` and `wait(pred)` (flag set meanwhile), thread 2 invokes
    `notify_all` with both locks free: the solo run of the theorem (`2 + 4` events, then `8 + 9`)
    is accepted from that state and ends with all three threads idle -/
def soloPrefix : List Ev :=
  [.inv 0 .lock, .ulAcq 0, .inv 0 (.wait false false), .slAcq 0, .ulRel 0, .cvEnq 0 1 false, .slRel 0, .suspend 0,
   .inv 1 .lock, .ulAcq 1, .inv 1 (.wait false true), .pred 1 false, .slAcq 1, .ulRel 1, .cvEnq 1 2 false,
   .slRel 1, .suspend 1,
   .inv 2 .lock, .ulAcq 2, .inv 2 (.set true), .setFlag 2 true, .inv 2 .unlock, .ulRel 2,
   .inv 2 (.notify true)]

example : (runLog step (init 3 false)
    (soloPrefix ++ nallSolo 2 [0, 1] ++ wakeAllLog (fun g => decide (g = 1)) [0, 1])).isSome = true := by
  decide

example : (nallSolo 2 [0, 1] ++ wakeAllLog (fun g => decide (g = 1)) [0, 1]).length = 6 + 8 + 9 := by decide

/-! ## Termination modulo spinning on the internal lock

The model has no event for a failed attempt on the internal spinlock, so the bounds above bound the
real code's events *modulo* such spinning.  A spinning episode lasts only while another thread holds
the lock, and the holder is never blocked: -/

/-- **The holder of the internal lock releases it within `|queue| + 4` of its own events**, in every
    reachable state (`|queue|` only inside the pop loop of a `notify_all` / stop callback; at most 4
    otherwise) — so a thread spinning on the internal lock waits for a bounded number of steps of
    one other thread, which needs no other thread to move. -/
theorem C07t_lock_released_within (s : St) (hr : Reachable s) (r : Nat) (hl : s.lock = some r) :
    ∃ log s', log.length ≤ s.queue.length + 4 ∧ (∀ e, e ∈ log → actor e = r) ∧
      runLog step s log = some s' ∧ s'.lock = none := by
  obtain ⟨hi, hi2⟩ := hr.inv
  exact holder_releases (s.queue.length + 4) s r hi hi2 hl (hm_le _ _ _)

/-- non-vacuity: in `goodRun` after `cv.all` (the notifier holds the lock, one waiter queued) the
    holder's solo run `popAll; slRel` releases the lock -/
example : ∃ s s', runLog step (init 2 false) (goodRun.take 13) = some s ∧ s.lock = some 1 ∧
    runLog step s [.popAll 1 0 0 false, .slRel 1] = some s' ∧ s'.lock = none := by
  refine ⟨_, _, rfl, by decide, rfl, by decide⟩

end PikaVerif.C07t
