import PikaVerif.Props.C08
import PikaVerif.Lemmas.SemProg
/-!
# C08t — termination / bounded progress of the semaphore operations (follow-up of C08)

`Props/C08.lean` states progress as "no stuck state".  This file strengthens it to termination:

* The model `PikaVerif.Sem` has **no stutter**: a failed attempt on the internal spinlock is not an
  event of the model (`slAcq` is accepted only when the lock is free; the spinning thread's
  `sl.lock` / `ag.yield` lines are dropped by the driver before the acceptor), so "terminates"
  needs no "modulo stuttering" clause: every accepted event counts.
* `Sem.mu` is a natural-number measure on model states that strictly decreases with every accepted
  event other than the invocation of a new operation (`C08t_measure_decreases`).
* A *program* gives each of the `n` threads a finite list of operations (`Sem.PSt`, `Sem.pstep`,
  `Lemmas/SemProg.lean`).  Every accepted log of a program has at most `Sem.bound n prog` events
  (`C08t_bounded`: 1 per thread + 11 per acquire/try_acquire/timed acquire + `15 k + 9` per
  `release(k)`), every accepted log extends to a maximal one (`C08t_maximal_exists`), and in the
  final state of a maximal log every thread has finished its whole program except acquirers parked
  in `acquire` with `value = 0` (`C08t_final_state`).
-/
namespace PikaVerif.C08t
open PikaVerif PikaVerif.Sem PikaVerif.C08

/-- **The measure decreases.**  In every reachable state, every accepted event that is not the
    invocation of a new operation strictly decreases `mu`; an invocation of `o` adds exactly the
    potential of `o` (`rank (want o) - 1`). -/
theorem C08t_measure_decreases (n : Nat) (v : Int) (log : List Ev) (s s' : St) (e : Ev)
    (h : runLog step (init n v) log = some s) (he : step s e = some s') :
    (∀ t o, e = .inv t o → mu s' + 1 = mu s + rank (.want o)) ∧
    ((∀ t o, e ≠ .inv t o) → mu s' < mu s) := by
  have hr : RelOk s := inv_of_runLog RelOk (fun s e s' => relOk_step s s' e) (relOk_init n v) h
  refine ⟨?_, fun hne => mu_step s s' e hr hne he⟩
  intro t o heq; subst heq; exact mu_inv s s' t o he

/-- **Bounded runs.**  Any accepted log of a finite program (`n` threads, `prog t` the operations
    of thread `t`) has at most `bound n prog` events — whatever the interleaving. -/
theorem C08t_bounded (n : Nat) (v : Int) (prog : Nat → List Op) (log : List Ev) (p : PSt)
    (h : runLog pstep (pinit n v prog) log = some p) : log.length ≤ bound n prog := by
  have := (runLog_phi log _ p (relOk_init n v) h).1
  rw [phi_pinit] at this
  omega

/-- An accepted log of a program is an accepted log of the model (so every theorem of
    `Props/C08.lean` applies to the states of program runs). -/
theorem C08t_program_refines (n : Nat) (v : Int) (prog : Nat → List Op) (log : List Ev) (p : PSt)
    (h : runLog pstep (pinit n v prog) log = some p) : runLog step (init n v) log = some p.s :=
  runLog_pstep_step log _ p h

/-- **Maximal runs exist and are finite.**  Every accepted log of a program extends to an accepted
    log after which no event at all is accepted; by `C08t_bounded` its length is at most
    `bound n prog`. -/
theorem C08t_maximal_exists (n : Nat) (v : Int) (prog : Nat → List Op) (log : List Ev) (p : PSt)
    (h : runLog pstep (pinit n v prog) log = some p) :
    ∃ ext p', runLog pstep (pinit n v prog) (log ++ ext) = some p' ∧ PStuck p' ∧
      (log ++ ext).length ≤ bound n prog := by
  have hr := (runLog_phi log _ p (relOk_init n v) h).2
  obtain ⟨ext, p', hrun, hst⟩ := exists_maximal_from (phi p) p hr (Nat.le_refl _)
  have hfull : runLog pstep (pinit n v prog) (log ++ ext) = some p' := by
    rw [runLog_append, h]; simpa using hrun
  exact ⟨ext, p', hfull, hst, C08t_bounded n v prog _ p' hfull⟩

/-- **Final states.**  In the final state of a maximal run of a program every thread has finished
    its whole program, except threads parked in an untimed `acquire` without a wake-up token — and
    if there is such a thread the semaphore holds no permit (`value = 0`). -/
theorem C08t_final_state (n : Nat) (v : Int) (hv : 0 ≤ v) (prog : Nat → List Op) (log : List Ev)
    (p : PSt) (h : runLog pstep (pinit n v prog) log = some p) (hs : PStuck p) :
    ∀ t, t < n → (p.s.pc t = .fin ∧ p.prog t = []) ∨ (Blocked p.s t ∧ p.s.value = 0) := by
  have hlog := runLog_pstep_step log _ p h
  have hreach : Reachable p.s := ⟨n, v, log, hv, hlog⟩
  have hstuck : Stuck p.s := by
    intro e h1 h2
    have := hs e
    cases e <;> simp only [pstep] at this <;>
      first
      | (exact absurd rfl (h1 _ _))
      | (exact absurd rfl (h2 _))
      | (simpa using this)
  have hfin : FinOk p := runLog_finOk log _ p (by intro t ht; simp [pinit, init] at ht) h
  have hn : p.s.n = n := (counters_log log _ _ hlog).2.2.2
  intro t ht
  rcases C08_stuck_only_when_blocked p.s hreach hstuck t (by omega) with hi | hf | hb
  · exfalso
    cases hp : p.prog t with
    | nil =>
      have := hs (.done t)
      simp [pstep, hp, step, hi, hn, ht] at this
    | cons o rest =>
      have := hs (.inv t o)
      simp [pstep, hp, step, hi, hn, ht] at this
  · exact Or.inl ⟨hf, hfin t hf⟩
  · have hlt := C08_blocked_released p.s hreach hstuck t hb
    have hnn := (C08_conservation n v hv log p.s hlog).2.2
    exact Or.inr ⟨hb, by omega⟩

end PikaVerif.C08t
