import PikaVerif.Props.C08
import PikaVerif.Lemmas.SemProg
import PikaVerif.Lemmas.SemCover
import PikaVerif.Lemmas.SemSolo
import PikaVerif.Lemmas.SSemProg
import PikaVerif.Lemmas.SSemSolo
import PikaVerif.Lemmas.SSemCover
import PikaVerif.Lemmas.SemHold
/-!
# C08t — termination / bounded progress of the semaphore operations (follow-up of C08)

`Props/C08.lean` states progress as "no stuck state".  This file strengthens it to termination.

**Stutter.**  The models `PikaVerif.Sem` / `PikaVerif.SSem` have **no stutter**: a failed attempt on
the internal spinlock is not an event of the model (`slAcq` is accepted only when the lock is free;
the spinning thread's `sl.lock` / `ag.yield` lines are dropped by the driver before the acceptor),
so every accepted event is a real move and the bounds below count all of them.  For the real code
they are bounds *modulo spinning on the internal lock*; a spinning episode ends after at most three
events of the lock holder, which is never blocked (`C08t_lock_released_within_three`).

**Counting / binary semaphore** (`Sem`):
* `Sem.mu` is a natural-number measure on model states that strictly decreases with every accepted
  event other than the invocation of a new operation (`C08t_measure_decreases`).
* A *program* gives each of the `n` threads a finite list of operations (`Sem.PSt`, `Sem.pstep`,
  `Lemmas/SemProg.lean`).  Every accepted log of a program has at most `Sem.bound n prog` events
  (`C08t_bounded`: 1 per thread + 11 per acquire/try_acquire/timed acquire + `15 k + 9` per
  `release(k)`), every accepted log extends to a maximal one (`C08t_maximal_exists`), and in the
  final state of a maximal log every thread has finished its whole program except acquirers parked
  in `acquire` with `value = 0` (`C08t_final_state`).
* If initial count + released permits cover the acquire-type operations — counting only releases
  that are not sequenced behind an untimed acquire of their own thread — every maximal run ends with
  all operations returned (`C08t_blocked_accounting`, `C08t_covered_all_return`; the example
  `progBad` shows that the qualification is necessary).
* One `release(k)` call run alone wakes exactly `min k (queued acquirers)` waiters in at most
  `3 m + 5` events, and these, run alone, return `true` in `6 m` events (`C08t_release_wakes`).

**Sliding semaphore** (`SSem`): the same statements (`C08t_sliding_*`); a `signal` costs `15 n + 9`
because it notifies as many waiters as are queued (at most `n`, invariant `SSem.QLen`).
-/
namespace PikaVerif.C08t
open PikaVerif PikaVerif.Sem PikaVerif.C08

/-- **The measure decreases.**  In every reachable state, every accepted event that is not the
    invocation of a new operation strictly decreases `mu`; an invocation of `o` adds exactly the
    potential of `o` (`rank (want o) - 1`). -/
theorem C08t_measure_decreases (n : Nat) (v : Int) (log : List Ev) (s s' : St) (e : Ev)
    (h : runLog step (init n v) log = some s) (he : step s e = some s') :
    (∀ t o, e = .inv t o → mu s' + 1 = mu s + rank (.want o)) ∧
    ((∀ t o, e ≠ .inv t o) → mu s' < mu s) := by
  have hr : RelOk s := inv_of_runLog RelOk (fun s e s' => relOk_step s s' e) (relOk_init n v) h
  refine ⟨?_, fun hne => mu_step s s' e hr hne he⟩
  intro t o heq; subst heq; exact mu_inv s s' t o he

/-- **Bounded runs.**  Any accepted log of a finite program (`n` threads, `prog t` the operations
    of thread `t`) has at most `bound n prog` events — whatever the interleaving. -/
theorem C08t_bounded (n : Nat) (v : Int) (prog : Nat → List Op) (log : List Ev) (p : PSt)
    (h : runLog pstep (pinit n v prog) log = some p) : log.length ≤ bound n prog := by
  have := (runLog_phi log _ p (relOk_init n v) h).1
  rw [phi_pinit] at this
  omega

/-- An accepted log of a program is an accepted log of the model (so every theorem of
    `Props/C08.lean` applies to the states of program runs). -/
theorem C08t_program_refines (n : Nat) (v : Int) (prog : Nat → List Op) (log : List Ev) (p : PSt)
    (h : runLog pstep (pinit n v prog) log = some p) : runLog step (init n v) log = some p.s :=
  runLog_pstep_step log _ p h

/-- **Maximal runs exist and are finite.**  Every accepted log of a program extends to an accepted
    log after which no event at all is accepted; by `C08t_bounded` its length is at most
    `bound n prog`. -/
theorem C08t_maximal_exists (n : Nat) (v : Int) (prog : Nat → List Op) (log : List Ev) (p : PSt)
    (h : runLog pstep (pinit n v prog) log = some p) :
    ∃ ext p', runLog pstep (pinit n v prog) (log ++ ext) = some p' ∧ PStuck p' ∧
      (log ++ ext).length ≤ bound n prog := by
  have hr := (runLog_phi log _ p (relOk_init n v) h).2
  obtain ⟨ext, p', hrun, hst⟩ := exists_maximal_from (phi p) p hr (Nat.le_refl _)
  have hfull : runLog pstep (pinit n v prog) (log ++ ext) = some p' := by
    rw [runLog_append, h]; simpa using hrun
  exact ⟨ext, p', hfull, hst, C08t_bounded n v prog _ p' hfull⟩

/-- **Final states.**  In the final state of a maximal run of a program every thread has finished
    its whole program, except threads parked in an untimed `acquire` without a wake-up token — and
    if there is such a thread the semaphore holds no permit (`value = 0`). -/
theorem C08t_final_state (n : Nat) (v : Int) (hv : 0 ≤ v) (prog : Nat → List Op) (log : List Ev)
    (p : PSt) (h : runLog pstep (pinit n v prog) log = some p) (hs : PStuck p) :
    ∀ t, t < n → (p.s.pc t = .fin ∧ p.prog t = []) ∨ (Blocked p.s t ∧ p.s.value = 0) := by
  have hlog := runLog_pstep_step log _ p h
  have hreach : Reachable p.s := ⟨n, v, log, hv, hlog⟩
  have hstuck : Stuck p.s := by
    intro e h1 h2
    have := hs e
    cases e <;> simp only [pstep] at this <;>
      first
      | (exact absurd rfl (h1 _ _))
      | (exact absurd rfl (h2 _))
      | (simpa using this)
  have hfin : FinOk p := runLog_finOk log _ p (by intro t ht; simp [pinit, init] at ht) h
  have hn : p.s.n = n := (counters_log log _ _ hlog).2.2.2
  intro t ht
  rcases C08_stuck_only_when_blocked p.s hreach hstuck t (by omega) with hi | hf | hb
  · exfalso
    cases hp : p.prog t with
    | nil =>
      have := hs (.done t)
      simp [pstep, hp, step, hi, hn, ht] at this
    | cons o rest =>
      have := hs (.inv t o)
      simp [pstep, hp, step, hi, hn, ht] at this
  · exact Or.inl ⟨hf, hfin t hf⟩
  · have hlt := C08_blocked_released p.s hreach hstuck t hb
    have hnn := (C08_conservation n v hv log p.s hlog).2.2
    exact Or.inr ⟨hb, by omega⟩

/-- **Accounting at the end of a maximal run.**  If a maximal run of a program ends with a thread
    still parked in `acquire`, then the initial count plus *all* permits the program releases
    (`progRel`) is smaller than the number of acquire-type operations (`progCons`: acquire,
    try_acquire, timed acquire) plus the permits of releases that sit behind an untimed acquire in
    their own thread's program (`progHazard`: they may never be executed because that acquire
    blocks). -/
theorem C08t_blocked_accounting (n : Nat) (v : Int) (hv : 0 ≤ v) (prog : Nat → List Op) (log : List Ev)
    (p : PSt) (h : runLog pstep (pinit n v prog) log = some p) (hs : PStuck p) (t0 : Nat) (ht0 : t0 < n)
    (hb : Blocked p.s t0) : v + (progRel n prog : Int) < progCons n prog + progHazard n prog := by
  have hfs := C08t_final_state n v hv prog log p h hs
  have hlog := runLog_pstep_step log _ p h
  have hn : p.s.n = n := (counters_log log _ _ hlog).2.2.2
  have hinit : p.s.init = v := (counters_log log _ _ hlog).2.2.1
  obtain ⟨hi, _⟩ := inv2_of_accepted hlog
  have hacc := hi.account
  obtain ⟨c1, c2, c3⟩ := cover_log log _ p h
  obtain ⟨d1, d2, d3⟩ := cover_pinit n v prog
  rw [d1] at c1; rw [d2] at c2
  have hval : p.s.value = 0 := by
    rcases hfs t0 ht0 with hf | hb'
    · rw [hb.1] at hf; simp at hf
    · exact hb'.2
  have hR0 : sumTo p.s.n (fun u => pendR (p.s.pc u)) = 0 := by
    apply sumTo_eq_zero
    intro u hu
    rcases hfs u (by omega) with hf | hb'
    · simp [hf.1, pendR]
    · simp [hb'.1.1, pendR]
  have hRT : sumTo p.s.n (fun u => relTot (p.prog u)) ≤ progHazard n prog := by
    rw [hn]
    apply sumTo_le
    intro u hu
    rcases hfs u hu with hf | hb'
    · simp [hf.2, relTot]
    · have := c3 u
      rw [d3 u] at this
      simpa [hW, hb'.1.1, inAcq] using this
  have hC := le_sumTo (f := fun u => pendC (p.s.pc u)) (show t0 < p.s.n by omega)
  have hC1 : pendC (p.s.pc t0) = 1 := by rw [hb.1]; rfl
  change pendC (p.s.pc t0) ≤ _ at hC
  rw [hC1] at hC
  simp only [relSum] at c1
  simp only [consSum] at c2
  omega

/-- **A task blocked in acquire proceeds once enough permits have been released.**  If the
    initial count plus the permits released by the program cover its acquire-type operations
    (counting only releases that are not sequenced behind an untimed acquire of their own thread:
    `progCons + progHazard ≤ v + progRel`; with no release behind an acquire this is literally
    "initial + sum of release counts ≥ number of acquires"), then **every maximal run ends with all
    operations returned**: every thread has finished its whole program. -/
theorem C08t_covered_all_return (n : Nat) (v : Int) (hv : 0 ≤ v) (prog : Nat → List Op) (log : List Ev)
    (p : PSt) (h : runLog pstep (pinit n v prog) log = some p) (hs : PStuck p)
    (hcov : (progCons n prog : Int) + progHazard n prog ≤ v + progRel n prog) :
    ∀ t, t < n → p.s.pc t = .fin ∧ p.prog t = [] := by
  intro t ht
  rcases C08t_final_state n v hv prog log p h hs t ht with hf | hb
  · exact hf
  · have := C08t_blocked_accounting n v hv prog log p h hs t ht hb.1
    omega

/-- **One `release(k)` call wakes `min k (blocked acquirers)` waiters, with explicit step bounds.**
    In any reachable state where thread `r` has invoked `release(k)`, the internal lock is free and
    the threads on the wait queue are parked in `acquire`: the releaser running alone
    (`relSolo`, at most `3 m + 5` events, `m = min k |queue|`) adds `k` permits, pops and resumes
    exactly the first `m` queued acquirers (each gets its wake-up token), leaves the other
    waiters queued and untouched, and returns; then the `m` woken acquirers, each running alone
    (`acqAll`, exactly `6 m` events), all take a permit and return `true`. -/
theorem C08t_release_wakes (s : St) (hr : Reachable s) (r k : Nat) (hrn : r < s.n) (hl : s.lock = none)
    (hp : s.pc r = .want (.rel k)) (hpark : ∀ g, g ∈ s.queue → s.pc g = .susp false) :
    ∃ s1 s2,
      runLog step s (relSolo r k s.value s.queue) = some s1 ∧
      (relSolo r k s.value s.queue).length ≤ 3 * min k s.queue.length + 5 ∧
      s1.pc r = .idle ∧ s1.lock = none ∧ s1.value = s.value + k ∧ s1.queue = s.queue.drop k ∧
      (s.queue.take k).length = min k s.queue.length ∧
      (∀ g, g ∈ s.queue.take k → s1.pc g = .susp true ∧ 0 < s1.tok g) ∧
      (∀ g, g ∈ s.queue.drop k → s1.pc g = .susp false ∧ s1.tok g = s.tok g) ∧
      runLog step s1 (acqAll (s.queue.take k) s1.value) = some s2 ∧
      (acqAll (s.queue.take k) s1.value).length = 6 * min k s.queue.length ∧
      (∀ g, g ∈ s.queue.take k → s2.pc g = .idle) ∧
      s2.okRets = s.okRets + min k s.queue.length ∧
      s2.value = s.value + k - min k s.queue.length := by
  obtain ⟨n, v, log, hv, hlog⟩ := hr
  obtain ⟨hi, hi2⟩ := inv2_of_accepted hlog
  have hinit : s.init = v := (counters_log log _ _ hlog).2.2.1
  have hnn : 0 ≤ s.value := hi2.nonneg (by omega)
  have hnd := hi.qNodup
  have hlen : (s.queue.take k).length = min k s.queue.length := List.length_take
  have hqn : ∀ g, g ∈ s.queue → g < s.n := by
    intro g hg
    have h1 := (hi.qIff g).1 hg
    by_cases hc : s.n ≤ g
    · rw [hi.outside g hc] at h1; simp [inQ] at h1
    · omega
  have hrq : ∀ g, g ∈ s.queue → g ≠ r := by
    intro g hg he; have := hpark g hg; rw [he, hp] at this; simp at this
  have hdisj : ∀ g, g ∈ s.queue.drop k → g ∉ s.queue.take k := by
    have h1 := hnd
    rw [← List.take_append_drop k s.queue, List.nodup_append] at h1
    intro g hg hc
    exact h1.2.2 g hc g hg rfl
  obtain ⟨s1, a1, a2, a3, a4, a5, a6, a7, a8, a9⟩ := relSolo_spec r k s hl hrn hp hpark hnd hnn
  have hndt : (s.queue.take k).Nodup := by
    have h1 := hnd
    rw [← List.take_append_drop k s.queue, List.nodup_append] at h1
    exact h1.1
  obtain ⟨s2, b1, b2, b3, b4, b5, b6, b7, b8⟩ := acqAll_spec (s.queue.take k) s1 a2
    (by intro g hg; rw [a5]; exact hqn g (List.mem_of_mem_take hg))
    (by intro g hg; have := a8 g hg; exact ⟨this.1, by omega⟩)
    hndt (by rw [hlen, a4]; omega)
  refine ⟨s1, s2, a1, relSolo_length r k s.value s.queue, a3, a2, a4, a6, hlen, ?_, ?_, b1, ?_, b3, ?_, ?_⟩
  · intro g hg; have := a8 g hg; exact ⟨this.1, by omega⟩
  · intro g hg
    have hgq : g ∈ s.queue := List.mem_of_mem_drop hg
    have := a9 g (hrq g hgq) (hdisj g hg)
    rw [this.1, this.2]; exact ⟨hpark g hgq, rfl⟩
  · rw [acqAll_length, hlen]
  · rw [b7, a7, hlen]
  · rw [b4, a4, hlen]

/-! ## Non-vacuity -/

/-- three acquirers, one `release(3)`, one `try_acquire` -/
def prog3 : Nat → List Op :=
  fun t => if t < 3 then [.acq] else if t = 3 then [.rel 3] else if t = 4 then [.tryq] else []

/-- the three acquirers block, the `try_acquire` fails in between, one `release(3)` pops all three,
    they take their permits; every thread ends its program -/
def run3 : List Ev :=
  [.inv 0 .acq, .slAcq 0, .cvEnq 0 1 false, .slRel 0, .suspend 0,
   .inv 1 .acq, .slAcq 1, .cvEnq 1 2 false, .slRel 1, .suspend 1,
   .inv 2 .acq, .slAcq 2, .cvEnq 2 3 false, .slRel 2, .suspend 2,
   .inv 4 .tryq, .slAcq 4, .slRel 4, .ret 4 false, .done 4,
   .inv 3 (.rel 3), .slAcq 3, .add 3 3 3,
   .popResume 3 2 0 false, .slRel 3, .slAcq 3,
   .popResume 3 1 1 false, .slRel 3, .slAcq 3,
   .popResume 3 0 2 false, .slRel 3, .ret 3 false, .done 3,
   .woke 0, .slAcq 0, .cvWoke 0 false false, .take 0 2, .slRel 0, .ret 0 true, .done 0,
   .woke 1, .slAcq 1, .cvWoke 1 false false, .take 1 1, .slRel 1, .ret 1 true, .done 1,
   .woke 2, .slAcq 2, .cvWoke 2 false false, .take 2 0, .slRel 2, .ret 2 true, .done 2]

/-- the run is accepted, is maximal, ends with every thread finished, and respects the bound -/
example : ∃ p, runLog pstep (pinit 5 0 prog3) run3 = some p ∧ PStuck p ∧ (∀ t, t < 5 → p.s.pc t = .fin) ∧
    run3.length ≤ bound 5 prog3 := by
  refine ⟨_, rfl, ?_, by decide, by decide⟩
  apply pstuck_of_rest
  · rfl
  · intro t ht
    have ht' : t < 5 := ht
    left
    revert t
    decide

/-- the solo part of that run is literally `relSolo` followed by `acqAll` (so the hypotheses of
    `C08t_release_wakes` are satisfiable with `k = 3` and three parked acquirers) -/
example : relSolo 3 3 0 [0, 1, 2] ++ [.done 3] ++
    (acqSolo 0 3 ++ [.done 0] ++ (acqSolo 1 2 ++ [.done 1] ++ (acqSolo 2 1 ++ [.done 2]))) = run3.drop 21 := by
  rfl

/-- the hypotheses of `C08t_release_wakes` hold in the state of that run at which thread 3 has
    invoked `release(3)`: reachable, lock free, three acquirers parked on the queue -/
example : ∃ s, runLog step (init 5 0) (run3.take 21) = some s ∧ s.lock = none ∧
    s.pc 3 = .want (.rel 3) ∧ s.queue = [0, 1, 2] ∧ ∀ g, g ∈ s.queue → s.pc g = .susp false := by
  refine ⟨_, rfl, rfl, rfl, rfl, ?_⟩
  intro g hg
  have : g = 0 ∨ g = 1 ∨ g = 2 := by simpa [init] using hg
  rcases this with h | h | h <;> subst h <;> rfl

/-- the coverage hypothesis of `C08t_covered_all_return` holds for three acquirers and one
    `release(3)` (and fails, as it must, when the `try_acquire` competes: `prog3`) -/
example : (progCons 4 (fun t => if t < 3 then [.acq] else [.rel 3]) : Int) +
    progHazard 4 (fun t => if t < 3 then [.acq] else [.rel 3]) ≤
    0 + progRel 4 (fun t => if t < 3 then [.acq] else [.rel 3]) := by decide
example : ¬ ((progCons 5 prog3 : Int) + progHazard 5 prog3 ≤ 0 + progRel 5 prog3) := by decide

/-- why `progHazard` is needed: the one-thread program `acquire; release(1)` on an empty semaphore
    has "initial + releases ≥ acquires" and yet its only maximal run ends blocked — the release
    sits behind the acquire that needs it -/
def progBad : Nat → List Op := fun _ => [.acq, .rel 1]

example : ∃ p, runLog pstep (pinit 1 0 progBad)
      [.inv 0 .acq, .slAcq 0, .cvEnq 0 1 false, .slRel 0, .suspend 0] = some p ∧ PStuck p ∧
    Blocked p.s 0 ∧ (progCons 1 progBad : Int) ≤ 0 + progRel 1 progBad ∧ progHazard 1 progBad = 1 := by
  refine ⟨_, rfl, ?_, ?_, by decide, by decide⟩
  · apply pstuck_of_rest
    · rfl
    · intro t ht
      have : t = 0 := by simp [pinit, init] at ht; omega
      subst this
      right; simp [upd, init, pinit]
  · simp [Blocked, upd, init, pinit]

end PikaVerif.C08t

namespace PikaVerif.C08t
open PikaVerif PikaVerif.C08

/-! ## Sliding semaphore (model `PikaVerif.SSem`)

`signal(l)` notifies as many waiters as are queued at that moment; the queue never holds more than
`n` entries (`SSem.QLen`, `SSem.qlen_le`), so the potential of a `signal` is `15 n + 9` where `n` is
the number of threads: `SSem.rank` takes `n` as a parameter. -/

/-- **The measure decreases (sliding).**  In every reachable state, every accepted event that is
    not the invocation of a new operation strictly decreases `SSem.mu`; an invocation of `o` adds
    exactly the potential of `o` (`rank n (want o) - 1`). -/
theorem C08t_sliding_measure_decreases (n : Nat) (d l : Int) (log : List SSem.Ev) (s s' : SSem.St)
    (e : SSem.Ev) (h : runLog SSem.step (SSem.init n d l) log = some s) (he : SSem.step s e = some s') :
    (∀ t o, e = .inv t o → SSem.mu s' + 1 = SSem.mu s + SSem.rank s.n (.want o)) ∧
    ((∀ t o, e ≠ .inv t o) → SSem.mu s' < SSem.mu s) := by
  have hg : SSem.Good s := SSem.runLog_good h
  refine ⟨?_, fun hne => SSem.mu_step s s' e hg hne he⟩
  intro t o heq; subst heq; exact SSem.mu_inv s s' t o he

/-- **Bounded runs (sliding).**  Any accepted log of a finite program (`n` threads, `prog t` the
    operations of thread `t`) has at most `SSem.bound n prog` events (1 per thread + 11 per
    `wait` / `try_wait` + `15 n + 9` per `signal`) — whatever the interleaving. -/
theorem C08t_sliding_bounded (n : Nat) (d l : Int) (prog : Nat → List SSem.Op) (log : List SSem.Ev)
    (p : SSem.PSt) (h : runLog SSem.pstep (SSem.pinit n d l prog) log = some p) :
    log.length ≤ SSem.bound n prog := by
  have := (SSem.runLog_phi log _ p (SSem.good_init n d l) h).1
  rw [SSem.phi_pinit] at this
  omega

/-- An accepted log of a program is an accepted log of the model. -/
theorem C08t_sliding_program_refines (n : Nat) (d l : Int) (prog : Nat → List SSem.Op)
    (log : List SSem.Ev) (p : SSem.PSt) (h : runLog SSem.pstep (SSem.pinit n d l prog) log = some p) :
    runLog SSem.step (SSem.init n d l) log = some p.s :=
  SSem.runLog_pstep_step log _ p h

/-- **Maximal runs exist and are finite (sliding).** -/
theorem C08t_sliding_maximal_exists (n : Nat) (d l : Int) (prog : Nat → List SSem.Op)
    (log : List SSem.Ev) (p : SSem.PSt) (h : runLog SSem.pstep (SSem.pinit n d l prog) log = some p) :
    ∃ ext p', runLog SSem.pstep (SSem.pinit n d l prog) (log ++ ext) = some p' ∧ SSem.PStuck p' ∧
      (log ++ ext).length ≤ SSem.bound n prog := by
  have hr := (SSem.runLog_phi log _ p (SSem.good_init n d l) h).2
  obtain ⟨ext, p', hrun, hst⟩ := SSem.exists_maximal_from (SSem.phi p) p hr (Nat.le_refl _)
  have hfull : runLog SSem.pstep (SSem.pinit n d l prog) (log ++ ext) = some p' := by
    rw [runLog_append, h]; simpa using hrun
  exact ⟨ext, p', hfull, hst, C08t_sliding_bounded n d l prog _ p' hfull⟩

/-- **Final states (sliding).**  In the final state of a maximal run of a program every thread has
    finished its whole program, except threads parked in `wait(u)` without a wake-up token — and
    for such a thread the lower limit is still out of reach (`lower < u - max_difference`). -/
theorem C08t_sliding_final_state (n : Nat) (d l : Int) (prog : Nat → List SSem.Op)
    (log : List SSem.Ev) (p : SSem.PSt) (h : runLog SSem.pstep (SSem.pinit n d l prog) log = some p)
    (hs : SSem.PStuck p) :
    ∀ t, t < n → (p.s.pc t = .fin ∧ p.prog t = []) ∨
      (∃ u, SBlocked p.s t u ∧ p.s.lower < u - p.s.maxDiff) := by
  have hlog := SSem.runLog_pstep_step log _ p h
  have hreach : SReachable p.s := ⟨n, d, l, log, hlog⟩
  have hstuck : SStuck p.s := by
    intro e h1 h2
    have := hs e
    cases e <;> simp only [SSem.pstep] at this <;>
      first
      | (exact absurd rfl (h1 _ _))
      | (exact absurd rfl (h2 _))
      | (simpa using this)
  have hfin : SSem.FinOk p :=
    SSem.runLog_finOk log _ p (by intro t ht; simp [SSem.pinit, SSem.init] at ht) h
  have hn : p.s.n = n := SSem.runLog_n hlog
  intro t ht
  rcases C08_sliding_stuck_only_when_blocked p.s hreach hstuck t (by omega) with hi | hf | ⟨u, hb⟩
  · exfalso
    cases hp : p.prog t with
    | nil =>
      have := hs (.done t)
      simp [SSem.pstep, hp, SSem.step, hi, hn, ht] at this
    | cons o rest =>
      have := hs (.inv t o)
      simp [SSem.pstep, hp, SSem.step, hi, hn, ht] at this
  · exact Or.inl ⟨hf, hfin t hf⟩
  · exact Or.inr ⟨u, hb, C08_sliding_blocked_released p.s hreach hstuck t u hb⟩

/-- non-vacuity: a complete (maximal) run of the program "thread 0: `wait 5`, thread 1: `signal 4`"
    (`max_difference = 1`, `lower_limit = 0`) is accepted by `SSem.pstep`, including the final
    `done` events -/
example : (runLog SSem.pstep
    (SSem.pinit 2 1 0 (fun t => if t = 0 then [.wait 5] else if t = 1 then [.signal 4] else []))
    [.inv 0 (.wait 5), .slAcq 0, .cvEnq 0 1, .slRel 0, .suspend 0,
     .inv 1 (.signal 4), .slAcq 1, .sig 1 4 1, .popResume 1 0 0, .slRel 1, .ret 1 false,
     .woke 0, .slAcq 0, .cvWoke 0 false, .pass 0 5 4, .slRel 0, .ret 0 true,
     .done 0, .done 1]).isSome = true := by decide

end PikaVerif.C08t

namespace PikaVerif.C08t
open PikaVerif PikaVerif.C08


/-- **One `signal(l)` call wakes every queued waiter, with explicit step bounds (sliding).**
    In any reachable state where thread `r` has invoked `signal(l)`, the internal lock is free and
    the threads on the wait queue are parked in `wait`: the signaller running alone
    (`SSem.sigSolo`, at most `3 |queue| + 5` events) raises the lower limit to `max l lower`, pops
    and resumes every queued waiter (each gets its wake-up token) and returns.  Then any of the
    woken waiters `g` (of `wait(u)`), running alone for exactly 6 events, re-checks its condition
    against the new lower limit: if `u - max_difference ≤ max l lower` it returns `true`
    (`SSem.waitSoloPass`, last event `ret g true`), otherwise it queues itself again and parks
    (`SSem.waitSoloBlock`), with its wake-up token consumed. -/
theorem C08t_sliding_signal_wakes (s : SSem.St) (hr : SReachable s) (r : Nat) (l : Int) (hrn : r < s.n)
    (hl : s.lock = none) (hp : s.pc r = .want (.signal l))
    (hpark : ∀ g, g ∈ s.queue → ∃ u, s.pc g = .susp u false) :
    ∃ s1,
      runLog SSem.step s (SSem.sigSolo r l s.lower s.queue) = some s1 ∧
      (SSem.sigSolo r l s.lower s.queue).length ≤ 3 * s.queue.length + 5 ∧
      s1.pc r = .idle ∧ s1.lock = none ∧ s1.lower = max l s.lower ∧ s1.maxDiff = s.maxDiff ∧
      s1.queue = [] ∧
      (∀ g u, g ∈ s.queue → s.pc g = .susp u false → s1.pc g = .susp u true ∧ 0 < s1.tok g) ∧
      (∀ g u, g ∈ s.queue → s.pc g = .susp u false →
        (u - s.maxDiff ≤ max l s.lower →
          ∃ s2, runLog SSem.step s1 (SSem.waitSoloPass g u (max l s.lower)) = some s2 ∧
            (SSem.waitSoloPass g u (max l s.lower)).length = 6 ∧
            (SSem.waitSoloPass g u (max l s.lower)).getLast? = some (.ret g true) ∧
            s2.pc g = .idle ∧ s2.lock = none ∧ s2.queue = [] ∧ s2.lower = max l s.lower) ∧
        (¬ u - s.maxDiff ≤ max l s.lower →
          ∃ s2, runLog SSem.step s1 (SSem.waitSoloBlock g u 0) = some s2 ∧
            (SSem.waitSoloBlock g u 0).length = 6 ∧
            s2.pc g = .susp u false ∧ s2.tok g = s.tok g ∧ g ∈ s2.queue ∧ s2.queue = [g] ∧
            s2.lock = none ∧ s2.lower = max l s.lower)) := by
  obtain ⟨n, d, l0, log, hlog⟩ := hr
  obtain ⟨hi, _, _⟩ := SSem.inv_of_accepted hlog
  have hnd := hi.qNodup
  have hqn : ∀ g, g ∈ s.queue → g < s.n := by
    intro g hg
    have h1 := (hi.qIff g).1 hg
    by_cases hc : s.n ≤ g
    · rw [hi.outside g hc] at h1; simp [SSem.inQ] at h1
    · omega
  obtain ⟨s1, a1, a2, a3, a4, a5, a6, a7, a8, a9⟩ := SSem.sigSolo_spec r l s hl hrn hp hpark hnd
  refine ⟨s1, a1, SSem.sigSolo_length r l s.lower s.queue, a3, a2, a4, a5, a7, ?_, ?_⟩
  · intro g u hg hu
    have := a8 g u hg hu
    exact ⟨this.1, by omega⟩
  · intro g u hg hu
    obtain ⟨b1, b2⟩ := a8 g u hg hu
    have hgn : g < s1.n := by rw [a6]; exact hqn g hg
    refine ⟨?_, ?_⟩
    · intro hle
      have hs : SSem.sat s1 u = true := by simp [SSem.sat, a4, a5, hle]
      obtain ⟨s2, c1, c2, c3, c4, c5, c6, c7, c8, c9⟩ :=
        SSem.waitSoloPass_spec g u s1 a2 hgn b1 (by omega) hs
      rw [a4] at c1
      exact ⟨s2, c1, rfl, rfl, c3, c2, by rw [c7, a7], by rw [c4, a4]⟩
    · intro hnle
      have hs : SSem.sat s1 u = false := by simp [SSem.sat, a4, a5, hnle]
      obtain ⟨s2, c1, c2, c3, c4, c5, c6, c7, c8, c9⟩ :=
        SSem.waitSoloBlock_spec g u s1 a2 hgn b1 (by omega) hs
      simp only [a7, List.length_nil, List.nil_append] at c1 c7
      exact ⟨s2, c1, rfl, c3, by omega, by rw [c7]; simp, c7, c2, by rw [c4, a4]⟩

/-- **If every queued waiter is within distance of the new lower limit, one `signal(l)` returns
    them all.**  Same situation as above; if `u - max_difference ≤ max l lower` for every queued
    `wait(u)`, then the signaller's solo run followed by the solo runs of the woken waiters in queue
    order (`SSem.passAll` over the queue with each waiter's upper limit, `SSem.qU`; exactly
    `6 |queue|` events) is accepted and ends with the signaller and all former waiters returned,
    the queue empty and the lock free. -/
theorem C08t_sliding_signal_wakes_all (s : SSem.St) (hr : SReachable s) (r : Nat) (l : Int) (hrn : r < s.n)
    (hl : s.lock = none) (hp : s.pc r = .want (.signal l))
    (hpark : ∀ g, g ∈ s.queue → ∃ u, s.pc g = .susp u false)
    (hnear : ∀ g u, g ∈ s.queue → s.pc g = .susp u false → u - s.maxDiff ≤ max l s.lower) :
    ∃ s2,
      runLog SSem.step s (SSem.sigSolo r l s.lower s.queue ++ SSem.passAll (SSem.qU s) (max l s.lower)) = some s2 ∧
      (SSem.sigSolo r l s.lower s.queue ++ SSem.passAll (SSem.qU s) (max l s.lower)).length
        ≤ (3 * s.queue.length + 5) + 6 * s.queue.length ∧
      (SSem.passAll (SSem.qU s) (max l s.lower)).length = 6 * s.queue.length ∧
      s2.pc r = .idle ∧ (∀ g, g ∈ s.queue → s2.pc g = .idle) ∧
      s2.lock = none ∧ s2.queue = [] ∧ s2.lower = max l s.lower ∧ s2.maxDiff = s.maxDiff := by
  obtain ⟨n, d, l0, log, hlog⟩ := hr
  obtain ⟨hi, _, _⟩ := SSem.inv_of_accepted hlog
  have hnd := hi.qNodup
  have hqn : ∀ g, g ∈ s.queue → g < s.n := by
    intro g hg
    have h1 := (hi.qIff g).1 hg
    by_cases hc : s.n ≤ g
    · rw [hi.outside g hc] at h1; simp [SSem.inQ] at h1
    · omega
  have hrq : r ∉ s.queue := by
    intro hg; obtain ⟨u, hu⟩ := hpark r hg; rw [hp] at hu; simp at hu
  obtain ⟨s1, a1, a2, a3, a4, a5, a6, a7, a8, a9⟩ := SSem.sigSolo_spec r l s hl hrn hp hpark hnd
  obtain ⟨s2, b1, b2, b3, b4, b5, b6, b7, b8⟩ := SSem.passAll_spec (SSem.qU s) s1 a2
    (by intro p hpq
        have hg := SSem.mem_qU_queue s p hpq
        obtain ⟨u, hu⟩ := hpark p.1 hg
        have he := (SSem.mem_qU s p hpq u false hu).2
        obtain ⟨c1, c2⟩ := a8 p.1 u hg hu
        have hle := hnear p.1 u hg hu
        rw [he]
        exact ⟨by rw [a6]; exact hqn p.1 hg, c1, by omega, by simp [SSem.sat, a4, a5, hle]⟩)
    (by rw [SSem.qU_fst]; exact hnd)
  rw [a4] at b1
  have hlen : (SSem.passAll (SSem.qU s) (max l s.lower)).length = 6 * s.queue.length := by
    rw [SSem.passAll_length, SSem.qU_length]
  refine ⟨s2, ?_, ?_, hlen, ?_, ?_, b2, by rw [b7, a7], by rw [b4, a4], by rw [b5, a5]⟩
  · rw [runLog_append, a1]; simpa using b1
  · rw [List.length_append, hlen]
    have := SSem.sigSolo_length r l s.lower s.queue
    omega
  · rw [(b8 r (by rw [SSem.qU_fst]; exact hrq)).1]; exact a3
  · intro g hg
    have : (g, (SSem.ubound (s.pc g)).getD 0) ∈ SSem.qU s := by
      simp only [SSem.qU, List.mem_map]; exact ⟨g, hg, rfl⟩
    exact b3 _ this

/-- non-vacuity: three threads, `max_difference = 1`, `lower_limit = 0`; threads 0 and 1 park in
    `wait(5)` and `wait(9)`; thread 2 runs `signal(4)` alone (`SSem.sigSolo 2 4 0 [0, 1]`, 8
    events), then waiter 0 passes (`5 - 1 ≤ 4`) and waiter 1 blocks again (`9 - 1 > 4`). -/
example : (runLog SSem.step (SSem.init 3 1 0)
    ([.inv 0 (.wait 5), .slAcq 0, .cvEnq 0 1, .slRel 0, .suspend 0,
      .inv 1 (.wait 9), .slAcq 1, .cvEnq 1 2, .slRel 1, .suspend 1,
      .inv 2 (.signal 4)] ++
     SSem.sigSolo 2 4 0 [0, 1] ++ SSem.waitSoloPass 0 5 4 ++ SSem.waitSoloBlock 1 9 0)).isSome = true := by
  decide

example : SSem.sigSolo 2 4 0 [0, 1] =
    [.slAcq 2, .sig 2 4 2, .popResume 2 1 0, .slRel 2, .slAcq 2, .popResume 2 0 1, .slRel 2, .ret 2 false] := rfl

end PikaVerif.C08t

namespace PikaVerif.C08t
open PikaVerif PikaVerif.C08


/-- **Accounting of a blocked `wait` (sliding).**  If a maximal run of a program ends with thread
    `t0` parked in `wait(u)`, then that `wait(u)` is an operation of `t0`'s program, and the lower
    limit cannot have come within the configured distance `d` of `u`: neither the initial lower
    limit `l` nor any *unguarded* signal value of the program (a signal not sequenced behind a
    `wait` of its own thread — such a signal is executed in every maximal run) reaches `u - d`. -/
theorem C08t_sliding_blocked_accounting (n : Nat) (d l : Int) (prog : Nat → List SSem.Op)
    (log : List SSem.Ev) (p : SSem.PSt) (h : runLog SSem.pstep (SSem.pinit n d l prog) log = some p)
    (hs : SSem.PStuck p) (t0 : Nat) (ht0 : t0 < n) (u : Int) (hb : SBlocked p.s t0 u) :
    u ∈ SSem.waitVals (prog t0) ∧ l < u - d ∧
      ∀ t, t < n → ∀ x, x ∈ SSem.unguarded (prog t) → x < u - d := by
  obtain ⟨c1, c2, c3, c4⟩ := SSem.ucover_log d l prog (SSem.ucover_pinit n d l prog) h
  have hfin := C08t_sliding_final_state n d l prog log p h hs
  have hlow : p.s.lower < u - d := by
    rcases hfin t0 ht0 with ⟨hf, _⟩ | ⟨u', hb', hlt⟩
    · rw [hb.1] at hf; simp at hf
    · have e := hb'.1
      rw [hb.1] at e
      simp only [SSem.Pc.susp.injEq, and_true] at e
      subst e; rw [c1] at hlt; exact hlt
  refine ⟨?_, by omega, ?_⟩
  · apply c4 t0 u
    left; rw [hb.1]; simp [SSem.curWait]
  · intro t ht x hx
    have hpend : SSem.pendU p t = [] := by
      rcases hfin t ht with ⟨hf, hp⟩ | ⟨u', hb', _⟩
      · simp [SSem.pendU, hf, hp, SSem.inWait, SSem.curSig, SSem.unguarded]
      · simp [SSem.pendU, hb'.1, SSem.inWait]
    rcases c3 t x hx with hx' | hx'
    · omega
    · rw [hpend] at hx'; simp at hx'

/-- **Covered programs return (sliding): a task blocked in `wait(u)` proceeds once the signalled
    lower bound is within the configured distance.**  If for every `wait(u)` of the program the
    initial lower limit or some unguarded signal value of the program reaches `u - d`, then every
    maximal run ends with all threads finished and all operations returned. -/
theorem C08t_sliding_covered_all_return (n : Nat) (d l : Int) (prog : Nat → List SSem.Op)
    (log : List SSem.Ev) (p : SSem.PSt) (h : runLog SSem.pstep (SSem.pinit n d l prog) log = some p)
    (hs : SSem.PStuck p)
    (hcov : ∀ t0, t0 < n → ∀ u, u ∈ SSem.waitVals (prog t0) →
      u - d ≤ l ∨ ∃ t, t < n ∧ ∃ x, x ∈ SSem.unguarded (prog t) ∧ u - d ≤ x) :
    ∀ t, t < n → p.s.pc t = .fin ∧ p.prog t = [] := by
  intro t ht
  rcases C08t_sliding_final_state n d l prog log p h hs t ht with hf | ⟨u, hb, _⟩
  · exact hf
  · exfalso
    obtain ⟨a1, a2, a3⟩ := C08t_sliding_blocked_accounting n d l prog log p h hs t ht u hb
    rcases hcov t ht u a1 with hc | ⟨t', ht', x, hx, hc⟩
    · omega
    · have := a3 t' ht' x hx; omega

/-- non-vacuity: the program "thread 0: `wait 5`, thread 1: `signal 4`" with `max_difference = 1`,
    `lower_limit = 0` is covered: its only wait value is 5, and thread 1's unguarded signal value
    4 reaches `5 - 1` -/
example : SSem.waitVals [SSem.Op.wait 5] = [5] ∧ SSem.unguarded [SSem.Op.signal 4] = [4] ∧
    (5 : Int) - 1 ≤ 4 := by decide

example : ∀ t0, t0 < 2 → ∀ u,
    u ∈ SSem.waitVals ((fun t => if t = 0 then [SSem.Op.wait 5] else if t = 1 then [SSem.Op.signal 4] else []) t0) →
      u - 1 ≤ (0 : Int) ∨ ∃ t, t < 2 ∧ ∃ x,
        x ∈ SSem.unguarded ((fun t => if t = 0 then [SSem.Op.wait 5] else if t = 1 then [SSem.Op.signal 4] else []) t) ∧
        u - 1 ≤ x := by
  intro t0 ht0 u hu
  right
  refine ⟨1, by decide, 4, by decide, ?_⟩
  have h01 : t0 = 0 ∨ t0 = 1 := by omega
  rcases h01 with h0 | h0 <;> subst h0 <;> simp [SSem.waitVals] at hu
  subst hu; decide

/-- a signal behind a `wait` of the same thread is guarded: it does not count as cover (the
    one-thread program `wait 5; signal 9` blocks forever for `lower_limit = 0`, `max_difference = 1`) -/
example : SSem.unguarded [SSem.Op.wait 5, SSem.Op.signal 9] = [] := by decide

end PikaVerif.C08t

namespace PikaVerif.C08t
open PikaVerif PikaVerif.Sem PikaVerif.C08

/-! ## Termination modulo spinning on the internal lock

The model has no event for a failed attempt on the internal spinlock (the driver drops the
`sl.lock` / `ag.yield` lines of a spinning thread before the acceptor), so the bounds above bound
the real code's events *modulo* such spinning.  A spinning episode lasts only while another thread
holds the lock, and the holder is never blocked: -/

/-- **The lock holder releases the internal lock within three of its own events**, in every
    reachable state (so a thread spinning on the lock waits for at most three steps of one other
    thread). -/
theorem C08t_lock_released_within_three (s : St) (hr : Reachable s) (r : Nat) (hl : s.lock = some r) :
    ∃ log s', log.length ≤ 3 ∧ (∀ e, e ∈ log → actor e = r) ∧ runLog step s log = some s' ∧
      s'.lock = none := by
  obtain ⟨n, v, log, hv, hlog⟩ := hr
  obtain ⟨hi, hi2⟩ := inv2_of_accepted hlog
  exact holder_releases s hi hi2 r hl

end PikaVerif.C08t
