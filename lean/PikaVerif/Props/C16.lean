import PikaVerif.Lemmas.Config
/-!
# C16 — configuration precedence: command line over environment over defaults

Theorems about the model `PikaVerif.Config` (`Model/Config.lean`), which is built on the tables
`Gen/Settings.lean` regenerated from the pika sources on every run.  `resolveM m inp = .ok rep`
means: started on machine `m` with environment / argv `inp`, the runtime comes up and the entry
function observes the report `rep` (worker count, scheduling policy, stack size, configuration
entries, argv).  `Vm` is the view `handle_arguments` has of the parsed command line
(`opt` single-valued options, `multi` the composing ones) and of the environment.

This is decision logic: the theorems are short, and most of the assurance for C16 comes from the
differential run of the real process against this model (see `checks/C16.py`).

Where the pinned tree does not implement the property as stated, the model follows the tree; the
full statement is then false of the model, the provable part is named `…_partial` or restricted by
an explicit hypothesis, and the deviation is pinned down by a machine-checked witness
(`C16_defect_…`), each of which is also a corpus case replayed on the real code in every run.
-/
namespace PikaVerif.C16
open PikaVerif PikaVerif.Config PikaVerif.Gen.Settings

/-! ## the value selected by precedence, for every row of the generated table -/

/-- **Command line over `--pika:ini` over environment over default**, for every row
    (ini key, environment variable, default, command-line option) of the generated settings table:
    `rawValue` is the command-line value if the row's option was given; else the (first)
    `--pika:ini` definition of the key; else the value of the row's environment variable; else the
    built-in default. -/
theorem C16_cli_over_env_over_default (vm : Vm) (s : Setting) (hs : s ∈ settings)
    (hrt : cfgGet (vm.multi "pika:ini") s.key = none → vm.rt s.key = rtGet vm.env s.key) :
    (∀ o v, s.opt = some o → vm.opt o = some v → rawValue vm s = v) ∧
    (∀ v, s.opt.bind vm.opt = none → cfgGet (vm.multi "pika:ini") s.key = some v → rawValue vm s = v) ∧
    (∀ e v, s.opt.bind vm.opt = none → cfgGet (vm.multi "pika:ini") s.key = none → s.env = some e →
      vm.env e = some v → rawValue vm s = v) ∧
    (s.opt.bind vm.opt = none → cfgGet (vm.multi "pika:ini") s.key = none →
      (∀ e, s.env = some e → vm.env e = none) → rawValue vm s = s.dflt) := by
  refine ⟨?_, ?_, ?_, ?_⟩
  · intro o v ho hv
    simp [rawValue, ho, hv]
  · intro v hc hi
    simp [rawValue, hc, hi]
  · intro e v hc hi he hv
    simp [rawValue, hc, hi, hrt hi, rtGet_setting vm.env s hs, he, hv]
  · intro hc hi he
    simp only [rawValue, hc, hi, hrt hi, rtGet_setting vm.env s hs, Option.getD_none]
    cases hse : s.env with
    | none => rfl
    | some e => simp [he e hse]

/-- the hypothesis of `C16_cli_over_env_over_default` holds in both passes of `handle_arguments`:
    in the preliminary pass (`mkVm`) and in the second pass (`Vm.second`, after the ini definitions
    have been merged into `rtcfg_`) -/
theorem C16_both_passes_read_environment (occ env : List (String × String)) (k : String) :
    ((mkVm occ env).rt k = rtGet (mkVm occ env).env k) ∧
    (cfgGet ((mkVm occ env).second.multi "pika:ini") k = none →
      (mkVm occ env).second.rt k = rtGet (mkVm occ env).second.env k) :=
  ⟨rfl, fun h => rt_second (mkVm occ env) k h⟩

/-- `handle_scheduler` / `handle_affinity` (and every handler of the shape the translator calls
    "simple") return exactly the value selected by precedence. -/
theorem C16_string_settings_follow_precedence (vm : Vm) (s : Setting) (o : String)
    (ho : s.opt = some o) : handleStr vm o s.key = rawValue vm s := by
  simp only [handleStr, rawValue, ho, Option.bind_some]

/-- `handle_num_threads`: the worker count is the interpretation (`all`, `cores`, number) of the
    value selected by precedence - whichever source it came from - unless
    `pika.force_min_os_threads` is defined. -/
theorem C16_threads_follow_precedence (m : Machine) (vm : Vm) (um : Bool) (t : Nat) (s : Setting)
    (hk : s.key = "pika.os_threads") (ho : s.opt = some "pika:threads")
    (h : handleThreads m vm um = .ok t)
    (hmin : cfgGet (vm.multi "pika:ini") "pika.force_min_os_threads" = none) :
    keywordThreads m um (rawValue vm s) = .ok t := by
  unfold handleThreads at h
  simp only [bind_ok, check_ok, pure_ok, cfgNat, hmin] at h
  obtain ⟨dt, hdt, t0, ht0, t1, ht1, mt, hmt, _, _, hr⟩ := h
  subst hmt
  have ht : t = t1 := by rw [← hr]; exact Nat.max_self t1
  subst ht
  simp only [rawValue, ho, hk, Option.bind_some]
  cases hv : vm.opt "pika:threads" with
  | some v =>
    simp only [hv, bind_ok] at ht1
    obtain ⟨t', hkw, hz⟩ := ht1
    split at hz
    · simp [fail] at hz
    · simp only [pure_ok] at hz; subst hz; exact hkw
  | none =>
    simp only [hv, pure_ok] at ht1
    subst ht1
    cases hc : cfgGet (vm.multi "pika:ini") "pika.os_threads" with
    | none =>
      simp only [hc, pure_ok, Option.getD_none] at ht0 hdt ⊢
      subst ht0; exact hdt
    | some sv =>
      simp only [hc, Option.getD_some] at ht0 hdt ⊢
      have := keyword_natOr hdt
      rw [this] at ht0
      simp only [Except.ok.injEq] at ht0
      subst ht0; exact hdt

/-- numeric settings (`pu_step`, `pu_offset`): when the value selected by precedence is a
    well-formed number, it is the resolved value -/
theorem C16_numeric_settings_follow_precedence (vm : Vm) (s : Setting) (o : String) (d r : Option Nat)
    (n : Nat) (ho : s.opt = some o) (h : handleNat vm o s.key d = .ok r)
    (hn : parseNat (rawValue vm s) = .ok n) : r = some n := by
  unfold handleNat at h
  simp only [rawValue, ho, Option.bind_some] at hn
  cases hv : vm.opt o with
  | some v =>
    simp only [hv, bind_ok, pure_ok, natThrow] at h hn
    obtain ⟨k, hk, hr⟩ := h
    rw [hn] at hk
    simp only [pure_ok] at hk
    subst hk; exact hr.symm
  | none =>
    simp only [hv, cfgRtNat, bind_ok] at h hn
    obtain ⟨dn, hdn, h⟩ := h
    cases hc : cfgGet (vm.multi "pika:ini") s.key with
    | some sv =>
      simp only [hc, Option.getD_some] at h hn
      simp only [hn, pure_ok] at h
      exact h.symm
    | none =>
      simp only [hc, Option.getD_none, pure_ok] at h hn
      subst h
      split at hdn
      · rename_i he
        have : vm.rt s.key = "" := by simpa using he
        rw [this] at hn
        simp [parseNat] at hn
      · simp only [hn, pure_ok] at hdn
        exact hdn.symm

/-- `handle_num_cores` never looks at the environment: `PIKA_CORES` (and with it the default `all`
    of the ini line `cores = ${PIKA_CORES:all}`) has no effect on the resolved value. -/
theorem C16_env_cores_is_dead (m : Machine) (vm vm' : Vm) (um : Bool) (t : Nat)
    (hopt : vm.opt = vm'.opt) (hmulti : vm.multi = vm'.multi) :
    handleCores m vm um t = handleCores m vm' um t := by
  simp only [handleCores, hopt, hmulti]

/-! ## the resolved value is the one the running runtime uses -/

/-- End to end: in every successful start-up the running runtime uses the resolved values. -/
theorem C16_resolved_value_is_used (m : Machine) (inp : Input) (rep : Report)
    (h : resolveM m inp = .ok rep) :
    ∃ (pre : List String) (p : Parsed) (r : Resolved), parseStage inp = .ok (pre, p) ∧
      handleThreads m (mkVm p.occ inp.env).second r.useMask = .ok r.threads ∧
      cfgLookup rep.cfg "pika.os_threads" = natStr r.threads ∧
      rep.workers = workersOf m (cfgLookup rep.cfg "pika.bind") r.threads ∧
      cfgLookup rep.cfg "pika.scheduler" = handleStr (mkVm p.occ inp.env).second "pika:scheduler" "pika.scheduler" ∧
      schedulerPolicy (cfgLookup rep.cfg "pika.scheduler") = some rep.policy ∧
      cfgLookup rep.cfg "pika.affinity" = handleStr (mkVm p.occ inp.env).second "pika:affinity" "pika.affinity" ∧
      handleCores m (mkVm p.occ inp.env).second r.useMask r.threads = .ok r.cores ∧
      cfgLookup rep.cfg "pika.cores" = natStr r.cores := by
  obtain ⟨pre, p, r, cfg, h1, h2, h3⟩ := resolveM_ok h
  obtain ⟨_, r0, cfg0, _, hi, ha, hh, hc⟩ := configure_ok h2
  obtain ⟨hcfg, hw, hpol, _, _, _⟩ := startStage_ok h3
  obtain ⟨hs, haf, ht, hco, _, _, _, _⟩ := handleArguments_ok ha
  obtain ⟨e1, e2, e3, e4, e5, _, _, _⟩ := handleHp_ok hh
  refine ⟨pre, p, r, h1, ?_, ?_, ?_, ?_, ?_, ?_, ?_, ?_⟩
  · rw [e5, e1]; exact ht
  · rw [hcfg, hc, writeBack_threads]
  · rw [hw, hcfg]
  · rw [hcfg, hc, writeBack_scheduler, e2, hs]
  · rw [hcfg]; exact hpol
  · rw [hcfg, hc, writeBack_affinity, e3, haf]
  · rw [e5, e1, e4]; exact hco
  · rw [hcfg, hc, writeBack_cores]

/-- End to end, rows of the table without a command-line option (stack sizes, queue parameters, …):
    the runtime's value is the last `--pika:ini` definition, else the environment variable, else
    the built-in default. -/
theorem C16_plain_rows_end_to_end (m : Machine) (inp : Input) (rep : Report)
    (h : resolveM m inp = .ok rep) (s : Setting) (hs : s ∈ settings) (hk : s.key ∉ writtenKeys) :
    ∃ pre p, parseStage inp = .ok (pre, p) ∧
      cfgLookup rep.cfg s.key =
        (lastIni ((mkVm p.occ inp.env).multi "pika:ini") s.key).getD
          (match s.env with
           | some e => ((mkVm p.occ inp.env).env e).getD s.dflt
           | none => s.dflt) := by
  obtain ⟨pre, p, r, cfg, h1, h2, h3⟩ := resolveM_ok h
  obtain ⟨_, r0, cfg0, _, hi, _, _, hc⟩ := configure_ok h2
  obtain ⟨hcfg, _⟩ := startStage_ok h3
  refine ⟨pre, p, h1, ?_⟩
  rw [hcfg, hc, writeBack_other _ _ _ hk, applyInis_lookup _ _ _ s.key hi, cfgLookup_baseCfg _ s hs,
    rtGet_setting _ s hs]
  cases s.env <;> rfl

/-! ## invalid values and unknown options stop start-up -/

/-- a thread count of zero, or a malformed one, on the command line stops start-up -/
theorem C16_invalid_threads_is_error (m : Machine) (vm : Vm) (um : Bool) (v : String)
    (hv : vm.opt "pika:threads" = some v)
    (hbad : keywordThreads m um v = .ok 0 ∨ ∀ t, keywordThreads m um v ≠ .ok t) :
    ∀ t, handleThreads m vm um ≠ .ok t := by
  intro t h
  unfold handleThreads at h
  simp only [bind_ok, check_ok, pure_ok, hv] at h
  obtain ⟨_, _, _, _, t1, ht1, _⟩ := h
  obtain ⟨t', hkw, hz⟩ := ht1
  rcases hbad with h0 | hb
  · rw [h0] at hkw
    simp only [Except.ok.injEq] at hkw
    subst hkw
    simp [fail] at hz
  · exact hb t' hkw

/-- a malformed value of a numeric command-line option stops start-up (at `store`) -/
theorem C16_invalid_number_is_error (occ : List (String × String)) (n v : String)
    (hmem : (n, v) ∈ occ) (hk : kindOf n = .nat) (hbad : parseNat v = .bad) :
    ∀ seen, storeCheck seen occ ≠ .ok () := by
  induction occ with
  | nil => simp at hmem
  | cons a rest ih =>
    intro seen h
    obtain ⟨n', v'⟩ := a
    unfold storeCheck at h
    split at h
    · simp [fail] at h
    · simp only [bind_ok] at h
      obtain ⟨_, hvc, hrest⟩ := h
      cases hmem with
      | head =>
        simp [valueCheck, hk, hbad, fail] at hvc
      | tail _ hm => exact ih hm _ hrest

/-- a start-up that succeeds although some option was not recognised is only possible when
    unknown options were explicitly allowed (`pika.commandline.allow_unknown` ≠ 0) -/
theorem C16_unknown_option_is_error (m : Machine) (inp : Input) (rep : Report) (pre : List String)
    (p : Parsed) (h : resolveM m inp = .ok rep) (hp : parseStage inp = .ok (pre, p))
    (hu : p.unreg ≠ []) : cfgLookup rep.cfg "pika.commandline.allow_unknown" ≠ "0" := by
  obtain ⟨pre', p', r, cfg, h1, h2, h3⟩ := resolveM_ok h
  rw [hp] at h1
  simp only [Except.ok.injEq, Prod.mk.injEq] at h1
  obtain ⟨_, hpp⟩ := h1
  subst hpp
  obtain ⟨hcfg, _, _, _, hunk, _⟩ := startStage_ok h3
  rw [hcfg]
  intro h0
  have : p.unreg.isEmpty = false := by
    cases hl : p.unreg with
    | nil => exact absurd hl hu
    | cons a t => rfl
  simp [this, h0] at hunk

/-- an option whose name matches no declared option (exactly or as a unique prefix) is classified
    as unregistered, whatever it is - in particular every unknown `--pika:` option -/
theorem C16_unknown_is_unregistered (table : List OptRow) (acc : Parsed) (tok : String)
    (rest : List String) (body n : List Char) (adj : Option (List Char))
    (htok : tok.toList = '-' :: '-' :: body) (hb : body ≠ []) (hs : splitEq body = (n, adj))
    (hadj : adj ≠ some []) (hl : lookupOpt table (String.ofList n) = .none) :
    tokStep table acc tok rest =
      .ok ({ acc with unreg := acc.unreg ++ [tok], mixed := acc.mixed ++ [tok] }, rest) := by
  unfold tokStep
  simp only [htok]
  have : body.isEmpty = false := by cases body <;> simp_all
  simp only [this, hs]
  have h2 : (adj == some []) = false := by
    cases adj with
    | none => rfl
    | some l => cases l <;> simp_all
  simp [h2, hl, pure, Except.pure]

/-- an invalid thread count from *any* source (environment, ini, command line) stops start-up -/
theorem C16_invalid_thread_count_is_error (m : Machine) (vm : Vm) (um : Bool) (s : Setting)
    (hk : s.key = "pika.os_threads") (ho : s.opt = some "pika:threads")
    (hmin : cfgGet (vm.multi "pika:ini") "pika.force_min_os_threads" = none)
    (hbad : ∀ t, keywordThreads m um (rawValue vm s) ≠ .ok t) : ∀ t, handleThreads m vm um ≠ .ok t :=
  fun t h => hbad t (C16_threads_follow_precedence m vm um t s hk ho h hmin)

/-- **`C16_invalid_is_error` holds only in part.**  Full statement (false of the pinned tree):
    "every malformed value, from whichever source, stops start-up".  What holds: malformed values
    of command-line options (`C16_invalid_number_is_error`), invalid thread counts from every source
    (`C16_invalid_thread_count_is_error`), unknown scheduler names (`C16_resolved_value_is_used`:
    success implies a valid policy).  What fails: numeric settings read through
    `get_value<T>(key, default)` / `get_entry_as<T>(…, default)` - a malformed `PIKA_PU_STEP`,
    `PIKA_PU_OFFSET`, `PIKA_NUMA_SENSITIVE`, `pika.cores`, stack size … silently yields the default. -/
theorem C16_invalid_is_error_partial (vm : Vm) (k : String) (d : Option Nat) (e : String)
    (he : vm.rt k = e) (hne : e ≠ "") (hbad : parseNat e = .bad)
    (hini : cfgGet (vm.multi "pika:ini") k = none) : cfgRtNat vm k d = .ok d := by
  have : e.isEmpty = false := by
    cases h : e.isEmpty with
    | false => rfl
    | true => exact absurd (by simpa using h) hne
  simp [cfgRtNat, he, this, hbad, hini, bind, Except.bind, pure, Except.pure]

/-! ## non-pika arguments reach the application unchanged -/

/-- the entry function receives exactly the positional arguments, unchanged and in order, in every
    successful start-up in which unknown options are not allowed -/
theorem C16_passthrough_unchanged (m : Machine) (inp : Input) (rep : Report) (pre : List String)
    (p : Parsed) (h : resolveM m inp = .ok rep) (hp : parseStage inp = .ok (pre, p))
    (hallow : cfgLookup rep.cfg "pika.commandline.allow_unknown" = "0") : rep.argv = p.pos := by
  obtain ⟨pre', p', r, cfg, h1, h2, h3⟩ := resolveM_ok h
  rw [hp] at h1
  simp only [Except.ok.injEq, Prod.mk.injEq] at h1
  obtain ⟨_, hpp⟩ := h1
  subst hpp
  obtain ⟨hcfg, _, _, hargv, _, _⟩ := startStage_ok h3
  rw [hargv, ← hcfg, hallow]
  simp [entryArgv]

/-- Positional arguments are passed through unchanged and in order, wherever they stand between
    options given in the `--name=value` form. -/
theorem C16_passthrough_between_options (table : List OptRow) (args : List String) :
    ∀ (acc p : Parsed) (fuel : Nat), (∀ a ∈ args, isPositional a = true ∨ isAdjacentForm a = true) →
    tokenize table fuel acc args = .ok p → p.pos = acc.pos ++ args.filter isPositional := by
  induction args with
  | nil => intro acc p fuel _ h; cases fuel <;> simp [tokenize, pure, Except.pure] at h <;> simp [← h]
  | cons a t ih =>
    intro acc p fuel hall h
    cases fuel with
    | zero => simp [tokenize, unsup] at h
    | succ f =>
      simp only [tokenize, bind_ok] at h
      obtain ⟨⟨acc', rest'⟩, hstep, hrest⟩ := h
      rcases hall a (by simp) with hp | ha
      · rw [tokStep_positional table acc a t hp] at hstep
        simp only [Except.ok.injEq, Prod.mk.injEq] at hstep
        obtain ⟨e1, e2⟩ := hstep
        subst e1 e2
        have := ih _ p f (fun x hx => hall x (by simp [hx])) hrest
        simp [this, hp, List.append_assoc]
      · obtain ⟨e1, e2⟩ := tokStep_adjacent table acc acc' a t rest' ha hstep
        subst e1
        have hnp : isPositional a = false := by
          unfold isAdjacentForm at ha
          unfold isPositional
          split at ha
          · rename_i body hb; simp [hb]
          · simp at ha
        have := ih _ p f (fun x hx => hall x (by simp [hx])) hrest
        simp [this, e2, hnp]

/-! ## option order -/

/-- The order in which options appear on the command line is irrelevant for every single-valued
    option: if `occ'` is any reordering of the occurrences `occ`, every option that occurs at most
    once has the same value, and if additionally the relative order of the multi-valued options
    (`--pika:ini`, `--pika:bind`) is kept, the whole view of the command line is the same - hence
    so is everything computed from it. -/
theorem C16_option_order_irrelevant (occ occ' : List (String × String)) (env : List (String × String))
    (hperm : occ.Perm occ')
    (huniq : ∀ n, composing n = false → (occ.filter (fun p => p.1 == n)).length ≤ 1)
    (hmulti : ∀ n, composing n = true →
      occ.filter (fun p => p.1 == n) = occ'.filter (fun p => p.1 == n)) :
    mkVm occ env = mkVm occ' env := by
  have hfil : ∀ n, occ.filter (fun p => p.1 == n) = occ'.filter (fun p => p.1 == n) := by
    intro n
    cases hc : composing n with
    | true => exact hmulti n hc
    | false => exact perm_short_eq (hperm.filter _) (huniq n hc)
  have hfind : ∀ n, occ.find? (fun p => p.1 == n) = occ'.find? (fun p => p.1 == n) := by
    intro n
    rw [← List.head?_filter, ← List.head?_filter, hfil n]
  unfold mkVm
  congr 1
  · funext n; rw [hfind n]
  · funext n; rw [hfil n]

theorem C16_option_order_irrelevant_resolution (m : Machine) (occ occ' : List (String × String))
    (env : List (String × String)) (hperm : occ.Perm occ')
    (huniq : ∀ n, composing n = false → (occ.filter (fun p => p.1 == n)).length ≤ 1)
    (hmulti : ∀ n, composing n = true →
      occ.filter (fun p => p.1 == n) = occ'.filter (fun p => p.1 == n)) :
    configure m (mkVm occ env) = configure m (mkVm occ' env) := by
  rw [C16_option_order_irrelevant occ occ' env hperm huniq hmulti]

/-- the uniqueness hypothesis of `C16_option_order_irrelevant` is what `store` enforces -/
theorem C16_store_enforces_single_occurrence (occ : List (String × String))
    (h : storeCheck [] occ = .ok ()) (n : String) (hn : composing n = false) :
    (occ.filter (fun p => p.1 == n)).length ≤ 1 := (storeCheck_unique occ [] h n hn).1

/-! ## where the pinned tree deviates from the property: machine-checked witnesses -/

def isError (o : Outcome) (e : Err) : Bool := match o with | .error e' => e' == e | _ => false
def okWith (o : Outcome) (f : Report → Bool) : Bool := match o with | .ok r => f r | _ => false

/-- 8 PUs on 4 cores, no restricting process mask -/
def m84 : Machine := ⟨8, 4, 8, 4⟩

set_option maxRecDepth 100000 in
/-- A command-line option does **not** override the same option in `PIKA_COMMANDLINE_OPTIONS`:
    the two are concatenated and `store` rejects the second occurrence. -/
theorem C16_defect_prepend_option_conflicts :
    isError (resolve m84 ⟨[("PIKA_COMMANDLINE_OPTIONS", "--pika:threads=2")], ["--pika:threads=3"]⟩) .multiple = true := by rfl

set_option maxRecDepth 100000 in
/-- A `--pika:ini` definition in `PIKA_COMMANDLINE_OPTIONS` **wins over** the same definition on the
    command line for every key resolved through cfgmap (first insertion wins): 2 workers, not 3. -/
theorem C16_defect_prepend_ini_beats_command_line :
    okWith (resolve m84 ⟨[("PIKA_COMMANDLINE_OPTIONS", "--pika:ini=pika.os_threads=2")], ["--pika:ini=pika.os_threads=3"]⟩)
      (fun r => r.workers == 2 && cfgLookup r.cfg "pika.os_threads" == "2") = true := by rfl

set_option maxRecDepth 100000 in
/-- `PIKA_CORES` is dead: with `PIKA_CORES=2` and 4 threads the runtime uses `pika.cores=4`
    (general form: `C16_env_cores_is_dead`). -/
theorem C16_defect_env_cores_ignored :
    okWith (resolve m84 ⟨[("PIKA_CORES", "2")], ["--pika:threads=4"]⟩)
      (fun r => cfgLookup r.cfg "pika.cores" == "4") = true := by rfl

set_option maxRecDepth 100000 in
/-- A malformed number in the environment is ignored instead of stopping start-up. -/
theorem C16_defect_invalid_env_number_ignored :
    okWith (resolve m84 ⟨[("PIKA_PU_STEP", "abc")], []⟩)
      (fun r => cfgLookup r.cfg "pika.pu_step" == "1" && r.workers == 4) = true := by rfl

set_option maxRecDepth 100000 in
/-- With `--pika:bind=none` the configured thread count is not the one used when it exceeds the
    number of PUs: `pika.os_threads` says 9, 8 workers run. -/
theorem C16_defect_bind_none_caps_workers :
    okWith (resolve m84 ⟨[], ["--pika:bind=none", "--pika:threads=9"]⟩)
      (fun r => r.workers == 8 && cfgLookup r.cfg "pika.os_threads" == "9") = true := by rfl

set_option maxRecDepth 100000 in
/-- Regression for a defect of the pinned tree repaired on branch hooks-C16 (`fix:` commit, see
    findings/C16-late-reparse-pinned-tree.json): `PIKA_COMMANDLINE_OPTIONS` ending in a numeric option
    no longer makes start-up fail when the real command line has arguments (the late re-parse used to
    glue the two: `--pika:pu-offset=0input.dat`). -/
theorem C16_fixed_late_reparse :
    okWith (resolve m84 ⟨[("PIKA_COMMANDLINE_OPTIONS", "--pika:pu-offset=0")], ["input.dat"]⟩)
      (fun r => r.argv == ["input.dat"] && r.workers == 4) = true := by rfl


/-! ## C16f: quoting of the arguments on their way through the configuration registry

The entry function `f(int, char**)` does not receive the process' argv: `init_helper` rebuilds it from
the string `pika.reconstructed_cmd_line`, and the late command-line handling re-reads
`pika.commandline.options`.  Both strings are split with `split_unix`.  In the pinned tree the writers do
not escape what the reader interprets (witnesses below, found by the monitors of checks/C16.py and
repaired on hooks-C16f); for the repaired writers the round trip is the identity for **every** argument. -/

/-- **Non-pika arguments reach the entry function unchanged** (repaired tree), for every list of
    non-empty positional arguments whatever characters they contain (quotes, backslashes, blanks, `=`):
    the positional part of the reconstructed command line, split by `split_unix` and filtered by
    `init_helper`, is the list of arguments itself. -/
theorem C16_positional_roundtrip (pos : List String) (hne : pos ≠ []) :
    entryArgvVia embedNew pos = some pos := by
  have hw : ∀ a : List Char, ((escQ a).any isSepC) = true ∨ a.any isSepC = false := by
    intro a
    rw [any_escQ_sep]
    cases a.any isSepC <;> simp
  have hne' : pos.map (·.toList) ≠ [] := by
    cases pos with
    | nil => exact absurd rfl hne
    | cons a t => simp
  have h := splitU_joinWith posPrefix posPrefix_plain (fun a => (escQ a).any isSepC) hw (pos.map (·.toList)) hne'
  have he : (fun a => wrapIf ((escQ a).any isSepC) (escQ a)) = embedNew := rfl
  rw [he] at h
  unfold entryArgvVia splitUnix
  rw [h]
  simp only [Option.map_some]
  rw [filter_nonempty_prefixed, helperArgs_positional, List.map_map]
  have hid : (String.ofList ∘ fun x : String => x.toList) = id := by
    funext x; simp [String.ofList_toList]
  rw [hid, List.map_id]

/-- The late command-line handling of the repaired tree never fails on the quoting of an argument: the
    arguments written by `encode_and_enquote` are read back unchanged by `split_unix` (so `pika::init`
    cannot return -1 because of a backslash or a quote character in an argument). -/
theorem C16_late_reparse_total (args : List String) (hne : args ≠ []) :
    ∃ ts, lateReparse encodeNew args = some ts ∧ ts = args.filter (fun a => !a.toList.isEmpty) := by
  have hw : ∀ a : List Char, ((escQ a).any (fun c => isSepC c || c == '"')) = true ∨ a.any isSepC = false := by
    intro a
    cases h : a.any isSepC with
    | false => exact Or.inr rfl
    | true =>
      left
      have : (escQ a).any isSepC = true := by rw [any_escQ_sep]; exact h
      exact any_or_left _ _ _ this
  have hne' : args.map (·.toList) ≠ [] := by
    cases args with
    | nil => exact absurd rfl hne
    | cons a t => simp
  have h := splitU_joinWith [] (by simp) (fun a => (escQ a).any (fun c => isSepC c || c == '"')) hw
    (args.map (·.toList)) hne'
  have he : (fun a => wrapIf ((escQ a).any (fun c => isSepC c || c == '"')) (escQ a)) = encodeNew := rfl
  rw [he] at h
  refine ⟨_, ?_, rfl⟩
  simp only [lateReparse, splitUnix, h, Option.map_some, List.nil_append, List.map_id']
  congr 1
  induction args with
  | nil => rfl
  | cons a t ih =>
    have iht : ∀ (l : List String), List.map String.ofList (List.filter (fun t => !t.isEmpty) (List.map (fun x => x.toList) l))
        = List.filter (fun a => !a.toList.isEmpty) l := by
      intro l
      induction l with
      | nil => rfl
      | cons b r ihr =>
        simp only [List.map_cons, List.filter_cons]
        split <;> simp_all [String.ofList_toList]
    exact iht (a :: t)

set_option maxRecDepth 100000 in
/-- Pinned tree: a positional argument containing a double quote does **not** reach the entry function
    unchanged - `prog 'a"b' tail` calls the entry function with the single argument
    `ab --pika:positional=tail` (replayed on the real code: findings/C16-positional-quote-mangled.json). -/
theorem C16_defect_positional_quote_mangled :
    entryArgvVia embedOld ["a\"b", "tail"] = some ["ab --pika:positional=tail"] := by decide

set_option maxRecDepth 100000 in
/-- Pinned tree: a backslash in any argument makes the late command-line handling throw
    (`unknown escape sequence`): `prog 'e\f'` makes `pika::init` return -1 without calling the entry
    function (findings/C16-positional-backslash-refused.json). -/
theorem C16_defect_backslash_stops_startup : lateReparse encodeOld ["e\\f"] = none := by decide

/-! ## non-vacuity -/

set_option maxRecDepth 100000 in
/-- a start-up in which all four sources compete for the thread count succeeds with the
    command-line value -/
example : okWith (resolve m84 ⟨[("PIKA_THREADS", "3")], ["--pika:ini=pika.os_threads=2", "--pika:threads=5", "in.dat"]⟩)
    (fun r => r.workers == 5 && r.argv == ["in.dat"]) = true := by rfl

end PikaVerif.C16
