import PikaVerif.Model.Config
namespace PikaVerif.C16
open PikaVerif PikaVerif.Config PikaVerif.Gen.Settings

/-- placeholder while the tie is brought up -/
theorem C16_handleStr_cli (vm : Vm) (o k v : String) (h : vm.opt o = some v) : handleStr vm o k = v := by
  simp [handleStr, h]

end PikaVerif.C16
