import PikaVerif.Lemmas.BarrierU19
/-!
# C09u (barrier part, coarse model) — termination measure and final states of barrier programs

Model: `PikaVerif.Barrier` (`Model/Barrier.lean`, unchanged).  Program layer (`Lemmas/BarrierU3`):
`PSt` = model state + one finite operation list per thread; `pstep` = `step`, except that
`inv t o` must be (and consumes) the head of thread `t`'s list and `done t` needs an empty list.
`pinit n N prog` = `n` threads on a barrier constructed with expected count `N`.

Program classes: `awProg P` (every thread: `P` × `arrive_and_wait`) and `awdProg P d` (every
thread: `P` × `arrive_and_wait`, then `arrive_and_drop` for the threads with `d t = true`).

**Stutter.**  Exactly one kind of event can repeat without changing the state: `poll t tok seen`
with `seen = tok` (`isStutter`): an iteration of the wait loop that finds the phase byte equal to
the token.  **Miss.**  `cas … (.miss v)` / `cas2 … (.miss v)` (`isMiss`): the ticket CAS found the
node full and the search goes to the next node (`++current`, cyclic).  A miss is *not* a stutter
(the cursor moves), but no rank of the program counter can pay for it (the cursor is cyclic and
`start` may put it anywhere), so the termination statement is: every event that is neither a
stutter nor a miss strictly decreases the measure `phi`, a miss never raises it by more than `1`
(`cas2` miss: the preceding `seen` had paid `1`; `cas` miss: `0`), and the log length is bounded
by `phi(initial) + stutters + 2·misses`.

**Misses are bounded (follow-up).**  Instrumented layer (`Lemmas/BarrierU13`): `GSt` = `PSt` + two
ghosts per thread, `st` (cursor at which the thread entered its current round) and `w` (the cursor
has wrapped from `e` to `0` in this round); `gstep` accepts exactly what `pstep` accepts
(`runLog_pstep_gstep` / `runLog_gstep_pstep`: same logs, same program states).  Sweep invariant `SW`
(`sw_step`): the nodes a searching thread has passed since it entered the round are full for the
current phase (a full ticket stays full within a phase, `step_tkMono`), and by
`C09B_slot_available` the round is never completely full, so the cursor never comes back to `st`.
Measure `phi2` = rank of the pc (`5·m` per remaining round) + `2·bud` (`bud` = distance the cursor
can still travel in this round, `≤ 2e`) + potential of the operations not yet started: it strictly
decreases with **every** accepted event that is not the poll stutter, misses included
(`C09u_barrier_measure_full`).  Hence `C09u_barrier_length`: `log.length ≤ boundG N P + stutters log`
with `boundG N P = N·(P·(6N+14) + 6N+15) + N` — quadratic in `N`, linear in `P` (the number of
misses really is quadratic in `N` per phase when all threads start at node 0, so a bound
`c·N·P + c'` is not to be expected; that lower bound is an observation, not a theorem here) —
`C09u_barrier_misses_bounded`, and `C09u_barrier_maximal_exists`: every accepted log extends by
non-stutter events to a maximal state.  The earlier `_partial` theorems (bounds modulo misses, with
the smaller constant `3N`) are kept.

What is *not* proved: a bound linear in `N·P` for the events that are not misses (the ranks charge
every arrival for all halvings of `m`; the true count of non-miss events is linear in `N·P`).
-/
namespace PikaVerif.C09uBarrier
open PikaVerif PikaVerif.Barrier PikaVerif.C09Barrier

/-! ## (a) stutter, measure, bound -/

/-- **The stutter leaves the whole program state unchanged** (so it can repeat for ever and no
    measure can decrease with it). -/
theorem C09u_barrier_stutter_unchanged (p p' : PSt) (e : Ev) (hst : isStutter e = true)
    (h : pstep p e = some p') : p' = p := by
  have hs := pstep_step p p' e h
  have hp := pstep_prog p p' e (by cases e <;> simp [isStutter] at hst; rfl) h
  have := stutter_id _ _ _ hst hs
  cases p; cases p'; simp_all

/-- **The stutter is enabled exactly for a waiter whose phase byte still equals its token**, and
    then it is accepted again after itself: for a thread in `wait` with `phase = tok` the only
    accepted poll is the stutter. -/
theorem C09u_barrier_stutter_enabled (s : St) (t : Nat) (ht : t < s.n) (hpc : s.pc t = .polling) :
    (s.phase = s.tok t → step s (.poll t (s.tok t) s.phase) = some s ∧ isStutter (.poll t (s.tok t) s.phase) = true) ∧
    (s.phase ≠ s.tok t → ∀ tok seen s', step s (.poll t tok seen) = some s' → isStutter (.poll t tok seen) = false) := by
  refine ⟨fun h => ?_, fun h tok seen s' hs => ?_⟩
  · have hst : isStutter (.poll t (s.tok t) s.phase) = true := by simp [isStutter, h]
    have hacc : ∃ s', step s (.poll t (s.tok t) s.phase) = some s' := by simp [step, ht, hpc]
    obtain ⟨s', hs'⟩ := hacc
    have := stutter_id _ _ _ hst hs'
    subst this
    exact ⟨hs', hst⟩
  · simp only [step] at hs
    split at hs
    · rename_i hg; simp only [isStutter, decide_eq_false_iff_not]; rw [hg.2.2.1, hg.2.2.2]; exact h
    · simp at hs

/-- **The stutter is the only one**: in a reachable state every accepted event that is not the
    stutter changes the state (for a miss: the cursor really moves — on a one-node round a miss
    would leave `cur` where it was, but there the search always finds its slot,
    `C09B_slot_available`). -/
theorem C09u_barrier_only_stutter (s s' : St) (e : Ev) (hr : Reachable s) (hst : isStutter e = false)
    (h : step s e = some s') : s' ≠ s :=
  nonstutter_moves s s' e hr hst h

/-- **Measure.**  `phi B` (`B` ≥ `expected`; rank of the program counters — `3·m` per remaining
    tournament round — plus the potential of the operations not yet started): every accepted
    event of a program that is neither the stutter nor a miss strictly decreases it (in
    particular changes the state); a miss raises it by at most `1` and only if it is a `cas2`
    miss. -/
theorem C09u_barrier_measure (B : Nat) (p p' : PSt) (e : Ev) (hB : p.s.expected ≤ B)
    (h : pstep p e = some p') :
    (isStutter e = false → isMiss e = false → phi B p' < phi B p) ∧
    (isMiss e = true → phi B p' ≤ phi B p + (if isMiss2 e then 1 else 0)) :=
  ⟨(phi_step B p p' e hB h).1, (phi_step B p p' e hB h).2.2⟩

/-- **Termination modulo stutters and misses, explicit bound** (`_partial`: bounds modulo the misses,
    with the smaller constants; the unconditional statement is `C09u_barrier_length` below).
    For `N` threads on a barrier of `N`, each doing `P` × `arrive_and_wait` and then optionally
    `arrive_and_drop`, every accepted log has at most
    `boundAwd N P = N·(P·(3N+12) + 3N+13) + N` events that are neither stutters nor misses, plus
    one per `cas2` miss (`misses2`: the `seen` that led to the failed second CAS is repeated), and
    its length is at most that bound plus the stutters plus twice the misses.  Without drops the
    bound is `boundAw N P = N·P·(3N+12) + N`.
    (The term `3N` per operation is the rank `3·m` of a thread at the bottom of the tree; the true
    number of non-miss events is linear in `N·P`, the rank used here is not sharp.) -/
theorem C09u_barrier_length_partial (N P : Nat) (d : Nat → Bool) (log : List Ev) (p : PSt)
    (h : runLog pstep (pinit N N (awdProg P d)) log = some p) :
    progress log ≤ boundAwd N P + misses2 log ∧ misses2 log ≤ misses log ∧
    log.length ≤ boundAwd N P + stutters log + 2 * misses log := by
  have h1 := runLog_phi N log _ p (Nat.le_refl N) h
  have h2 := phi_awd N P d
  have h3 := misses2_le log
  have h4 := length_split log
  omega

theorem C09u_barrier_length_aw_partial (N P : Nat) (log : List Ev) (p : PSt)
    (h : runLog pstep (pinit N N (awProg P)) log = some p) :
    progress log ≤ boundAw N P + misses2 log ∧ misses2 log ≤ misses log ∧
    log.length ≤ boundAw N P + stutters log + 2 * misses log := by
  have h1 := runLog_phi N log _ p (Nat.le_refl N) h
  have h2 := phi_aw N P
  have h3 := misses2_le log
  have h4 := length_split log
  omega

/-! ## (a') unconditional termination modulo the poll stutter -/

/-- **Measure, full strength.**  On the instrumented layer (same accepted logs as the program
    layer) every accepted event that is not the poll stutter — a CAS miss included — strictly
    decreases `phi2 B`, in every state that satisfies the run invariants `GInv B` (reachable, sweep
    invariant, `expected ≤ B`), and the invariants are preserved. -/
theorem C09u_barrier_measure_full (B : Nat) (g g' : GSt) (e : Ev) (hi : GInv B g)
    (h : gstep g e = some g') :
    GInv B g' ∧ (isStutter e = false → phi2 B g' < phi2 B g) ∧ (isStutter e = true → g' = g) :=
  ⟨ginv_step B g g' e hi h, fun hst => phi2_step B g g' e hi.r hi.sw hi.b h hst,
   fun hst => gstep_stutter g g' e hst h⟩

/-- the instrumented layer accepts exactly the logs of the program layer, with the same program
    states (so bounds on `gstep` logs are bounds on `pstep` logs) -/
theorem C09u_barrier_instrumented_same (g : GSt) (log : List Ev) (p' : PSt) :
    runLog pstep g.p log = some p' ↔ ∃ g', runLog gstep g log = some g' ∧ g'.p = p' :=
  ⟨runLog_pstep_gstep log g p', fun ⟨g', h1, h2⟩ => h2 ▸ runLog_gstep_pstep log g g' h1⟩

/-- **Termination modulo the poll stutter only, explicit bound.**  `N` threads on a barrier of
    `N`, each `P` × `arrive_and_wait` and then optionally `arrive_and_drop`: every accepted log has
    at most `boundG N P = N·(P·(6N+14) + 6N+15) + N` events that are not poll stutters.
    Quadratic in `N`, linear in `P`. -/
theorem C09u_barrier_length (N P : Nat) (d : Nat → Bool) (log : List Ev) (p : PSt)
    (h : runLog pstep (pinit N N (awdProg P d)) log = some p) :
    log.length ≤ boundG N P + stutters log :=
  length_bound N P d log p h

/-- **The misses are bounded**: the CAS misses of a log, together with all its other non-stutter
    events, number at most `boundG N P`. -/
theorem C09u_barrier_misses_bounded (N P : Nat) (d : Nat → Bool) (log : List Ev) (p : PSt)
    (h : runLog pstep (pinit N N (awdProg P d)) log = some p) :
    misses log ≤ boundG N P ∧ progress log + misses log ≤ boundG N P := by
  have h1 := length_bound N P d log p h
  have h2 := length_split log
  omega

theorem awProg_eq (P : Nat) : awProg P = awdProg P (fun _ => false) := by
  funext t; simp [awProg, awdProg]

/-- the same for the program without drops -/
theorem C09u_barrier_length_aw (N P : Nat) (log : List Ev) (p : PSt)
    (h : runLog pstep (pinit N N (awProg P)) log = some p) :
    log.length ≤ boundG N P + stutters log ∧ misses log ≤ boundG N P := by
  rw [awProg_eq] at h
  exact ⟨length_bound N P _ log p h, (C09u_barrier_misses_bounded N P _ log p h).1⟩

/-- **Maximal runs exist**: every accepted log of these programs can be extended, by events that
    are not stutters, to a maximal state (to which the final-state theorems below apply). -/
theorem C09u_barrier_maximal_exists (N P : Nat) (d : Nat → Bool) (log : List Ev) (p : PSt)
    (h : runLog pstep (pinit N N (awdProg P d)) log = some p) :
    ∃ ext p', runLog pstep (pinit N N (awdProg P d)) (log ++ ext) = some p' ∧ Maximal p' ∧ stutters ext = 0 :=
  maximal_exists N P d log p h

/-! ## (b) final states of maximal runs -/

/-- **Every maximal run of `N` threads × `P` `arrive_and_wait` completes all `P` phases**, for
    every `N` and every `P` (no restriction to `P < 128`: the lock-step invariant `InvU` shows
    that a waiter's token is at most one phase old, so the wrap of the `uint8` phase byte cannot
    confuse it).  `Maximal p`: the program layer accepts nothing but stutters in `p` (no miss
    either).  Then every thread has ended (`fin`) with an empty operation list, no last arriver
    is pending, and — if there is at least one thread — exactly `P` phases were published, with
    exactly `P` `true` returns of `base.arrive` and exactly `P` calls of the completion function
    in the log (state counters and log counters). -/
theorem C09u_barrier_final_states (N P : Nat) (log : List Ev) (p : PSt)
    (h : runLog pstep (pinit N N (awProg P)) log = some p) (hm : Maximal p) :
    (∀ t, t < N → p.s.pc t = .fin ∧ p.prog t = []) ∧ p.s.win = none ∧
    (1 ≤ N → p.s.ph = P ∧ p.s.compls = P ∧ p.s.wins = P ∧
      publishes log = P ∧ complCalls log = P ∧ lasts log = P ∧ p.s.phase = (2 * P) % 256) := by
  have hs := runLog_pstep_step log _ p h
  have hr : Reachable p.s := ⟨N, N, log, hs⟩
  have hall := allU_run N P log p h
  obtain ⟨h1, h2, h3⟩ := maximal_final N P p hr hall hm
  refine ⟨h1, h3, fun hN => ?_⟩
  have hph := h2 hN
  obtain ⟨_, _, hc, hw⟩ := hall.b.noWin h3
  have hcl := counters_log log _ p.s hs
  simp only [pinit, init, Nat.zero_add] at hcl
  have := hall.b.phaseEq
  refine ⟨hph, by omega, by omega, by omega, by omega, by omega, by rw [this, hph]⟩

/-- **A waiter's token is at most one phase old** in every reachable state of these programs
    (`awdProg`, in particular `awProg` = no thread drops), so the comparison of the `uint8` phase
    byte with the token decides exactly whether the waiter's phase is complete — for every number
    of phases, beyond the wrap of the byte: `phase = tok t ↔ tokIdx t = ph`. -/
theorem C09u_barrier_token_fresh (N P : Nat) (d : Nat → Bool) (log : List Ev) (p : PSt)
    (h : runLog pstep (pinit N N (awdProg P d)) log = some p) (t : Nat) (ht : t < N)
    (hpc : p.s.pc t = .polling) :
    p.s.tokIdx t ≤ p.s.ph ∧ p.s.ph ≤ p.s.tokIdx t + 1 ∧ (p.s.phase = p.s.tok t ↔ p.s.tokIdx t = p.s.ph) := by
  have hall := allD_run N P d log p h
  have h1 := hall.u.pcs t ht
  rw [hpc] at h1; simp only [PcD] at h1
  have h2 := hall.b.tokIdxOk t
  have h3 := hall.b.phaseEq
  have h4 := hall.u.lo t ht
  refine ⟨h2.2, by omega, ?_⟩
  rw [h2.1, h3]
  constructor
  · intro he; omega
  · intro he; rw [he]

/-- **Final states with `arrive_and_drop` at the end** (`awdProg P d`: every thread `P` ×
    `arrive_and_wait`, the threads with `d t = true` then drop), for every `N`, `P`, `d`: in every
    maximal state every thread has ended with an empty list (a dropper does not wait), no last
    arriver is pending, and the number of completed phases is `P + min_t dn d t` — exactly `P` if
    some thread does not drop (the droppers' last arrivals stay in an incomplete phase), exactly
    `P + 1` if all drop — with exactly one `true` return of `base.arrive` and one completion call
    per completed phase. -/
theorem C09u_barrier_final_states_drop (N P : Nat) (d : Nat → Bool) (log : List Ev) (p : PSt)
    (h : runLog pstep (pinit N N (awdProg P d)) log = some p) (hm : Maximal p) :
    (∀ t, t < N → p.s.pc t = .fin ∧ p.prog t = []) ∧ p.s.win = none ∧
    p.s.compls = p.s.ph ∧ p.s.wins = p.s.ph ∧
    publishes log = p.s.ph ∧ complCalls log = p.s.ph ∧ lasts log = p.s.ph ∧
    p.s.phase = (2 * p.s.ph) % 256 ∧
    (1 ≤ N → ((∃ t, t < N ∧ d t = false) → p.s.ph = P) ∧ ((∀ t, t < N → d t = true) → p.s.ph = P + 1)) := by
  have hs := runLog_pstep_step log _ p h
  have hr : Reachable p.s := ⟨N, N, log, hs⟩
  have hall := allD_run N P d log p h
  obtain ⟨h1, h2, h3⟩ := maximal_final_d N P d p hr hall hm
  obtain ⟨_, _, hc, hw⟩ := hall.b.noWin h2
  have hcl := counters_log log _ p.s hs
  simp only [pinit, init, Nat.zero_add] at hcl
  refine ⟨h1, h2, hc, hw, by omega, by omega, by omega, hall.b.phaseEq, fun hN => ?_⟩
  obtain ⟨hle, u, hu, hph⟩ := h3 hN
  refine ⟨fun ⟨t, ht, hdt⟩ => ?_, fun hd => ?_⟩
  · have := hle t ht
    simp only [dn, hdt] at this
    have : dn d u ≤ 1 := by unfold dn; split <;> omega
    simp only [dn] at hph ⊢
    split at hph <;> simp at * <;> omega
  · simp only [dn, hd u hu, if_true] at hph; exact hph

/-! ## Non-vacuity -/

/-- two threads, two phases, with a stutter (`poll 0 0 0`), a `seen` + second CAS, the last
    arriver, and the release of both waiters; the final state has all threads ended -/
def twoLog : List Ev :=
  [.inv 0 .aw, .load 0 0 2, .start 0 0, .cas 0 0 0 .half, .poll 0 0 0, .poll 0 0 0,
   .inv 1 .aw, .load 1 0 2, .start 1 0, .cas 1 0 0 .seen, .cas2 1 0 0 .up, .last 1 0 2, .compl 1,
   .publish 1 2 2, .poll 1 0 2, .ret 1, .poll 0 0 2, .ret 0,
   .inv 0 .aw, .load 0 2 2, .start 0 0, .cas 0 0 0 .half,
   .inv 1 .aw, .load 1 2 2, .start 1 0, .cas 1 0 0 .seen, .cas2 1 0 0 .up, .last 1 2 2, .compl 1,
   .publish 1 4 2, .poll 1 2 4, .ret 1, .poll 0 2 4, .ret 0, .done 0, .done 1]

example : ((runLog pstep (pinit 2 2 (awProg 2)) twoLog).map
    (fun p => (p.s.ph, decide (p.s.pc 0 = .fin), decide (p.s.pc 1 = .fin)))) = some (2, true, true) := by
  decide

example : stutters twoLog = 2 ∧ misses twoLog = 0 ∧ progress twoLog = 34 ∧ boundAw 2 2 = 74 := by decide

example : boundG 2 2 = 2 * (2 * 26 + 27) + 2 ∧ twoLog.length - stutters twoLog = 34 := by decide

/-- a miss is accepted: three participants' worth of tree (`N = 3`), thread 2 starts at node 0
    after it was filled by threads 0 and 1 -/
example : (runLog pstep (pinit 3 3 (awProg 1))
    [.inv 0 .aw, .load 0 0 3, .start 0 0, .cas 0 0 0 .half,
     .inv 1 .aw, .load 1 0 3, .start 1 0, .cas 1 0 0 .seen, .cas2 1 0 0 .up,
     .inv 2 .aw, .load 2 0 3, .start 2 0, .cas 2 0 0 (.miss 2), .cas 2 1 0 .up]).isSome = true := by
  decide

/-- first phase of two threads (as in `twoLog`) -/
def twoPhase0 : List Ev :=
  [.inv 0 .aw, .load 0 0 2, .start 0 0, .cas 0 0 0 .half,
   .inv 1 .aw, .load 1 0 2, .start 1 0, .cas 1 0 0 .seen, .cas2 1 0 0 .up, .last 1 0 2, .compl 1,
   .publish 1 2 2, .poll 1 0 2, .ret 1, .poll 0 0 2, .ret 0]

/-- both threads drop after one phase: the drop phase completes (`ph = 2 = P + 1`), the expected
    count goes to `0`, all threads end -/
example : ((runLog pstep (pinit 2 2 (awdProg 1 (fun _ => true))) (twoPhase0 ++
    [.inv 0 .drop, .adj 0, .load 0 2 2, .start 0 0, .cas 0 0 0 .half, .ret 0, .done 0,
     .inv 1 .drop, .adj 1, .load 1 2 2, .start 1 0, .cas 1 0 0 .seen, .cas2 1 0 0 .up, .last 1 2 2,
     .compl 1, .publish 1 4 0, .ret 1, .done 1])).map
    (fun p => (p.s.ph, p.s.expected, decide (p.s.pc 0 = .fin), decide (p.s.pc 1 = .fin)))) =
    some (2, 0, true, true) := by
  decide

/-- only thread 0 drops: its arrival stays in the incomplete phase 1 (`ph = 1 = P`), all threads end -/
example : ((runLog pstep (pinit 2 2 (awdProg 1 (fun t => t == 0))) (twoPhase0 ++
    [.inv 0 .drop, .adj 0, .load 0 2 2, .start 0 0, .cas 0 0 0 .half, .ret 0, .done 0, .done 1])).map
    (fun p => (p.s.ph, p.s.expected, decide (p.s.pc 0 = .fin), decide (p.s.pc 1 = .fin)))) =
    some (1, 2, true, true) := by
  decide

/-- the hypotheses of the final-state theorems are satisfiable: the three runs above end in
    maximal states (with `2`, `2 = P + 1` and `1 = P` completed phases) -/
example : ∃ p, runLog pstep (pinit 2 2 (awProg 2)) twoLog = some p ∧ Maximal p ∧ p.s.ph = 2 :=
  maximal_of_obs2 _ _ _ (by decide)

example : ∃ p, runLog pstep (pinit 2 2 (awdProg 1 (fun _ => true))) (twoPhase0 ++
    [.inv 0 .drop, .adj 0, .load 0 2 2, .start 0 0, .cas 0 0 0 .half, .ret 0, .done 0,
     .inv 1 .drop, .adj 1, .load 1 2 2, .start 1 0, .cas 1 0 0 .seen, .cas2 1 0 0 .up, .last 1 2 2,
     .compl 1, .publish 1 4 0, .ret 1, .done 1]) = some p ∧ Maximal p ∧ p.s.ph = 2 :=
  maximal_of_obs2 _ _ _ (by decide)

example : ∃ p, runLog pstep (pinit 2 2 (awdProg 1 (fun t => t == 0))) (twoPhase0 ++
    [.inv 0 .drop, .adj 0, .load 0 2 2, .start 0 0, .cas 0 0 0 .half, .ret 0, .done 0, .done 1]) = some p ∧
    Maximal p ∧ p.s.ph = 1 :=
  maximal_of_obs2 _ _ _ (by decide)

/-- a polling waiter exists in these programs (`C09u_barrier_token_fresh` is not vacuous) -/
example : ∃ p, runLog pstep (pinit 2 2 (awdProg 2 (fun _ => false))) (twoLog.take 5) = some p ∧
    p.s.pc 0 = .polling := by
  refine ⟨_, rfl, ?_⟩
  decide

/-- events of phase `k` of the one-thread program -/
def soloAw (k : Nat) : List Ev :=
  let p := (2 * k) % 256
  [.inv 0 .aw, .load 0 p 1, .start 0 0, .last 0 p 1, .compl 0, .publish 0 ((p + 2) % 256) 1,
   .poll 0 p ((p + 2) % 256), .ret 0]

def soloAwLog : Nat → List Ev
  | 0 => []
  | k + 1 => soloAwLog k ++ soloAw k

/-- **Beyond the wrap of the phase byte**: a maximal run of the `P = 130` program exists; its
    final state is maximal, 130 phases are complete and the byte has wrapped (`260 mod 256 = 4`),
    as `C09u_barrier_final_states` says for every `P`. -/
example : ∃ p, runLog pstep (pinit 1 1 (awProg 130)) (soloAwLog 130 ++ [.done 0]) = some p ∧
    Maximal p ∧ p.s.ph = 130 ∧ p.s.phase = 4 := by
  have hd : ((runLog pstep (pinit 1 1 (awProg 130)) (soloAwLog 130 ++ [.done 0])).map
      (fun p => (p.s.n, p.s.ph, p.s.phase, decide (p.s.pc 0 = .fin)))) = some (1, 130, 4, true) := by
    decide +kernel
  cases hrun : runLog pstep (pinit 1 1 (awProg 130)) (soloAwLog 130 ++ [.done 0]) with
  | none => rw [hrun] at hd; simp at hd
  | some p =>
    rw [hrun] at hd
    simp only [Option.map_some, Option.some.injEq, Prod.mk.injEq, decide_eq_true_eq] at hd
    obtain ⟨hn, hph, hphase, hfin⟩ := hd
    refine ⟨p, rfl, maximal_of_all_fin p ?_, hph, hphase⟩
    intro t ht
    have : t = 0 := by omega
    subst this; exact hfin

end PikaVerif.C09uBarrier
