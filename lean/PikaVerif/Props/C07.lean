import PikaVerif.Lemmas.CV3
import PikaVerif.Lemmas.CV4
import PikaVerif.Lemmas.CV5
/-!
# C07 — Condition variables never lose a notification

Property theorems about the model `PikaVerif.CV` (`pika::condition_variable` /
`condition_variable_any` over `detail::condition_variable`, an abstract user lock and the
execution agent).  Every theorem quantifies over *all* accepted event logs of the model,
i.e. over every number of threads, every program of lock / unlock / set / notify_one /
notify_all / wait / wait(pred) / wait_for / wait_for(pred) / wait(stop_token, pred) /
request_stop operations and every interleaving (including deadline expiry as a schedule event).  `Reachable s` = `s` is the
state after some accepted log from `init n flag`.

History fields used in the statements (all updated by `step`, see `Model/CV.lean`):
`waiting t`  — `t` released the user lock inside a wait (`ul.rel` at pc `locked`) and its
               entry has since been removed neither by a notifier (`cv.pop`/`cv.popall`)
               nor by itself (`cv.woke` with the entry still linked);
`poppedOp t` — a notifier popped `t` since `t` last took the internal lock to wait;
`enqs/pops`  — per-thread counts of `cv.enq` events / of resumes issued by notifiers.
-/
namespace PikaVerif.C07
open PikaVerif PikaVerif.CV

def Reachable (s : St) : Prop := ∃ n f log, runLog step (init n f) log = some s

theorem Reachable.inv {s : St} (h : Reachable s) : Inv s ∧ Inv2 s := by
  obtain ⟨n, f, log, hl⟩ := h
  exact inv2_of_accepted hl

theorem Reachable.inv3 {s : St} (h : Reachable s) : Inv3 s := by
  obtain ⟨n, f, log, hl⟩ := h
  exact (inv3_of_accepted hl).2.2

theorem Reachable.step {s s' : St} {e : Ev} (h : Reachable s) (hs : step s e = some s') : Reachable s' := by
  obtain ⟨n, f, log, hl⟩ := h
  exact ⟨n, f, log ++ [e], by rw [runLog_append, hl]; simp [runLog, hs]⟩

/-! ## Atomic release -/

/-- **Atomic release.**  Whoever holds the internal lock of the condition variable (every
    notifier does while it examines the queue) finds every other thread that has released
    the user lock in a wait — and has not been woken since — linked in the queue.  A waiter
    is never "between" releasing the user lock and being enqueued as far as a notifier can
    observe; in particular a notifier that acquired the user lock after the waiter released
    it finds the waiter in the queue. -/
theorem C07_atomic_release (s : St) (hr : Reachable s) (u w : Nat) (hl : s.lock = some u)
    (hne : w ≠ u) (hw : s.waiting w = true) : w ∈ s.queue := by
  obtain ⟨hi, _⟩ := hr.inv
  have h1 := hi.waitingIff w
  rw [hw] at h1
  apply (hi.qIff w).2
  cases hp : s.pc w <;> simp [hp, waitExp] at h1 <;> simp [inQ, h1]
  -- `released`: the waiter itself would hold the internal lock
  have := hi.lockHolder w (by simp [hp, holds])
  rw [hl] at this
  simp at this
  exact absurd this.symm hne

/-- While the window between `ul.rel` and `cv.enq` is open the waiter owns the internal
    lock, so no notify operation can examine the queue in that window. -/
theorem C07_release_window_locked (s : St) (hr : Reachable s) (w : Nat)
    (hw : s.waiting w = true) (hq : w ∉ s.queue) : s.lock = some w ∧ s.pc w = .released := by
  obtain ⟨hi, _⟩ := hr.inv
  have h1 := hi.waitingIff w
  rw [hw] at h1
  have h2 : inQ (s.pc w) = false := by
    cases h : inQ (s.pc w) with
    | false => rfl
    | true => exact absurd ((hi.qIff w).2 h) hq
  cases hp : s.pc w <;> simp [hp, waitExp, inQ] at h1 h2 <;> try (simp [h1] at h2)
  exact ⟨hi.lockHolder w (by simp [hp, holds]), rfl⟩

/-! ## notify_one / notify_all -/

/-- **notify_one wakes exactly one waiter if any exist.**  When `notify_one` pops (event
    `cv.pop` + `resume`), the target `g` is the *front* of the queue, was waiting (had
    released the user lock in a wait and had not been woken), stops waiting, receives the
    wake-up (a token, or — for a thread polling its deadline — its entry is marked
    signalled), and the waiting status of every other thread is unchanged. -/
theorem C07_notify_one_wakes (s s' : St) (hr : Reachable s) (u z g : Nat) (d : Bool)
    (h : step s (.popResume u z g d) = some s') :
    s.queue.head? = some g ∧ s.waiting g = true ∧ s'.waiting g = false ∧ s'.poppedOp g = true ∧
    (∀ w, w ≠ g → s'.waiting w = s.waiting w) ∧
    (s'.tok g = s.tok g + 1 ∨ s.pc g = .slp false) := by
  obtain ⟨hi, _⟩ := hr.inv
  simp only [step] at h
  split at h
  case isFalse => simp at h
  split at h
  case h_2 => simp at h
  obtain ⟨⟨rest, hq, _⟩, hw, hp, _, ⟨p', hp'⟩, htok, _⟩ := popCore_effect s s' u z g d .nDone h
  have hin : inQ (s.pc g) = true := (hi.qIff g).1 (by rw [hq]; simp)
  have hwg : s.waiting g = true := by
    rw [hi.waitingIff g]
    cases hpg : s.pc g <;> simp [hpg, inQ] at hin <;> simp [waitExp, hin]
  refine ⟨by rw [hq]; rfl, hwg, by rw [hw]; simp [upd], hp, ?_, ?_⟩
  · intro w hne; rw [hw]; simp [upd, hne]
  · rcases htok with h | h
    · exact Or.inl h.2
    · exact Or.inr h.2.1

/-- **notify_one finds the queue empty only if nobody waits.**  If `notify_one` reports
    "no waiter" (`cv.none`), no thread has released the user lock in a wait without having
    been woken: together with `C07_notify_one_wakes`, `notify_one` wakes a waiter whenever
    one exists. -/
theorem C07_notify_one_none_only_if_no_waiter (s s' : St) (hr : Reachable s) (u : Nat)
    (h : step s (.cvNone u) = some s') : ∀ w, s.waiting w = false := by
  obtain ⟨hi, _⟩ := hr.inv
  simp only [step] at h
  split at h
  case isFalse => simp at h
  rename_i hg
  split at h
  case h_2 => simp at h
  rename_i hpc
  intro w
  cases hw : s.waiting w with
  | false => rfl
  | true =>
    by_cases hwu : w = u
    · subst hwu
      have := hi.waitingIff w
      rw [hw, hpc] at this
      simp [waitExp] at this
    · have := C07_atomic_release s hr u w hg.2.1 hwu hw
      rw [hg.2.2.1] at this
      simp at this

/-- **notify_all wakes all.**  When `notify_all` leaves its critical section (the `sl.rel`
    that ends the `cv.all`/`cv.popall` loop), no thread is waiting any more: every thread
    that had released the user lock in a wait before the notifier took the internal lock has
    been popped and resumed. -/
theorem C07_notify_all_wakes_all (s s' : St) (hr : Reachable s) (u : Nat)
    (hpc : s.pc u = .nAll) (h : step s (.slRel u) = some s') : ∀ w, s.waiting w = false := by
  obtain ⟨hi, _⟩ := hr.inv
  simp only [step] at h
  split at h
  case isFalse => simp at h
  rename_i hg
  rw [hpc] at h
  simp only at h
  split at h
  case isFalse => simp at h
  rename_i hq
  intro w
  cases hw : s.waiting w with
  | false => rfl
  | true =>
    by_cases hwu : w = u
    · subst hwu
      have := hi.waitingIff w
      rw [hw, hpc] at this
      simp [waitExp] at this
    · have := C07_atomic_release s hr u w hg.2 hwu hw
      rw [hq] at this
      simp at this

/-- The callback of a stop-token wait is a `notify_all`: when it leaves its critical section
    no thread is waiting any more (same statement as `C07_notify_all_wakes_all`, for the
    callback run by `request_stop` (`k = false`) or by the registering thread (`k = true`)). -/
theorem C07_stop_callback_wakes_all (s s' : St) (hr : Reachable s) (u : Nat) (k : Bool)
    (hpc : s.pc u = .cAll k) (h : step s (.slRel u) = some s') : ∀ w, s.waiting w = false := by
  obtain ⟨hi, _⟩ := hr.inv
  simp only [step] at h
  split at h
  case isFalse => simp at h
  rename_i hg
  rw [hpc] at h
  simp only at h
  split at h
  case isFalse => simp at h
  rename_i hq
  intro w
  cases hw : s.waiting w with
  | false => rfl
  | true =>
    by_cases hwu : w = u
    · subst hwu
      have := hi.waitingIff w
      rw [hw, hpc] at this
      simp [waitExp] at this
    · have := C07_atomic_release s hr u w hg.2 hwu hw
      rw [hq] at this
      simp at this

/-- Each iteration of `notify_all` pops a thread that was waiting and wakes it. -/
theorem C07_notify_all_pops_waiter (s s' : St) (hr : Reachable s) (u z g : Nat) (d : Bool)
    (h : step s (.popAll u z g d) = some s') :
    s.waiting g = true ∧ s'.waiting g = false ∧ s'.poppedOp g = true ∧
    (s'.tok g = s.tok g + 1 ∨ s.pc g = .slp false) := by
  obtain ⟨hi, _⟩ := hr.inv
  obtain ⟨pcT, h⟩ := popAll_core h
  obtain ⟨⟨rest, hq, _⟩, hw, hp, _, ⟨p', hp'⟩, htok, _⟩ := popCore_effect s s' u z g d pcT h
  have hin : inQ (s.pc g) = true := (hi.qIff g).1 (by rw [hq]; simp)
  have hwg : s.waiting g = true := by
    rw [hi.waitingIff g]
    cases hpg : s.pc g <;> simp [hpg, inQ] at hin <;> simp [waitExp, hin]
  refine ⟨hwg, by rw [hw]; simp [upd], hp, ?_⟩
  rcases htok with h | h
  · exact Or.inl h.2
  · exact Or.inr h.2.1

/-- **notify_all wakes every waiter (trace form).**  Take any reachable state in which
    `notify_all` by `u` — the public call or (follow-up C07s) the stop callback of a stop-token
    wait — starts its critical work (`cv.all`), any thread `w` that is waiting
    at that moment (released the user lock in a wait, not yet woken), and any continuation
    of the execution up to the `sl.rel` with which this `notify_all` leaves its critical
    section: the continuation contains the event "u pops and resumes w". -/
theorem C07_notify_all_wakes_each (s s1 s2 s3 : St) (hr : Reachable s) (u w z : Nat) (log : List Ev)
    (h1 : step s (.cvAll u z) = some s1) (hw : s.waiting w = true)
    (h2 : runLog step s1 log = some s2) (hnr : ∀ e ∈ log, e ≠ .slRel u)
    (h3 : step s2 (.slRel u) = some s3) :
    ∃ z' d, Ev.popAll u z' w d ∈ log := by
  obtain ⟨n, f, l0, hl0⟩ := hr
  have hr1 : runLog step (init n f) (l0 ++ [.cvAll u z]) = some s1 := by
    rw [runLog_append, hl0]; simp [runLog, h1]
  -- facts at s1
  have hs1 : s1.waiting w = true ∧ s1.lock = some u ∧ allPc (s1.pc u) = true := by
    simp only [step] at h1
    split at h1
    case isFalse => simp at h1
    rename_i hg
    (repeat' split at h1) <;> first | (simp at h1; done) | skip
    all_goals
      simp only [Option.some.injEq] at h1
      subst h1
      exact ⟨hw, hg.2.1, by simp [upd, allPc]⟩
  -- induction along the continuation
  have main : ∀ (log : List Ev) (l1 : List Ev) (sa : St), runLog step (init n f) l1 = some sa →
      sa.waiting w = true ∧ sa.lock = some u ∧ allPc (sa.pc u) = true →
      runLog step sa log = some s2 → (∀ e ∈ log, e ≠ .slRel u) →
      ∃ z' d, Ev.popAll u z' w d ∈ log := by
    intro log
    induction log with
    | nil =>
      intro l1 sa hra hsa hrun _
      simp at hrun
      subst hrun
      have hra' : Reachable sa := ⟨n, f, l1, hra⟩
      have hall := hsa.2.2
      cases hp : sa.pc u <;> simp [hp, allPc] at hall
      case nAll =>
        have := C07_notify_all_wakes_all sa s3 hra' u hp h3 w
        rw [hsa.1] at this
        simp at this
      case cAll k =>
        have := C07_stop_callback_wakes_all sa s3 hra' u k hp h3 w
        rw [hsa.1] at this
        simp at this
    | cons e es ih =>
      intro l1 sa hra hsa hrun hno
      simp only [runLog] at hrun
      cases hs : step sa e with
      | none => simp [hs] at hrun
      | some sb =>
        simp only [hs] at hrun
        have hia := (inv2_of_accepted hra).1
        rcases nall_step sa sb hia e u w hsa.2.1 hsa.2.2 hsa.1 (hno e (by simp)) hs with ⟨z', d, he⟩ | hsb
        · exact ⟨z', d, by simp [he]⟩
        · have hrb : runLog step (init n f) (l1 ++ [e]) = some sb := by
            rw [runLog_append, hra]; simp [runLog, hs]
          obtain ⟨z', d, hm⟩ := ih (l1 ++ [e]) sb hrb hsb hrun (fun e' he' => hno e' (by simp [he']))
          exact ⟨z', d, by simp [hm]⟩
  exact main log _ s1 hr1 hs1 h2 hnr

/-! ## No lost notification: progress and quiescence -/

/-- A state is *stuck* when the model accepts no event other than a thread starting a new
    operation (`inv`) or ending its program (`done`). -/
def Stuck (s : St) : Prop :=
  ∀ e, (∀ t o, e ≠ .inv t o) → (∀ t, e ≠ .done t) → step s e = none

/-- Parked in an untimed wait, not notified, no wake-up token. -/
def Parked (s : St) (t : Nat) : Prop := s.pc t = .susp false ∧ s.tok t = 0

/-- Waiting for the user lock, which a thread that is between operations (or has ended its
    program while holding it) owns. -/
def BlockedOnUserLock (s : St) (t : Nat) : Prop :=
  (s.pc t = .wantU ∨ ∃ b, s.pc t = .relockU b) ∧
  ∃ x, s.ulock = some x ∧ x ≠ t ∧ (s.pc x = .idle ∨ s.pc x = .fin)

/-- **Progress.**  The model can only be stuck in states where every thread is between
    operations, finished, parked in an untimed wait *without having been notified*, or
    queueing for the user lock that an idle thread keeps.  No reachable state is stuck with
    a thread inside notify, holding the internal lock, notified-but-not-resumed, sleeping on
    a deadline, or about to return. -/
theorem C07_stuck_only_when_blocked (s : St) (hr : Reachable s) (hs : Stuck s) :
    ∀ t, t < s.n → s.pc t = .idle ∨ s.pc t = .fin ∨ Parked s t ∨ BlockedOnUserLock s t := by
  obtain ⟨hi, hi2⟩ := hr.inv
  have hi3 := hr.inv3
  have en : ∀ e, (∀ t o, e ≠ .inv t o) → (∀ t, e ≠ .done t) → step s e ≠ none → False :=
    fun e h1 h2 h3 => h3 (hs e h1 h2)
  -- the internal lock is free in a stuck state
  have hl : s.lock = none := by
    cases hl : s.lock with
    | none => rfl
    | some r =>
      exfalso
      obtain ⟨hh, hrn⟩ := hi.lockConv r hl
      have hop := hi2.opOk r
      cases hp : s.pc r <;> simp [hp, holds] at hh
      case locked =>
        have := hi.uHolder r (by simp [hp, holdsU])
        exact en (.ulRel r) (by simp) (by simp) (by simp [step, hrn, this, hp])
      case released =>
        exact en (.cvEnq r (s.queue.length + 1) (isTimed (s.curOp r))) (by simp) (by simp)
          (by simp [step, hrn, hl, hp])
      case enq tm => exact en (.slRel r) (by simp) (by simp) (by simp [step, hrn, hl, hp])
      case relk tm p =>
        exact en (.cvWoke r (!p) tm) (by simp) (by simp) (by cases p <;> simp [step, hrn, hl, hp])
      case post b =>
        cases hst : (isStop (s.curOp r) && isTimed (s.curOp r)) with
        | false => exact en (.slRel r) (by simp) (by simp) (by simp [step, hrn, hl, hp, hst])
        | true =>
          have hc : s.curOp r = .swait true := by
            cases hc : s.curOp r <;> simp [hc, isStop, isTimed] at hst ⊢
            exact hst
          exact en (.stop2 r (b || s.stopReq)) (by simp) (by simp) (by simp [step, hrn, hl, hp, hc])
      case postS b => exact en (.slRel r) (by simp) (by simp) (by simp [step, hrn, hl, hp])
      case nDone => exact en (.slRel r) (by simp) (by simp) (by simp [step, hrn, hl, hp])
      case nLocked =>
        rw [hp] at hop
        cases hc : s.curOp r <;> simp [hc, pcOpOk, isNotify] at hop
        rename_i all
        cases all with
        | true =>
          exact en (.cvAll r s.queue.length) (by simp) (by simp) (by simp [step, hrn, hl, hp, hc])
        | false =>
          cases hq : s.queue with
          | nil => exact en (.cvNone r) (by simp) (by simp) (by simp [step, hrn, hl, hp, hq, hc])
          | cons g rest =>
            have hgq : g ∈ s.queue := by rw [hq]; simp
            have hginQ := (hi.qIff g).1 hgq
            have hgr : g ≠ r := by intro he; rw [he, hp] at hginQ; simp [inQ] at hginQ
            have hnh : holds (s.pc g) = false := by
              cases hhg : holds (s.pc g) with
              | false => rfl
              | true => have := hi.lockHolder g hhg; rw [hl] at this; simp at this; exact absurd this.symm hgr
            have hsp : ∃ p', setPopped (s.pc g) = some p' := by
              cases hpg : s.pc g <;> simp [hpg, inQ, holds] at hginQ hnh <;> simp [setPopped, hginQ]
            obtain ⟨p', hp'⟩ := hsp
            exact en (.popResume r rest.length g (decide (s.pc g = .slp false))) (by simp) (by simp)
              (by simp [step, hrn, hl, hp, hc, popCore, hq, hp'])
      case nAll =>
        cases hq : s.queue with
        | nil => exact en (.slRel r) (by simp) (by simp) (by simp [step, hrn, hl, hp, hq])
        | cons g rest =>
          have hgq : g ∈ s.queue := by rw [hq]; simp
          have hginQ := (hi.qIff g).1 hgq
          have hgr : g ≠ r := by intro he; rw [he, hp] at hginQ; simp [inQ] at hginQ
          have hnh : holds (s.pc g) = false := by
            cases hhg : holds (s.pc g) with
            | false => rfl
            | true => have := hi.lockHolder g hhg; rw [hl] at this; simp at this; exact absurd this.symm hgr
          have hsp : ∃ p', setPopped (s.pc g) = some p' := by
            cases hpg : s.pc g <;> simp [hpg, inQ, holds] at hginQ hnh <;> simp [setPopped, hginQ]
          obtain ⟨p', hp'⟩ := hsp
          exact en (.popAll r rest.length g (decide (s.pc g = .slp false))) (by simp) (by simp)
            (by simp [step, hrn, hl, hp, popCore, hq, hp'])
      case sChk1 => exact en (.stop1 r s.stopReq) (by simp) (by simp) (by simp [step, hrn, hl, hp])
      case sStopped => exact en (.slRel r) (by simp) (by simp) (by simp [step, hrn, hl, hp])
      case cLocked k => exact en (.cvAll r s.queue.length) (by simp) (by simp) (by simp [step, hrn, hl, hp])
      case cAll k =>
        cases hq : s.queue with
        | nil => exact en (.slRel r) (by simp) (by simp) (by simp [step, hrn, hl, hp, hq])
        | cons g rest =>
          have hgq : g ∈ s.queue := by rw [hq]; simp
          have hginQ := (hi.qIff g).1 hgq
          have hgr : g ≠ r := by intro he; rw [he, hp] at hginQ; simp [inQ] at hginQ
          have hnh : holds (s.pc g) = false := by
            cases hhg : holds (s.pc g) with
            | false => rfl
            | true => have := hi.lockHolder g hhg; rw [hl] at this; simp at this; exact absurd this.symm hgr
          have hsp : ∃ p', setPopped (s.pc g) = some p' := by
            cases hpg : s.pc g <;> simp [hpg, inQ, holds] at hginQ hnh <;> simp [setPopped, hginQ]
          obtain ⟨p', hp'⟩ := hsp
          exact en (.popAll r rest.length g (decide (s.pc g = .slp false))) (by simp) (by simp)
            (by simp [step, hrn, hl, hp, popCore, hq, hp'])
  -- the lock bit of the stop state is free in a stuck state
  have hsl : s.sLock = none := by
    cases hsl : s.sLock with
    | none => rfl
    | some r =>
      exfalso
      obtain ⟨hh, hrn⟩ := hi3.sConv r hsl
      cases hp : s.pc r <;> simp [hp, holdsS] at hh
      case sRegLk =>
        exact en (.stPush r (decide (s.cbs ≠ []))) (by simp) (by simp) (by simp [step, hrn, hsl, hp])
      case rsLocked =>
        cases hc : s.cbs with
        | nil => exact en (.stRsDone r) (by simp) (by simp) (by simp [step, hrn, hsl, hp, hc])
        | cons c rest =>
          exact en (.stDeq r c (decide (rest ≠ []))) (by simp) (by simp) (by simp [step, hrn, hsl, hp, hc])
      case sRm res =>
        exact en (.stUnlink r (decide (r ∈ s.cbs))) (by simp) (by simp)
          (by cases hm : decide (r ∈ s.cbs) <;> simp [step, hrn, hsl, hp, hm])
  -- request_stop has no callback in its hand in a stuck state
  have hcur : s.cur = none := by
    cases hc : s.cur with
    | none => rfl
    | some c =>
      exfalso
      have hh := hi3.curConv c hc
      have hrn : s.reqT < s.n := by
        apply Classical.byContradiction
        intro hge
        have := hi.outside s.reqT (by omega)
        rw [this] at hh; simp [curHeldPc] at hh
      cases hp : s.pc s.reqT <;> simp [hp, curHeldPc] at hh
      case cWant k =>
        exact en (.slAcq s.reqT) (by simp) (by simp) (by simp [step, hrn, hl, hp])
      case cLocked k =>
        have := hi.lockHolder s.reqT (by simp [hp, holds]); rw [hl] at this; simp at this
      case cAll k =>
        have := hi.lockHolder s.reqT (by simp [hp, holds]); rw [hl] at this; simp at this
      case cRet k =>
        subst hh
        exact en (.stFin s.reqT c false) (by simp) (by simp) (by simp [step, hrn, hc, hp])
  have key : ∀ t, t < s.n → s.pc t = .idle ∨ s.pc t = .fin ∨ Parked s t ∨
      ((s.pc t = .wantU ∨ ∃ b, s.pc t = .relockU b) ∧ s.ulock ≠ none) := by
    intro t htn
    have nh : holds (s.pc t) = false := by
      cases hh : holds (s.pc t) with
      | false => rfl
      | true => have := hi.lockHolder t hh; rw [hl] at this; simp at this
    cases hp : s.pc t <;> simp [hp, holds] at nh
    case idle => exact Or.inl rfl
    case fin => exact Or.inr (Or.inl rfl)
    case wantU =>
      cases hu : s.ulock with
      | none => exact (en (.ulAcq t) (by simp) (by simp) (by simp [step, htn, hu, hp])).elim
      | some x => exact Or.inr (Or.inr (Or.inr ⟨Or.inl rfl, by simp⟩))
    case relockU b =>
      cases hu : s.ulock with
      | none => exact (en (.ulAcq t) (by simp) (by simp) (by simp [step, htn, hu, hp])).elim
      | some x => exact Or.inr (Or.inr (Or.inr ⟨Or.inr ⟨b, rfl⟩, by simp⟩))
    case unlocking =>
      have := hi.uHolder t (by simp [hp, holdsU])
      exact (en (.ulRel t) (by simp) (by simp) (by simp [step, htn, this, hp])).elim
    case setting v => exact (en (.setFlag t v) (by simp) (by simp) (by simp [step, htn, hp])).elim
    case predChk f => exact (en (.pred t s.flag) (by simp) (by simp) (by simp [step, htn, hp])).elim
    case want => exact (en (.slAcq t) (by simp) (by simp) (by simp [step, htn, hl, hp])).elim
    case nWant => exact (en (.slAcq t) (by simp) (by simp) (by simp [step, htn, hl, hp])).elim
    case wokeNL tm p => exact (en (.slAcq t) (by simp) (by simp) (by simp [step, htn, hl, hp])).elim
    case unl tm p =>
      cases tm
      · exact (en (.suspend t) (by simp) (by simp) (by simp [step, htn, hp])).elim
      · exact (en (.sleep t) (by simp) (by simp) (by simp [step, htn, hp])).elim
    case susp p =>
      by_cases htok : 0 < s.tok t
      · exact (en (.woke t) (by simp) (by simp) (by simp [step, htn, hp, htok])).elim
      · cases p with
        | true => have := hi.wake t (by simp [hp, needTok]); omega
        | false => exact Or.inr (Or.inr (Or.inl ⟨hp, by omega⟩))
    case slp p => exact (en (.timeout t) (by simp) (by simp) (by simp [step, htn, hp])).elim
    case retn r => exact (en (.ret t r) (by simp) (by simp) (by simp [step, htn, hp])).elim
    case nRet => exact (en (.ret t 0) (by simp) (by simp) (by simp [step, htn, hp])).elim
    case sChk0 => exact (en (.stop0 t s.stopReq) (by simp) (by simp) (by simp [step, htn, hp])).elim
    case sReg =>
      cases hsr : s.stopReq with
      | true => exact (en (.stSeen t) (by simp) (by simp) (by simp [step, htn, hp, hsr])).elim
      | false => exact (en (.stAcq t 2) (by simp) (by simp) (by simp [step, htn, hp, hsr, hsl])).elim
    case sRegLk => have := hi3.sHolder t (by simp [hp, holdsS]); rw [hsl] at this; simp at this
    case rsLocked => have := hi3.sHolder t (by simp [hp, holdsS]); rw [hsl] at this; simp at this
    case sRm res => have := hi3.sHolder t (by simp [hp, holdsS]); rw [hsl] at this; simp at this
    case cWant k => exact (en (.slAcq t) (by simp) (by simp) (by simp [step, htn, hl, hp])).elim
    case cRet k =>
      cases k with
      | true => exact (en (.stInFin t) (by simp) (by simp) (by simp [step, htn, hp])).elim
      | false => exact absurd hcur (hi3.curHeld t (by simp [hp, curHeldPc]))
    case sDtor res => exact (en (.stAcq t 0) (by simp) (by simp) (by simp [step, htn, hp, hsl])).elim
    case sRmChk res => exact (en (.stSelf t false) (by simp) (by simp) (by simp [step, htn, hp])).elim
    case sRmWait res =>
      cases hf : s.cbFin t with
      | true => exact (en (.stWaited t) (by simp) (by simp) (by simp [step, htn, hp, hf])).elim
      | false =>
        have hk := hi3.dtorKept t (by simp [hp, dtorPc])
        rcases hi3.regOk t hk with h | h | h
        · exact absurd h (hi3.rmOk t (by simp [hp, rmPc]))
        · rw [hcur] at h; simp at h
        · rw [hf] at h; simp at h
    case rsWant =>
      cases hsr : s.stopReq with
      | true => exact (en (.ret t 0) (by simp) (by simp) (by simp [step, htn, hp, hsr])).elim
      | false => exact (en (.stAcq t 1) (by simp) (by simp) (by simp [step, htn, hp, hsr, hsl])).elim
    case rsRelock => exact (en (.stAcq t 0) (by simp) (by simp) (by simp [step, htn, hp, hsl])).elim
    case rsRet b => exact (en (.ret t (b2n b)) (by simp) (by simp) (by simp [step, htn, hp])).elim
  intro t htn
  rcases key t htn with h | h | h | ⟨hpc, hu⟩
  · exact Or.inl h
  · exact Or.inr (Or.inl h)
  · exact Or.inr (Or.inr (Or.inl h))
  · refine Or.inr (Or.inr (Or.inr ⟨hpc, ?_⟩))
    cases hux : s.ulock with
    | none => exact absurd hux hu
    | some x =>
      have hxn := hi.uConv x hux
      have hxt : x ≠ t := by
        intro he
        subst he
        have := hi.uNot x (by rcases hpc with h | ⟨b, h⟩ <;> simp [h, noU])
        exact this hux
      refine ⟨x, rfl, hxt, ?_⟩
      rcases key x hxn with h | h | h | ⟨h, _⟩
      · exact Or.inl h
      · exact Or.inr h
      · exact absurd hux (hi.uNot x (by simp [h.1, noU]))
      · exact absurd hux (hi.uNot x (by rcases h with h | ⟨b, h⟩ <;> simp [h, noU]))

/-- **No lost notification (quiescence form).**  In every reachable stuck state a thread
    that is still parked in `wait` has not been notified since it released the user lock:
    no notifier popped it (`poppedOp = false`), it is still linked in the queue and still
    counted as waiting.  Hence — by `C07_notify_one_none_only_if_no_waiter`,
    `C07_notify_one_wakes` and `C07_notify_all_wakes_all` — every notify_all issued after it
    released the lock would have woken it, and every such notify_one woke some waiter. -/
theorem C07_no_lost_notification (s : St) (hr : Reachable s) (t : Nat)
    (hb : s.pc t = .susp false) : s.poppedOp t = false ∧ t ∈ s.queue ∧ s.waiting t = true := by
  obtain ⟨hi, hi2⟩ := hr.inv
  have h1 := hi2.popped t
  rw [hb] at h1
  refine ⟨by simpa [poppedOk] using h1, (hi.qIff t).2 (by simp [hb, inQ]), ?_⟩
  rw [hi.waitingIff t, hb]; simp [waitExp]

/-- A notified waiter is never parked without a pending wake-up: a thread suspended in the
    agent whose entry was popped by a notifier owns a wake-up token (so `ag.woke` is
    enabled).  This is the "no wake-up is lost between pop and suspend" half. -/
theorem C07_notified_waiter_has_token (s : St) (hr : Reachable s) (t : Nat)
    (hb : s.pc t = .susp true ∨ s.pc t = .unl false true) : 0 < s.tok t := by
  obtain ⟨hi, _⟩ := hr.inv
  exact hi.wake t (by rcases hb with h | h <;> simp [h, needTok])

/-! ## Results -/

/-- (follow-up C07s: the last disjunct is new — `ret` of `request_stop`, an operation that did
    not exist in the model before; the first two are the previous statement.) -/
theorem ret_pc {s s' : St} {t r : Nat} (h : step s (.ret t r) = some s') :
    s.pc t = .retn r ∨ (s.pc t = .nRet ∧ r = 0) ∨ ((∃ b, s.pc t = .rsRet b) ∨ s.pc t = .rsWant) := by
  simp only [step] at h
  split at h
  · split at h
    · rename_i b hp
      split at h
      · rename_i hb; subst hb; exact Or.inl hp
      · simp at h
    · rename_i hp
      split at h
      · rename_i hb; exact Or.inr (Or.inl ⟨hp, hb⟩)
      · simp at h
    · rename_i b hp
      exact Or.inr (Or.inr (Or.inl ⟨b, hp⟩))
    · rename_i hp
      exact Or.inr (Or.inr (Or.inr hp))
    · simp at h
  · simp at h

theorem ret_wait_pc {s s' : St} (hr : Reachable s) {t r : Nat} (h : step s (.ret t r) = some s')
    (hw : isWait (s.curOp t) = true) : s.pc t = .retn r := by
  have := hr.inv.2.opOk t
  rcases ret_pc h with h | h | ⟨b, h⟩ | h
  · exact h
  · rw [h.1] at this
    cases hc : s.curOp t <;> simp [hc, pcOpOk, isNotify, isWait] at this hw
  · rw [h] at this
    cases hc : s.curOp t <;> simp [hc, pcOpOk, isWait] at this hw
  · rw [h] at this
    cases hc : s.curOp t <;> simp [hc, pcOpOk, isWait] at this hw

/-- **wait returns with the user lock held.**  Whenever a wait operation (any form)
    returns, the returning thread owns the user lock. -/
theorem C07_returns_locked (s s' : St) (hr : Reachable s) (t r : Nat)
    (hw : isWait (s.curOp t) = true) (h : step s (.ret t r) = some s') :
    s.ulock = some t ∧ s'.ulock = some t := by
  have hp := ret_wait_pc hr h hw
  have hu := hr.inv.1.uHolder t (by simp [hp, holdsU])
  refine ⟨hu, ?_⟩
  simp only [step, hp] at h
  split at h
  · split at h
    · simp only [Option.some.injEq] at h; subst h; exact hu
    · simp at h
  · simp at h

/-- **Predicate forms return the value of the predicate.**  The value returned by
    `wait(lock, pred)` / `wait_for(lock, d, pred)` equals the current value of the shared
    variable the predicate reads (which nobody can change before the caller releases the
    user lock it now holds). -/
theorem C07_pred_value (s s' : St) (hr : Reachable s) (t r : Nat)
    (hp : isPred (s.curOp t) = true) (h : step s (.ret t r) = some s') : r = b2n s.flag := by
  have hw : isWait (s.curOp t) = true := by
    cases hc : s.curOp t <;> simp [hc, isPred, isWait] at hp ⊢
  exact hr.inv.2.predRes t r (ret_wait_pc hr h hw) hp

/-- The untimed predicate form returns only when the predicate holds. -/
theorem C07_wait_pred_returns_true (s s' : St) (hr : Reachable s) (t r : Nat)
    (hc : s.curOp t = .wait false true) (h : step s (.ret t r) = some s') : s.flag = true := by
  have hpc := ret_wait_pc hr h (by simp [hc, isWait])
  have h1 := hr.inv.2.predRes t r hpc (by simp [hc, isPred])
  have h2 := hr.inv.2.untimedRes t r hpc (by simp [hc, isTimed]) (by simp [hc, isStop])
  rw [hc] at h2
  simp [isPred, b2n] at h2
  cases hf : s.flag with
  | true => rfl
  | false => rw [hf] at h1; simp [b2n] at h1; omega

/-- **A timed wait reports a timeout iff it was not notified.**  `wait_for/until` (plain
    form) returns `cv_status::timeout` (r = 1) exactly when no notifier popped the thread
    between its taking the internal lock and its re-examination of the entry; in
    particular a timed wait that was notified before (or even after) its deadline event,
    but before it re-took the internal lock, does not report a timeout. -/
theorem C07_timed_timeout_iff_not_notified (s s' : St) (hr : Reachable s) (t r : Nat)
    (hc : s.curOp t = .wait true false) (h : step s (.ret t r) = some s') :
    (r = 1 ↔ s.poppedOp t = false) ∧ (r = 0 ↔ s.poppedOp t = true) := by
  have hpc := ret_wait_pc hr h (by simp [hc, isWait])
  have := hr.inv.2.timedRes t r hpc hc
  cases hpo : s.poppedOp t <;> simp [hpo, b2n] at this <;> simp [this]

/-! ## One resume per enqueue / per suspension -/

/-- Number of `cv.enq` events of thread `t` in a log. -/
def enqCount (t : Nat) : List Ev → Nat
  | [] => 0
  | .cvEnq u _ _ :: l => enqCount t l + (if u = t then 1 else 0)
  | _ :: l => enqCount t l

/-- Number of resumes (`cv.pop`/`cv.popall` + agent call) aimed at thread `t` in a log. -/
def resumeCount (t : Nat) : List Ev → Nat
  | [] => 0
  | .popResume _ _ g _ :: l => resumeCount t l + (if g = t then 1 else 0)
  | .popAll _ _ g _ :: l => resumeCount t l + (if g = t then 1 else 0)
  | _ :: l => resumeCount t l

theorem counters_step (s s' : St) (e : Ev) (t : Nat) (h : step s e = some s') :
    s'.enqs t = s.enqs t + enqCount t [e] ∧ s'.pops t = s.pops t + resumeCount t [e] := by
  cases e
  case popResume u z g d =>
    simp only [step] at h
    split at h
    case isFalse => simp at h
    split at h
    case h_2 => simp at h
    obtain ⟨_, _, _, hp, _, _, he⟩ := popCore_effect s s' u z g d .nDone h
    rw [hp, he]; by_cases hg : t = g <;> simp [enqCount, resumeCount, upd, hg]
    intro h'; exact absurd h'.symm hg
  case popAll u z g d =>
    obtain ⟨pcT, h⟩ := popAll_core h
    obtain ⟨_, _, _, hp, _, _, he⟩ := popCore_effect s s' u z g d pcT h
    rw [hp, he]; by_cases hg : t = g <;> simp [enqCount, resumeCount, upd, hg]
    intro h'; exact absurd h'.symm hg
  case cvEnq u z b =>
    simp only [step] at h
    (repeat' split at h) <;>
      first | (simp at h; done) | (simp only [Option.some.injEq] at h; subst h; by_cases hg : t = u <;> simp [enqCount, resumeCount, upd, hg]; try (intro h'; exact absurd h'.symm hg))
  all_goals
    simp only [step] at h
    (repeat' split at h) <;>
      first | (simp at h; done) | (simp only [Option.some.injEq] at h; subst h; simp [enqCount, resumeCount])

theorem counters_log (t : Nat) (log : List Ev) : ∀ (s s' : St), runLog step s log = some s' →
    s'.enqs t = s.enqs t + enqCount t log ∧ s'.pops t = s.pops t + resumeCount t log := by
  induction log with
  | nil => intro s s' h; simp at h; subst h; simp [enqCount, resumeCount]
  | cons e es ih =>
    intro s s' h
    simp only [runLog] at h
    cases hs : step s e with
    | none => simp [hs] at h
    | some s1 =>
      simp only [hs] at h
      have h1 := counters_step s s1 e t hs
      have h2 := ih s1 s' h
      have ht : enqCount t (e :: es) = enqCount t [e] + enqCount t es := by
        cases e <;> simp [enqCount] <;> omega
      have ha : resumeCount t (e :: es) = resumeCount t [e] + resumeCount t es := by
        cases e <;> simp [resumeCount] <;> omega
      refine ⟨?_, ?_⟩ <;> omega

/-- **At most one resume per enqueue.**  In every execution, the number of resumes that
    notifiers have aimed at thread `t` never exceeds the number of wait entries `t` has
    pushed; while an entry of `t` is still linked it is strictly smaller. -/
theorem C07_one_resume_per_enqueue (n : Nat) (f : Bool) (log : List Ev) (s : St) (t : Nat)
    (h : runLog step (init n f) log = some s) :
    resumeCount t log + b2n (inQ (s.pc t)) ≤ enqCount t log := by
  obtain ⟨_, hi2⟩ := inv2_of_accepted h
  have hc := counters_log t log _ s h
  have := hi2.counts t
  simp only [init] at hc
  omega

/-- A notifier only ever resumes a thread whose entry is linked in the queue, i.e. a thread
    inside a wait between its enqueue and its re-examination of the entry. -/
theorem C07_resume_targets_linked_waiter (s s' : St) (hr : Reachable s) (u z g : Nat) (d : Bool)
    (h : step s (.popResume u z g d) = some s' ∨ step s (.popAll u z g d) = some s') :
    g ∈ s.queue ∧ inQ (s.pc g) = true ∧ g ≠ u := by
  obtain ⟨hi, _⟩ := hr.inv
  have hq : (∃ rest, s.queue = g :: rest) ∧ inQ (s.pc u) = false := by
    rcases h with h | h
    · simp only [step] at h
      split at h
      case isFalse => simp at h
      split at h
      case h_2 => simp at h
      rename_i hpc
      obtain ⟨⟨rest, hq, _⟩, _⟩ := popCore_effect s s' u z g d .nDone h
      exact ⟨⟨rest, hq⟩, by simp [hpc, inQ]⟩
    · simp only [step] at h
      split at h
      case isFalse => simp at h
      split at h
      case h_3 => simp at h
      · rename_i hpc
        obtain ⟨⟨rest, hq, _⟩, _⟩ := popCore_effect s s' u z g d .nAll h
        exact ⟨⟨rest, hq⟩, by simp [hpc, inQ]⟩
      · rename_i k hpc
        obtain ⟨⟨rest, hq, _⟩, _⟩ := popCore_effect s s' u z g d (.cAll k) h
        exact ⟨⟨rest, hq⟩, by simp [hpc, inQ]⟩
  obtain ⟨⟨rest, hq⟩, hu⟩ := hq
  have hg : g ∈ s.queue := by rw [hq]; simp
  have hin := (hi.qIff g).1 hg
  refine ⟨hg, hin, ?_⟩
  intro he; rw [he, hu] at hin; simp at hin

/-- **Exactly one resume per suspension (programs without timed waits).**  As long as no
    timed wait has been enqueued, a thread owns at most one wake-up token, and owns one
    exactly when it has been popped by a notifier and has not yet returned from
    `agent.suspend`; no untimed waiter ever wakes up without having been notified. -/
theorem C07_one_resume_per_suspend (s : St) (hr : Reachable s) (hu : s.everTimed = false) (t : Nat) :
    s.tok t ≤ 1 ∧ (s.tok t = 1 ↔ (s.pc t = .susp true ∨ s.pc t = .unl false true)) ∧
    s.pc t ≠ .wokeNL false false ∧ s.pc t ≠ .relk false false := by
  obtain ⟨_, hi2⟩ := hr.inv
  obtain ⟨h1, h2⟩ := hi2.untimed t hu
  cases hp : s.pc t <;> simp [hp, badU, needTok, b2n] at h1 h2 ⊢ <;> try omega
  case unl tm p => subst h1; cases p <;> simp at h2 ⊢ <;> omega
  case susp p => cases p <;> simp at h2 ⊢ <;> omega
  case wokeNL tm p => simp [h1]; omega
  case relk tm p => simp [h1]; omega

/-! ## Stop-token wait (follow-up C07s)

`condition_variable_any::wait(lock, stop_token, pred)` (operation `swait false`), its timed
form `wait_until/wait_for(lock, stop_token, t, pred)` (`swait true`; `isStop` = either) and
`request_stop` (operation `stop`).  State fields used in the statements: `stopReq` (the stop-requested bit),
`cbs` (the callback list of the stop state; a callback is named by the waiting thread that
owns it), `cur` (the callback `request_stop` has dequeued and not yet marked finished), `kept`
(the thread's `stop_callback` is registered), `stopDone` (the winning `request_stop` has left
its callback loop), `reqT` (the thread of that call).  Classification of program counters
(`Lemmas/CV4.lean`): `exposed` = passed the `stop_requested()` re-check under the internal lock
(S1) and not notified since (pcs `locked`, `released`, `enq`, `unl _ false`, `susp false`);
`popPending` = inside the stop callback before the end of its `notify_all`. -/

/-- **(a) Result of a stop-token wait.**  Whenever `wait(lock, stop_token, pred)` returns, the
    value returned is the current value of the predicate, the predicate holds or stop has been
    requested, and the caller owns the user lock. -/
theorem C07_stop_wait_result (s s' : St) (hr : Reachable s) (t r : Nat)
    (hc : s.curOp t = .swait false) (h : step s (.ret t r) = some s') :
    r = b2n s.flag ∧ (s.flag = true ∨ s.stopReq = true) ∧ s.ulock = some t ∧ s'.ulock = some t := by
  have hw : isWait (s.curOp t) = true := by simp [hc, isWait]
  have hpc := ret_wait_pc hr h hw
  have h1 := hr.inv.2.predRes t r hpc (by simp [hc, isPred])
  have h2 := hr.inv3.swRes t r hc (by simp [hpc, resAll])
  have h3 := C07_returns_locked s s' hr t r hw h
  refine ⟨h1, ?_, h3.1, h3.2⟩
  rcases h2 with h2 | h2
  · left
    cases hf : s.flag with
    | true => rfl
    | false => rw [hf] at h1; simp [b2n] at h1; omega
  · exact Or.inr h2

/-- **(b) No window between the check and the enqueue.**  Once stop has been requested, every
    thread of a stop-token wait that has passed the re-check of `stop_requested()` under the
    internal lock and has not been notified since — in particular every such thread that is on
    its way to, or parked in, `agent.suspend` — still has its callback linked in the stop
    state, or `request_stop` holds that callback and has not finished its `notify_all` (which
    by `C07_stop_callback_wakes_all` pops every waiting thread before it ends). -/
theorem C07_stop_covered (s : St) (hr : Reachable s) (hq : s.stopReq = true) (t : Nat)
    (hc : isStop (s.curOp t) = true) (he : exposed (s.pc t) = true) :
    t ∈ s.cbs ∨ (s.cur = some t ∧ popPending (s.pc s.reqT) = true) :=
  hr.inv3.covered hq t hc he

/-- At the moment `request_stop` sets the stop bit, every stop-token waiter that has passed
    its re-check finds its callback in the list `request_stop` is about to run: a stop request
    cannot fall between the waiter's `stop_requested()` check and its enqueue unseen. -/
theorem C07_stop_request_finds_callbacks (s s' : St) (hr : Reachable s) (u : Nat)
    (h : step s (.stAcq u 1) = some s') :
    s'.stopReq = true ∧ ∀ t, isStop (s.curOp t) = true → exposed (s.pc t) = true → t ∈ s.cbs := by
  have hi3 := hr.inv3
  have hpre : s.stopReq = false ∧ s'.stopReq = true := by
    simp only [step] at h
    split at h
    case isFalse => simp at h
    (repeat' split at h) <;> first | (simp at h; done) | skip
    all_goals (simp only [Option.some.injEq] at h; subst h; simp_all)
  refine ⟨hpre.2, fun t hc he => ?_⟩
  have hb : bodyPc (s.pc t) = true := by
    cases hp : s.pc t <;> simp [hp, exposed] at he <;> simp [bodyPc]
  -- the callback is registered (else the wait would have seen the stop bit) …
  have hk : s.kept t = true := by
    cases hk : s.kept t with
    | true => rfl
    | false => have := hi3.unregReq t hc hk (Or.inl hb); rw [hpre.1] at this; simp at this
  -- … and before the stop bit is set a registered callback is linked
  rcases hi3.regOk t hk with h1 | h1 | h1
  · exact h1
  · have hh := hi3.curConv t h1
    have := (hi3.reqOk s.reqT (by cases hp : s.pc s.reqT <;> simp [hp, curHeldPc] at hh <;> simp [reqPc, hh])).1
    rw [hpre.1] at this; simp at this
  · have := hi3.finReq t hk h1; rw [hpre.1] at this; simp at this

/-- **(b) No lost stop.**  After the winning `request_stop` has run its callbacks (in every
    state from the end of its callback loop on, in particular after it returned), no thread of
    a stop-token wait is past its re-check and un-notified: none is parked in, or on its way
    to, `agent.suspend` without a wake-up. -/
theorem C07_no_lost_stop (s : St) (hr : Reachable s) (hd : s.stopDone = true) (t : Nat)
    (hc : isStop (s.curOp t) = true) : exposed (s.pc t) = false ∧ ¬ Parked s t := by
  have hi3 := hr.inv3
  obtain ⟨hq, hcb, hcu⟩ := hi3.doneOk hd
  have he : exposed (s.pc t) = false := by
    cases he : exposed (s.pc t) with
    | false => rfl
    | true =>
      rcases hi3.covered hq t hc he with h | h
      · rw [hcb] at h; simp at h
      · rw [hcu] at h; simp at h
  exact ⟨he, fun hp => by rw [hp.1] at he; simp [exposed] at he⟩

/-- **(b) No lost stop, trace form.**  Take the event with which `request_stop` sets the stop
    bit, any stop-token waiter `w` that at that moment has passed its re-check and has not been
    notified (it is parked in, or on its way to, `agent.suspend`), and any continuation of the
    execution up to a state in which that `request_stop` has left its callback loop: the
    continuation contains an event that pops and resumes `w` (`cv.pop`/`cv.popall` + resume) or
    an agent wake-up of `w`. -/
theorem C07_stop_wakes_each (s s1 s2 : St) (hr : Reachable s) (u w : Nat) (log : List Ev)
    (h1 : step s (.stAcq u 1) = some s1) (hc : s.curOp w = .swait false) (he : exposed (s.pc w) = true)
    (h2 : runLog step s1 log = some s2) (hd : s2.stopDone = true) :
    ∃ e ∈ log, (∃ x z d, e = .popAll x z w d) ∨ (∃ x z d, e = .popResume x z w d) ∨ e = .woke w := by
  have hr1 : Reachable s1 := hr.step h1
  have hs1 : s1.curOp w = .swait false ∧ exposed (s1.pc w) = true := by
    rcases exposed_step s s1 hr.inv.2 _ w hc he h1 with ⟨x, z, d, h⟩ | ⟨x, z, d, h⟩ | h | h
    · simp at h
    · simp at h
    · simp at h
    · exact h
  have main : ∀ (log : List Ev) (sa : St), Reachable sa →
      sa.curOp w = .swait false ∧ exposed (sa.pc w) = true → runLog step sa log = some s2 →
      ∃ e ∈ log, (∃ x z d, e = .popAll x z w d) ∨ (∃ x z d, e = .popResume x z w d) ∨ e = .woke w := by
    intro log
    induction log with
    | nil =>
      intro sa hra hsa hrun
      simp at hrun
      subst hrun
      have := (C07_no_lost_stop sa hra hd w (by simp [hsa.1, isStop])).1
      rw [hsa.2] at this
      simp at this
    | cons e es ih =>
      intro sa hra hsa hrun
      simp only [runLog] at hrun
      cases hs : step sa e with
      | none => simp [hs] at hrun
      | some sb =>
        simp only [hs] at hrun
        rcases exposed_step sa sb hra.inv.2 e w hsa.1 hsa.2 hs with h | h | h | h
        · exact ⟨e, by simp, Or.inl h⟩
        · exact ⟨e, by simp, Or.inr (Or.inl h)⟩
        · exact ⟨e, by simp, Or.inr (Or.inr h)⟩
        · obtain ⟨e', hm, hp⟩ := ih sb (hra.step hs) h hrun
          exact ⟨e', by simp [hm], hp⟩
  exact main log s1 hr1 hs1 h2

/-- **(b) A stop-token wait returns once stop is requested (progress form).**  In a reachable
    stuck state in which stop has been requested, the winning `request_stop` has completed, and
    no thread is blocked in a stop-token wait: every such thread is between operations,
    finished, or (user error) queueing for the user lock that an idle thread keeps. -/
theorem C07_stop_wait_returns (s : St) (hr : Reachable s) (hs : Stuck s) (hq : s.stopReq = true) :
    s.stopDone = true ∧
    ∀ t, t < s.n → isStop (s.curOp t) = true → s.pc t = .idle ∨ s.pc t = .fin ∨ BlockedOnUserLock s t := by
  have hi3 := hr.inv3
  have hd : s.stopDone = true := by
    cases hd : s.stopDone with
    | true => rfl
    | false =>
      exfalso
      have ha := hi3.activeOk hq hd
      have hrn : s.reqT < s.n := by
        apply Classical.byContradiction
        intro hge
        have := hr.inv.1.outside s.reqT (by omega)
        rw [this] at ha; simp [reqPc] at ha
      rcases C07_stuck_only_when_blocked s hr hs s.reqT hrn with h | h | h | h
      · rw [h] at ha; simp [reqPc] at ha
      · rw [h] at ha; simp [reqPc] at ha
      · rw [h.1] at ha; simp [reqPc] at ha
      · rcases h.1 with h | ⟨b, h⟩ <;> (rw [h] at ha; simp [reqPc] at ha)
  refine ⟨hd, fun t htn hc => ?_⟩
  rcases C07_stuck_only_when_blocked s hr hs t htn with h | h | h | h
  · exact Or.inl h
  · exact Or.inr (Or.inl h)
  · exact absurd h (C07_no_lost_stop s hr hd t hc).2
  · exact Or.inr (Or.inr h)

/-- **(c) The callback is deregistered before wait returns.**  When a stop-token wait
    returns, its stop callback is neither linked in the stop state nor in the hands of
    `request_stop`, and the `stop_callback` object has given up its stop state. -/
theorem C07_stop_callback_deregistered (s s' : St) (hr : Reachable s) (t r : Nat)
    (hc : isStop (s.curOp t) = true) (h : step s (.ret t r) = some s') :
    s.kept t = false ∧ t ∉ s.cbs ∧ s.cur ≠ some t := by
  have hpc := ret_wait_pc hr h (by cases hc' : s.curOp t <;> simp [hc', isStop] at hc <;> simp [isWait])
  have hi3 := hr.inv3
  have hk : s.kept t = false := by
    cases hk : s.kept t with
    | false => rfl
    | true =>
      have := (hi3.keptOk t hk).2
      rw [hpc] at this
      simp [bodyPc, dtorPc] at this
  refine ⟨hk, fun hm => ?_, fun hm => ?_⟩
  · have := (hi3.cbsOk t hm).1; rw [hk] at this; simp at this
  · have := (hi3.curOk t hm).1; rw [hk] at this; simp at this

/-- **(c) No dangling callback.**  As long as a callback is linked in the stop state or in the
    hands of `request_stop`, the thread that owns it is inside its stop-token wait (in the
    loop or in `~stop_callback`), so the locals the callback captured by reference are alive,
    and its finished flag is not yet set. -/
theorem C07_stop_callback_owner_inside_wait (s : St) (hr : Reachable s) (c : Nat)
    (h : c ∈ s.cbs ∨ s.cur = some c) :
    isStop (s.curOp c) = true ∧ (bodyPc (s.pc c) = true ∨ dtorPc (s.pc c) = true) ∧ s.cbFin c = false := by
  have hi3 := hr.inv3
  rcases h with h | h
  · obtain ⟨hk, hf⟩ := hi3.cbsOk c h
    exact ⟨(hi3.keptOk c hk).1, (hi3.keptOk c hk).2, hf⟩
  · obtain ⟨hk, _, hf⟩ := hi3.curOk c h
    exact ⟨(hi3.keptOk c hk).1, (hi3.keptOk c hk).2, hf⟩

/-- **(c) `~stop_callback` waits for a running callback.**  The destructor's wait for
    `callback_finished_executing_` ends only when `request_stop` has let go of the callback. -/
theorem C07_stop_dtor_waits (s s' : St) (hr : Reachable s) (t : Nat)
    (h : step s (.stWaited t) = some s') : s.cur ≠ some t ∧ t ∉ s.cbs ∧ s'.kept t = false := by
  have hi3 := hr.inv3
  simp only [step] at h
  split at h
  case isFalse => simp at h
  rename_i hg
  split at h
  case h_2 => simp at h
  simp only [Option.some.injEq] at h
  subst h
  refine ⟨fun hm => ?_, fun hm => ?_, by simp [upd]⟩
  · have := (hi3.curOk t hm).2.2; rw [hg.2] at this; simp at this
  · have := (hi3.cbsOk t hm).2; rw [hg.2] at this; simp at this

/-! ## Non-vacuity: concrete accepted logs reaching the interesting states -/

/-- thread 0 waits, thread 1 locks, sets the flag, unlocks, notifies one; 0 wakes, re-locks,
    returns -/
def exampleLog : List Ev :=
  [.inv 0 .lock, .ulAcq 0, .inv 0 (.wait false false), .slAcq 0, .ulRel 0, .cvEnq 0 1 false, .slRel 0,
   .suspend 0,
   .inv 1 .lock, .ulAcq 1, .inv 1 (.set true), .setFlag 1 true, .inv 1 .unlock, .ulRel 1,
   .inv 1 (.notify false), .slAcq 1, .popResume 1 0 0 false, .slRel 1, .ret 1 0,
   .woke 0, .slAcq 0, .cvWoke 0 false false, .slRel 0, .ulAcq 0, .ret 0 0]

example : (runLog step (init 2 false) exampleLog).isSome = true := by decide

/-- a state with a parked, un-notified waiter exists (`C07_no_lost_notification`) -/
example : ∃ s, runLog step (init 1 false)
    [.inv 0 .lock, .ulAcq 0, .inv 0 (.wait false false), .slAcq 0, .ulRel 0, .cvEnq 0 1 false,
     .slRel 0, .suspend 0] = some s ∧ Parked s 0 := by
  refine ⟨_, rfl, ?_⟩
  simp [Parked, upd, init]

/-- notify_all with two waiters (one timed, sleeping: its resume is dropped) empties the queue -/
example : (runLog step (init 3 false)
    [.inv 0 .lock, .ulAcq 0, .inv 0 (.wait false false), .slAcq 0, .ulRel 0, .cvEnq 0 1 false, .slRel 0,
     .suspend 0,
     .inv 1 .lock, .ulAcq 1, .inv 1 (.wait true false), .slAcq 1, .ulRel 1, .cvEnq 1 2 true, .slRel 1,
     .sleep 1,
     .inv 2 (.notify true), .slAcq 2, .cvAll 2 2, .popAll 2 1 0 false, .popAll 2 0 1 true, .slRel 2,
     .ret 2 0, .timeout 1, .slAcq 1, .cvWoke 1 false true, .slRel 1, .ulAcq 1, .ret 1 0]).isSome = true := by
  decide

/-- a timed predicate wait that times out returns the (false) value of the predicate -/
example : (runLog step (init 1 false)
    [.inv 0 .lock, .ulAcq 0, .inv 0 (.wait true true), .pred 0 false, .slAcq 0, .ulRel 0,
     .cvEnq 0 1 true, .slRel 0, .sleep 0, .timeout 0, .slAcq 0, .cvWoke 0 true true, .slRel 0,
     .ulAcq 0, .pred 0 false, .ret 0 0]).isSome = true := by decide

/-- notify_one on an empty queue reports "none" -/
example : (runLog step (init 1 false)
    [.inv 0 (.notify false), .slAcq 0, .cvNone 0, .slRel 0, .ret 0 0]).isSome = true := by decide

/-- stop-token wait: thread 0 parks; thread 1 requests stop, its callback pops 0; thread 0
    wakes, sees the stop bit under the internal lock, runs `~stop_callback` while thread 1 has
    not yet stored the finished flag (waits for it), returns false; `request_stop` returns true -/
def stopLog : List Ev :=
  [.inv 0 .lock, .ulAcq 0, .inv 0 (.swait false), .stop0 0 false, .stAcq 0 2, .stPush 0 false, .pred 0 false,
   .slAcq 0, .stop1 0 false, .ulRel 0, .cvEnq 0 1 false, .slRel 0, .suspend 0,
   .inv 1 .stop, .stAcq 1 1, .stDeq 1 0 false, .slAcq 1, .cvAll 1 1, .popAll 1 0 0 false, .slRel 1,
   .woke 0, .slAcq 0, .cvWoke 0 false false, .slRel 0, .ulAcq 0, .pred 0 false, .slAcq 0, .stop1 0 true,
   .slRel 0, .stAcq 0 0, .stUnlink 0 false, .stSelf 0 false,
   .stFin 1 0 false, .stWaited 0, .ret 0 0, .stAcq 1 0, .stRsDone 1, .ret 1 1]

example : (runLog step (init 2 false) stopLog).isSome = true := by decide

/-- the stop request falls between the waiter's re-check (S1) and its enqueue: the callback
    queues for the internal lock, finds the waiter enqueued and pops it before it suspends -/
example : (runLog step (init 2 false)
    [.inv 0 .lock, .ulAcq 0, .inv 0 (.swait false), .stop0 0 false, .stAcq 0 2, .stPush 0 false, .pred 0 false,
     .slAcq 0, .stop1 0 false,
     .inv 1 .stop, .stAcq 1 1, .stDeq 1 0 false,
     .ulRel 0, .cvEnq 0 1 false, .slRel 0,
     .slAcq 1, .cvAll 1 1, .popAll 1 0 0 false, .slRel 1, .stFin 1 0 false, .stAcq 1 0, .stRsDone 1, .ret 1 1,
     .suspend 0, .woke 0, .slAcq 0, .cvWoke 0 false false, .slRel 0, .ulAcq 0, .pred 0 false, .slAcq 0,
     .stop1 0 true, .slRel 0, .stAcq 0 0, .stUnlink 0 false, .stSelf 0 false, .stWaited 0, .ret 0 0]).isSome = true := by
  decide

/-- stop requested before the wait: S0 sees it, no callback, the predicate's value is returned;
    stop requested during the registration: the callback runs on the registering thread -/
example : (runLog step (init 2 false)
    [.inv 1 .stop, .stAcq 1 1, .stRsDone 1, .ret 1 1,
     .inv 0 .lock, .ulAcq 0, .inv 0 (.swait false), .stop0 0 true, .pred 0 false, .ret 0 0]).isSome = true := by decide

example : (runLog step (init 2 false)
    [.inv 0 .lock, .ulAcq 0, .inv 0 (.swait false), .stop0 0 false,
     .inv 1 .stop, .stAcq 1 1, .stRsDone 1, .ret 1 1,
     .stSeen 0, .slAcq 0, .cvAll 0 0, .slRel 0, .stInFin 0, .pred 0 false, .slAcq 0, .stop1 0 true, .slRel 0,
     .ret 0 0]).isSome = true := by decide

/-- timed stop-token wait: enqueued with a deadline, the stop callback marks it signalled (the
    resume is dropped by the deadline poller), it wakes at the deadline, `should_stop` is true
    (stop requested), the predicate's value is returned after `~stop_callback` -/
example : (runLog step (init 2 false)
    [.inv 0 .lock, .ulAcq 0, .inv 0 (.swait true), .stop0 0 false, .stAcq 0 2, .stPush 0 false, .pred 0 false,
     .slAcq 0, .stop1 0 false, .ulRel 0, .cvEnq 0 1 true, .slRel 0, .sleep 0,
     .inv 1 .stop, .stAcq 1 1, .stDeq 1 0 false, .slAcq 1, .cvAll 1 1, .popAll 1 0 0 true, .slRel 1,
     .stFin 1 0 false, .stAcq 1 0, .stRsDone 1, .ret 1 1,
     .timeout 0, .slAcq 0, .cvWoke 0 false true, .stop2 0 true, .slRel 0, .ulAcq 0, .pred 0 false,
     .stAcq 0 0, .stUnlink 0 false, .stSelf 0 false, .stWaited 0, .ret 0 0]).isSome = true := by decide

/-- predicate satisfied without a stop request: the waiter unlinks its callback itself -/
example : (runLog step (init 1 true)
    [.inv 0 .lock, .ulAcq 0, .inv 0 (.swait false), .stop0 0 false, .stAcq 0 2, .stPush 0 false, .pred 0 true,
     .stAcq 0 0, .stUnlink 0 true, .ret 0 1]).isSome = true := by decide

end PikaVerif.C07
