import PikaVerif.Props.C04
import PikaVerif.Lemmas.RwT
import PikaVerif.Lemmas.RwProg
import PikaVerif.Lemmas.RwSolo
import PikaVerif.Lemmas.RwMax
import PikaVerif.Lemmas.RwRetry
import PikaVerif.Lemmas.RwThreads
/-!
# C04r — termination of async_rw_mutex programs and final states of maximal runs (follow-up of C04)

`Props/C04.lean` states "every started access is eventually granted" as *no stall* (`C04_no_stall`,
`C04_progress`: a state without an enabled internal step has granted everything grantable).  This
file turns it into statements about whole runs.

**Stutter.**  The model accepts exactly one stutter: the **CAS retry** (`Rw.isRetry`: a `cas` event
that fails while the queue of the shared state is still open - because the head moved since the
thread's last observation, or because the weak CAS failed spuriously).  A retry changes nothing but
the retrying thread's own expected value (`C04r_retry_is_stutter`; the spurious one changes
nothing at all) and can repeat; every bound below therefore counts *all events except CAS retries*
and says so (`Rw.retries log`).  Retries are bounded when the thread runs alone (`C04_solo_start`:
≤ 3 steps to push or be granted).  All other events are real moves.
Sharper: a retry is *real* (`Rw.isReal`: the head has moved since the thread's last observation,
`h0 < q.length`) or *spurious* (the weak CAS failed although its expected value was current: the
state is unchanged).  Real retries are bounded by the progress of others: at most `na²` in any
accepted log (`C04r_real_retries_bounded`; each successful push can make each other thread in the
loop fail once).  So the **only unbounded stutter is the spurious failure of
`compare_exchange_weak`**, and with a CAS that does not fail spuriously (the harness executes it as
`compare_exchange_strong`) every run of a program has at most `bound + |kinds|²` events
(`C04r_bounded_strong`).

* `Rw.mu` is a natural-number measure: `mu s' + cost e ≤ mu s + gain e` for every accepted event
  (`C04r_measure_decreases`): every event of the implementation (`load`, successful / final `cas`,
  `xchg`, `cont`), every `start`, `rel`, `destroy`, `vfree` strictly decreases it; only the
  operations that create work add to it (`req` +6 at most, `copy` +1; `write` / `readv` leave it
  unchanged), and a CAS retry leaves it unchanged.
* A *program* (`Rw.PSt`, `Rw.pstep`, `Lemmas/RwProg.lean`) = the finite request sequence of the
  owner followed by the destruction of the mutex, every sender started or dropped, every wrapper
  copy released, finite budgets of copies / reads / writes; all thread placements.  Every accepted
  log of a program has at most `bound` events plus its CAS retries (`C04r_bounded`), extends to a
  maximal one (`C04r_maximal_exists`), and the final state of a maximal run has **every** request
  made, every access granted exactly once and released, every shared state destroyed with
  reference count zero and the value destroyed (`C04r_final_state`); along the run the grants follow
  the request order of the groups (`C04r_run_order`).
* Per-thread operation lists (`Rw.TSt`, `Lemmas/RwThreads.lean`: thread `t` invokes `prog t` in order, an
  operation the model does not accept yet waits) are restrictions of these runs; their bound is
  `C04r_thread_program_bounded`.  `C04r_quiescent_final` is the final-state theorem for any accepted
  log of the model whose last state is quiescent.
* The destruction of the value happens at most once, only after every access has been released and
  every shared state destroyed, and is the **last event** of the run (`C04r_value_destroyed_last`).
* After a release, the releasing thread running alone finishes every `done()` it is in - the
  cascade through detached accesses included - in at most (queued operation states) + (shared
  states not yet exchanged) steps (`C04r_solo_release`).
-/
namespace PikaVerif.C04r
open PikaVerif PikaVerif.Rw PikaVerif.C04

/-- **The measure.**  In every reachable state every accepted event pays one unit of `mu`, except
    that the operations of the program add the work they create (`gain`: `req` 7, `copy` 2,
    `write` / `readv` 1, everything else 0) and the CAS retry is free (`cost = 0`).  In particular
    every event with `gain e = 0` that is not a CAS retry strictly decreases `mu`, and a CAS retry
    does not increase it. -/
theorem C04r_measure_decreases (log : List Ev) (s s' : St) (e : Ev)
    (h : runLog step init log = some s) (he : step s e = some s') :
    mu s' + cost e ≤ mu s + gain e ∧
    (gain e = 0 → isRetry e = false → mu s' < mu s) ∧
    (isRetry e = true → mu s' ≤ mu s) := by
  have hm := mu_step s s' e (inv_of_accepted h) he
  refine ⟨hm, ?_, ?_⟩
  · intro hg hr
    have : cost e = 1 := by simp [cost, hr]
    omega
  · intro hr
    obtain ⟨t, a, cls, ack, died, hE, _⟩ := isRetry_shape e hr
    subst hE
    simp only [gain] at hm
    omega

/-- **The CAS retry is a stutter.**  A `cas` that fails on an open queue changes nothing but the
    expected value `h` remembered by the retrying thread; if the failure was spurious (the head had
    not moved: `h0 = q.length`) the state is unchanged. -/
theorem C04r_retry_is_stutter (s s' : St) (e : Ev) (hr : isRetry e = true) (he : step s e = some s') :
    ∃ t a det h0 q, s.acc a = .loaded t det h0 ∧ s.head (s.grp a) = some q ∧
      s' = { s with acc := upd s.acc a (.loaded t det q.length) } ∧ (h0 = q.length → s' = s) := by
  obtain ⟨t, a, cls, ack, died, hE, hc⟩ := isRetry_shape e hr
  subst hE
  obtain ⟨det, h0, q, hx, hh, hs⟩ := retry_shape s s' t a cls ack died hc he
  refine ⟨t, a, det, h0, q, hx, hh, hs, ?_⟩
  intro e0
  subst e0
  rw [hs, ← hx, upd_self]

/-- **Bounded logs (model level).**  Every accepted log: its length, not counting CAS retries, plus
    the measure of the state reached is at most 2 + the work created by the operations in it. -/
theorem C04r_log_bound (log : List Ev) (s : St) (h : runLog step init log = some s) :
    log.length + mu s ≤ 2 + gains log + retries log := by
  have h1 := runLog_mu log init s inv_init h
  have h2 := costs_retries log
  rw [mu_init] at h1
  omega

/-- a run of a program is a run of the model -/
theorem C04r_program_refines (kinds : List Bool) (c w r : Nat) (log : List Ev) (p : PSt)
    (h : runLog pstep (pinit kinds c w r) log = some p) : runLog step init log = some p.s :=
  runLog_pstep_step log _ p h

/-- **Bounded runs.**  Any accepted log of a finite program (`kinds`: the requests, `c` / `w` / `r`:
    budgets of wrapper copies / modifications / reads) has at most
    `bound = 2 + 7·|kinds| + 2c + w + r` events that are not CAS retries - whatever the
    interleaving and thread placement. -/
theorem C04r_bounded (kinds : List Bool) (c w r : Nat) (log : List Ev) (p : PSt)
    (h : runLog pstep (pinit kinds c w r) log = some p) :
    log.length ≤ bound kinds c w r + retries log := by
  have h1 := runLog_phi log _ p inv_init h
  have h2 := costs_retries log
  rw [phi_pinit] at h1
  omega

/-- **Real CAS retries are bounded.**  In any accepted log the number of CAS retries that failed
    because the head had really moved is at most the square of the number of requests. -/
theorem C04r_real_retries_bounded (log : List Ev) (s : St) (h : runLog step init log = some s) :
    reals init log ≤ s.na * s.na ∧ reals init log ≤ retries log :=
  ⟨reals_bound log s h, reals_le_retries log init⟩

/-- **Bounded runs, modulo spurious CAS failures only.**  The length of any accepted log of a
    program is at most `bound + |kinds|²` + the number of *spurious* CAS failures in it
    (`retries log - reals init log`); in particular, if no CAS fails spuriously the run has at most
    `bound + |kinds|²` events. -/
theorem C04r_bounded_strong (kinds : List Bool) (c w r : Nat) (log : List Ev) (p : PSt)
    (h : runLog pstep (pinit kinds c w r) log = some p) :
    log.length ≤ bound kinds c w r + kinds.length * kinds.length + (retries log - reals init log) ∧
    (retries log = reals init log → log.length ≤ bound kinds c w r + kinds.length * kinds.length) := by
  have h1 := runLog_phi log _ p inv_init h
  have h2 := costs_retries log
  rw [phi_pinit] at h1
  have hs := runLog_pstep_step log _ p h
  have h3 := reals_bound log p.s hs
  have h4 := reals_le_retries log init
  have hn := runLog_pna log _ p h
  have hle : p.s.na ≤ kinds.length := by simp [pinit, init] at hn; omega
  have h5 : p.s.na * p.s.na ≤ kinds.length * kinds.length := Nat.mul_le_mul hle hle
  constructor
  · omega
  · intro he; omega

/-- **Maximal runs exist.**  Every accepted log of a program extends to a maximal one. -/
theorem C04r_maximal_exists (kinds : List Bool) (c w r : Nat) (log : List Ev) (p : PSt)
    (h : runLog pstep (pinit kinds c w r) log = some p) :
    ∃ ext p', runLog pstep (pinit kinds c w r) (log ++ ext) = some p' ∧ PMax p' := by
  have hi : Inv p.s := inv_of_accepted (C04r_program_refines kinds c w r log p h)
  obtain ⟨ext, p', h1, h2⟩ := maximal_exists (phi p) p hi (Nat.le_refl _)
  refine ⟨ext, p', ?_, h2⟩
  rw [runLog_append, h]; simpa using h1

/-- **Final states of maximal runs.**  When no event of the program is enabled any more: the owner
    has made all its requests (`na = |kinds|`) and destroyed the mutex; **every** requested access
    has been granted exactly once and is completely released; every shared state has been destroyed
    (reference count zero, queue closed, `done()` finished) and the value has been destroyed.
    "Every started access is eventually granted" as a theorem about runs: a maximal run is finite
    (modulo CAS retries, `C04r_bounded`) and cannot end before all of this has happened. -/
theorem C04r_final_state (kinds : List Bool) (c w r : Nat) (log : List Ev) (p : PSt)
    (h : runLog pstep (pinit kinds c w r) log = some p) (hmax : PMax p) :
    p.reqs = [] ∧ p.s.na = kinds.length ∧ p.s.alive = false ∧
    (∀ a, a < p.s.na → p.s.acc a = .released ∧ p.s.grants a = 1) ∧
    (∀ g, g < p.s.ng → p.s.dead g = true ∧ p.s.rc g = 0 ∧ p.s.head g = none ∧ ∃ t, p.s.dn g = .drain t []) ∧
    p.s.vfreed = true := by
  have hs := C04r_program_refines kinds c w r log p h
  have hi : Inv p.s := inv_of_accepted hs
  have ha : PAlive p := runLog_palive log _ p (fun _ => rfl) h
  obtain ⟨hreq, hq⟩ := quiescent_of_pmax p hi ha hmax
  obtain ⟨f1, f2, f3⟩ := final_of_quiescent p.s ⟨log, hs⟩ hq
  have hn := runLog_pna log _ p h
  refine ⟨hreq, ?_, hq.2.2.2.2, f1, f2, f3⟩
  rw [hreq] at hn
  simpa [pinit, init] using hn

/-- **Final states, model level.**  The same for any accepted log of the model (no program
    needed): a reachable state in which no step of the implementation, no start / drop of a sender,
    no release of a wrapper and no value destructor is enabled and whose mutex is destroyed
    (`Rw.Quiescent`) has every access granted exactly once and released, every shared state
    destroyed and the value destroyed. -/
theorem C04r_quiescent_final (log : List Ev) (s : St) (h : runLog step init log = some s)
    (hq : Quiescent s) :
    (∀ a, a < s.na → s.acc a = .released ∧ s.grants a = 1) ∧
    (∀ g, g < s.ng → s.dead g = true ∧ s.rc g = 0 ∧ s.head g = none ∧ ∃ t, s.dn g = .drain t []) ∧
    s.vfreed = true :=
  final_of_quiescent s ⟨log, h⟩ hq

/-- **Per-thread programs.**  `n` threads, thread `t` invokes the operations of `prog t` in that
    order (`Rw.TSt`, `Rw.tstep`, `Lemmas/RwThreads.lean`; an operation the model does not accept yet
    waits; steps of the implementation are free).  Every accepted log is an accepted log of the
    model, and has at most `boundT = 2 + Σ opCost` (7 per request, 2 per copy, 1 per value access)
    events that are not CAS retries, at most `boundT + na²` that are not spurious CAS failures. -/
theorem C04r_thread_program_bounded (n : Nat) (prog : Nat → List Op) (log : List Ev) (p : TSt)
    (h : runLog tstep (tinit n prog) log = some p) :
    runLog step init log = some p.s ∧ log.length ≤ boundT n prog + retries log ∧
    log.length ≤ boundT n prog + p.s.na * p.s.na + (retries log - reals init log) := by
  have hs := runLog_tstep_step log _ p h
  have h1 := runLog_phiT log _ p inv_init h
  have h2 := costs_retries log
  rw [phiT_tinit] at h1
  have h3 := reals_bound log p.s hs
  have h4 := reals_le_retries log init
  exact ⟨hs, by omega, by omega⟩

/-- **Grants follow the request order along the run.**  At every point of a program run: once an
    access has been granted, every access of every earlier group (in particular every earlier
    read-write access, and every access requested before an earlier read-write access) has been
    granted exactly once and completely released; two accesses held together are reads of one group. -/
theorem C04r_run_order (kinds : List Bool) (c w r : Nat) (log : List Ev) (p : PSt)
    (h : runLog pstep (pinit kinds c w r) log = some p) (a b : Nat) (ha : a < p.s.na) (hb : b < p.s.na)
    (hg : WasGranted p.s a) :
    (p.s.grp b < p.s.grp a → p.s.acc b = .released ∧ p.s.grants b = 1) ∧
    (Held p.s a → Held p.s b → p.s.grp a = p.s.grp b ∧ (IsRw p.s a → a = b)) := by
  have hr : Reachable p.s := ⟨log, C04r_program_refines kinds c w r log p h⟩
  refine ⟨fun hlt => ?_, fun h1 h2 => ⟨C04_read_groups _ hr a b h1 h2, C04_rw_exclusive _ hr a b h1 h2⟩⟩
  have h1 := C04_order p.s hr a b ha hb hg hlt
  refine ⟨h1, ?_⟩
  have := (C04_granted_once p.s hr b).2
  unfold WasGranted at this
  rw [h1] at this
  exact this.1 rfl

/-- **The value outlives every access; its destruction is the last event.**  The value destructor
    is accepted only when the mutex is gone, every requested access is released and every shared
    state destroyed; after it no event whatsoever is accepted (in particular no second destruction,
    no release, no grant, no access to the value), and the measure is 0. -/
theorem C04r_value_destroyed_last (log : List Ev) (s s' : St) (t : Nat)
    (h : runLog step init log = some s) (he : step s (.vfree t) = some s') :
    (∀ a, a < s.na → s.acc a = .released) ∧ s.alive = false ∧ (∀ g, g < s.ng → s.dead g = true) ∧
    mu s' = 0 ∧ ∀ e, step s' e = none :=
  vfree_terminal s s' t ⟨log, h⟩ he

/-- **Step bound for one release running alone.**  After `rel t a` the thread `t`, running alone,
    finishes every `done()` frame it is in - the one entered by the destructor of the shared state
    it released last, and those entered by the shared states of detached accesses it grants on the
    way - in exactly `soloRank s - soloRank s'` ≤ `soloRank s` = (queued operation states) +
    (shared states whose head has not been exchanged) steps, all of them `xchg` / `cont` of `t`. -/
theorem C04r_solo_release (log : List Ev) (s s1 : St) (t a : Nat) (d : Bool)
    (h : runLog step init log = some s) (he : step s (.rel t a d) = some s1) :
    ∃ es s', (∀ e, e ∈ es → IsDone t e) ∧ runLog step s1 es = some s' ∧
      es.length + soloRank s' = soloRank s ∧ ¬ TFrame s' t := by
  have hr : Reachable s := ⟨log, h⟩
  have h0 := solo_rel s s1 (inv_of_accepted h) t a d he
  obtain ⟨es, s', e1, e2, e3, e4⟩ := solo_run t (soloRank s1) s1 (reachable_step' hr he) (Nat.le_refl _)
  exact ⟨es, s', e1, e2, by omega, e4⟩

/-! ## Non-vacuity -/

/-- w0, r1, r2 (one read group), w3 dropped unstarted; 1 is queued behind the held 0; 0 is written
    through and released by thread 1, which runs `done()` of the read group; 2 is granted inline,
    copied, read; the mutex is destroyed early; the last release of the read group cascades:
    `done()` of group 2 grants the detached 3, whose shared state dies at once; the value is
    destroyed last. -/
def runEx : List Ev :=
  [.req 0 0 true true false, .xchg 0 0 0, .req 0 1 false true false, .req 0 2 false false false,
   .req 0 3 true true false, .destroy 0 false,
   .start 1 0 false, .load 1 0 2 true false,
   .start 2 1 false, .load 2 1 0 false false, .cas 2 1 false 0 false false, .cas 2 1 true 0 false false,
   .start 3 3 true, .load 3 3 0 false false, .cas 3 3 true 0 false false,
   .write 1 0 1, .rel 1 0 true, .xchg 1 1 1, .cont 1 1 (some 1) false,
   .start 0 2 false, .load 0 2 2 true false, .copy 0 2, .readv 2 1 1,
   .rel 2 1 false, .rel 0 2 false, .rel 3 2 true, .xchg 3 2 1, .cont 3 2 none true,
   .vfree 3]

example : (runLog pstep (pinit [true, false, false, true] 1 1 1) runEx).isSome = true := by decide

/-- `runEx` is a maximal run of its program; it contains one (spurious) CAS retry and respects the
    bound -/
example : ∃ p, runLog pstep (pinit [true, false, false, true] 1 1 1) runEx = some p ∧ PMax p ∧
    p.s.na = 4 ∧ retries runEx = 1 ∧ runEx.length = 29 ∧ bound [true, false, false, true] 1 1 1 = 34 := by
  cases hp : runLog pstep (pinit [true, false, false, true] 1 1 1) runEx with
  | none =>
    have : (runLog pstep (pinit [true, false, false, true] 1 1 1) runEx).isSome = true := by decide
    simp [hp] at this
  | some p =>
    have hmax : PMax p := pmax_of_vfree_last (pinit [true, false, false, true] 1 1 1) p (runEx.take 28) 3
      ⟨[], rfl⟩ (by simpa [runEx] using hp)
    have hf := C04r_final_state _ 1 1 1 runEx p hp hmax
    exact ⟨p, rfl, hmax, hf.2.1, by decide, by decide, by decide⟩

/-- the solo bound: after `rel 3 2` (event 26 of `runEx`) thread 3 has two steps to run alone - the
    exchange on the last shared state and the continuation of the detached access 3 - and
    `soloRank` is 2 -/
example : C04.reaches (runEx.take 25) (fun s => soloRank s == 2 && s.acc 3 == .queued true) = true := by decide

/-- `runEx` as a run of a per-thread program: thread 0 owns the mutex -/
def progEx : Nat → List Op
  | 0 => [.req true, .req false, .req false, .req true, .destroy, .start 2 false, .copy 2, .rel 2]
  | 1 => [.start 0 false, .write 0, .rel 0]
  | 2 => [.start 1 false, .readv 1, .rel 1]
  | 3 => [.start 3 true, .rel 2]
  | _ => []

example : (runLog tstep (tinit 4 progEx) runEx).isSome = true ∧ boundT 4 progEx = 34 := by decide

/-- a real CAS retry: 1 and 2 are reads of one group behind the held read-write access 0; both load
    the empty open queue, 2 pushes first, the CAS of 1 fails because the head moved (class 1 = an
    operation state), its second CAS succeeds -/
def retryLog : List Ev :=
  [.req 0 0 true true false, .xchg 0 0 0, .req 0 1 false true false, .req 0 2 false false false,
   .start 1 0 false, .load 1 0 2 true false,
   .start 2 1 false, .load 2 1 0 false false, .start 3 2 false, .load 3 2 0 false false,
   .cas 3 2 true 0 false false, .cas 2 1 false 1 false false, .cas 2 1 true 0 false false]

example : (runLog step init retryLog).isSome = true ∧ reals init retryLog = 1 ∧ retries retryLog = 1 ∧
    reals init runEx = 0 ∧ retries runEx = 1 := by decide

/-- not maximal before the end: after the mutex has been destroyed and everything started, the run
    cannot stop while access 1 is still queued (the measure is still positive) -/
example : C04.reaches (runEx.take 15) (fun s => mu s == 13 && s.acc 1 == .queued false && s.vfreed == false) = true := by
  decide

end PikaVerif.C04r
