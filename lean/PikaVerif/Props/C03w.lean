import PikaVerif.Lemmas.WhenAllLife
import PikaVerif.Props.C03
/-!
# C03 — life cycle of the `when_all` / `when_all_vector` operation state (follow-up C03w)

"Exactly one completion signal ... nothing is signalled after the operation state may be destroyed, every
object stored by the operation is destroyed exactly once" for `when_all` and `when_all_vector` under
concurrency.

`PikaVerif.WhenAllLife.step` (Model/WhenAllLife.lean) is a layer on the protocol acceptor
`PikaVerif.WhenAll.step` (Model/WhenAll.lean, unchanged): `n` child receivers run concurrently on any
threads or inline in the start loop; per child the events are `fire` (the child's leaf completes its
receiver), `sig` (flag access: value child = load + store of its value, error child = `exchange(true)` + store
of its error if it won, stopped child = store `true`), `store` / `latch` (notes of the hooks: this call stored
its value / won the exchange), `dec` (`--predecessors_remaining`), and for the child whose decrement reached
zero `zero` (reads flag and `error.has_value()`), `rcv` (reads the results, completes the downstream receiver),
return.  Completing the downstream receiver destroys the whole operation state when `selfdel` (start_detached,
sync_wait, the harness' self-deleting operation state); every later event that reads or writes the operation
state (`touches`) raises `uaf`; the acceptor never refuses such an event.

All theorems quantify over every `n` (`when_all_vector`: `n ≥ 0`, `n = 0` completes in `start()` as the
code does; `when_all`: `n ≥ 1`, the code's `static_assert`), every choice of completion channel and payload of
every child, every accepted log (every interleaving of any number of threads, inline completions in the
start loop included).

Not a theorem because the code does not do it: pika's when_all has no stop source, a failing child does not
request stop of its siblings (they run to completion; a value child that finds the flag set stores nothing).
-/
namespace PikaVerif.C03
open PikaVerif

def WLReach (c : WhenAllLife.Cfg) (n : Nat) (s : WhenAllLife.St) : Prop :=
  ∃ log, runLog WhenAllLife.step (WhenAllLife.init c n) log = some s

def WLQuiet (s : WhenAllLife.St) : Prop := ∀ t, s.b.pc t = .idle ∨ s.b.pc t = .fin

/-- every child sent a value -/
def AllValues (s : WhenAllLife.St) (n : Nat) : Prop := ∀ i, i < n → ∃ a, s.b.compl i = some (0, a)

/-- The protocol state underneath a reachable state of the life-cycle model is a reachable state of the
    protocol model: `C03_when_all_at_most_once`, `C03_when_all_exactly_once`, `C03_when_all_decision` apply
    to `s.b`. -/
theorem C03w_refines (c : WhenAllLife.Cfg) (n : Nat) (s : WhenAllLife.St) (hr : WLReach c n s)
    (hn : 0 < n) : WReach s.b := by
  obtain ⟨log, hl⟩ := hr
  exact ⟨n, log, WhenAllLife.runLog_proj log _ s (by simp [WhenAllLife.init, WhenAll.init]; omega) hl⟩

/-- **Exactly one downstream completion, issued by the child that performed the last decrement.**
    In every reachable state the downstream receiver has been completed at most once.  If it has (`n > 0`):
    the call was made by the child `k` whose `--predecessors_remaining` reached zero (`lastC`), from inside that
    child's receiver call (thread `lastT`, the thread that runs child `k`), after every child's decrement.
    `n = 0` (`when_all_vector`): the call was made by `start()` itself.  When `start()` was called, every child
    has completed and every call has returned, it has been completed exactly once. -/
theorem C03w_exactly_one_completion (c : WhenAllLife.Cfg) (n : Nat) (s : WhenAllLife.St)
    (hr : WLReach c n s) (hw : c.vector = true ∨ 0 < n) :
    s.b.delivered ≤ 1 ∧
    (s.b.delivered = 1 → 0 < n →
      ∃ k, s.lastC = some k ∧ s.issuer = some k ∧ k < n ∧ s.b.remaining = 0 ∧
        (∀ i, i < n → s.b.stage i = 3) ∧ s.issuerT = some s.b.lastT ∧ s.b.who k = s.b.lastT) ∧
    (s.b.delivered = 1 → n = 0 →
      s.issuer = none ∧ s.issuerT = some s.starterT ∧ s.b.result = some (0, WhenAll.enc (WhenAll.vals s.b) 0)) ∧
    (WLQuiet s → s.started = true → (∀ i, i < n → s.b.firedI i = true) → s.b.delivered = 1) := by
  cases n with
  | zero =>
    have hv : c.vector = true := by
      rcases hw with h | h
      · exact h
      · omega
    obtain ⟨log, hl⟩ := hr
    have hz := WhenAllLife.zinv_of_accepted hv hl
    refine ⟨by rcases hz.del with h | h <;> omega, fun _ h => absurd h (Nat.lt_irrefl 0), fun hd _ => ?_,
      fun hq hs _ => ?_⟩
    · have := hz.delRes hd
      exact ⟨hz.noChild.2, this.2.2, by rw [this.1]; rfl⟩
    · rcases hz.del with h | h
      · have := hz.startedPc hs h
        rcases hq s.starterT with h' | h' <;> rw [h'] at this <;> simp at this
      · exact h
  | succ m =>
    have hn : 0 < m + 1 := Nat.succ_pos m
    have hnn := WhenAllLife.n_of_reach hr hn
    have hf := WhenAllLife.full_of_reach hr hn
    refine ⟨by rcases hf.winv.w2.delOnce with h | ⟨h, _⟩ <;> omega, fun hd _ => ?_,
      fun _ h => absurd h (Nat.succ_ne_zero m), fun hq _ hall => ?_⟩
    · have hz : s.b.remaining = 0 := by
        rcases hf.winv.w2.delOnce with h | ⟨_, hz⟩
        · omega
        · exact hz
      have hiss := hf.linv.issued hd
      cases hk : s.lastC with
      | none => exact absurd hz (fun h => (hf.linv.lastSome.mpr h) hk)
      | some k =>
        have hst := hf.linv.lastStage k hk
        refine ⟨k, rfl, by rw [hiss.1, hk], by omega, hz, ?_, hiss.2, hst.2.2⟩
        intro i hi
        exact WhenAll.all_decremented s.b hf.winv.cnt hz i (by omega)
    · exact (C03_when_all_exactly_once s.b (C03w_refines c _ s hr hn) hq (by omega)
        (fun i hi => hall i (by omega))).1

/-- **The completion is the one the composition denotes.**  Once the downstream receiver has been completed
    (`n > 0`): it is `set_value` iff every child sent a value, and then it carries every child's value — the
    slot the last child reads for child `i` holds exactly the value child `i` sent, the payload is their
    encoding in child order; otherwise the decision is that of `first`, the first non-value child to reach the
    flag: stopped if that child was stopped, else the error that child sent (`first` is a child that really
    completed with that signal); if some child failed and none was stopped it is the error of the failing
    child that won the exchange. -/
theorem C03w_completion_is_the_denoted_one (c : WhenAllLife.Cfg) (n : Nat) (s : WhenAllLife.St)
    (hr : WLReach c n s) (hn : 0 < n) (hd : s.b.delivered = 1) :
    ((∃ v, s.b.result = some (0, v)) ↔ AllValues s n) ∧
    (AllValues s n → s.b.result = some (0, WhenAll.enc (WhenAll.vals s.b) n) ∧
      ∀ i, i < n → ∃ a, s.b.compl i = some (0, a) ∧ s.b.slots i = some a) ∧
    (∀ i ch e, s.b.first = some (i, ch, e) → i < n ∧ s.b.compl i = some (ch, e) ∧ ch ≠ 0 ∧
      s.b.result = some (if ch = 1 then (1, 0) else (2, e))) ∧
    (¬ AllValues s n → ∃ i ch e, s.b.first = some (i, ch, e)) ∧
    (¬ AllValues s n → (∀ i a, i < n → s.b.compl i ≠ some (1, a)) →
      ∃ i ch e, s.b.first = some (i, ch, e) ∧ ch ≠ 0 ∧ ch ≠ 1 ∧ s.b.compl i = some (ch, e) ∧
        s.b.result = some (2, e)) := by
  have hnn := WhenAllLife.n_of_reach hr hn
  have hf := WhenAllLife.full_of_reach hr hn
  have wr := C03w_refines c n s hr hn
  obtain ⟨hz, hst, hres⟩ := (C03_when_all_at_most_once s.b wr).2 hd
  obtain ⟨d1, d2, d3⟩ := C03_when_all_decision s.b wr hz
  rw [hnn] at d1 d3 hst
  have hval : AllValues s n → s.b.first = none := by
    intro hv
    cases hfi : s.b.first with
    | none => rfl
    | some p =>
      obtain ⟨j, ch, e⟩ := p
      have h3 := d3 j ch e hfi
      obtain ⟨a, ha⟩ := hv j h3.1
      rw [ha] at h3
      have := h3.2.1
      simp only [Option.some.injEq, Prod.mk.injEq] at this
      exact absurd this.1.symm h3.2.2.1
  have hnv : ¬ AllValues s n → ∃ i ch e, s.b.first = some (i, ch, e) := by
    intro hv
    cases hfi : s.b.first with
    | none =>
      exfalso; apply hv
      have := d2 hfi
      exact d1.mp (by rw [this])
    | some p => exact ⟨p.1, p.2.1, p.2.2, rfl⟩
  refine ⟨⟨?_, ?_⟩, ?_, ?_, hnv, ?_⟩
  · rintro ⟨v, hv⟩
    apply d1.mp
    rw [hres] at hv
    simp only [Option.some.injEq] at hv
    rw [hv]
  · intro hv
    have := d2 (hval hv)
    exact ⟨_, by rw [hres, this]⟩
  · intro hv
    have hfi := hval hv
    refine ⟨by rw [hres, d2 hfi, hnn], fun i hi => ?_⟩
    obtain ⟨a, ha⟩ := hv i hi
    exact ⟨a, ha, (hf.winv.w3.valuesStored hfi i 0 a (by rw [hst i hi]; omega) ha).2⟩
  · intro i ch e hfi
    have := d3 i ch e hfi
    exact ⟨this.1, this.2.1, this.2.2.1, by rw [hres, this.2.2.2]⟩
  · intro hv hns
    obtain ⟨i, ch, e, hfi⟩ := hnv hv
    have := d3 i ch e hfi
    have hc1 : ch ≠ 1 := by
      intro h1; subst h1
      exact hns i e this.1 this.2.1
    exact ⟨i, ch, e, hfi, this.2.2.1, hc1, this.2.1, by rw [hres, this.2.2.2]; simp [hc1]⟩

/-- **What "first" means: the winner of the exchange.**  In the protocol model, a non-value child whose flag
    access finds the flag clear (its `exchange(true)` returned `false`; a stopped child's plain store of `true`
    likewise) becomes `first` and sets the flag; a child that finds the flag set changes neither `first` nor
    the stored error; and `first`, once set, never changes. -/
theorem C03w_first_is_the_exchange_winner (s s' : WhenAll.St) (hr : WReach s) :
    (∀ t i ch arg cx, s.pc t = .fired i ch arg cx → ch ≠ 0 → WhenAll.step s (.sig t ch) = some s' →
      (s.latch = false → s'.first = some (i, ch, arg) ∧ s'.latch = true) ∧
      (s.latch = true → s'.first = s.first ∧ s'.err = s.err)) ∧
    (∀ e p, WhenAll.step s e = some s' → s.first = some p → s'.first = some p) := by
  obtain ⟨n, log, hl⟩ := hr
  have hi := WhenAll.winv_of_accepted hl
  have hlf := hi.w3.latchFirst
  refine ⟨?_, ?_⟩
  · intro t i ch arg cx hpc hch h
    simp only [WhenAll.step, hpc, if_true, hch, if_false] at h
    constructor
    · intro hlat
      have hnone : s.first = none := by
        cases hfi : s.first with
        | none => rfl
        | some p => have := hlf.mpr (by rw [hfi]; simp); rw [hlat] at this; simp at this
      repeat' split at h
      all_goals first | (simp_all; done) | (simp only [Option.some.injEq] at h; subst h; simp)
    · intro hlat
      have hsome : s.first ≠ none := hlf.mp hlat
      repeat' split at h
      all_goals first | (simp_all; done) | (simp only [Option.some.injEq] at h; subst h; simp)
  · intro e p h hp
    cases e <;> simp only [WhenAll.step] at h <;> (repeat' split at h) <;>
      first
      | (simp at h; done)
      | (simp only [Option.some.injEq] at h; subst h; (try (simp only [WhenAll.afterCall]; split)) <;>
          first | (simp [hp]; done) | simp_all)

/-- **No access to the operation state after the last decrement, except by the last child.**  In a reachable
    state in which some child `k`'s decrement has reached zero, every accepted event that reads or writes the
    operation state (start loop, a leaf completing, any step of a child receiver call, the downstream
    completion) belongs to child `k` and is made from inside `k`'s receiver call; and `k` stays the last
    child. -/
theorem C03w_no_access_after_last_decrement (c : WhenAllLife.Cfg) (n : Nat) (s s' : WhenAllLife.St)
    (hr : WLReach c n s) (hn : 0 < n) (e : WhenAll.Ev) (h : WhenAllLife.step s e = some s') (k : Nat)
    (hk : s.lastC = some k) :
    (WhenAllLife.touches e = true →
      WhenAllLife.actor s e = some k ∧ WhenAll.isLast (s.b.pc (WhenAllLife.tidOf e)) = true) ∧
    s'.lastC = some k := by
  have hf := WhenAllLife.full_of_reach hr hn
  refine ⟨fun ht => ?_, WhenAllLife.lastC_stable s s' e hf.linv h k hk⟩
  have hz : s.b.remaining = 0 := hf.linv.lastSome.mp (by rw [hk]; simp)
  obtain ⟨hb, _, _⟩ := WhenAllLife.step_proj s s' e hf.linv.npos h
  have := WhenAllLife.touch_after_zero s s'.b e hf.winv.w1 hf.winv.w2 hf.winv.cnt hf.a hf.linv hb ht hz
  exact ⟨by rw [this.2, hk], this.1⟩

/-- The same over logs: if `pre ++ e :: post` is accepted and child `k`'s decrement reached zero within `pre`,
    then `e`, if it reads or writes the operation state, is an event of child `k`. -/
theorem C03w_no_access_after_last_decrement_log (c : WhenAllLife.Cfg) (n : Nat) (hn : 0 < n)
    (pre post : List WhenAll.Ev) (e : WhenAll.Ev) (s s' : WhenAllLife.St)
    (hpre : runLog WhenAllLife.step (WhenAllLife.init c n) pre = some s)
    (hall : runLog WhenAllLife.step (WhenAllLife.init c n) (pre ++ e :: post) = some s') (k : Nat)
    (hk : s.lastC = some k) (ht : WhenAllLife.touches e = true) : WhenAllLife.actor s e = some k := by
  rw [runLog_append, hpre] at hall
  simp only [Option.bind, runLog] at hall
  cases hs : WhenAllLife.step s e with
  | none => simp [hs] at hall
  | some s1 => exact ((C03w_no_access_after_last_decrement c n s s1 ⟨pre, hpre⟩ hn e hs k hk).1 ht).1

/-- **No child touches the operation state after its own decrement unless it is the last one.**  Every accepted
    event of child `i` that reads or writes the operation state happens before `i`'s decrement
    (`stage i < 3`), or `i` is the child whose decrement reached zero. -/
theorem C03w_child_access_before_own_decrement (c : WhenAllLife.Cfg) (n : Nat) (s s' : WhenAllLife.St)
    (hr : WLReach c n s) (hn : 0 < n) (e : WhenAll.Ev) (h : WhenAllLife.step s e = some s')
    (ht : WhenAllLife.touches e = true) (i : Nat) (hact : WhenAllLife.actor s e = some i) :
    s.b.stage i < 3 ∨ s.lastC = some i := by
  have hf := WhenAllLife.full_of_reach hr hn
  obtain ⟨hb, _, _⟩ := WhenAllLife.step_proj s s' e hf.linv.npos h
  exact WhenAllLife.touch_own s s'.b e hf.winv.w1 hf.winv.w2 hf.linv hb ht i hact

/-- **Nothing touches the operation state after the completing call destroyed it; it is destroyed at most
    once.**  `uaf = false` in every reachable state; the operation state is destroyed iff the downstream
    receiver is self-deleting and has been completed, at most once; and once it is destroyed the start loop has
    started every child and no thread is inside a child receiver call any more. -/
theorem C03w_no_touch_after_release (c : WhenAllLife.Cfg) (n : Nat) (s : WhenAllLife.St)
    (hr : WLReach c n s) (hw : c.vector = true ∨ 0 < n) :
    s.uaf = false ∧ s.nfree ≤ 1 ∧ (s.freed = true ↔ s.nfree = 1) ∧
    (s.freed = true ↔ (c.selfdel = true ∧ s.b.delivered = 1)) ∧
    (s.freed = true → s.b.armedTo = n ∧
      ∀ t, WhenAll.curOf (s.b.pc t) = none ∧ WhenAll.isLast (s.b.pc t) = false) := by
  have hcfg : s.cfg = c := by obtain ⟨log, hl⟩ := hr; exact WhenAllLife.cfg_of_accepted hl
  have hnf : ∀ b : Bool, WhenAllLife.b2n b ≤ 1 ∧ (b = true ↔ WhenAllLife.b2n b = 1) := by
    intro b; cases b <;> simp [WhenAllLife.b2n]
  cases n with
  | zero =>
    have hv : c.vector = true := by
      rcases hw with h | h
      · exact h
      · omega
    obtain ⟨log, hl⟩ := hr
    have hz := WhenAllLife.zinv_of_accepted hv hl
    refine ⟨hz.noUaf, by rw [hz.nfreeEq]; exact (hnf _).1, by rw [hz.nfreeEq]; exact (hnf _).2,
      by rw [← hcfg]; exact hz.freedIff, fun _ => ⟨hz.armed0, fun t => ?_⟩⟩
    rcases hz.pcKinds t with h | h | h <;> rw [h] <;> simp [WhenAll.curOf, WhenAll.isLast]
  | succ m =>
    have hn : 0 < m + 1 := Nat.succ_pos m
    have hnn := WhenAllLife.n_of_reach hr hn
    have hf := WhenAllLife.full_of_reach hr hn
    refine ⟨hf.noUaf, by rw [hf.linv.nfreeEq]; exact (hnf _).1, by rw [hf.linv.nfreeEq]; exact (hnf _).2,
      by rw [← hcfg]; exact hf.linv.freedIff, fun hfr => ?_⟩
    have hd := (hf.linv.freedIff.mp hfr).2
    have hz : s.b.remaining = 0 := by
      rcases hf.winv.w2.delOnce with h | ⟨_, hz⟩
      · omega
      · exact hz
    have hst := WhenAll.all_decremented s.b hf.winv.cnt hz
    constructor
    · have h1 := hf.a.firedArmed m ((hf.winv.w1.firedStage m).mpr (by rw [hst m (by omega)]; omega))
      have h2 := hf.a.armedLe
      omega
    · intro t
      constructor
      · cases hcur : WhenAll.curOf (s.b.pc t) with
        | none => rfl
        | some i =>
          exfalso
          have := hf.winv.w1.curStage t i hcur
          have h3 := hst i this.2.2.1
          rw [this.2.1] at h3
          cases hp : s.b.pc t <;> simp [hp, WhenAll.stOf] at h3
      · cases hl : WhenAll.isLast (s.b.pc t) with
        | false => rfl
        | true => have := (hf.winv.w2.lastPc t hl).2.2; omega

/-- **Destroyed exactly once.**  With a self-deleting downstream receiver, once `start()` was called, every
    child has completed and every call has returned, the operation state has been destroyed exactly once (and
    nothing touched it afterwards). -/
theorem C03w_destroyed_exactly_once (c : WhenAllLife.Cfg) (n : Nat) (s : WhenAllLife.St)
    (hr : WLReach c n s) (hw : c.vector = true ∨ 0 < n) (hsd : c.selfdel = true) (hq : WLQuiet s)
    (hs : s.started = true) (hall : ∀ i, i < n → s.b.firedI i = true) :
    s.freed = true ∧ s.nfree = 1 ∧ s.uaf = false := by
  have hd := (C03w_exactly_one_completion c n s hr hw).2.2.2 hq hs hall
  obtain ⟨hu, _, h1, h2, _⟩ := C03w_no_touch_after_release c n s hr hw
  have hfr := h2.mpr ⟨hsd, hd⟩
  exact ⟨hfr, h1.mp hfr, hu⟩

/-! ### Non-vacuity -/

/-- Three children, self-deleting downstream receiver.  Thread 0 starts; child 0 (thread 1) sends the value 5;
    child 1 (thread 2) fails with error 7 and wins the exchange; child 2 is slow: its value 9 arrives last on
    thread 3, finds the flag set (stores nothing), its decrement reaches zero, it reads flag and error and
    completes the downstream receiver with error 7, which destroys the operation state.  Child 1 decremented
    before child 0: the order of the decrements does not matter. -/
def wlDemo : List WhenAll.Ev :=
  [.invStart 0, .ret 0, .tdone 0,
   .invComplete 1 0 0 5, .fire 1 0 0 5, .sig 1 0, .store 1 0,
   .invComplete 2 1 2 7, .fire 2 1 2 7, .sig 2 2, .latch 2, .dec 2, .ret 2,
   .dec 1, .ret 1,
   .invComplete 3 2 0 9, .fire 3 2 0 9, .sig 3 0, .dec 3, .zero 3 true true, .rcv 3 2 7, .ret 3]

example : (runLog WhenAllLife.step (WhenAllLife.init ⟨false, true⟩ 3) wlDemo).map
    (fun s => (s.b.delivered, s.b.result, s.b.first)) = some (1, some (2, 7), some (1, 2, 7)) := by decide
example : (runLog WhenAllLife.step (WhenAllLife.init ⟨false, true⟩ 3) wlDemo).map
    (fun s => ((s.lastC, s.issuer, s.issuerT), (s.freed, s.nfree, s.uaf))) =
    some ((some 2, some 2, some 3), (true, 1, false)) := by decide

/-- the slow child is needed: before it completes nothing is delivered, the counter is 1 -/
example : (runLog WhenAllLife.step (WhenAllLife.init ⟨false, true⟩ 3) (wlDemo.take 15)).map
    (fun s => (s.b.delivered, s.b.remaining, s.lastC, s.freed)) = some (0, 1, none, false) := by decide

/-- after the last decrement a step of another child is not accepted any more, nor a second completion -/
example : runLog WhenAllLife.step (WhenAllLife.init ⟨false, true⟩ 3) (wlDemo ++ [.dec 1]) = none ∧
    runLog WhenAllLife.step (WhenAllLife.init ⟨false, true⟩ 3) (wlDemo.take 21 ++ [.rcv 3 2 7]) = none := by
  decide

/-- all three values: the last child (here child 0, completing inline in the start loop because its completion
    was requested before `start()`) delivers the values of all children in child order -/
example : (runLog WhenAllLife.step (WhenAllLife.init ⟨false, true⟩ 3)
    [.invComplete 1 2 0 3, .ret 1, .invComplete 2 1 0 2, .ret 2, .invComplete 3 0 0 1, .ret 3,
     .invStart 0, .fire 0 0 0 1, .sig 0 0, .store 0 0, .dec 0,
     .fire 0 1 0 2, .sig 0 0, .store 0 1, .dec 0,
     .fire 0 2 0 3, .sig 0 0, .store 0 2, .dec 0, .zero 0 false false, .rcv 0 0 (1 + 2 * 16 + 3 * 256),
     .ret 0]).map
    (fun s => ((s.b.delivered, s.b.result), (s.lastC, s.issuer), (s.freed, s.nfree, s.uaf))) =
    some ((1, some (0, 801)), (some 2, some 2), (true, 1, false)) := by decide

/-- `when_all_vector` without predecessors: `start()` itself completes the downstream receiver with the empty
    vector, exactly once; `when_all` with `n = 0` does not exist (`static_assert`): no event is accepted. -/
example : (runLog WhenAllLife.step (WhenAllLife.init ⟨true, true⟩ 0)
    [.invStart 0, .rcv 0 0 0, .ret 0, .tdone 0]).map
    (fun s => ((s.b.delivered, s.b.result, s.issuerT), (s.freed, s.nfree, s.uaf))) =
    some ((1, some (0, 0), some 0), (true, 1, false)) := by decide
example : runLog WhenAllLife.step (WhenAllLife.init ⟨true, true⟩ 0) [.invStart 0, .ret 0] = none ∧
    runLog WhenAllLife.step (WhenAllLife.init ⟨true, true⟩ 0) [.invStart 0, .rcv 0 0 0, .rcv 0 0 0] = none ∧
    runLog WhenAllLife.step (WhenAllLife.init ⟨false, true⟩ 0) [.invStart 0] = none := by decide

end PikaVerif.C03
