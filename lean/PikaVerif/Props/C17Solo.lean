import PikaVerif.Lemmas.DequeSolo
/-!
# C17 (follow-up C17t) — solo termination (obstruction freedom) of the lock-free deque

Model `PikaVerif.Deque` (`Model/Deque.lean`), repaired tagging discipline `stepF = stepG true`
(the tree carries the `fix:` of the link-tag ABA; the unrestricted invariant holds for it).

**Statement.**  Take ANY reachable state `s` (`runLog stepF (init n) log = some s`: any number of
threads, any operation mix, any interleaving — in particular states in which other threads are
stalled in the middle of a push or pop: an unstable anchor left behind, a stabilisation half done,
a node allocated and not yet linked, a node unlinked and not yet freed).  Let `t` be a thread that
is between operations (`s.pc t = idle`).  If `t` now starts an operation and **only `t` takes
steps**, the operation returns after a bounded number of `t`'s own events, with the right answer:

* `pop_left/right` on a non-empty deque: at most 14 events (`inv`, ≤ 12, `ret`), returns `true`
  with the element at that end, which is removed (`C17_deque_solo_pop_nonempty`);
* `pop_left/right` on an empty deque: exactly 3 events, returns `false` (`C17_deque_solo_pop_empty`);
* `push_left/right`: at most 19 events (`inv`, ≤ 17, `ret`), returns `true`, the value is at
  that end (`C17_deque_solo_push`);
* the `push(v, other_end)` / `pop(v, steal)` calls of the three deque back-end adapters
  (`C17_backend_solo_pop`, `C17_backend_solo_push`): same bounds at the end the adapter uses.

Events are the model's shared accesses (one per hook point of `deque.hpp`): the bounds count the
anchor load, the helping `stabilize` of an anchor some stalled thread left unstable (≤ 6: two
link loads, two re-checks, link CAS, anchor CAS), the reload, the operation proper and, for a
push, the stabilisation of the thread's own push.  Every compare-exchange of a solo run succeeds
at its first attempt: no retry loop is ever taken twice.

The other threads' program counters are untouched (`∀ u ≠ t, s'.pc u = s.pc u`): the run is a
run of `t` alone, and it is a run of the model (`runLog stepF s … = some s'`), i.e. by the E1 tie
a sequence of shared accesses the real code performs under a schedule that runs only `t`.

Form of the statements: *existence* of the bounded solo run.  In a solo run started from `idle`
every node the thread reads is in the chain (hence allocated), so the model's only sources of
non-determinism (the freelist's `next` word in a free node, which node `allocate` hands out) do
not arise except for the identity of the fresh node; the accepted solo event sequence is then
unique up to that identity.  That uniqueness is NOT proved here (see notes/C17.md, C17t); the
driver's solo monitor (`Driver/DequeDrv.lean`, `soloMon`) tests the bound `Deque.soloBound` and the
answer on every operation of the real runs that no other thread interleaved with.
`C17_deque_solo_bound_pinned_partial`: the same for the pinned tree under `stale = false`.
-/
namespace PikaVerif.Deque
open PikaVerif

/-! ## Concrete reachable states with a stalled second thread (non-vacuity)

`stalledLog`: thread 1 pushed 1, then ran `push_left(2)` up to its successful anchor CAS and
stopped: the anchor is `(l=2, r=1, lpush, tag 2)` — **unstable**, node 1's `left` link still
null — and thread 1 sits at the first link load of its `stabilize_left`.  Thread 0 is idle.
`stalledLog2`: the same, thread 1 stopped two instructions before its link CAS (`stLink`).
`stalledLog3`: thread 1 allocated a node for a push and stopped before loading the anchor; the
deque is empty. -/
def stalledLog : List Ev :=
  [.inv 1 true false 1, .alloc 1 1, .ld 1 ⟨0, 0, 0, 0⟩, .cas 1 true, .ret 1 true 0,
   .inv 1 true false 2, .alloc 1 2, .ld 1 ⟨1, 1, 0, 1⟩, .link 1 2 1, .cas 1 true]
def stalledLog2 : List Ev :=
  stalledLog ++ [.rd 1 ⟨1, 2⟩, .chk 1 true, .rd 1 ⟨0, 1⟩, .chk 1 true]
def stalledLog3 : List Ev := [.inv 1 true false 1, .alloc 1 1]

example : (runLog stepF (init 2) stalledLog).map (fun s => (s.pc 0, s.pc 1, s.anchor, contents s)) =
    some (.idle, .stRd1 .pushDone false ⟨2, 1, 2, 2⟩, ⟨2, 1, 2, 2⟩, [2, 1]) := by decide
example : (runLog stepF (init 2) stalledLog2).map (fun s => (s.pc 0, s.pc 1, s.anchor, contents s)) =
    some (.idle, .stLink .pushDone false ⟨2, 1, 2, 2⟩ ⟨1, 2⟩ ⟨0, 1⟩, ⟨2, 1, 2, 2⟩, [2, 1]) := by decide

/-- the solo `pop_right` of thread 0 from `stalledLog`: 14 events — the bound is attained: load,
    help thread 1's push (two link loads, two re-checks, link CAS, anchor CAS), reload, re-check,
    link load, anchor CAS, free, return 1 -/
def soloPopRight : List Ev :=
  [.inv 0 false true 0, .ld 0 ⟨2, 1, 2, 2⟩, .rd 0 ⟨1, 2⟩, .chk 0 true, .rd 0 ⟨0, 1⟩, .chk 0 true,
   .lcas 0 true, .cas 0 true, .ld 0 ⟨2, 1, 0, 3⟩, .chk 0 true, .rd 0 ⟨2, 2⟩, .cas 0 true, .free 0 1,
   .ret 0 true 1]
/-- the solo `pop_left` of thread 0 from `stalledLog2` (returns 2) -/
def soloPopLeft : List Ev :=
  [.inv 0 false false 0, .ld 0 ⟨2, 1, 2, 2⟩, .rd 0 ⟨1, 2⟩, .chk 0 true, .rd 0 ⟨0, 1⟩, .chk 0 true,
   .lcas 0 true, .cas 0 true, .ld 0 ⟨2, 1, 0, 3⟩, .chk 0 true, .rd 0 ⟨1, 2⟩, .cas 0 true, .free 0 2,
   .ret 0 true 2]
/-- the solo `push_right(3)` of thread 0 from `stalledLog`: 19 events — the bound is attained -/
def soloPushRight : List Ev :=
  [.inv 0 true true 3, .alloc 0 3, .ld 0 ⟨2, 1, 2, 2⟩, .rd 0 ⟨1, 2⟩, .chk 0 true, .rd 0 ⟨0, 1⟩,
   .chk 0 true, .lcas 0 true, .cas 0 true, .ld 0 ⟨2, 1, 0, 3⟩, .link 0 3 1, .cas 0 true,
   .rd 0 ⟨1, 2⟩, .chk 0 true, .rd 0 ⟨0, 1⟩, .chk 0 true, .lcas 0 true, .cas 0 true, .ret 0 true 0]


/-- **Solo pop on a non-empty deque terminates and returns the end element.**  From every
    reachable state, a thread between operations that runs `pop` at end `d` alone finishes within
    14 of its own events (`inv`, at most 12 shared accesses, `ret`), answers `true` with the
    value `v` stored at end `d`, and that element is removed (exactly once: `popped` grows by `v`). -/
theorem C17_deque_solo_pop_nonempty (n : Nat) (log : List Ev) (s : St)
    (h : runLog stepF (init n) log = some s) (t : Nat) (ht : t < n) (hidle : s.pc t = .idle)
    (d : Bool) (x : Nat) (hne : contents s ≠ []) :
    ∃ (mid : List Ev) (v : Nat) (s' : St), mid.length ≤ 12 ∧ (∀ e ∈ mid, Ev.tid e = t) ∧
      runLog stepF s (.inv t false d x :: mid ++ [.ret t true v]) = some s' ∧
      s'.pc t = .idle ∧ (∀ u, u ≠ t → s'.pc u = s.pc u) ∧
      contents s = (if d then contents s' ++ [v] else v :: contents s') ∧
      s'.popped = v :: s.popped ∧ s'.pushed = s.pushed := by
  have hi := (stale_false_fixed h).2
  have hn : s.n = n := run_n h
  have hc : s.chain ≠ [] := by intro hc; apply hne; simp [contents, hc]
  obtain ⟨mid, v, s', h1, h2, h3, h4, _, h5, h6, h7, h8⟩ :=
    solo_pop_op_nonempty (fx := true) s t d x (by rw [hn]; exact ht) hi.glob hidle hc
  exact ⟨mid, v, s', h1, h2, h3, h4, h5, h6, h7, h8⟩

/-- non-vacuity: the explicit 14-event solo `pop_right` from the state with the unstable anchor
    (thread 1 untouched, still in the middle of its push; 1 popped, 2 left) … -/
example : soloPopRight.length = 14 ∧ (∀ e ∈ soloPopRight, Ev.tid e = 0) ∧
    (runLog stepF (init 2) (stalledLog ++ soloPopRight)).map
      (fun s => (s.pc 0, s.pc 1, s.anchor, contents s, s.popped)) =
    some (.idle, .stRd1 .pushDone false ⟨2, 1, 2, 2⟩, ⟨2, 2, 0, 4⟩, [2], [1]) := by decide
example : (runLog stepF (init 2) (stalledLog2 ++ soloPopLeft)).map
      (fun s => (s.pc 0, s.pc 1, s.anchor, contents s, s.popped)) =
    some (.idle, .stLink .pushDone false ⟨2, 1, 2, 2⟩ ⟨1, 2⟩ ⟨0, 1⟩, ⟨1, 1, 0, 4⟩, [1], [2]) := by decide
/-- … and the theorem applies to that state: its hypotheses are satisfiable there -/
example (s : St) (h : runLog stepF (init 2) stalledLog = some s) :
    ∃ (mid : List Ev) (v : Nat) (s' : St), mid.length ≤ 12 ∧ (∀ e ∈ mid, Ev.tid e = 0) ∧
      runLog stepF s (.inv 0 false true 0 :: mid ++ [.ret 0 true v]) = some s' ∧
      s'.pc 0 = .idle ∧ (∀ u, u ≠ 0 → s'.pc u = s.pc u) ∧
      contents s = (if true then contents s' ++ [v] else v :: contents s') ∧
      s'.popped = v :: s.popped ∧ s'.pushed = s.pushed := by
  have hm := idle_of_map h (c := [2, 1]) (by decide)
  exact C17_deque_solo_pop_nonempty 2 stalledLog s h 0 (by decide) hm.1 true 0 (by rw [hm.2]; simp)

/-- **Solo pop on an empty deque returns false** after exactly three events (`inv`, the anchor
    load, `ret`), changing nothing. -/
theorem C17_deque_solo_pop_empty (n : Nat) (log : List Ev) (s : St)
    (h : runLog stepF (init n) log = some s) (t : Nat) (ht : t < n) (hidle : s.pc t = .idle)
    (d : Bool) (x : Nat) (he : contents s = []) :
    ∃ s' : St, runLog stepF s [.inv t false d x, .ld t s.anchor, .ret t false 0] = some s' ∧
      s'.pc t = .idle ∧ (∀ u, u ≠ t → s'.pc u = s.pc u) ∧
      contents s' = [] ∧ s'.popped = s.popped ∧ s'.pushed = s.pushed := by
  have hi := (stale_false_fixed h).2
  have hn : s.n = n := run_n h
  have hc : s.chain = [] := by simpa [contents] using he
  obtain ⟨s', h1, h2, _, h3, h4, h5, h6⟩ :=
    solo_pop_op_empty (fx := true) s t d x (by rw [hn]; exact ht) hi.glob hidle hc
  exact ⟨s', h1, h2, h3, h4, h5, h6⟩

/-- non-vacuity: empty deque, thread 1 stalled holding a freshly allocated, unpublished node -/
example : (runLog stepF (init 2) (stalledLog3 ++ [.inv 0 false true 0, .ld 0 ⟨0, 0, 0, 0⟩, .ret 0 false 0])).map
      (fun s => (s.pc 0, s.pc 1, contents s, s.popped)) =
    some (.idle, .pushLd false 1, [], []) := by decide
example (s : St) (h : runLog stepF (init 2) stalledLog3 = some s) :
    ∃ s' : St, runLog stepF s [.inv 0 false true 0, .ld 0 s.anchor, .ret 0 false 0] = some s' ∧
      s'.pc 0 = .idle ∧ (∀ u, u ≠ 0 → s'.pc u = s.pc u) ∧
      contents s' = [] ∧ s'.popped = s.popped ∧ s'.pushed = s.pushed := by
  have hm := idle_of_map h (c := []) (by decide)
  exact C17_deque_solo_pop_empty 2 stalledLog3 s h 0 (by decide) hm.1 true 0 hm.2

/-- **Solo push terminates and succeeds.**  From every reachable state, a thread between
    operations that runs `push(v)` at end `d` alone finishes within 19 of its own events (`inv`,
    the allocation and at most 16 further shared accesses, `ret`), answers `true`, and `v` is the
    element at end `d`. -/
theorem C17_deque_solo_push (n : Nat) (log : List Ev) (s : St)
    (h : runLog stepF (init n) log = some s) (t : Nat) (ht : t < n) (hidle : s.pc t = .idle)
    (d : Bool) (v : Nat) :
    ∃ (mid : List Ev) (s' : St), mid.length ≤ 17 ∧ (∀ e ∈ mid, Ev.tid e = t) ∧
      runLog stepF s (.inv t true d v :: mid ++ [.ret t true 0]) = some s' ∧
      s'.pc t = .idle ∧ (∀ u, u ≠ t → s'.pc u = s.pc u) ∧
      contents s' = (if d then contents s ++ [v] else v :: contents s) ∧
      s'.pushed = v :: s.pushed ∧ s'.popped = s.popped := by
  have hi := (stale_false_fixed h).2
  have hn : s.n = n := run_n h
  obtain ⟨mid, s', h1, h2, h3, h4, _, h5, h6, h7, h8⟩ :=
    solo_push_op (fx := true) s t d v (by rw [hn]; exact ht) hi.glob (finUsed_of_accepted h) hidle
  exact ⟨mid, s', h1, h2, h3, h4, h5, h6, h7, h8⟩

/-- non-vacuity: the explicit 19-event solo `push_right(3)` from the state with the unstable
    anchor: thread 0 first completes thread 1's push, then pushes and stabilises its own -/
example : soloPushRight.length = 19 ∧ (∀ e ∈ soloPushRight, Ev.tid e = 0) ∧
    (runLog stepF (init 2) (stalledLog ++ soloPushRight)).map
      (fun s => (s.pc 0, s.pc 1, s.anchor, contents s, s.pushed)) =
    some (.idle, .stRd1 .pushDone false ⟨2, 1, 2, 2⟩, ⟨2, 3, 0, 5⟩, [2, 1, 3], [3, 2, 1]) := by decide
example (s : St) (h : runLog stepF (init 2) stalledLog = some s) :
    ∃ (mid : List Ev) (s' : St), mid.length ≤ 17 ∧ (∀ e ∈ mid, Ev.tid e = 0) ∧
      runLog stepF s (.inv 0 true true 3 :: mid ++ [.ret 0 true 0]) = some s' ∧
      s'.pc 0 = .idle ∧ (∀ u, u ≠ 0 → s'.pc u = s.pc u) ∧
      contents s' = (if true then contents s ++ [3] else 3 :: contents s) ∧
      s'.pushed = 3 :: s.pushed ∧ s'.popped = s.popped := by
  have hm := idle_of_map h (c := [2, 1]) (by decide)
  exact C17_deque_solo_push 2 stalledLog s h 0 (by decide) hm.1 true 3

/-- **Obstruction freedom.**  From every reachable state, whatever the other threads were doing
    when they stopped, every operation (`push = true/false`, either end) started by a thread that
    then runs alone returns within 19 of that thread's events; the answer is `false` only for a pop
    on an empty deque. -/
theorem C17_deque_obstruction_free (n : Nat) (log : List Ev) (s : St)
    (h : runLog stepF (init n) log = some s) (t : Nat) (ht : t < n) (hidle : s.pc t = .idle)
    (push d : Bool) (v : Nat) :
    ∃ (mid : List Ev) (ok : Bool) (r : Nat) (s' : St), mid.length ≤ 17 ∧ (∀ e ∈ mid, Ev.tid e = t) ∧
      runLog stepF s (.inv t push d v :: mid ++ [.ret t ok r]) = some s' ∧ s'.pc t = .idle ∧
      (∀ u, u ≠ t → s'.pc u = s.pc u) ∧ (ok = false ↔ (push = false ∧ contents s = [])) := by
  cases push
  · by_cases he : contents s = []
    · obtain ⟨s', h1, h2, h3, _⟩ := C17_deque_solo_pop_empty n log s h t ht hidle d v he
      exact ⟨[.ld t s.anchor], false, 0, s', by simp, by simp [Ev.tid], h1, h2, h3, by simp [he]⟩
    · obtain ⟨mid, r, s', h1, h2, h3, h4, h5, _⟩ :=
        C17_deque_solo_pop_nonempty n log s h t ht hidle d v he
      exact ⟨mid, true, r, s', by omega, h2, h3, h4, h5, by simp [he]⟩
  · obtain ⟨mid, s', h1, h2, h3, h4, h5, _⟩ := C17_deque_solo_push n log s h t ht hidle d v
    exact ⟨mid, true, 0, s', h1, h2, h3, h4, h5, by simp⟩

/-- non-vacuity (obstruction freedom, from the half-done stabilisation of `stalledLog2`) -/
example (s : St) (h : runLog stepF (init 2) stalledLog2 = some s) (push d : Bool) (v : Nat) :
    ∃ (mid : List Ev) (ok : Bool) (r : Nat) (s' : St), mid.length ≤ 17 ∧ (∀ e ∈ mid, Ev.tid e = 0) ∧
      runLog stepF s (.inv 0 push d v :: mid ++ [.ret 0 ok r]) = some s' ∧ s'.pc 0 = .idle ∧
      (∀ u, u ≠ 0 → s'.pc u = s.pc u) ∧ (ok = false ↔ (push = false ∧ contents s = [])) := by
  have hm := idle_of_map h (c := [2, 1]) (by decide)
  exact C17_deque_obstruction_free 2 stalledLog2 s h 0 (by decide) hm.1 push d v

/-- **The bound the driver's solo monitor checks** (`soloBound push` = 19 for a push, 14 for a
    pop, counting `inv` and `ret`): from every reachable state the whole solo operation is a log
    of at most `soloBound push` events of `t`, first `inv`, last `ret`, and it answers `false`
    exactly for a pop on the deque that was empty when the operation began. -/
theorem C17_deque_solo_bound (n : Nat) (log : List Ev) (s : St)
    (h : runLog stepF (init n) log = some s) (t : Nat) (ht : t < n) (hidle : s.pc t = .idle)
    (push d : Bool) (v : Nat) :
    ∃ (evs : List Ev) (ok : Bool) (r : Nat) (s' : St), evs.length ≤ soloBound push ∧
      (∀ e ∈ evs, Ev.tid e = t) ∧ evs.head? = some (.inv t push d v) ∧
      evs.getLast? = some (.ret t ok r) ∧ runLog stepF s evs = some s' ∧ s'.pc t = .idle ∧
      (ok = false ↔ (push = false ∧ contents s = [])) := by
  have hi := (stale_false_fixed h).2
  have hn : s.n = n := run_n h
  obtain ⟨evs, ok, r, s', h1, h2, h3, h4, h5, h6, _, h7⟩ :=
    solo_bound_of_glob (fx := true) s t (by rw [hn]; exact ht) hi.glob (finUsed_of_accepted h) hidle push d v
  exact ⟨evs, ok, r, s', h1, h2, h3, h4, h5, h6, h7⟩

/-- **Pinned tree (link tags restart on recycling), partial.**  The same solo termination for the
    unrepaired code `step`, from every reachable state in which no link CAS has been stale so far
    (`s.stale = false`: the hypothesis of all `_partial` theorems of `Props/C17.lean`; it can only
    fail through the recycling ABA `findings/C17-aba-link.case`).  Full statement = this one without
    `hs`.  What is missing: after a harmful stale link CAS the structural invariant `Glob` (the
    anchor ends are chain nodes, their inward links name allocated neighbours) is lost — in the
    finding's witness the anchor ends up pointing into the freelist — and the run constructed here
    needs it for the null checks and for the answer; whether the bound survives is not known. -/
theorem C17_deque_solo_bound_pinned_partial (n : Nat) (log : List Ev) (s : St)
    (h : runLog step (init n) log = some s) (hs : s.stale = false)
    (t : Nat) (ht : t < n) (hidle : s.pc t = .idle) (push d : Bool) (v : Nat) :
    ∃ (evs : List Ev) (ok : Bool) (r : Nat) (s' : St), evs.length ≤ soloBound push ∧
      (∀ e ∈ evs, Ev.tid e = t) ∧ evs.head? = some (.inv t push d v) ∧
      evs.getLast? = some (.ret t ok r) ∧ runLog step s evs = some s' ∧ s'.pc t = .idle ∧
      (ok = false ↔ (push = false ∧ contents s = [])) := by
  have hi := inv_of_accepted h hs
  have hn : s.n = n := run_n h
  obtain ⟨evs, ok, r, s', h1, h2, h3, h4, h5, h6, _, h7⟩ :=
    solo_bound_of_glob (fx := false) s t (by rw [hn]; exact ht) hi.glob (finUsed_of_accepted h) hidle push d v
  exact ⟨evs, ok, r, s', h1, h2, h3, h4, h5, h6, h7⟩

/-- non-vacuity (pinned tree): a stalled pusher under `step`; thread 0 is idle and `stale = false` -/
example : (runLog step (init 2) [.inv 1 true false 1, .alloc 1 1, .ld 1 ⟨0, 0, 0, 0⟩, .cas 1 true,
      .ret 1 true 0, .inv 1 true false 2, .alloc 1 2, .ld 1 ⟨1, 1, 0, 1⟩, .link 1 2 1, .cas 1 true]).map
    (fun s => (s.pc 0, s.pc 1, s.stale, contents s)) =
    some (.idle, .stRd1 .pushDone false ⟨2, 1, 2, 2⟩, false, [2, 1]) := by decide

/-- non-vacuity: both bounds are attained from `stalledLog` (14-event pop, 19-event push above) -/
example : soloPopRight.length = soloBound false ∧ soloPushRight.length = soloBound true := by decide

/-- **Back-end adapters, solo `pop(val, steal)`** (`lockfree_lifo_backend`,
    `lockfree_abp_fifo_backend`, `lockfree_abp_lifo_backend`; `steal = true` is the stealing
    variant): alone, the call returns within 14 events; on a non-empty deque it returns the element
    at the end the adapter pops from (`Backend.popEnd`). -/
theorem C17_backend_solo_pop (b : Backend) (steal : Bool) (n : Nat) (log : List Ev) (s : St)
    (h : runLog stepF (init n) log = some s) (t : Nat) (ht : t < n) (hidle : s.pc t = .idle)
    (x : Nat) (hne : contents s ≠ []) :
    ∃ (mid : List Ev) (v : Nat) (s' : St), mid.length ≤ 12 ∧ (∀ e ∈ mid, Ev.tid e = t) ∧
      runLog stepF s (.inv t false (b.popEnd steal) x :: mid ++ [.ret t true v]) = some s' ∧
      s'.pc t = .idle ∧ (∀ u, u ≠ t → s'.pc u = s.pc u) ∧
      contents s = (if b.popEnd steal then contents s' ++ [v] else v :: contents s') ∧
      s'.popped = v :: s.popped ∧ s'.pushed = s.pushed :=
  C17_deque_solo_pop_nonempty n log s h t ht hidle (b.popEnd steal) x hne

/-- non-vacuity: a steal from the abp-lifo back-end (`pop(v, steal = true)` = `pop_right`) while
    the owner is stalled inside its push -/
example (s : St) (h : runLog stepF (init 2) stalledLog = some s) :
    Backend.abpLifo.popEnd true = true ∧
    ∃ (mid : List Ev) (v : Nat) (s' : St), mid.length ≤ 12 ∧ (∀ e ∈ mid, Ev.tid e = 0) ∧
      runLog stepF s (.inv 0 false (Backend.abpLifo.popEnd true) 0 :: mid ++ [.ret 0 true v]) = some s' ∧
      s'.pc 0 = .idle ∧ (∀ u, u ≠ 0 → s'.pc u = s.pc u) ∧
      contents s = (if Backend.abpLifo.popEnd true then contents s' ++ [v] else v :: contents s') ∧
      s'.popped = v :: s.popped ∧ s'.pushed = s.pushed := by
  have hm := idle_of_map h (c := [2, 1]) (by decide)
  exact ⟨rfl, C17_backend_solo_pop .abpLifo true 2 stalledLog s h 0 (by decide) hm.1 0 (by rw [hm.2]; simp)⟩

/-- **Back-end adapters, solo `push(val, other_end)`**: alone, the call returns `true` within 19
    events and the value is at the end the adapter pushes to (`Backend.pushEnd`). -/
theorem C17_backend_solo_push (b : Backend) (other : Bool) (n : Nat) (log : List Ev) (s : St)
    (h : runLog stepF (init n) log = some s) (t : Nat) (ht : t < n) (hidle : s.pc t = .idle)
    (v : Nat) :
    ∃ (mid : List Ev) (s' : St), mid.length ≤ 17 ∧ (∀ e ∈ mid, Ev.tid e = t) ∧
      runLog stepF s (.inv t true (b.pushEnd other) v :: mid ++ [.ret t true 0]) = some s' ∧
      s'.pc t = .idle ∧ (∀ u, u ≠ t → s'.pc u = s.pc u) ∧
      contents s' = (if b.pushEnd other then contents s ++ [v] else v :: contents s) ∧
      s'.pushed = v :: s.pushed ∧ s'.popped = s.popped :=
  C17_deque_solo_push n log s h t ht hidle (b.pushEnd other) v

example (s : St) (h : runLog stepF (init 2) stalledLog = some s) (b : Backend) (other : Bool) :
    ∃ (mid : List Ev) (s' : St), mid.length ≤ 17 ∧ (∀ e ∈ mid, Ev.tid e = 0) ∧
      runLog stepF s (.inv 0 true (b.pushEnd other) 7 :: mid ++ [.ret 0 true 0]) = some s' ∧
      s'.pc 0 = .idle ∧ (∀ u, u ≠ 0 → s'.pc u = s.pc u) ∧
      contents s' = (if b.pushEnd other then contents s ++ [7] else 7 :: contents s) ∧
      s'.pushed = 7 :: s.pushed ∧ s'.popped = s.popped := by
  have hm := idle_of_map h (c := [2, 1]) (by decide)
  exact C17_backend_solo_push b other 2 stalledLog s h 0 (by decide) hm.1 7

end PikaVerif.Deque
