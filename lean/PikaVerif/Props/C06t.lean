import PikaVerif.Props.C06
import PikaVerif.Lemmas.MtxProg
import PikaVerif.Lemmas.MtxCover
import PikaVerif.Lemmas.MtxSolo
import PikaVerif.Lemmas.MtxObs
/-!
# C06t — termination / bounded hand-off of the mutex operations (follow-up of C06)

`Props/C06.lean` states progress and hand-off as "no stuck state".  This file strengthens them to
termination for the model `PikaVerif.Mtx` (`pika::mutex` / `pika::timed_mutex`).

**Stutter.**  The model has **no stutter** in the mutex operations: a failed attempt on the
internal spinlock is not an event of the model (`slAcq` is accepted only when the spinlock is free;
the spinning task's `sl.lock` / `ag.yield` lines are dropped by the driver before the acceptor), a
failed `try_lock` is a complete operation, and a timed wait ends only by its deadline event
`timeout`, accepted exactly once per wait.  So the bounds below count every accepted event; for the
real code they are bounds *modulo spinning on the internal spinlock* (whose holder is never
blocked: every program counter that holds it has an enabled event, `C06_mutex_stuck_only_when_blocked`).
The one pair of events the *model* lets repeat without moving an operation is the harness mark
`cs.enter` / `cs.exit` (history counters only); the program layer allows one such bracket per
invoked operation, as the harness does, and `C06t_measure_decreases` states the measure modulo
`cs.enter` explicitly.

* `Mtx.mu` is a natural-number measure on model states that strictly decreases with every accepted
  event other than the invocation of a new operation and `cs.enter` (`C06t_measure_decreases`).
* A *program* gives each of the `n` tasks a finite list of `lock` / `try_lock` / `try_lock_for` /
  `unlock` operations (`Mtx.PSt`, `Mtx.pstep`).  Every accepted log of a program has at most
  `Mtx.bound n prog` events (`C06t_bounded`: 1 per task + 13 per lock-type operation + 14 per
  `unlock`), every accepted log extends to a maximal one (`C06t_maximal_exists`), and in the final
  state of a maximal log every task has finished its whole program except tasks parked in `lock()`
  while the mutex is owned by a task that holds it by program order and has itself finished
  (`C06t_final_state`).
* If no task's program has a lock-type operation after its last `unlock` (`Mtx.Closed`; every
  well-bracketed program is closed, `C06t_bracketed_closed`), every maximal run ends with ALL
  operations returned, every task finished and the mutex free (`C06t_closed_all_return`): a task
  waiting in `lock()` is eventually granted the mutex.  The `decide`-checked example `progOpen`
  shows a non-closed program with a maximal run that blocks for ever.
* Hand-off bound: the owner's `unlock()` run alone (6 events) followed by the front waiter run alone
  (6 events) completes that waiter's `lock()` (`C06t_handoff_bound`) or `try_lock_for`
  (`C06t_handoff_bound_timed`, first event = its deadline) — 12 events.
* A `try_lock_for` that returned false found the mutex owned when it enqueued, saw its deadline
  pass, and either its wait reported `timeout` or it was signalled and found the mutex owned again at
  the re-test (`C06t_timed_false_observed`, over a transparent observer).  The naive reading "it
  timed out while the mutex was held" is false for the code as it is (`runTimedFree`).

Not done here: the same statements for `Rec` / `Spin`.  There a waiting thread *spins*
(`ag.yield`, dropped as stutter), there is no queue and no hand-off order, so termination can only
be stated modulo that stutter and under a fairness assumption for the spinning thread.
-/
namespace PikaVerif.C06t
open PikaVerif PikaVerif.Mtx PikaVerif.C06

/-- **The measure decreases.**  Every accepted event that is not the invocation of a new operation
    or the harness mark `cs.enter` strictly decreases `mu`; an invocation of `o` adds exactly the
    potential of `o` (`rank (want o) - 1`), a `cs.enter` adds exactly 1 (paid back by its `cs.exit`). -/
theorem C06t_measure_decreases (s s' : St) (e : Ev) (he : step s e = some s') :
    (∀ t o, e = .inv t o → mu s' + 1 = mu s + rank (.want o)) ∧
    (∀ t, e = .csEnter t → mu s' = mu s + 1) ∧
    ((∀ t o, e ≠ .inv t o) → (∀ t, e ≠ .csEnter t) → mu s' < mu s) := by
  refine ⟨?_, ?_, fun hne hnc => mu_step s s' e hne hnc he⟩
  · intro t o heq; subst heq; exact mu_inv s s' t o he
  · intro t heq; subst heq; exact mu_csEnter s s' t he

/-- **Bounded runs.**  Any accepted log of a finite program (`n` tasks, `prog t` the operations of
    task `t`, at most one critical-section bracket per operation) has at most `bound n prog` events
    — whatever the interleaving, including every timed wait's deadline event. -/
theorem C06t_bounded (n : Nat) (prog : Nat → List Op) (log : List Ev) (p : PSt)
    (h : runLog pstep (pinit n prog) log = some p) : log.length ≤ bound n prog := by
  have := runLog_phi log _ p h
  rw [phi_pinit] at this
  omega

/-- An accepted log of a program is an accepted log of the model (so every theorem of
    `Props/C06.lean` applies to the states of program runs). -/
theorem C06t_program_refines (n : Nat) (prog : Nat → List Op) (log : List Ev) (p : PSt)
    (h : runLog pstep (pinit n prog) log = some p) : runLog step (init n) log = some p.s :=
  runLog_pstep_step log _ p h

/-- **Maximal runs exist and are finite.**  Every accepted log of a program extends to an accepted
    log after which no event at all is accepted; its length is at most `bound n prog`. -/
theorem C06t_maximal_exists (n : Nat) (prog : Nat → List Op) (log : List Ev) (p : PSt)
    (h : runLog pstep (pinit n prog) log = some p) :
    ∃ ext p', runLog pstep (pinit n prog) (log ++ ext) = some p' ∧ PStuck p' ∧
      (log ++ ext).length ≤ bound n prog := by
  obtain ⟨ext, p', hrun, hst⟩ := exists_maximal_from (phi p) p (Nat.le_refl _)
  have hfull : runLog pstep (pinit n prog) (log ++ ext) = some p' := by
    rw [runLog_append, h]; simpa using hrun
  exact ⟨ext, p', hfull, hst, C06t_bounded n prog _ p' hfull⟩

/-- **Final states.**  In the final state of a maximal run of a program every task has finished its
    whole program, except tasks parked in `lock()` without a wake-up token — and if there is such
    a task, the mutex is owned by a task that holds it by program order, has finished its own
    program, and (by `FinOk`) will never unlock: the only way a run can end with a blocked task is
    a task that ends while holding. -/
theorem C06t_final_state (n : Nat) (prog : Nat → List Op) (log : List Ev)
    (p : PSt) (h : runLog pstep (pinit n prog) log = some p) (hs : PStuck p) :
    ∀ t, t < n → (p.s.pc t = .fin ∧ p.prog t = []) ∨
      (Blocked p.s t ∧ ∃ u, u < n ∧ u ≠ t ∧ p.s.owner = some u ∧ p.s.holdsG u = true ∧
        p.s.pc u = .fin ∧ p.prog u = []) := by
  have hlog := runLog_pstep_step log _ p h
  have hreach : Reachable p.s := ⟨n, log, hlog⟩
  obtain ⟨hi, hi2⟩ := inv2_of_accepted hlog
  have hstuck : Stuck p.s := by
    intro e h1 h2 h3 h4
    have := hs e
    cases e <;> simp only [pstep] at this <;>
      first
      | (exact absurd rfl (h1 _ _))
      | (exact absurd rfl (h2 _))
      | (exact absurd rfl (h3 _))
      | (exact absurd rfl (h4 _))
      | (simpa using this)
  have hfin : FinOk p := runLog_finOk log _ p (by intro t ht; simp [pinit, init] at ht) h
  have hn : p.s.n = n := n_of_log n log p.s hlog
  have hall : ∀ t, t < n → p.s.pc t = .fin ∨ Blocked p.s t := by
    intro t ht
    rcases C06_mutex_stuck_only_when_blocked p.s hreach hstuck t (by omega) with hi' | hf | hb
    · exfalso
      cases hcs : p.s.inCS t with
      | true =>
        have := hs (.csExit t)
        simp [pstep, step, hi', hn, ht, hcs] at this
      | false =>
        cases hp : p.prog t with
        | nil =>
          have := hs (.done t)
          simp [pstep, hp, step, hi', hn, ht] at this
        | cons o rest =>
          have := hs (.inv t o)
          simp [pstep, hp, step, hi', hn, ht, hcs] at this
    · exact Or.inl hf
    · exact Or.inr hb
  intro t ht
  rcases hall t ht with hf | hb
  · exact Or.inl ⟨hf, hfin t hf⟩
  · refine Or.inr ⟨hb, ?_⟩
    obtain ⟨u, ho, hh⟩ := C06_mutex_handoff p.s hreach hstuck t hb
    obtain ⟨hk1, hk2⟩ := holdInv_of_accepted hlog
    have hun : u < n := by
      by_cases hc : u < n
      · exact hc
      · have := hk2 u (by omega); rw [this] at hh; simp at hh
    have hut : u ≠ t := by
      intro he; subst he
      rcases hk1 u hh with h1 | h1 | h1
      · rw [hb.1] at h1; simp at h1
      · rw [hb.1] at h1; simp at h1
      · have := hi2.owned u false (by simp [hb.1, expOwned]); rw [this] at h1; simp at h1
    have hfu : p.s.pc u = .fin := by
      rcases hall u hun with hf | hb'
      · exact hf
      · exfalso
        rcases hk1 u hh with h1 | h1 | h1
        · rw [hb'.1] at h1; simp at h1
        · rw [hb'.1] at h1; simp at h1
        · have := hi2.owned u false (by simp [hb'.1, expOwned]); rw [this] at h1; simp at h1
    exact ⟨u, hun, hut, ho, hh, hfu, hfin u hfu⟩

/-- Every well-bracketed program (each lock-type operation immediately followed by its `unlock`
    in the same task, hence no lock-type call while holding) is closed. -/
theorem C06t_bracketed_closed (l : List Op) (h : bracketed l = true) : Closed l :=
  bracketed_closed l.length l (Nat.le_refl _) h

/-- **A waiting task is eventually granted the mutex: closed programs always run to completion.**
    If no task's program has a lock-type operation after its last `unlock` (in particular if every
    task's program is well bracketed), then every maximal run — every interleaving, every outcome
    of the `try_lock`s and timed waits — ends with every operation returned, every task finished,
    nobody holding or owning the mutex, the internal spinlock free and the wait queue empty.  By
    `C06t_bounded` that end is reached after at most `bound n prog` events. -/
theorem C06t_closed_all_return (n : Nat) (prog : Nat → List Op) (hc : ∀ t, t < n → Closed (prog t))
    (log : List Ev) (p : PSt) (h : runLog pstep (pinit n prog) log = some p) (hs : PStuck p) :
    (∀ t, t < n → p.s.pc t = .fin ∧ p.prog t = [] ∧ p.s.holdsG t = false) ∧
      p.s.owner = none ∧ p.s.lock = none ∧ p.s.queue = [] := by
  have hlog := runLog_pstep_step log _ p h
  obtain ⟨hi, hi2⟩ := inv2_of_accepted hlog
  have hn : p.s.n = n := n_of_log n log p.s hlog
  have hcl := runLog_cl log _ p (cl_pinit n prog hc) h
  have hfinal := C06t_final_state n prog log p h hs
  have hnh : ∀ u, u < n → p.s.pc u = .fin → p.prog u = [] → p.s.holdsG u = false := by
    intro u hu hf hp
    have := hcl.closed u (by omega)
    rw [hp] at this
    simp only [endsOpen, mayHold, hf, lockish, Bool.or_false] at this
    exact this
  have hall : ∀ t, t < n → p.s.pc t = .fin ∧ p.prog t = [] ∧ p.s.holdsG t = false := by
    intro t ht
    rcases hfinal t ht with ⟨hf, hp⟩ | ⟨_, u, hu, _, _, hh, hfu, hpu⟩
    · exact ⟨hf, hp, hnh t ht hf hp⟩
    · have := hnh u hu hfu hpu; rw [this] at hh; simp at hh
  have hown : p.s.owner = none := by
    cases ho : p.s.owner with
    | none => rfl
    | some u =>
      exfalso
      by_cases hu : u < n
      · rcases hi2.ownerRev u ho with h1 | h1
        · rw [(hall u hu).2.2] at h1; simp at h1
        · rw [(hall u hu).1] at h1; simp [midOwn] at h1
      · rcases hi2.ownerRev u ho with h1 | h1
        · rw [(holdInv_of_accepted hlog).2 u (by omega)] at h1; simp at h1
        · rw [hi.outside u (by omega)] at h1; simp [midOwn] at h1
  refine ⟨hall, hown, ?_, ?_⟩
  · cases hl : p.s.lock with
    | none => rfl
    | some r =>
      exfalso
      obtain ⟨hh, hrn⟩ := hi2.lockConv r hl
      rw [(hall r (by omega)).1] at hh; simp [holds] at hh
  · cases hq : p.s.queue with
    | nil => rfl
    | cons g rest =>
      exfalso
      have hg : g ∈ p.s.queue := by rw [hq]; simp
      have hginQ := (hi.qIff g).1 hg
      by_cases hgn : g < n
      · rw [(hall g hgn).1] at hginQ; simp [inQ] at hginQ
      · rw [hi.outside g (by omega)] at hginQ; simp [inQ] at hginQ

/-! ## Non-vacuity -/

/-- two tasks with well-bracketed programs; task 1 waits in `lock()` and is handed the mutex -/
def prog2 : Nat → List Op := fun t => if t = 0 then [.lock, .unlock] else if t = 1 then [.lock, .unlock] else []

def run2 : List Ev :=
  [.inv 0 .lock, .slAcq 0, .own 0 1 false, .slRel 0, .ret 0 .ok, .csEnter 0,
   .inv 1 .lock, .slAcq 1, .cvEnq 1 1 false, .slRel 1, .suspend 1,
   .csExit 0, .inv 0 .unlock, .slAcq 0, .disown 0, .popResume 0 0 1 false, .slRel 0, .ret 0 .ok, .done 0,
   .woke 1, .slAcq 1, .cvWoke 1 false false, .own 1 1 false, .slRel 1, .ret 1 .ok,
   .csEnter 1, .csExit 1, .inv 1 .unlock, .slAcq 1, .disown 1, .cvNone 1, .slRel 1, .ret 1 .ok, .done 1]

/-- the run is accepted, maximal, ends with both tasks finished and the mutex free, within the bound -/
example : ∃ p, runLog pstep (pinit 2 prog2) run2 = some p ∧ PStuck p ∧ (∀ t, t < 2 → p.s.pc t = .fin) ∧
    p.s.owner = none ∧ run2.length ≤ bound 2 prog2 ∧ (∀ t, t < 2 → Closed (prog2 t)) ∧
    bracketed (prog2 0) = true := by
  refine ⟨_, rfl, ?_, by decide, rfl, by decide, by decide, by decide⟩
  apply pstuck_of_rest
  · rfl
  · intro t ht
    have ht' : t < 2 := ht
    left
    revert t
    decide

/-- why `Closed` is needed: task 0 ends while holding (`[lock]` is not closed); the maximal run
    below ends with task 1 parked in `lock()` for ever -/
def progOpen : Nat → List Op := fun t => if t = 0 then [.lock] else if t = 1 then [.lock, .unlock] else []

example : ∃ p, runLog pstep (pinit 2 progOpen)
      [.inv 0 .lock, .slAcq 0, .own 0 1 false, .slRel 0, .ret 0 .ok, .done 0,
       .inv 1 .lock, .slAcq 1, .cvEnq 1 1 false, .slRel 1, .suspend 1] = some p ∧ PStuck p ∧
    Blocked p.s 1 ∧ p.s.owner = some 0 ∧ p.s.pc 0 = .fin ∧ ¬ Closed (progOpen 0) ∧ Closed (progOpen 1) := by
  refine ⟨_, rfl, ?_, ⟨rfl, rfl⟩, by decide, by decide, by decide, by decide⟩
  apply pstuck_of_rest
  · rfl
  · intro t ht
    have ht' : t < 2 := ht
    revert t
    decide

/-! ## Hand-off in an explicit number of events -/

/-- **Hand-off bound.**  In any reachable state in which task `r` holds the mutex by program order
    and is between operations and outside its critical section, the internal spinlock is free and
    the front entry of the wait queue is a task `g` parked in `lock()`: `r`'s `unlock()` run alone
    (6 events) followed by `g` run alone (6 events) is accepted and ends with `g`'s `lock()`
    returned successfully and `g` the owner — 12 events, none of them by a third task. -/
theorem C06t_handoff_bound (s : St) (hr : Reachable s) (r g : Nat) (rest : List Nat)
    (hl : s.lock = none) (hp : s.pc r = .idle) (hh : s.holdsG r = true) (hcs : s.inCS r = false)
    (hq : s.queue = g :: rest) (hg : s.pc g = .susp false) :
    ∃ s', runLog step s (unlockSolo r g rest.length false ++ lockWake g) = some s' ∧
      (unlockSolo r g rest.length false ++ lockWake g).length = 12 ∧
      s'.pc g = .idle ∧ s'.holdsG g = true ∧ s'.owner = some g ∧ s'.tookOp g = true ∧
      s'.pc r = .idle ∧ s'.holdsG r = false ∧ s'.queue = rest ∧ s'.lock = none := by
  obtain ⟨n, log, hlog⟩ := hr
  obtain ⟨hi, hi2⟩ := inv2_of_accepted hlog
  obtain ⟨_, hk2⟩ := holdInv_of_accepted hlog
  have hrn : r < s.n := by
    by_cases hc : r < s.n
    · exact hc
    · have := hk2 r (by omega); rw [this] at hh; simp at hh
  have hgn : g < s.n := by
    by_cases hc : g < s.n
    · exact hc
    · have := hi.outside g (by omega); rw [this] at hg; simp at hg
  have hrg : r ≠ g := by intro he; subst he; rw [hp] at hg; simp at hg
  obtain ⟨s1, hrun1, h1l, h1o, h1q, h1g, h1t, h1r, h1h, h1n, _⟩ :=
    unlockSolo_spec s r g rest hl hrn hrg hp hcs (hi2.hold1 r hh) hq hg
  obtain ⟨s2, hrun2, h2l, h2o, h2q, h2g, h2h, h2t, h2u⟩ :=
    lockWake_spec s1 g h1l (by omega) h1o h1g (by omega)
  refine ⟨s2, ?_, rfl, h2g, h2h, h2o, h2t, ?_, ?_, by rw [h2q, h1q], h2l⟩
  · rw [runLog_append, hrun1]; exact hrun2
  · rw [(h2u r hrg).1]; exact h1r
  · rw [(h2u r hrg).2]; exact h1h

/-- **Hand-off to a timed waiter.**  The same when the front waiter `g` is inside `try_lock_for`,
    polling its deadline: the agent drops the resume, so `g`'s first event alone is its deadline
    event `timeout`; it then finds itself signalled and the mutex free and returns **true** —
    again 12 events.  (Untimed waiters queued behind `g` stay parked until then: the hand-off is
    delayed by at most `g`'s timeout, never lost.) -/
theorem C06t_handoff_bound_timed (s : St) (hr : Reachable s) (r g : Nat) (rest : List Nat)
    (hl : s.lock = none) (hp : s.pc r = .idle) (hh : s.holdsG r = true) (hcs : s.inCS r = false)
    (hq : s.queue = g :: rest) (hg : s.pc g = .slp false) :
    ∃ s', runLog step s (unlockSolo r g rest.length true ++ timedWake g) = some s' ∧
      (unlockSolo r g rest.length true ++ timedWake g).length = 12 ∧
      s'.pc g = .idle ∧ s'.holdsG g = true ∧ s'.owner = some g ∧ s'.tookOp g = true ∧
      s'.pc r = .idle ∧ s'.holdsG r = false ∧ s'.queue = rest ∧ s'.lock = none := by
  obtain ⟨n, log, hlog⟩ := hr
  obtain ⟨hi, hi2⟩ := inv2_of_accepted hlog
  obtain ⟨_, hk2⟩ := holdInv_of_accepted hlog
  have hrn : r < s.n := by
    by_cases hc : r < s.n
    · exact hc
    · have := hk2 r (by omega); rw [this] at hh; simp at hh
  have hgn : g < s.n := by
    by_cases hc : g < s.n
    · exact hc
    · have := hi.outside g (by omega); rw [this] at hg; simp at hg
  have hrg : r ≠ g := by intro he; subst he; rw [hp] at hg; simp at hg
  obtain ⟨s1, hrun1, h1l, h1o, h1q, h1g, h1r, h1h, h1n, _⟩ :=
    unlockSolo_spec_timed s r g rest hl hrn hrg hp hcs (hi2.hold1 r hh) hq hg
  obtain ⟨s2, hrun2, h2l, h2o, h2q, h2g, h2h, h2t, h2u⟩ :=
    timedWake_spec s1 g h1l (by omega) h1o h1g
  refine ⟨s2, ?_, rfl, h2g, h2h, h2o, h2t, ?_, ?_, by rw [h2q, h1q], h2l⟩
  · rw [runLog_append, hrun1]; exact hrun2
  · rw [(h2u r hrg).1]; exact h1r
  · rw [(h2u r hrg).2]; exact h1h

/-- the hypotheses of `C06t_handoff_bound` are satisfiable: the state after the first 12 events of
    `run2` (task 0 holds and has left its critical section, task 1 is parked in `lock()`), and the
    next 12 events of `run2` minus task 0's `done` are literally `unlockSolo ++ lockWake` -/
example : ∃ s, runLog step (init 2) (run2.take 12) = some s ∧ s.lock = none ∧ s.pc 0 = .idle ∧
    s.holdsG 0 = true ∧ s.inCS 0 = false ∧ s.queue = [1] ∧ s.pc 1 = .susp false ∧
    unlockSolo 0 1 0 false ++ [.done 0] ++ lockWake 1 = (run2.drop 12).take 13 :=
  ⟨_, rfl, rfl, rfl, rfl, rfl, rfl, rfl, rfl⟩

/-! ## What a `try_lock_for` that returned false has observed -/

/-- **A failed timed lock saw the mutex held and its deadline pass.**  Run the observer
    (`Lemmas/MtxObs.lean`: it reads only events and `owner_id_`, and accepts exactly the model's
    logs, `C06t_observer_transparent`) beside any accepted log.  Whenever `try_lock_until/for`
    reports false: (1) `owner_id_` was valid when this call linked itself into the wait queue — the
    call waited only because the mutex was held; (2) this call's deadline event has occurred (the
    agent's `sleep_until` ends by the deadline only, also for a notified task); and (3) either the
    wait reported `timeout` (entry still queued at `cv.woke`), or it reported `signaled` and
    `owner_id_` was valid again at the re-test under the internal spinlock (the mutex was taken by
    another task in between).  It never reports false without having waited. -/
theorem C06t_timed_false_observed (n : Nat) (log : List Ev) (p : TSt) (t : Nat) (s' : St)
    (h : runLog tstep (tinit n) log = some p) (hop : p.s.curOp t = .timed)
    (hret : step p.s (.ret t .fail) = some s') :
    p.o.held t = true ∧ p.o.dl t = true ∧ (p.o.still t = true ∨ p.o.heldRel t = true) := by
  have hlog := trun_step log _ p h
  obtain ⟨_, hi2⟩ := inv2_of_accepted hlog
  have hT := runLog_tinv log _ p (tinv_init n) h t
  have hopk := hi2.opOk t
  simp only [step] at hret
  split at hret
  · split at hret
    · rename_i o b hpc
      split at hret
      · rename_i hb; subst hb
        rw [hpc, hop] at hopk
        simp only [pcOpOk, decide_eq_true_eq] at hopk
        subst hopk
        rw [hpc] at hT
        exact hT
      · simp at hret
    · simp at hret
  · simp at hret

/-- the observer is transparent: every accepted log of the model has an observer run over the same
    states, and conversely -/
theorem C06t_observer_transparent (n : Nat) (log : List Ev) :
    (∀ s, runLog step (init n) log = some s → ∃ p, runLog tstep (tinit n) log = some p ∧ p.s = s) ∧
    (∀ p, runLog tstep (tinit n) log = some p → runLog step (init n) log = some p.s) :=
  ⟨fun s h => trun_exists log (tinit n) s h, fun p h => trun_step log (tinit n) p h⟩

/-- the requested reading "it observed a timeout **while the mutex was held**" is false for the
    code as it is: `try_lock_until` returns false on `timeout` without re-testing `owner_id_`.
    Witness: task 0 holds, task 1 waits in `lock()`, task 2 in `try_lock_for` behind it; task 0
    unlocks (notifying task 1, which has not run yet), task 2's deadline passes: its `cv.woke`
    reports timeout and it returns false while `owner_id_` is invalid — the mutex is free, the
    hand-off to task 1 is in flight. -/
def runTimedFree : List Ev :=
  [.inv 0 .lock, .slAcq 0, .own 0 1 false, .slRel 0, .ret 0 .ok,
   .inv 1 .lock, .slAcq 1, .cvEnq 1 1 false, .slRel 1, .suspend 1,
   .inv 2 .timed, .slAcq 2, .cvEnq 2 2 true, .slRel 2, .sleep 2,
   .inv 0 .unlock, .slAcq 0, .disown 0, .popResume 0 1 1 false, .slRel 0, .ret 0 .ok,
   .timeout 2, .slAcq 2, .cvWoke 2 true true, .slRel 2]

example : ∃ p s', runLog tstep (tinit 3) runTimedFree = some p ∧ step p.s (.ret 2 .fail) = some s' ∧
    p.s.curOp 2 = .timed ∧ p.s.owner = none ∧ p.o.heldRel 2 = false ∧
    p.o.held 2 = true ∧ p.o.dl 2 = true ∧ p.o.still 2 = true :=
  ⟨_, _, rfl, rfl, rfl, rfl, rfl, rfl, rfl, rfl⟩

/-- the other branch: notified, but the mutex was taken again before the re-test -/
example : ∃ p s', runLog tstep (tinit 2)
      [.inv 0 .lock, .slAcq 0, .own 0 1 false, .slRel 0, .ret 0 .ok,
       .inv 1 .timed, .slAcq 1, .cvEnq 1 1 true, .slRel 1, .sleep 1,
       .inv 0 .unlock, .slAcq 0, .disown 0, .popResume 0 0 1 true, .slRel 0, .ret 0 .ok,
       .inv 0 .tryl, .slAcq 0, .own 0 2 false, .slRel 0, .ret 0 .ok,
       .timeout 1, .slAcq 1, .cvWoke 1 false true, .slRel 1] = some p ∧
    step p.s (.ret 1 .fail) = some s' ∧ p.o.still 1 = false ∧ p.o.heldRel 1 = true ∧ p.s.owner = some 0 :=
  ⟨_, _, rfl, rfl, rfl, rfl, rfl⟩

end PikaVerif.C06t
