import PikaVerif.Lemmas.AffBalanced
import PikaVerif.Lemmas.AffPool
import PikaVerif.Lemmas.AffTerm
import PikaVerif.Lemmas.AffNuma
import PikaVerif.Lemmas.AffCmd
/-!
# C15 — workers are pinned to distinct PUs inside the process mask

Property theorems about the model `PikaVerif.Aff` (`Model/Aff.lean`) of
`parse_affinity_options.cpp`, `affinity_data::init`, the topology accessors and the resource
partitioner's PU → pool assignment.  Every theorem quantifies over *all* machine shapes
(`Topo`: any number of cores, any number of PUs per core, any grouping into sockets), all
process masks, all thread counts and both settings of `use_process_mask`.

Hypotheses that appear:
* `WF t` — the machine has a core and every core has a PU;
* `cfg.usePm = true ∨ cfg.used = 0` — `used_cores = 0`, the only value pika passes
  (`init_runtime.cpp` passes the literal `0`; it is reset to 0 anyway when the mask is used);
* for `compact` only: `cfg.usePm = true ∨ cfg.n ≤ cfg.maxCores` — `--pika:cores` is not
  below the thread count when the process mask is ignored (the default is `cores = threads`).
  Without it the property is **false of the code** (`C15_compact_oversubscribes_maxcores`),
  and scatter / balanced do not return (`C15_scatter_hangs_maxcores`, `C15_balanced_hangs_maxcores`).

`numa-balanced` violates the property in the pinned tree; the model reproduces it
(`C15_numa_reported_pu_differs`, `C15_numa_thread_unbound`), the provable rest is in the
`_partial` theorems.
-/
namespace PikaVerif.C15
open PikaVerif PikaVerif.Aff

/-- `used_cores = 0` as far as the decoders can see it -/
def UsedZero (cfg : Cfg) : Prop := cfg.usePm = true ∨ cfg.used = 0

/-- `--pika:cores` does not cut the machine below the number of threads -/
def CoresOK (cfg : Cfg) : Prop := cfg.usePm = true ∨ cfg.n ≤ cfg.maxCores

theorem effUsed_zero (cfg : Cfg) (h : UsedZero cfg) : effUsed cfg = 0 := by
  unfold effUsed; cases h with
  | inl h => simp [h]
  | inr h => simp [h]

theorem not_tooMany_of_ok {cfg : Cfg} (h : tooMany cfg = false) : cfg.n ≤ avail cfg := by
  unfold tooMany avail at *
  split <;> simp_all

/-- all clauses of C15 about the decoded masks, for compact / scatter / balanced -/
theorem decode_good (m : Mode) (hm : m ≠ .numaBalanced) (cfg : Cfg) (hwf : WF cfg.t)
    (hu : UsedZero cfg) (hc : m = .compact → CoresOK cfg) (aff : Nat → List Nat) (pn : Nat → Nat)
    (h : decode m cfg = .ok aff pn) : Good cfg aff pn := by
  cases m with
  | numaBalanced => exact absurd rfl hm
  | scatter => exact scatter_ok cfg (effUsed_zero cfg hu) aff pn h
  | balanced => exact balanced_ok cfg (effUsed_zero cfg hu) aff pn h
  | compact =>
    have hn : cfg.n ≤ avail cfg := by
      apply not_tooMany_of_ok
      cases ht : tooMany cfg with
      | false => rfl
      | true => simp [decode, decodeCompact, ht] at h
    obtain ⟨aff', pn', h1, h2⟩ := compact_spec cfg hwf (effUsed_zero cfg hu) (hc rfl) hn
    simp only [decode] at h
    rw [h1] at h
    simp only [Res.ok.injEq] at h
    obtain ⟨e1, e2⟩ := h
    subst e1; subst e2
    exact h2

/-- **Each worker is bound to exactly one PU inside the effective process mask** (and inside
    the machine). -/
theorem C15_singleton_in_mask (m : Mode) (hm : m ≠ .numaBalanced) (cfg : Cfg) (hwf : WF cfg.t)
    (hu : UsedZero cfg) (hc : m = .compact → CoresOK cfg) (aff : Nat → List Nat) (pn : Nat → Nat)
    (h : decode m cfg = .ok aff pn) (i : Nat) (hi : i < cfg.n) :
    ∃ q, aff i = [q] ∧ q < numPus cfg.t ∧ (cfg.usePm = true → cfg.pm q = true) := by
  obtain ⟨q, h1, _, h3, h4⟩ := (decode_good m hm cfg hwf hu hc aff pn h).bound i hi
  refine ⟨q, h1, h3, ?_⟩
  intro hp
  simpa [ind, hp] using h4

/-- **Two workers never share a PU.** -/
theorem C15_distinct (m : Mode) (hm : m ≠ .numaBalanced) (cfg : Cfg) (hwf : WF cfg.t)
    (hu : UsedZero cfg) (hc : m = .compact → CoresOK cfg) (aff : Nat → List Nat) (pn : Nat → Nat)
    (h : decode m cfg = .ok aff pn) (i j : Nat) (hi : i < cfg.n) (hj : j < cfg.n) (hij : i ≠ j) :
    aff i ≠ aff j :=
  (decode_good m hm cfg hwf hu hc aff pn h).distinct i j hi hj hij

/-- **The PU number pika reports for a worker is the PU it is bound to.** -/
theorem C15_reported_pu_is_bound (m : Mode) (hm : m ≠ .numaBalanced) (cfg : Cfg) (hwf : WF cfg.t)
    (hu : UsedZero cfg) (hc : m = .compact → CoresOK cfg) (aff : Nat → List Nat) (pn : Nat → Nat)
    (h : decode m cfg = .ok aff pn) (i : Nat) (hi : i < cfg.n) : aff i = [pn i] := by
  obtain ⟨q, h1, h2, _⟩ := (decode_good m hm cfg hwf hu hc aff pn h).bound i hi
  rw [h1, h2]

/-- **Oversubscription is rejected** (all four binding modes): a request for more threads than
    there are processing units in the effective process mask (or in the machine, when the mask
    is ignored) raises `bad_parameter`; no masks are produced. -/
theorem C15_reject_oversubscription (m : Mode) (cfg : Cfg) (h : avail cfg < cfg.n) :
    decode m cfg = .error .tooMany := by
  have ht : tooMany cfg = true := by
    unfold tooMany avail at *
    split <;> simp_all
  cases m <;> simp [decode, decodeCompact, decodeScatter, decodeBalanced, decodeNuma, ht]

/-- **A satisfiable compact request is accepted**: the decoder returns (no error, no endless
    loop) whenever the thread count fits. -/
theorem C15_compact_accepts_satisfiable (cfg : Cfg) (hwf : WF cfg.t) (hu : UsedZero cfg)
    (hc : CoresOK cfg) (hn : cfg.n ≤ avail cfg) : ∃ aff pn, decode .compact cfg = .ok aff pn := by
  obtain ⟨aff, pn, h, _⟩ := compact_spec cfg hwf (effUsed_zero cfg hu) hc hn
  exact ⟨aff, pn, h⟩

/-- **`affinity_data::init`**: what is stored after a successful `init` with a binding mode
    satisfies all clauses, and `init` stores nothing when the decoder left a worker unbound. -/
theorem C15_init_bound (m : Mode) (hm : m ≠ .numaBalanced) (cfg : Cfg) (hwf : WF cfg.t)
    (hu : UsedZero cfg) (hc : m = .compact → CoresOK cfg) (aff : Nat → List Nat) (pn : Nat → Nat)
    (h : affInit (some m) cfg = .bound aff pn) : Good cfg aff pn := by
  simp only [affInit] at h
  cases hd : decode m cfg with
  | ok aff' pn' =>
    rw [hd] at h
    simp only at h
    split at h
    · simp at h
    · simp only [Bind.bound.injEq] at h
      obtain ⟨e1, e2⟩ := h
      subst e1; subst e2
      exact decode_good m hm cfg hwf hu hc _ _ hd
  | error e => rw [hd] at h; simp at h
  | diverge => rw [hd] at h; simp at h

/-- **Binding `none` leaves every worker unbound** (no mask is stored for any worker, whatever
    the topology, mask and thread count). -/
theorem C15_none_unbound (cfg : Cfg) : ∃ pn, affInit none cfg = .unbound pn := ⟨_, rfl⟩

/-! ## Pools -/

/-- states of the resource partitioner reachable through `create_thread_pool` /
    `add_resource` / `configure_pools` from the PUs exposed by the affinity masks -/
def PoolReachable (s : Pool.St) : Prop :=
  ∃ exposed osThreads log, exposed.Nodup ∧
    runLog Pool.step (Pool.init exposed osThreads) log = some s

theorem pool_inv (s : Pool.St) (h : PoolReachable s) : Pool.Inv s := by
  obtain ⟨e, o, log, hn, hl⟩ := h
  exact inv_of_runLog Pool.Inv (fun s e s' hi hs => Pool.step_inv s s' e hi hs)
    (Pool.init_inv e o hn) hl

/-- **Every worker belongs to exactly one thread pool, pools never share a PU.**  In every
    reachable partitioner state no PU occurs twice in a pool, no PU occurs in two pools, and
    only exposed PUs are handed out (a worker is an entry of a pool: `reconfigure_affinities`
    gives worker `(pool i, entry j)` the mask `{pool i [j]}` and that PU number). -/
theorem C15_pool_partition (s : Pool.St) (h : PoolReachable s) :
    (∀ i, (s.pool i).Nodup) ∧ (∀ i j p, i ≠ j → p ∈ s.pool i → p ∉ s.pool j) ∧
    (∀ i p, p ∈ s.pool i → i < s.npools ∧ p ∈ s.exposed) := by
  have hi := pool_inv s h
  refine ⟨hi.nodup, hi.disj, ?_⟩
  intro i p hp
  have hlt := hi.inside i p hp
  exact ⟨hlt, ((hi.cover p).1 ⟨i, hlt, hp⟩).1⟩

/-- **After `configure_pools` every exposed PU is in exactly one pool**: nothing the affinity
    masks bind a worker to is lost, and no pool is empty. -/
theorem C15_pool_cover (s s' : Pool.St) (e : Pool.Ev) (h : PoolReachable s)
    (hs : Pool.step s e = some s') (hc : s'.configured = true) (p : Nat) (hp : p ∈ s'.exposed) :
    ∃ i, i < s'.npools ∧ p ∈ s'.pool i ∧ ∀ j, p ∈ s'.pool j → j = i := by
  have hi' := Pool.step_inv s s' e (pool_inv s h) hs
  have hocc := Pool.configured_full s s' e hs hc p hp
  obtain ⟨i, hi, hm⟩ := (hi'.cover p).2 ⟨hp, hocc⟩
  refine ⟨i, hi, hm, ?_⟩
  intro j hj
  by_cases hji : j = i
  · exact hji
  · exact absurd hm (hi'.disj j i p hji hj)

/-! ## Where the property is false of the pinned code (machine-checked witnesses) -/

def affOf : Res → Nat → List Nat
  | .ok aff _, i => aff i
  | _, _ => [0, 0]
def pnOf : Res → Nat → Nat
  | .ok _ pn, i => pn i
  | _, _ => 0
def isOk : Res → Bool
  | .ok _ _ => true
  | _ => false
def isDiverge : Res → Bool
  | .diverge => true
  | _ => false

/-- 3 sockets × 2 cores × 2 PUs (`HWLOC_SYNTHETIC="pack:3 core:2 pu:2"`), full mask -/
def t322 : Topo := { nc := 6, pus := fun _ => 2, socks := [2, 2, 2] }
def cfg322 (n : Nat) : Cfg :=
  { t := t322, pm := fun _ => true, usePm := true, used := 0, maxCores := n, n := n }

/-- FULL STATEMENT THAT FAILS: `C15_reported_pu_is_bound` for `m = .numaBalanced`.
    Witness: 4 threads on 3×2×2 — worker 1 is bound to PU 4 but pika reports PU 0
    (`get_pu_number(num_core + used_cores, …)` lacks `core_offset`). -/
theorem C15_numa_reported_pu_differs :
    isOk (decode .numaBalanced (cfg322 4)) = true ∧
    affOf (decode .numaBalanced (cfg322 4)) 1 = [4] ∧
    pnOf (decode .numaBalanced (cfg322 4)) 1 = 0 := by decide

/-- FULL STATEMENT THAT FAILS: `C15_singleton_in_mask` for `m = .numaBalanced`.
    Witness: 4 threads on 3×2×2 (12 PUs available) — each socket gets round(4·4/12) = 1
    thread, worker 3 is left with an empty mask; `affinity_data::init` then refuses the
    (satisfiable) request. -/
theorem C15_numa_thread_unbound :
    isOk (decode .numaBalanced (cfg322 4)) = true ∧
    affOf (decode .numaBalanced (cfg322 4)) 3 = [] ∧
    (match affInit (some .numaBalanced) (cfg322 4) with
     | .error .notAllBound => true
     | _ => false) = true := by decide

/-- 1 socket × 2 cores × 1 PU, process mask ignored, `--pika:cores=1`, 2 threads -/
def t21 : Topo := { nc := 2, pus := fun _ => 1, socks := [2] }
def cfg21 : Cfg :=
  { t := t21, pm := fun _ => true, usePm := false, used := 0, maxCores := 1, n := 2 }

/-- FULL STATEMENT THAT FAILS: `C15_distinct` for compact without `CoresOK`.  Witness: both
    workers are bound to PU 0 although 2 PUs exist and no error is raised. -/
theorem C15_compact_oversubscribes_maxcores :
    affOf (decode .compact cfg21) 0 = [0] ∧ affOf (decode .compact cfg21) 1 = [0] := by decide

/-- Same request with scatter / balanced: the decoder never returns. -/
theorem C15_scatter_hangs_maxcores : isDiverge (decode .scatter cfg21) = true := by decide
theorem C15_balanced_hangs_maxcores : isDiverge (decode .balanced cfg21) = true := by decide

/-- asymmetric machine: 3 sockets with one core each, the cores have 2, 4 and 3 PUs -/
def tAsym1 : Topo := { nc := 3, pus := fun c => [2, 4, 3].getD c 1, socks := [1, 1, 1] }
/-- asymmetric machine: 2 sockets × 2 cores, PUs per core 3,3 / 2,4 -/
def tAsym2 : Topo := { nc := 4, pus := fun c => [3, 3, 2, 4].getD c 1, socks := [2, 2] }
def cfgAsym (t : Topo) (n : Nat) : Cfg :=
  { t := t, pm := fun _ => true, usePm := true, used := 0, maxCores := n, n := n }

/-- numa-balanced on a machine whose cores differ in size: 6 threads on 9 PUs — the decoder
    never returns (`get_number_of_core_pus(num_core)` lacks `core_offset`, socket 1 looks for
    3 usable PUs on a core it believes to have 2). -/
theorem C15_numa_hangs_asymmetric :
    isDiverge (decode .numaBalanced (cfgAsym tAsym1 6)) = true := by decide

/-- numa-balanced on a machine whose cores differ in size: 10 threads on 12 PUs — workers 5
    and 7 are both bound to PU 6 (`pu % arity` wraps on the smaller core). -/
theorem C15_numa_shares_pu_asymmetric :
    affOf (decode .numaBalanced (cfgAsym tAsym2 10)) 5 = [6] ∧
    affOf (decode .numaBalanced (cfgAsym tAsym2 10)) 7 = [6] := by decide

/-! ## numa-balanced: what does hold -/

theorem roundDiv_self (n p : Nat) (hp : 0 < p) : roundDiv (n * p) p = n := by
  unfold roundDiv
  have h1 : 2 * (n * p) + p = p + 2 * p * n := by
    rw [Nat.mul_comm n p, ← Nat.mul_assoc]; omega
  rw [h1, Nat.add_mul_div_left _ _ (by omega : 0 < 2 * p)]
  have : p / (2 * p) = 0 := Nat.div_eq_of_lt (by omega)
  omega

/-- **numa-balanced on a machine with one socket is the balanced decoder** (so all clauses
    above hold for it there), provided the mask is used and contains a PU of the machine. -/
theorem C15_numa_single_socket_partial (cfg : Cfg) (hs : cfg.t.socks = [cfg.t.nc] ∨ cfg.t.socks = [])
    (hp : cfg.usePm = true) (hm : 0 < socketPusInMask cfg 0 cfg.t.nc) :
    decode .numaBalanced cfg = decode .balanced cfg := by
  have hns : numSockets cfg.t = 1 := by rcases hs with h | h <;> simp [numSockets, h]
  have hsc : socketCores cfg.t 0 = cfg.t.nc := by rcases hs with h | h <;> simp [socketCores, h]
  have hec : effCores cfg = cfg.t.nc := by simp [effCores, hp]
  have hoff : sockOff cfg.t 0 = 0 := rfl
  have hT : numaPusT cfg = socketPusInMask cfg 0 cfg.t.nc := by
    simp [numaPusT, hns, sumTo, hsc, hoff]
  simp only [decode, decodeNuma, decodeBalanced, hns, numaShares, hsc, hoff, hT, hec,
    roundDiv_self cfg.n _ hm, Nat.zero_add, Nat.lt_irrefl, ↓reduceIte, numaSockets, Nat.add_zero]
  split
  · rfl
  · cases balPhase1 cfg 0 cfg.n cfg.t.nc with
    | none => rfl
    | some b =>
      simp only
      cases balPhase2 cfg b (effUsed cfg) (effUsed cfg) cfg.t.nc ASt.init <;> rfl

/-- **numa-balanced rejects oversubscription** — instance of `C15_reject_oversubscription`. -/
theorem C15_numa_reject_partial (cfg : Cfg) (h : avail cfg < cfg.n) :
    decode .numaBalanced cfg = .error .tooMany := C15_reject_oversubscription _ cfg h

/-! ## Non-vacuity: accepted requests exist for every mode, with asymmetric masks -/

/-- 2 sockets × 2 cores × 2 PUs, asymmetric process mask {1, 2, 3, 6} -/
def t222 : Topo := { nc := 4, pus := fun _ => 2, socks := [2, 2] }
def cfgA (n : Nat) : Cfg :=
  { t := t222, pm := fun q => q == 1 || q == 2 || q == 3 || q == 6, usePm := true, used := 0,
    maxCores := 0, n := n }

example : WF t222 := ⟨by decide, fun _ _ => by simp [t222]⟩
example : (List.range 4).map (affOf (decode .compact (cfgA 4))) = [[1], [2], [3], [6]] := by decide
example : (List.range 4).map (affOf (decode .scatter (cfgA 4))) = [[1], [2], [6], [3]] := by decide
example : (List.range 3).map (affOf (decode .balanced (cfgA 3))) = [[1], [2], [6]] := by decide
example : decode .balanced (cfgA 5) = .error .tooMany :=
  C15_reject_oversubscription _ _ (by decide)
example : avail (cfgA 4) = 4 := by decide

/-- a partitioner run: one extra pool gets PU 2, the rest goes to the default pool -/
example : ∃ s, runLog Pool.step (Pool.init [0, 1, 2, 3] 4) [.create, .add 2 1, .setup] = some s ∧
    s.configured = true ∧ s.pool 0 = [0, 1, 3] ∧ s.pool 1 = [2] := ⟨_, rfl, rfl, rfl, rfl⟩
/-- handing the same PU out twice is refused -/
example : runLog Pool.step (Pool.init [0, 1] 2) [.create, .add 1 1, .add 1 0] = none := by decide

/-! ## Follow-up C15t (1): termination of scatter and balanced

`usable cfg` (`Lemmas/AffTerm.lean`) = number of PUs the `next_pu_index` loops of scatter and
balanced can ever reach: PUs inside the effective mask on the first `min(max_cores, #cores)`
cores (`usable_mask`: the whole mask count when the process mask is used; `usable_nomask`: all
PUs of those cores when it is ignored).  The model's outer loops carry a fuel argument
(`cfg.n + 1` passes) and report `diverge` when the fuel runs out **or** when a pass places no
thread (after which every further pass of the real loop is identical).  The theorems below show
that the fuel never runs out and that the second case happens exactly when `usable cfg < cfg.n`:
the real loop nests return for every other input. -/

/-- **scatter does not return exactly when the request passes `check_num_threads` but the cores
    the decoder looks at hold fewer usable PUs than threads** (both directions). -/
theorem C15_scatter_diverges_iff (cfg : Cfg) :
    isDiverge (decode .scatter cfg) = (!tooMany cfg && decide (usable cfg < cfg.n)) := by
  simp only [decode, decodeScatter]
  cases ht : tooMany cfg with
  | true => simp [isDiverge]
  | false =>
    simp only [Bool.false_eq_true, ↓reduceIte, Bool.not_false, Bool.true_and]
    by_cases h0 : cfg.n = 0
    · simp [h0, isDiverge]
    · simp only [h0, ↓reduceIte]
      by_cases hg : usable cfg < cfg.n
      · rw [scatterLoop_diverges cfg hg (cfg.n + 1) ⟨ASt.init, fun _ => 0⟩ (scatter_init_TBase cfg)
          (by simp [ASt.init]; omega) (fun _ _ => rfl)]
        simp [isDiverge, hg]
      · obtain ⟨aff, pn, h⟩ := scatterLoop_terminates cfg (by omega) (cfg.n + 1)
          ⟨ASt.init, fun _ => 0⟩ (scatter_init_TBase cfg) (by simp [ASt.init]; omega)
          (fun _ _ => rfl) (by simp [ASt.init])
        rw [h]; simp [isDiverge, hg]

/-- **balanced does not return exactly on the same inputs** (both directions). -/
theorem C15_balanced_diverges_iff (cfg : Cfg) :
    isDiverge (decode .balanced cfg) = (!tooMany cfg && decide (usable cfg < cfg.n)) := by
  simp only [decode, decodeBalanced]
  cases ht : tooMany cfg with
  | true => simp [isDiverge]
  | false =>
    simp only [Bool.false_eq_true, ↓reduceIte, Bool.not_false, Bool.true_and]
    have hs := balPhase1_isSome cfg 0 cfg.n (effCores cfg)
    rw [← usable_eq_balTotal] at hs
    cases hb : balPhase1 cfg 0 cfg.n (effCores cfg) with
    | none =>
      rw [hb] at hs
      have : usable cfg < cfg.n := by
        have : ¬ cfg.n ≤ usable cfg := by simpa using hs.symm
        omega
      simp [isDiverge, this]
    | some b =>
      rw [hb] at hs
      have hle : cfg.n ≤ usable cfg := by simpa using hs.symm
      have : ¬ usable cfg < cfg.n := by omega
      simp only [this, decide_false]
      cases balPhase2 cfg b (effUsed cfg) (effUsed cfg) (effCores cfg) ASt.init <;> rfl

/-- **A satisfiable scatter request is accepted**: with `--pika:cores` not below the thread
    count (or the process mask in use) every thread count that fits returns masks — which then
    satisfy all clauses (`C15_singleton_in_mask`, `C15_distinct`, `C15_reported_pu_is_bound`). -/
theorem C15_scatter_accepts_satisfiable (cfg : Cfg) (hwf : WF cfg.t) (hc : CoresOK cfg)
    (hn : cfg.n ≤ avail cfg) : ∃ aff pn, decode .scatter cfg = .ok aff pn := by
  have hu := usable_enough cfg hwf hc hn
  simp only [decode, decodeScatter, tooMany_false cfg hn, Bool.false_eq_true, ↓reduceIte]
  by_cases h0 : cfg.n = 0
  · simp only [h0, ↓reduceIte]; exact ⟨_, _, rfl⟩
  · simp only [h0, ↓reduceIte]
    exact scatterLoop_terminates cfg hu (cfg.n + 1) ⟨ASt.init, fun _ => 0⟩ (scatter_init_TBase cfg)
      (by simp [ASt.init]; omega) (fun _ _ => rfl) (by simp [ASt.init])

/-- **A satisfiable balanced request is accepted.** -/
theorem C15_balanced_accepts_satisfiable (cfg : Cfg) (hwf : WF cfg.t) (hc : CoresOK cfg)
    (hn : cfg.n ≤ avail cfg) : ∃ aff pn, decode .balanced cfg = .ok aff pn := by
  have hu := usable_enough cfg hwf hc hn
  simp only [decode, decodeBalanced, tooMany_false cfg hn, Bool.false_eq_true, ↓reduceIte]
  have hs := balPhase1_isSome cfg 0 cfg.n (effCores cfg)
  rw [← usable_eq_balTotal] at hs
  cases hb : balPhase1 cfg 0 cfg.n (effCores cfg) with
  | none => rw [hb] at hs; simp [hu] at hs
  | some b =>
    simp only
    have := balPhase2_noerr cfg b (effUsed cfg) (effUsed cfg) (effCores cfg) ASt.init (fun _ _ => rfl)
    cases hr : balPhase2 cfg b (effUsed cfg) (effUsed cfg) (effCores cfg) ASt.init with
    | run s => exact ⟨_, _, rfl⟩
    | fin s => exact ⟨_, _, rfl⟩
    | err => rw [hr] at this; exact this.elim

/-- **With the process mask in use scatter and balanced always return** (an error for an
    oversubscribed request, masks otherwise): the endless loops need
    `--pika:ignore-process-mask`. -/
theorem C15_mask_used_never_hangs (m : Mode) (hm : m = .scatter ∨ m = .balanced) (cfg : Cfg)
    (hp : cfg.usePm = true) : isDiverge (decode m cfg) = false := by
  have hu := usable_mask cfg hp
  have : (!tooMany cfg && decide (usable cfg < cfg.n)) = false := by
    rw [hu]
    simp only [tooMany, hp, ↓reduceIte]
    by_cases h : cfg.n > countMask cfg
    · simp [h]
    · have h' : ¬ countMask cfg < cfg.n := by omega
      simp [h']
  rcases hm with hm | hm <;> subst hm
  · rw [C15_scatter_diverges_iff, this]
  · rw [C15_balanced_diverges_iff, this]

/-- **With the mask ignored they hang exactly when `--pika:cores` cuts the machine to fewer PUs
    than threads**: `n ≤ #PUs` (accepted by `check_num_threads`) but the first
    `min(max_cores, #cores)` cores hold fewer than `n` PUs. -/
theorem C15_mask_ignored_hangs_iff (m : Mode) (hm : m = .scatter ∨ m = .balanced) (cfg : Cfg)
    (hp : cfg.usePm = false) :
    isDiverge (decode m cfg) =
      (decide (cfg.n ≤ numPus cfg.t) && decide (base cfg.t (min cfg.maxCores cfg.t.nc) < cfg.n)) := by
  have hu := usable_nomask cfg hp
  have ht : (!tooMany cfg) = decide (cfg.n ≤ numPus cfg.t) := by
    simp only [tooMany, hp, Bool.false_eq_true, ↓reduceIte]
    by_cases h : cfg.n ≤ numPus cfg.t
    · have : ¬ cfg.n > numPus cfg.t := by omega
      simp [h, this]
    · have : cfg.n > numPus cfg.t := by omega
      simp [h, this]
  rcases hm with hm | hm <;> subst hm
  · rw [C15_scatter_diverges_iff, hu, ht]
  · rw [C15_balanced_diverges_iff, hu, ht]

/-- the fuel of the model's loops is irrelevant: a larger bound gives the same result
    (stated for the first phase of balanced, which numa-balanced shares) -/
theorem C15_balanced_fuel_irrelevant (cfg : Cfg) (off goal ncores f : Nat) (hg : 0 < goal)
    (hf : goal ≤ f) :
    (balLoop cfg off goal ncores f BSt.init).isSome = (balPhase1 cfg off goal ncores).isSome := by
  rw [balPhase1_isSome]
  by_cases h : goal ≤ balTotal cfg off ncores
  · obtain ⟨b, hb, _⟩ := balLoop_terminates cfg off goal ncores h f BSt.init (init_TBase _ _ _)
      (by simpa [BSt.init] using hg) (by simp [BSt.init]; omega)
    simp [hb, h]
  · rw [balLoop_diverges cfg off goal ncores (by omega) f BSt.init (init_TBase _ _ _)
      (by simpa [BSt.init] using hg)]
    simp [h]

example : usable cfg21 = 1 ∧ avail cfg21 = 2 := by decide
example : isDiverge (decode .scatter (cfgA 4)) = false :=
  C15_mask_used_never_hangs _ (Or.inl rfl) _ rfl

/-! ## Follow-up C15t (2): numa-balanced — where it hangs, where it is right

Three defects of `decode_numabalanced_distribution` (see the witnesses above):
(a) `get_number_of_core_pus(num_core)` lacks `core_offset`; (b) the per-socket thread counts are
rounded independently and may not add up; (c) the reported PU number lacks `core_offset`.
* (a) is harmless exactly on `NumaShape` machines (sockets partition the cores, the `c`-th core of
  each socket is as large as core `c`; e.g. all cores equal) — there the decoder always returns
  (`C15_numa_terminates_wellshaped`); in general it does not return iff `numaHangs`
  (`C15_numa_diverges_iff`, decidable, both directions).
* (b) on `NumaShape` machines the *binding* clauses (one PU, inside the mask, distinct) hold for
  the first `Σ num_threads_socket` workers; they hold for all workers iff the sum is the thread
  count (`NumaBindOk`: `C15_numa_bind_ok`, converse `C15_numa_rounding_unbound`).
* (c) reported = bound needs every thread on socket 0: `NumaOk` (`C15_numa_ok_all_clauses`). -/

/-- **decidable guard for the binding clauses of numa-balanced** -/
def NumaBindOk (cfg : Cfg) : Prop := NumaShape cfg.t ∧ (numaSharesOf cfg).sum = cfg.n

instance (cfg : Cfg) : Decidable (NumaBindOk cfg) := by unfold NumaBindOk; infer_instance

/-- **decidable guard for all clauses of numa-balanced**: socket 0 exists inside the machine, holds
    enough usable PUs, and the decoder sends every thread there (`num_threads_socket = n, 0, …, 0`):
    machines with one socket, process masks inside socket 0, thread counts whose share of every
    other socket rounds to 0 -/
def NumaOk (cfg : Cfg) : Prop :=
  socketCores cfg.t 0 ≤ cfg.t.nc ∧ cfg.n ≤ balTotal cfg 0 (socketCores cfg.t 0) ∧
  (numaSharesOf cfg).head? = some cfg.n ∧ (numaSharesOf cfg).tail.all (fun x => x == 0) = true

instance (cfg : Cfg) : Decidable (NumaOk cfg) := by unfold NumaOk; infer_instance

/-- **numa-balanced does not return exactly on the inputs satisfying the decidable predicate
    `numaHangs`** (the request passes `check_num_threads` and some socket is asked for more
    threads than its scan — limited by the sizes of the *first* cores of the machine — can find). -/
theorem C15_numa_diverges_iff (cfg : Cfg) :
    isDiverge (decode .numaBalanced cfg) = numaHangs cfg := by
  rw [← decodeNuma_diverges_iff]
  simp only [decode]
  cases decodeNuma cfg <;> rfl

/-- **On a machine of the shape the decoder assumes numa-balanced always returns.** -/
theorem C15_numa_terminates_wellshaped (cfg : Cfg) (h : NumaShape cfg.t) :
    isDiverge (decode .numaBalanced cfg) = false := by
  rw [C15_numa_diverges_iff]
  cases ht : tooMany cfg with
  | true => simp [numaHangs, ht]
  | false => exact numa_shape_no_hang cfg h ht

/-- **numa-balanced, binding clauses**: under `NumaBindOk` every worker is bound to exactly one
    PU of the machine inside the effective mask and no two workers share a PU. -/
theorem C15_numa_bind_ok (cfg : Cfg) (hu : UsedZero cfg) (hok : NumaBindOk cfg)
    (aff : Nat → List Nat) (pn : Nat → Nat) (h : decode .numaBalanced cfg = .ok aff pn) :
    (∀ i, i < cfg.n → ∃ q, aff i = [q] ∧ q < numPus cfg.t ∧ (cfg.usePm = true → cfg.pm q = true)) ∧
    (∀ i j, i < cfg.n → j < cfg.n → i ≠ j → aff i ≠ aff j) := by
  have ht : tooMany cfg = false := by
    cases ht : tooMany cfg with
    | false => rfl
    | true => simp [decode, decodeNuma, ht] at h
  obtain ⟨aff', pn', e, b1, b2, _⟩ := numa_bind_spec cfg (effUsed_zero cfg hu) hok.1 ht
  simp only [decode] at h
  rw [e] at h
  simp only [Res.ok.injEq] at h
  obtain ⟨e1, e2⟩ := h
  subst e1; subst e2
  rw [hok.2] at b1 b2
  refine ⟨?_, b2⟩
  intro i hi
  obtain ⟨q, h1, h2, h3⟩ := b1 i hi
  refine ⟨q, h1, h2, ?_⟩
  intro hp
  simpa [ind, hp] using h3

/-- **… and such a request is accepted**, by the decoder and by `affinity_data::init`. -/
theorem C15_numa_bind_accepts (cfg : Cfg) (hu : UsedZero cfg) (hok : NumaBindOk cfg)
    (hn : cfg.n ≤ avail cfg) : ∃ aff pn, affInit (some .numaBalanced) cfg = .bound aff pn := by
  obtain ⟨aff, pn, e, b1, _, _⟩ :=
    numa_bind_spec cfg (effUsed_zero cfg hu) hok.1 (tooMany_false cfg hn)
  rw [hok.2] at b1
  have hc : countInit cfg.n aff = cfg.n := by
    apply countInit_all
    intro i hi
    obtain ⟨q, h1, _⟩ := b1 i hi
    simp [h1]
  refine ⟨aff, pn, ?_⟩
  simp [affInit, decode, e, hc]

/-- **Converse on well-shaped machines**: if the rounded per-socket counts do not add up to the
    thread count, worker `Σ num_threads_socket` keeps an empty mask and `affinity_data::init`
    refuses the (satisfiable) request — `NumaBindOk` is exact there. -/
theorem C15_numa_rounding_unbound (cfg : Cfg) (hu : UsedZero cfg) (hs : NumaShape cfg.t)
    (hn : cfg.n ≤ avail cfg) (hlt : (numaSharesOf cfg).sum < cfg.n) :
    affOf (decode .numaBalanced cfg) (numaSharesOf cfg).sum = [] ∧
    affInit (some .numaBalanced) cfg = .error .notAllBound := by
  obtain ⟨aff, pn, e, _, _, b3⟩ :=
    numa_bind_spec cfg (effUsed_zero cfg hu) hs (tooMany_false cfg hn)
  have h0 := b3 _ (Nat.le_refl _)
  have hc := countInit_lt cfg.n aff _ hlt h0
  refine ⟨by simp [decode, e, affOf, h0], ?_⟩
  have : countInit cfg.n aff ≠ cfg.n := by omega
  simp [affInit, decode, e, this]

/-- **numa-balanced, all clauses**: under `NumaOk` the request is accepted and every worker is
    bound to exactly one PU inside the effective mask, pairwise distinct, reported = bound. -/
theorem C15_numa_ok_all_clauses (cfg : Cfg) (hu : UsedZero cfg) (hok : NumaOk cfg)
    (hn : cfg.n ≤ avail cfg) :
    ∃ aff pn, decode .numaBalanced cfg = .ok aff pn ∧
      affInit (some .numaBalanced) cfg = .bound aff pn ∧
      (∀ i, i < cfg.n → ∃ q, aff i = [q] ∧ pn i = q ∧ q < numPus cfg.t ∧
        (cfg.usePm = true → cfg.pm q = true)) ∧
      (∀ i j, i < cfg.n → j < cfg.n → i ≠ j → aff i ≠ aff j) := by
  obtain ⟨h1, h2, h3, h4⟩ := hok
  have hsh : ∃ rest, numaSharesOf cfg = cfg.n :: rest ∧ ∀ x, x ∈ rest → x = 0 := by
    cases hl : numaSharesOf cfg with
    | nil => rw [hl] at h3; simp at h3
    | cons a rest =>
      rw [hl] at h3 h4
      simp only [List.head?_cons, Option.some.injEq] at h3
      simp only [List.tail_cons, List.all_eq_true, beq_iff_eq] at h4
      exact ⟨rest, by rw [h3], h4⟩
  obtain ⟨rest, hs, hz⟩ := hsh
  obtain ⟨aff, pn, e, g⟩ := numa_first_socket_spec cfg (effUsed_zero cfg hu) (tooMany_false cfg hn)
    h1 h2 rest hs hz
  have hc : countInit cfg.n aff = cfg.n := by
    apply countInit_all
    intro i hi
    obtain ⟨q, h1, _⟩ := g.bound i hi
    simp [h1]
  refine ⟨aff, pn, e, by simp [affInit, decode, e, hc], ?_, g.distinct⟩
  intro i hi
  obtain ⟨q, a1, a2, a3, a4⟩ := g.bound i hi
  refine ⟨q, a1, a2, a3, ?_⟩
  intro hp
  simpa [ind, hp] using a4

/-- **Converse for the reported PU number on well-shaped machines**: as soon as a socket with a
    positive core offset receives a thread (`num_threads_socket[j] > 0`, `j`-th socket not at core
    0), some worker reports a PU it is not bound to — the last condition of `NumaOk` (all threads on
    the first socket) is necessary. -/
theorem C15_numa_reported_wrong_beyond_socket0 (cfg : Cfg) (hu : UsedZero cfg) (hwf : WF cfg.t)
    (hs : NumaShape cfg.t) (hn : cfg.n ≤ avail cfg) (j : Nat) (hj : j < numSockets cfg.t)
    (hpos : 0 < (numaSharesOf cfg).getD j 0) (hoff : 0 < sockOff cfg.t j) :
    ∃ i, i < cfg.n ∧
      affOf (decode .numaBalanced cfg) i ≠ [pnOf (decode .numaBalanced cfg) i] := by
  obtain ⟨aff, pn, e, i, hi, hne⟩ := numa_misreport_spec cfg (effUsed_zero cfg hu) hwf hs
    (tooMany_false cfg hn) j hj hpos hoff
  exact ⟨i, hi, by simpa [decode, e, affOf, pnOf] using hne⟩

/-! non-vacuity of the numa-balanced guards, and the known counterexamples seen through them -/

/-- 6 threads on 3×2×2: two per socket — binding right on all sockets (the reported PU numbers
    of sockets 1, 2 are still wrong: `C15_numa_reported_pu_differs` is the 4-thread case) -/
example : NumaBindOk (cfg322 6) := by decide
example : (List.range 6).map (affOf (decode .numaBalanced (cfg322 6))) = [[0], [2], [4], [6], [8], [10]] := by
  decide
example : (List.range 6).map (pnOf (decode .numaBalanced (cfg322 6))) = [0, 2, 0, 2, 0, 2] := by decide
/-- the 4-thread witness fails the guard because of the rounding (shares 1+1+1) -/
example : NumaShape t322 ∧ ¬ NumaBindOk (cfg322 4) ∧ numaSharesOf (cfg322 4) = [1, 1, 1] := by decide
/-- the asymmetric machines of the hang / shared-PU witnesses fail `NumaShape` -/
example : ¬ NumaShape tAsym1 ∧ ¬ NumaShape tAsym2 := by decide
example : numaHangs (cfgAsym tAsym1 6) = true ∧ numaHangs (cfgAsym tAsym2 10) = false := by decide
/-- 2×2×2 with the mask {0,1,2} inside socket 0, 3 threads: all clauses hold -/
def cfgS0 (n : Nat) : Cfg :=
  { t := t222, pm := fun q => q == 0 || q == 1 || q == 2, usePm := true, used := 0, maxCores := 0, n := n }
example : NumaOk (cfgS0 3) := by decide
example : (List.range 3).map (affOf (decode .numaBalanced (cfgS0 3))) = [[0], [1], [2]] ∧
    (List.range 3).map (pnOf (decode .numaBalanced (cfgS0 3))) = [0, 1, 2] := by decide
/-- one thread on the full 2×2×2 machine: the share of socket 1 is cut to 0 -/
example : NumaOk { cfgS0 1 with pm := fun _ => true } := by decide
/-- two threads on the full machine go to two sockets: not `NumaOk` (reported PU of worker 1 is wrong) -/
example : ¬ NumaOk { cfgS0 2 with pm := fun _ => true } ∧
    NumaBindOk { cfgS0 2 with pm := fun _ => true } := by decide

/-! ## Follow-up C15t (3): the rejection clause through the command line

`Model/AffCmd.lean`: `--pika:threads=<n|cores|all>`, `--pika:cores=<k|all>`,
`--pika:ignore-process-mask`, `--pika:bind` → the request (`cmdCfg`) `affinity_data::init` is
called with by `run_or_start` (`startup`).  Tied to the code by `harness/e0/affinity_cmd.cpp`
(real `command_line_handling::call` + `affinity_data::init` under synthetic machines). -/

/-- **Oversubscription is rejected at start-up, whatever the combination of `--pika:threads`,
    `--pika:cores` and `--pika:ignore-process-mask`** (every binding mode other than `none`): more
    threads than PUs in the process mask — or in the machine when the mask is ignored — makes
    `affinity_data::init` throw `bad_parameter`; no masks are stored. -/
theorem C15_start_rejects_oversubscription (cmd : Cmd) (m : Mode) (hb : cmd.bind = some m)
    (t : Topo) (pm : Nat → Bool) (cfg : Cfg) (hc : cmdCfg cmd t pm = some cfg)
    (h : avail cfg < cfg.n) : startup cmd t pm = .init (.error .tooMany) := by
  simp only [startup, hc, hb, affInitMasks, affInit, C15_reject_oversubscription m cfg h]

/-- **The thread-count keywords never oversubscribe**: `--pika:threads=all`, `=cores` and the
    default ask for at most the PUs available (in the mask, or in the machine when it is
    ignored), so they are never rejected by `check_num_threads`. -/
theorem C15_keywords_fit (cmd : Cmd) (hk : ∀ k, cmd.threads ≠ .num k) (t : Topo) (hwf : WF t)
    (pm : Nat → Bool) (cfg : Cfg) (hc : cmdCfg cmd t pm = some cfg) : cfg.n ≤ avail cfg := by
  unfold cmdCfg at hc
  simp only at hc
  split at hc
  · simp at hc
  · simp only [Option.some.injEq] at hc
    subst hc
    have h1 := defaultCores_le
      { t := t, pm := pm, usePm := !cmd.ignoreMask, used := 0, maxCores := 0, n := 0 } hwf
    show cmdThreads cmd.threads _ ≤ avail
      { t := t, pm := pm, usePm := !cmd.ignoreMask, used := 0, maxCores := 0, n := 0 }
    cases ht : cmd.threads with
    | num k => exact absurd ht (hk k)
    | dflt => exact h1
    | cores => exact h1
    | all => exact Nat.le_refl _

/-- **A satisfiable command line is accepted and bound correctly** (compact / scatter /
    balanced): if `--pika:cores` is left at its default or the process mask is in use, every
    request that fits starts with masks satisfying all clauses. -/
theorem C15_start_accepts (cmd : Cmd) (m : Mode) (hm : m ≠ .numaBalanced) (hb : cmd.bind = some m)
    (hcores : cmd.cores = .dflt ∨ cmd.ignoreMask = false) (t : Topo) (hwf : WF t)
    (pm : Nat → Bool) (cfg : Cfg) (hc : cmdCfg cmd t pm = some cfg) (hn : cfg.n ≤ avail cfg) :
    ∃ aff pn, startup cmd t pm = .init (.bound aff pn) ∧ Good cfg aff pn := by
  obtain ⟨f1, _, f3, f4, _, f6⟩ := cmdCfg_fields cmd t pm cfg hc
  have hwf' : WF cfg.t := by rw [f1]; exact hwf
  have hu : UsedZero cfg := Or.inr f4
  have hco : CoresOK cfg := by
    rcases hcores with h | h
    · exact Or.inr (by rw [f6 h]; exact Nat.le_refl _)
    · exact Or.inl (by rw [f3, h]; rfl)
  have hex : ∃ aff pn, decode m cfg = .ok aff pn := by
    cases m with
    | numaBalanced => exact absurd rfl hm
    | compact => exact C15_compact_accepts_satisfiable cfg hwf' hu hco hn
    | scatter => exact C15_scatter_accepts_satisfiable cfg hwf' hco hn
    | balanced => exact C15_balanced_accepts_satisfiable cfg hwf' hco hn
  obtain ⟨aff, pn, hd⟩ := hex
  have hg := decode_good m hm cfg hwf' hu (fun _ => hco) aff pn hd
  have hci : countInit cfg.n aff = cfg.n := by
    apply countInit_all
    intro i hi
    obtain ⟨q, h1, _⟩ := hg.bound i hi
    simp [h1]
  refine ⟨aff, pn, ?_, hg⟩
  simp [startup, hc, hb, affInitMasks, affInit, hd, hci]

/-- **`--pika:bind=none` inside the machine**: with at most as many workers as PUs no worker
    gets a mask. -/
theorem C15_none_unbound_start (cfg : Cfg) (h : cfg.n ≤ numPus cfg.t) (i : Nat) (hi : i < cfg.n) :
    noneMask cfg i = [] := by
  simp [noneMask]; omega

/-- FULL STATEMENT THAT FAILS: "a request for more threads than PUs is rejected / `none` leaves
    every worker unbound" for `--pika:bind=none`.  `affinity_data::init` raises no error for
    `--pika:bind=none` whatever the thread count (there is no `check_num_threads` on this path),
    and `get_pu_mask` tests `no_affinity_` — filled by PU number — with the worker number: worker
    `#PUs` (the first one beyond the machine) is **bound to PU 0**. -/
theorem C15_none_oversubscribed_binds_partial (cmd : Cmd) (hb : cmd.bind = none) (t : Topo)
    (pm : Nat → Bool) (cfg : Cfg) (hc : cmdCfg cmd t pm = some cfg)
    (_h : numPus cfg.t < cfg.n) :
    ∃ aff pn, startup cmd t pm = .init (.bound aff pn) ∧ aff (numPus cfg.t) = [0] := by
  refine ⟨noneMask cfg, fun i => i % numPus cfg.t, by simp only [startup, hc, hb, affInitMasks], ?_⟩
  simp [noneMask, Nat.mod_self]

/-- **`--pika:cores` has no effect while the process mask is used** (all four modes): the
    decoders overwrite `max_cores` — the `cores < threads` findings need
    `--pika:ignore-process-mask`. -/
theorem C15_cores_ignored_with_mask (m : Mode) (cfg : Cfg) (k : Nat) (h : cfg.usePm = true) :
    decode m { cfg with maxCores := k } = decode m cfg := decode_withCores m cfg k h

/-- compact with `--pika:cores=0 --pika:ignore-process-mask`: no core is looked at, the outer loop
    never ends (the remaining non-terminating input of compact; with `0 < cores` it wraps around
    and oversubscribes instead: `C15_compact_oversubscribes_maxcores`) -/
example : isDiverge (decode .compact { cfg21 with maxCores := 0 }) = true := by decide

/-- the command lines of the E0 smoke test: 2×2×2, mask {1,2,3,6} -/
def pmA : Nat → Bool := fun q => q == 1 || q == 2 || q == 3 || q == 6
example : (cmdCfg ⟨.cores, .dflt, false, some .scatter⟩ t222 pmA).map (fun c => (c.n, c.maxCores)) =
    some (3, 3) := by decide
example : (cmdCfg ⟨.all, .dflt, false, some .scatter⟩ t222 pmA).map (fun c => (c.n, c.maxCores)) =
    some (4, 4) := by decide
example : (cmdCfg ⟨.all, .num 2, true, some .scatter⟩ t222 pmA).map (fun c => (c.n, c.maxCores)) =
    some (8, 2) := by decide
example : (match startup ⟨.num 5, .dflt, false, some .scatter⟩ t222 pmA with
    | .init (.error .tooMany) => true | _ => false) = true := by decide

/-- a machine for which hwloc reports no core objects (3 PUs directly below the package) -/
def tNoCore : Topo := { nc := 3, pus := fun _ => 1, socks := [3], noCoreObjs := true }

/-- FULL STATEMENT THAT FAILS: "a satisfiable request is accepted" for the default thread count
    and for `--pika:threads=cores` on a machine without core objects while the process mask is
    used: `get_number_of_default_cores` counts 0 cores (`init_core_affinity_mask_from_core` finds
    no object), the thread count becomes 0 and the start-up fails although 3 PUs are available. -/
theorem C15_no_core_objects_zero_threads_partial :
    (match startup ⟨.dflt, .dflt, false, some .balanced⟩ tNoCore (fun _ => true) with
     | .cmdlineError => true | _ => false) = true ∧
    (match startup ⟨.cores, .dflt, false, some .balanced⟩ tNoCore (fun _ => true) with
     | .cmdlineError => true | _ => false) = true ∧
    (match startup ⟨.all, .dflt, false, some .balanced⟩ tNoCore (fun _ => true) with
     | .init (.bound _ _) => true | _ => false) = true := by decide

end PikaVerif.C15
