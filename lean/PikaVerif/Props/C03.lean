import PikaVerif.Lemmas.Snd
import PikaVerif.Lemmas.Shared3
import PikaVerif.Lemmas.WhenAll
/-!
# C03 — sender adaptors deliver exactly one, correct completion signal

Stage 1 (this part): the sequential adaptors.  `PikaVerif.Snd.start cfg t env k s` is the
operational rendering of `connect(t, k)` + `start` on the C++ adaptors (receivers, operation-state
members, try/catch around user callables, the `when_all` counter and latch, the shared state of
split / ensure_started / split_tuple, `schedule_from`'s parked values); `denote t env` is the
completion the composition stands for.  The theorems quantify over every term of the language
(unbounded size and nesting), every user callable of the harness' function language, every
receiver `k` and every machine state.

`cfg` selects the code variant: `Cfg.fixed` is the tree with the two one-line repairs
(`fix:` commits on branch hooks-C03), `Cfg.pinned` the pinned tree, for which the full theorem is
false (`C03_split_stopped_counterexample`).
-/
namespace PikaVerif.C03
open PikaVerif PikaVerif.Snd

/-- **Receiver contract.**  For every pipeline `t`, every connected receiver `k` and every
    machine state: starting the operation ends with exactly one call of `k`, made as the last
    action of the adaptor code, with the denoted signal; nothing was signalled to the terminal
    receiver on the way, no operation state was touched after release, the process did not
    terminate, and all operation states that existed before are unchanged. -/
theorem C03_receiver_contract (cfg : Cfg) (hc : cfg.ok = true) (t : Term) (env : List Int) (k : Rc)
    (s : M) (ha : s.aborted = false) (hr : s.released = false) (hF : Fresh s) :
    ∃ s', start cfg t env k s = k (denote t env) s' ∧ s'.log = s.log ∧ s'.uaf = s.uaf ∧
      s'.aborted = false ∧ s'.released = false ∧
      ∀ a, a < s.next → s'.cells a = s.cells a ∧ s'.freed a = s.freed a := by
  obtain ⟨s', e, x⟩ := spec cfg hc t env k s ha hr hF
  exact ⟨s', e, x.log, x.uaf, x.aborted, x.released,
    fun a h => ⟨x.cells a h (by omega), x.freed a h⟩⟩

/-- **Exactly one, correct signal.**  Connecting any pipeline to the instrumented terminal
    receiver (which destroys the operation state inside its completion function) and starting
    it: the receiver is called exactly once, with the denoted signal; the run does not abort and
    no adaptor touches an operation state after the receiver released it. -/
theorem C03_exec_denotes (cfg : Cfg) (hc : cfg.ok = true) (t : Term) :
    run cfg t = { log := [denote t []], aborted := false, uaf := false } := by
  obtain ⟨s', e, x⟩ := spec cfg hc t [] termR M.init rfl rfl (fun _ _ => rfl)
  simp only [run, e, termR, M.outcome, x.log, x.uaf, x.aborted]
  rfl

theorem C03_exactly_one_signal (cfg : Cfg) (hc : cfg.ok = true) (t : Term) :
    (run cfg t).log.length = 1 := by
  rw [C03_exec_denotes cfg hc t]; rfl

/-- Nothing is signalled or touched after the operation state may have been destroyed. -/
theorem C03_no_touch_after_release (cfg : Cfg) (hc : cfg.ok = true) (t : Term) :
    (run cfg t).uaf = false ∧ (run cfg t).aborted = false := by
  rw [C03_exec_denotes cfg hc t]; exact ⟨rfl, rfl⟩

/-- The same for the consumers `start_detached` and `sync_wait`: what they observe is the
    denoted signal (`none` = terminates by design: detached error, sync_wait of stopped). -/
theorem C03_consumers (cfg : Cfg) (hc : cfg.ok = true) (c : Consumer) (t : Term) :
    ((run cfg t).log.head?).bind (consume c) = consume c (denote t []) := by
  rw [C03_exec_denotes cfg hc t]; rfl

/-- The repaired tree is an instance. -/
theorem C03_fixed_tree (t : Term) :
    run Cfg.fixed t = { log := [denote t []], aborted := false, uaf := false } :=
  C03_exec_denotes Cfg.fixed rfl t

/-- **The pinned (pre-fix) tree, partial.**  `Cfg.pinned` is the tree as pinned: `split` and
    `split_tuple` do not store a stopped completion.  For every pipeline that cannot complete
    with stopped anywhere (`stoppedFree`: no `stop` leaf, no scheduler completing with stopped;
    errors, throwing callables and every adaptor are allowed) the pinned tree satisfies the full
    statement: exactly one call of the terminal receiver, with the denoted signal, no abort, no
    touch after release.  (The full theorem is false for the pinned tree:
    `C03_split_stopped_counterexample`.) -/
theorem C03_exec_denotes_partial (t : Term) (h : stoppedFree t = true) :
    run Cfg.pinned t = { log := [denote t []], aborted := false, uaf := false } := by
  obtain ⟨s', e, x⟩ := specG Cfg.pinned rfl t (Or.inr h) [] termR M.init rfl rfl (fun _ _ => rfl)
  simp only [run, e, termR, M.outcome, x.log, x.uaf, x.aborted]
  rfl

/-- The receiver contract in the same generality: any code variant, any term it handles. -/
theorem C03_receiver_contract_partial (cfg : Cfg) (hw : cfg.wvSendsDone = true) (t : Term)
    (hg : cfg.ok = true ∨ stoppedFree t = true) (env : List Int) (k : Rc)
    (s : M) (ha : s.aborted = false) (hr : s.released = false) (hF : Fresh s) :
    ∃ s', start cfg t env k s = k (denote t env) s' ∧ s'.log = s.log ∧ s'.uaf = s.uaf ∧
      s'.aborted = false ∧ s'.released = false ∧
      ∀ a, a < s.next → s'.cells a = s.cells a ∧ s'.freed a = s.freed a := by
  obtain ⟨s', e, x⟩ := specG cfg hw t hg env k s ha hr hF
  exact ⟨s', e, x.log, x.uaf, x.aborted, x.released,
    fun a h => ⟨x.cells a h (by omega), x.freed a h⟩⟩

/-- **drop_operation_state.**  When `drop_operation_state(p)` calls the connected receiver, every
    operation state the predecessor pipeline `p` allocated has been destroyed (inside `p`'s own
    completion call), no adaptor of `p` has touched an operation state after its destruction
    (`uaf` unchanged), the operation states that existed before are intact, and the signal is the
    one `p` denotes. -/
theorem C03_drop_operation_state (cfg : Cfg) (hw : cfg.wvSendsDone = true) (p : Term)
    (hg : cfg.ok = true ∨ stoppedFree p = true) (env : List Int) (k : Rc)
    (s : M) (ha : s.aborted = false) (hr : s.released = false) (hF : Fresh s) :
    ∃ s', start cfg (.dos p) env k s = k (denote p env) s' ∧ s'.uaf = s.uaf ∧ s'.aborted = false ∧
      (∀ a, s.next < a → a < s'.next → s'.freed a = true) ∧ s'.freed s.next = false ∧
      (∀ a, a < s.next → s'.freed a = s.freed a ∧ s'.cells a = s.cells a) := by
  obtain ⟨s', e, x, hfr, hown⟩ := spec_dos cfg p (specG cfg hw p hg) env k s ha hr hF
  exact ⟨s', by simp [start, ha, e], x.uaf, x.aborted, hfr, hown,
    fun a h => ⟨x.freed a h, x.cells a h (by omega)⟩⟩

/-- Non-vacuity: nested drop_operation_state over when_all / split / continues_on; and the freed
    range of a run (operation states 1‥3 of `dos(wa(just, sp(just)))` are destroyed, 0 is not). -/
example : run Cfg.fixed (.dos (.thn (.add 1) (.dos (.wa (.just [1]) [.sp (.co .p (.just [2]))])))) =
    { log := [.value [2, 3]], aborted := false, uaf := false } := by decide
example : let s := start Cfg.fixed (.dos (.wa (.just [1]) [.sp (.just [2])])) [] (fun _ s => s) M.init
    (s.next, s.freed 0, s.freed 1, s.freed 2, s.uaf) = (3, false, true, true, false) := by decide

/-- a stopped-free pipeline never signals stopped -/
theorem C03_stopped_free (t : Term) (h : stoppedFree t = true) (env : List Int) :
    denote t env ≠ .stopped := denote_ns t h env

example : run Cfg.pinned (.sp (.dos (.bulk 2 (.thrOdd 5) (.co .p (.just [1, 2]))))) =
    { log := [.error 5], aborted := false, uaf := false } := by decide

/-! ### What the denotation says (the clauses of the property, as equations) -/

/-- values pass `then` through the callable; an exception becomes an error with the same code -/
theorem C03_then_value (f : Fn) (p : Term) (env vs : List Int) (h : denote p env = .value vs) :
    denote (.thn f p) env = match f.apply vs with | .ok r => .value r | .error e => .error e := by
  simp only [denote, h, applyThen]; cases f.apply vs <;> rfl

/-- upstream error / stopped pass unchanged through then, let_value, drop_value, continues_on,
    split, ensure_started, split_tuple, bulk, require_started, drop_operation_state -/
theorem C03_error_passes (f : Fn) (sc : Sch) (i n : Nat) (p b : Term) (env : List Int) (e : Int)
    (h : denote p env = .error e) :
    denote (.thn f p) env = .error e ∧ denote (.lv f p b) env = .error e ∧
    denote (.dv p) env = .error e ∧ denote (.co sc p) env = .error e ∧
    denote (.sp p) env = .error e ∧ denote (.es p) env = .error e ∧
    denote (.st i p) env = .error e ∧ denote (.bulk n f p) env = .error e ∧
    denote (.rs p) env = .error e ∧ denote (.dos p) env = .error e := by
  simp [denote, h, applyThen, applySch, applyBulk]

theorem C03_stopped_passes (f : Fn) (sc : Sch) (i n : Nat) (p b : Term) (env : List Int)
    (h : denote p env = .stopped) :
    denote (.thn f p) env = .stopped ∧ denote (.lv f p b) env = .stopped ∧
    denote (.le f p b) env = .stopped ∧
    denote (.dv p) env = .stopped ∧ denote (.co sc p) env = .stopped ∧
    denote (.sp p) env = .stopped ∧ denote (.es p) env = .stopped ∧
    denote (.st i p) env = .stopped ∧ denote (.bulk n f p) env = .stopped ∧
    denote (.rs p) env = .stopped ∧ denote (.dos p) env = .stopped := by
  simp [denote, h, applyThen, applySch, applyBulk]

/-- values pass require_started, drop_operation_state, split, ensure_started and a scheduler that
    completes with a value (inline or the pool) unchanged; `bulk(n, f)` calls `f` for
    `i = 0 … n-1` in order and delivers the values it left, or the first exception. -/
theorem C03_value_passes (n : Nat) (f : Fn) (p : Term) (env vs : List Int)
    (h : denote p env = .value vs) :
    denote (.rs p) env = .value vs ∧ denote (.dos p) env = .value vs ∧
    denote (.sp p) env = .value vs ∧ denote (.es p) env = .value vs ∧
    denote (.co .v p) env = .value vs ∧ denote (.co .p p) env = .value vs ∧
    denote (.bulk 0 f p) env = .value vs ∧
    denote (.bulk (n + 1) f p) env = (match f.apply (vs ++ [0]) with
      | .ok r => applyBulkFrom 1 n f r
      | .error e => .error e) := by
  simp only [denote, h, applySch, applyBulk, bulkRun, applyBulkFrom, true_and]
  cases f.apply (vs ++ [0]) <;> simp

/-- `when_all`: all values → the values in predecessor order. -/
theorem C03_when_all_values (vss : List (List Int)) :
    join (vss.map Sig.value) = .value vss.flatten := by
  have : ∀ acc, joinAux acc (vss.map Sig.value) = .value (acc ++ vss.flatten) := by
    induction vss with
    | nil => intro acc; simp [joinAux]
    | cons v r ih => intro acc; simp [joinAux, ih]
  simpa [join] using this []

/-! ### The pinned tree violates the property -/

/-- `split` over a predecessor that completes with stopped: the consumer visits `monostate`
    (`PIKA_UNREACHABLE`) instead of receiving `set_stopped`. -/
theorem C03_split_stopped_counterexample :
    denote (.sp .stop) [] = .stopped ∧
    run Cfg.pinned (.sp .stop) = { log := [], aborted := true, uaf := false } := by
  decide

theorem C03_split_tuple_stopped_counterexample :
    denote (.st 0 .stop) [] = .stopped ∧
    run Cfg.pinned (.st 0 .stop) = { log := [], aborted := true, uaf := false } := by
  decide

/-- `ensure_started` is correct in the pinned tree as well. -/
example : run Cfg.pinned (.es .stop) = { log := [.stopped], aborted := false, uaf := false } := by
  decide

/-! Non-vacuity: a composite pipeline and its run. -/
example : run Cfg.fixed (.wa (.just [1]) [.lv .dup (.just [2, 3]) (.wv [.arg, .just [4]]),
    .co .v (.sp (.thn .sum (.just [4, 5])))]) =
    { log := [.value [1, 2, 3, 2, 3, 4, 9]], aborted := false, uaf := false } := by decide
example : run Cfg.fixed (.wa (.just [1]) [.stop, .err 3]) =
    { log := [.stopped], aborted := false, uaf := false } := by decide
example : run Cfg.fixed (.le (.add 10) (.thn (.thr 5) (.just [1])) (.es .arg)) =
    { log := [.value [15]], aborted := false, uaf := false } := by decide

/-! ## Stage 2 — the shared state of split / split_tuple / ensure_started under concurrency

`PikaVerif.Shared.step` is an acceptor over the hook events of `set_predecessor_done` /
`add_continuation` (flag, spinlock, continuation container) for any number of threads and
consumers; the theorems hold for every accepted event log (every interleaving).  The complete
statement "every started consumer receives exactly the stored completion, once" is
`C03_split_each_consumer_once` below in comment form; what is proved are the lemmas that carry
its race argument (`_partial`), see notes/C03.md. -/

open PikaVerif.Shared in
def SReach (s : Shared.St) : Prop :=
  ∃ kind ss log, runLog Shared.step (Shared.init kind ss) log = some s

/-- The spinlock of the shared state is held by at most one thread, and never by a consumer
    while the predecessor's thread is inside its (empty) critical section. -/
theorem C03_shared_mutex (s : Shared.St) (hr : SReach s) (t u : Nat)
    (ht : Shared.cHolds (s.pc t) = true) (hu : Shared.cHolds (s.pc u) = true) :
    t = u ∧ s.pst ≠ .locked := by
  obtain ⟨kind, ss, log, hl⟩ := hr
  have hi := Shared.inv_of_accepted hl
  have h1 := hi.cLock t ht
  have h2 := hi.cLock u hu
  refine ⟨by rw [h1] at h2; exact Option.some.inj h2, fun hp => ?_⟩
  have h3 := hi.pLock hp
  have h4 := (hi.prodActive (by rw [hp]; simp) (by rw [hp]; simp))
  rw [h1] at h3
  have : s.ptid = t := (Option.some.inj h3).symm
  rw [this] at h4
  cases hpc : s.pc t <;> simp [hpc, Shared.cHolds, Shared.isProd] at ht h4

/-- `predecessor_done` is set exactly from the moment the predecessor's thread passed `sh.done`. -/
theorem C03_shared_flag (s : Shared.St) (hr : SReach s) : s.done = true ↔ 2 ≤ s.pst.rank := by
  obtain ⟨kind, ss, log, hl⟩ := hr
  exact (Shared.inv_of_accepted hl).doneIff

/-- **The race window.**  A consumer that has stored its continuation and still holds the lock
    implies that the predecessor's thread has not yet entered its critical section; hence the
    predecessor's thread finds every stored continuation when it looks (after its
    lock/unlock): no continuation is stored after that point. -/
theorem C03_shared_push_before_lock_partial (s : Shared.St) (hr : SReach s) (t k : Nat)
    (hp : s.pc t = .pushed k) : s.pst.rank ≤ 2 := by
  obtain ⟨kind, ss, log, hl⟩ := hr
  exact (Shared.inv_of_accepted hl).pushedEarly t k hp

/-- **No lost continuation.**  When the predecessor's receiver call has finished, every stored
    continuation has been run (the container is empty), and while it is still running them the
    container is not empty. -/
theorem C03_shared_no_lost_continuation_partial (s : Shared.St) (hr : SReach s) :
    (s.pst = .finished → s.conts = []) ∧ (s.pst = .running → s.conts ≠ []) := by
  obtain ⟨kind, ss, log, hl⟩ := hr
  exact ⟨(Shared.inv_of_accepted hl).finishedEmpty, (Shared.inv_of_accepted hl).runningNonempty⟩

/-- No thread is inside an operation (every invoked `start()` / completion call has returned). -/
def SQuiet (s : Shared.St) : Prop := ∀ t, s.pc t = .idle ∨ s.pc t = .fin

/-- **Each consumer exactly once** (the headline concurrent statement).  Over every accepted log
    of the shared-state protocol of split / split_tuple / ensure_started — any number of threads
    and consumers, every interleaving, predecessor completing on its own thread or inline in the
    first consumer's `start()` — in the tree that stores the stopped completion: once a
    completion `c` has been requested for the predecessor and all calls have returned, every
    consumer whose `start()` was called has received exactly one signal, and it is the stored
    completion (`sigFor`: the value / the element `k` of the tuple, the error, or stopped). -/
theorem C03_split_each_consumer_once (s : Shared.St) (hr : SReach s) (hq : SQuiet s)
    (hs : s.storesStopped = true) (c : Shared.Compl) (hc : s.sig = some c ∨ s.pending = some c) :
    ∀ k, s.phase k ≠ .unused → s.got k = 1 ∧ s.gotSig k = some (Shared.sigFor s.kind k c) := by
  obtain ⟨kind, ss, log, hl⟩ := hr
  obtain ⟨hi, hsi, hp, hci, hri⟩ := Shared.full_of_accepted hl
  intro k hk
  have hidle : ∀ t, Shared.consOf (s.pc t) = none ∧ Shared.isProd (s.pc t) = false := by
    intro t; rcases hq t with h | h <;> simp [h, Shared.consOf, Shared.isProd]
  -- the consumer is not in the middle of `start()`
  have hna : s.phase k ≠ .active := by
    intro ha
    have := hp.activeCons k ha
    rw [(hidle _).1] at this; simp at this
  -- hence `start_called` is set and the completion was signalled
  have hst : s.started = true := by
    cases h : s.started with
    | true => rfl
    | false => rcases hsi.notStartedPhase h k with h1 | h1 <;> contradiction
  have hsig : s.sig = some c := by
    rcases hc with h | h
    · exact h
    · exact hsi.pendSig c h hst
  have hv : s.v = some c := by rw [hsi.sigV c hsig, hs, Shared.stored_true]
  -- the predecessor's call has finished: the container is empty
  have hne : s.pst ≠ .none := by
    intro h; have := hsi.sigNone.mpr h; rw [hsig] at this; simp at this
  have hfin : s.pst = .finished := by
    cases hp' : s.pst with
    | finished => rfl
    | _ => exact absurd (hi.prodActive hne (by rw [hp']; simp)) (by rw [(hidle _).2]; simp)
  have hnq : s.phase k ≠ .queued := by
    intro hq'
    have := (hci.contsQ k).mpr hq'
    rw [hi.finishedEmpty hfin] at this; simp at this
  have hg : s.phase k = .got := by
    cases h : s.phase k <;> simp_all
  refine ⟨by rw [hri.gotCount k, hg]; simp, hri.gotSigV k c hg hv⟩

/-- **Never twice, never a wrong signal** — in every reachable state (no quiescence needed, both
    code variants): a consumer has received at most one signal, and a received signal is the
    stored completion. -/
theorem C03_split_at_most_once (s : Shared.St) (hr : SReach s) (k : Nat) :
    s.got k ≤ 1 ∧ (s.got k = 1 → ∃ c, s.v = some c ∧ s.sig = some c ∧
      s.gotSig k = some (Shared.sigFor s.kind k c)) := by
  obtain ⟨kind, ss, log, hl⟩ := hr
  obtain ⟨hi, hsi, hp, hci, hri⟩ := Shared.full_of_accepted hl
  have hgc := hri.gotCount k
  refine ⟨by rw [hgc]; split <;> simp, ?_⟩
  intro h1
  have hg : s.phase k = .got := by
    cases h : s.phase k <;> simp [h] at hgc <;> first | rfl | (rw [hgc] at h1; simp at h1)
  have hd := hri.gotLate k hg
  have hne : s.pst ≠ .none := by
    intro h; have := hi.doneIff.mp hd; rw [h] at this; simp [Shared.PStage.rank] at this
  cases hsig : s.sig with
  | none => exact absurd (hsi.sigNone.mp hsig) hne
  | some c =>
    have hv := hsi.sigV c hsig
    cases hvv : s.v with
    | some c' =>
      have : c' = c := by
        rw [hvv] at hv; simp only [Shared.stored] at hv; split at hv <;> simp at hv; exact hv
      subst this
      exact ⟨c', rfl, rfl, hri.gotSigV k c' hg hvv⟩
    | none =>
      -- nothing stored (pinned tree, stopped): nobody can have received a signal
      exact absurd hvv (hri.gotV k hg)

/-- In the tree that stores the stopped completion the protocol never reaches `PIKA_UNREACHABLE`. -/
theorem C03_split_no_abort (s : Shared.St) (hr : SReach s) (hs : s.storesStopped = true) :
    s.aborted = false := by
  obtain ⟨kind, ss, log, hl⟩ := hr
  exact (Shared.full_of_accepted hl).sinv.noAbort hs

/-- A stuck state: no step of the adaptor code is possible, only the invocation of a new operation
    (`invComplete`, `invConsume`) or the retirement of a thread. -/
def SStuck (s : Shared.St) : Prop := ∀ e, Shared.Ev.isCall e = false → Shared.step s e = none

/-- **Progress / no lost wake-up.**  A reachable state that has not aborted and in which the code
    cannot take a step is quiescent: no consumer's `start()` and no completion call hangs inside
    the protocol (a thread waiting for the spinlock always waits for a holder that can move). -/
theorem C03_split_progress (s : Shared.St) (hr : SReach s) (ha : s.aborted = false)
    (hst : SStuck s) : SQuiet s := by
  obtain ⟨kind, ss, log, hl⟩ := hr
  intro t
  cases Classical.em (s.pc t = .idle ∨ s.pc t = .fin) with
  | inl h => exact h
  | inr h =>
    obtain ⟨e, he, hm⟩ := Shared.progress s (Shared.full2_of_accepted hl) ha t h
    rw [hst e he] at hm; simp at hm

/-- The headline statement at a stuck state. -/
theorem C03_split_stuck_all_served (s : Shared.St) (hr : SReach s) (hst : SStuck s)
    (hs : s.storesStopped = true) (c : Shared.Compl) (hc : s.sig = some c ∨ s.pending = some c) :
    ∀ k, s.phase k ≠ .unused → s.got k = 1 ∧ s.gotSig k = some (Shared.sigFor s.kind k c) :=
  C03_split_each_consumer_once s hr
    (C03_split_progress s hr (C03_split_no_abort s hr hs) hst) hs c hc

/-- One consumer stores its continuation, then the predecessor completes with stopped: in the
    pinned tree the predecessor's thread aborts while running the continuation, the consumer
    never receives a signal. -/
def splitStoppedLog : List Shared.Ev :=
  [.invConsume 1 0, .seen1 1 false, .slAcq 1, .seen2 1 false, .slRel 1, .ret 1,
   .invComplete 0 ⟨1, 0⟩, .fire 0 ⟨1, 0⟩, .flag 0 0, .slAcq 0, .slRel 0, .run 0 1, .abort 0]

theorem C03_shared_stopped_counterexample :
    (runLog Shared.step (Shared.init .split false) splitStoppedLog).map
      (fun s => (s.aborted, s.got 0)) = some (true, 0) := by decide

/-- The repaired tree on the same schedule: the consumer receives `stopped`, once. -/
example : (runLog Shared.step (Shared.init .split true)
    [.invConsume 1 0, .seen1 1 false, .slAcq 1, .seen2 1 false, .slRel 1, .ret 1,
     .invComplete 0 ⟨1, 0⟩, .fire 0 ⟨1, 0⟩, .flag 0 1, .slAcq 0, .slRel 0, .run 0 1,
     .rcv 0 0 .stopped, .ret 0, .tdone 0, .tdone 1]).map
      (fun s => (s.aborted, s.got 0, s.gotSig 0, s.pst)) =
    some (false, 1, some .stopped, .finished) := by decide

/-! ## Stage 2b — `when_all`'s counter and latch under concurrent predecessor completions

`PikaVerif.WhenAll.step` is an acceptor over the hook events of `when_all_receiver::set_*` and
`operation_state::finish` (latch access, value store, counter decrement, zero observed, delivery)
for `n` predecessors completing on any threads, or inline in the start loop.  History fields
(`compl`, `stage`, `first`) record what each predecessor sent, how far its receiver call got, and
the first non-value completion to reach the latch. -/

def WReach (s : WhenAll.St) : Prop := ∃ n log, runLog WhenAll.step (WhenAll.init n) log = some s

def WQuiet (s : WhenAll.St) : Prop := ∀ t, s.pc t = .idle ∨ s.pc t = .fin

/-- **At most once, and only by the last finishing predecessor.**  In every reachable state the
    connected receiver has been signalled at most once; if it has, the counter is zero, every
    predecessor's receiver call has passed its decrement, and the signal is the one determined by
    the history (`decisionG`). -/
theorem C03_when_all_at_most_once (s : WhenAll.St) (hr : WReach s) :
    s.delivered ≤ 1 ∧ (s.delivered = 1 → s.remaining = 0 ∧ (∀ i, i < s.n → s.stage i = 3) ∧
      s.result = some (WhenAll.decisionG s)) := by
  obtain ⟨n, log, hl⟩ := hr
  have hi := WhenAll.winv_of_accepted hl
  refine ⟨by rcases hi.w2.delOnce with h | ⟨h, _⟩ <;> omega, fun hd => ?_⟩
  rcases hi.w2.delOnce with h | ⟨_, hz⟩
  · omega
  · exact ⟨hz, WhenAll.all_decremented s hi.cnt hz, hi.w4 hd⟩

/-- **Exactly once.**  When every predecessor has completed and all calls have returned, the
    connected receiver has been signalled exactly once, with the history's decision. -/
theorem C03_when_all_exactly_once (s : WhenAll.St) (hr : WReach s) (hq : WQuiet s) (hn : 0 < s.n)
    (hall : ∀ i, i < s.n → s.firedI i = true) :
    s.delivered = 1 ∧ s.result = some (WhenAll.decisionG s) := by
  obtain ⟨n, log, hl⟩ := hr
  have hi := WhenAll.winv_of_accepted hl
  have hidle : ∀ t, WhenAll.curOf (s.pc t) = none ∧ WhenAll.isLast (s.pc t) = false := by
    intro t; rcases hq t with h | h <;> simp [h, WhenAll.curOf, WhenAll.isLast]
  have hst : ∀ i, i < s.n → s.stage i = 3 := by
    intro i hlt
    have h0 := (hi.w1.firedStage i).mp (hall i hlt)
    have h3 := hi.w1.stageLe i
    have h12 : ¬ (s.stage i = 1 ∨ s.stage i = 2) := by
      intro h; have := hi.w1.stageCur i h; rw [(hidle _).1] at this; simp at this
    omega
  have hsum : PikaVerif.sumTo s.n (fun i => WhenAll.w3 (s.stage i)) = s.n :=
    WhenAll.sumTo_all_one (fun i hlt => by simp [WhenAll.w3, hst i hlt])
  have hz : s.remaining = 0 := by have := hi.cnt; unfold WhenAll.Cnt at this; omega
  have hd : s.delivered = 1 := by
    rcases hi.w2.zeroDone hz hn with h | h
    · exact h
    · rw [(hidle _).2] at h; simp at h
  exact ⟨hd, hi.w4 hd⟩

/-- **The decision.**  Once every predecessor's receiver call has passed the counter: the
    decision is a value iff all predecessors sent values (and then it carries their values in
    predecessor order, `enc (vals s)`); otherwise it is stopped or the error of the predecessor
    whose non-value completion reached the latch first — a completion that was really sent. -/
theorem C03_when_all_decision (s : WhenAll.St) (hr : WReach s) (hz : s.remaining = 0) :
    ((WhenAll.decisionG s).1 = 0 ↔ ∀ i, i < s.n → ∃ a, s.compl i = some (0, a)) ∧
    (s.first = none → WhenAll.decisionG s = (0, WhenAll.enc (WhenAll.vals s) s.n)) ∧
    (∀ i ch e, s.first = some (i, ch, e) → i < s.n ∧ s.compl i = some (ch, e) ∧ ch ≠ 0 ∧
      WhenAll.decisionG s = if ch = 1 then (1, 0) else (2, e)) := by
  obtain ⟨n, log, hl⟩ := hr
  have hi := WhenAll.winv_of_accepted hl
  have hst := WhenAll.all_decremented s hi.cnt hz
  refine ⟨⟨?_, ?_⟩, ?_, ?_⟩
  · intro hd i hlt
    have hf : s.first = none := by
      cases hf : s.first with
      | none => rfl
      | some p =>
        obtain ⟨j, ch, e⟩ := p
        simp only [WhenAll.decisionG, hf] at hd
        split at hd <;> simp at hd
    have hne := hi.w1.stageCompl i (by rw [hst i hlt]; simp)
    cases hc : s.compl i with
    | none => exact absurd hc hne
    | some p =>
      obtain ⟨ch, a⟩ := p
      have := (hi.w3.valuesStored hf i ch a (by rw [hst i hlt]; simp) hc).1
      exact ⟨a, by rw [this]⟩
  · intro hv
    cases hf : s.first with
    | none => simp [WhenAll.decisionG, hf]
    | some p =>
      obtain ⟨j, ch, e⟩ := p
      have := hi.w3.firstCompl j ch e hf
      obtain ⟨a, ha⟩ := hv j this.2.2.2
      rw [ha] at this
      simp at this
      exact absurd this.1.1.symm this.2.1
  · intro hf; simp [WhenAll.decisionG, hf]
  · intro i ch e hf
    have := hi.w3.firstCompl i ch e hf
    exact ⟨this.2.2.2, this.1, this.2.1, by simp [WhenAll.decisionG, hf]⟩

/-- Non-vacuity: three predecessors, the stopped one reaches the latch before the failing one,
    the value one finishes last and delivers stopped. -/
example : (runLog WhenAll.step (WhenAll.init 3)
    [.invStart 0, .ret 0, .invComplete 1 0 0 7, .fire 1 0 0 7, .invComplete 2 1 2 5, .fire 2 1 2 5,
     .invComplete 3 2 1 0, .fire 3 2 1 0, .sig 3 1, .sig 2 2, .dec 2, .ret 2, .dec 3, .ret 3,
     .sig 1 0, .dec 1, .zero 1 true false, .rcv 1 1 0, .ret 1]).map
      (fun s => (s.delivered, s.result, s.first)) = some (1, some (1, 0), some (2, 1, 0)) := by
  decide

end PikaVerif.C03
