import PikaVerif.Lemmas.BulkC
import PikaVerif.Props.C11Proto
/-!
# C11 — bulk calls `f` once per index, then completes once: the composition (follow-up C11c)

Theorems about the composed model `PikaVerif.BulkC` (`Model/BulkC.lean`): `set_value` computes the
chunk size and the per-worker queue ranges with the **generated** arithmetic
(`Gen/BulkArith.lean`, regenerated from `thread_pool_scheduler_bulk.hpp` on every run), the
workers pop / steal chunks through load / compare-exchange steps whose per-iteration computation
is the **generated** `popLeftTry` / `popRightTry` (`Gen/IndexRange.lean`), `do_work_chunk` runs
the index loop over the **generated** `chunkRange`, the join counter and the exception latch of
the protocol model `PikaVerif.Bulk` decide the completion.  The value pack and the exceptions are
opaque tokens.

Every theorem quantifies over all accepted logs from `init S w n L v` — every interleaving of
the workers' loads, compare-exchanges, calls, returns, throws and decrements, every number of
workers `w`, every local worker `L < w`, every shape `n` and shape type `S` under the explicit
no-wrap guard `Safe S w n` (`Props/C11.lean`; outside it the property is false of the pinned
tree, `C11_unsafe_*`), every set of throwing calls.
-/
namespace PikaVerif.C11c
open PikaVerif PikaVerif.BulkC PikaVerif.Gen.BulkArith PikaVerif.BulkPlan
open PikaVerif.BulkArith PikaVerif.Partition PikaVerif.C11

/-- `s` is reachable: `bulk(sender, n, f)` with shape type `S` on a pool of `w` workers, the
    predecessor completing with value pack `v` on worker `L`, under the no-wrap guard. -/
def Reachable (S : CTy) (w n L : Nat) (v : Int) (s : St) : Prop :=
  Safe S w n ∧ L < w ∧ ∃ log, runLog step (init S w n L v) log = some s

/-- **Every index at most once.**  In every reachable state `f` has been called at most once
    with index `i`, for every integer `i`. -/
theorem C11c_at_most_once (S : CTy) (w n L : Nat) (v : Int) (s : St)
    (h : Reachable S w n L v s) (i : Int) : ncalls s i ≤ 1 := by
  obtain ⟨hs, hL, log, hl⟩ := h
  rcases full_of_accepted hs hL hl with ⟨_, _, _, e1, _⟩ | ⟨_, _, e1, _⟩ | ⟨_, _, hi⟩
  · simp [ncalls, e1]
  · simp [ncalls, e1]
  · by_cases hin : 0 ≤ i ∧ i < s.n
    · have A := (hi.acct i.toNat (by omega)).1
      have P := popped_le_one s.p hi.pq (i.toNat / s.c)
      have : ((i.toNat : Nat) : Int) = i := by omega
      rw [this] at A
      omega
    · have := ncalls_eq_zero_of_outside s i (fun e he => ⟨(hi.callsB e he).1, (hi.callsB e he).2.1⟩)
        (by omega)
      omega

/-- **No other index.**  `f` is never called with an index outside `[0, n)`. -/
theorem C11c_no_index_outside (S : CTy) (w n L : Nat) (v : Int) (s : St)
    (h : Reachable S w n L v s) (i : Int) (ho : i < 0 ∨ (n : Int) ≤ i) : ncalls s i = 0 := by
  obtain ⟨hs, hL, log, hl⟩ := h
  obtain ⟨_, _, en, _⟩ := params_of_accepted hl
  rcases full_of_accepted hs hL hl with ⟨_, _, _, e1, _⟩ | ⟨_, _, e1, _⟩ | ⟨_, _, hi⟩
  · simp [ncalls, e1]
  · simp [ncalls, e1]
  · exact ncalls_eq_zero_of_outside s i (fun e he => ⟨(hi.callsB e he).1, (hi.callsB e he).2.1⟩)
      (by rw [en]; exact ho)

/-- **The predecessor's values reach every call unchanged.**  Every call of `f` was made with
    the value pack `v` the predecessor sent. -/
theorem C11c_calls_get_predecessor_values (S : CTy) (w n L : Nat) (v : Int) (s : St)
    (h : Reachable S w n L v s) (e : Int × Int) (he : e ∈ s.calls) : e.2 = v := by
  obtain ⟨hs, hL, log, hl⟩ := h
  obtain ⟨_, _, _, ev⟩ := params_of_accepted hl
  rcases full_of_accepted hs hL hl with ⟨_, _, _, e1, _⟩ | ⟨_, _, e1, _⟩ | ⟨_, _, hi⟩
  · rw [e1] at he; simp at he
  · rw [e1] at he; simp at he
  · rw [← ev]; exact (hi.callsB e he).2.2

/-- **Exactly one completion.**  The receiver is completed at most once (value or error). -/
theorem C11c_complete_at_most_once (S : CTy) (w n L : Nat) (v : Int) (s : St)
    (h : Reachable S w n L v s) : s.done.length ≤ 1 := by
  obtain ⟨hs, hL, log, hl⟩ := h
  rcases full_of_accepted hs hL hl with ⟨_, _, _, _, _, e3, _⟩ | ⟨_, _, _, _, _, e3⟩ | ⟨_, _, hi⟩
  · simp [e3]
  · rcases e3 with e3 | e3 <;> simp [e3]
  · rw [hi.doneLen]; exact hi.pinv.sig1

/-- **Completion with a value ⇒ every index exactly once, after the last call returned, with
    the predecessor's values.**  If the receiver got `set_value(t)` then `t` is the
    predecessor's value pack, `f` has been called exactly once for every `i < n`, no worker is
    inside the index loop or inside a call (every participant has decremented the join counter),
    and no call threw. -/
theorem C11c_value_implies_all_once (S : CTy) (w n L : Nat) (v : Int) (s : St)
    (h : Reachable S w n L v s) (t : Int) (hd : (false, t) ∈ s.done) :
    t = v ∧ (∀ i : Nat, i < n → ncalls s (i : Int) = 1) ∧ (∀ k, s.lp k = .out) ∧ s.thrown = [] := by
  obtain ⟨hs, hL, log, hl⟩ := h
  obtain ⟨_, _, en, ev⟩ := params_of_accepted hl
  rcases full_of_accepted hs hL hl with ⟨_, _, _, _, _, e3, _⟩ | ⟨_, hn, _, e2, e5, e3⟩ | ⟨_, _, hi⟩
  · rw [e3] at hd; simp at hd
  · rcases e3 with e3 | e3
    · rw [e3] at hd; simp at hd
    · rw [e3] at hd
      simp only [List.mem_singleton, Prod.mk.injEq, true_and] at hd
      refine ⟨by rw [hd, ev], ?_, e5, e2⟩
      intro i hi; omega
  · obtain ⟨htv, ho⟩ := hi.doneV t hd
    have hout := lp_out_of_outcome s hi false ho
    obtain ⟨h0, hex⟩ := hi.pinv.outc false ho
    have hthr : s.thrown = [] := by
      have c := hi.thrCnt
      have z : sumTo s.w (fun u => isThrew (s.lp u)) = 0 :=
        sumTo_eq_zero (fun u _ => by rw [hout u]; rfl)
      have t0 : s.p.threw = 0 := by
        have := hi.pinv.thr
        rw [← hex] at this
        cases ht : s.p.threw with
        | zero => rfl
        | succ m => have := this.2 (by omega); simp at this
      rw [z, t0] at c
      exact List.eq_nil_of_length_eq_zero c
    refine ⟨by rw [htv, ev], ?_, hout, hthr⟩
    intro i hin
    rw [← en] at hin
    have A := (hi.acct i hin).2 hthr
    have z : sumTo s.w (fun u => pend s.c i (s.lp u)) = 0 :=
      sumTo_eq_zero (fun u _ => by rw [hout u]; rfl)
    have hc1 : 1 ≤ s.c := hi.safe.2.1
    have hw1 : 1 ≤ s.w := hi.safe.2.2.2.1
    have P := popped_eq_one_of_value s.p hi.pinv hi.pq ho (i / s.c)
      (by rw [hi.pa 0 (by omega), part_zero]; exact Nat.zero_le _)
      (by rw [hi.pw, hi.pa s.w (by omega), part_last _ _ (by omega)]
          exact div_lt_nchunks s.c s.n i hc1 hin)
    omega

/-- **A throwing call ⇒ no value.**  Once some call of `f` has thrown the receiver never gets
    a value: every completion is an error. -/
theorem C11c_throw_implies_no_value (S : CTy) (w n L : Nat) (v : Int) (s : St)
    (h : Reachable S w n L v s) (ht : s.thrown ≠ []) (e : Bool × Int) (he : e ∈ s.done) :
    e.1 = true := by
  cases hb : e.1 with
  | true => rfl
  | false =>
    have : e = (false, e.2) := by rw [← hb]
    rw [this] at he
    exact absurd (C11c_value_implies_all_once S w n L v s h e.2 he).2.2.2 ht

/-- **The error is one of the thrown exceptions, delivered after the last call.**  If the
    receiver got `set_error(x)` then `x` is the exception of a call that threw, and no worker is
    inside the index loop or inside a call any more. -/
theorem C11c_error_is_thrown (S : CTy) (w n L : Nat) (v : Int) (s : St)
    (h : Reachable S w n L v s) (x : Int) (hd : (true, x) ∈ s.done) :
    x ∈ s.thrown ∧ ∀ k, s.lp k = .out := by
  obtain ⟨hs, hL, log, hl⟩ := h
  rcases full_of_accepted hs hL hl with ⟨_, _, _, _, _, e3, _⟩ | ⟨_, _, _, _, _, e3⟩ | ⟨_, _, hi⟩
  · rw [e3] at hd; simp at hd
  · rcases e3 with e3 | e3 <;> rw [e3] at hd <;> simp at hd
  · obtain ⟨hx, ho⟩ := hi.doneE x hd
    exact ⟨hx, lp_out_of_outcome s hi true ho⟩

/-- **`n == 0` completes immediately with the values.**  With shape 0 the only first event is
    the fast path, the completion with the predecessor's value pack is enabled right after it,
    and in every reachable state `f` has not been called and the receiver has at most that one
    value. -/
theorem C11c_zero_completes_immediately (S : CTy) (w L : Nat) (v : Int) :
    (∀ e s', step (init S w 0 L v) e = some s' → e = .zero) ∧
    (∃ s, runLog step (init S w 0 L v) [.zero, .sig false v] = some s ∧ s.done = [(false, v)] ∧
      s.calls = []) ∧
    (∀ s, Reachable S w 0 L v s → s.calls = [] ∧ (s.done = [] ∨ s.done = [(false, v)])) := by
  refine ⟨?_, ?_, ?_⟩
  · intro e s' h
    cases e <;> simp [step, init] at h ⊢
  · exact ⟨{ (init S w 0 L v) with ph := 2, done := [(false, v)] }, by simp [runLog, step, init], rfl, rfl⟩
  · intro s ⟨hs, hL, log, hl⟩
    obtain ⟨_, _, en, ev⟩ := params_of_accepted hl
    rcases full_of_accepted hs hL hl with ⟨_, _, _, e1, _, e3, _⟩ | ⟨_, _, e1, _, _, e3⟩ | ⟨_, hn, _⟩
    · exact ⟨e1, Or.inl e3⟩
    · rw [ev] at e3; exact ⟨e1, e3⟩
    · exact absurd en hn

/-- **The queues are initialised from the regenerated arithmetic.**  Under `Safe`, for `n ≠ 0`
    the model accepts `set_value`'s plan with the chunk size the generated `get_chunk_size`
    returns (which satisfies `SafeC`), and worker `k`'s queue then holds exactly the generated
    `queueRange S w n c k`. -/
theorem C11c_plan_from_generated (S : CTy) (w n L : Nat) (v : Int) (hs : Safe S w n) (hn : n ≠ 0) :
    ∃ (c : Nat) (s' : St), chunkSizeOf S fuel w n = some (c : Int) ∧ SafeC S w n c ∧
      step (init S w n L v) (.plan c) = some s' ∧
      ∀ k, k < w → word (s'.p.qs k) = queueRange S w n c k := by
  obtain ⟨c, hc, hsafe⟩ := C11_chunk_size_safe S w n hs
  have hp := planOK_of_safeC S w n c hsafe
  let s1 : St := { (init S w n L v) with ph := 1, c := c, ts := some v, p := Bulk.init w L (cutsOf S w n c) }
  refine ⟨c, s1, hc, hsafe, ?_, ?_⟩
  · show step (init S w n L v) (.plan c) = some s1
    simp only [step]
    rw [if_pos ⟨rfl, hn, hc, hp⟩]
    rfl
  · intro k hk
    show word ((Bulk.init w L (cutsOf S w n c)).qs k) = _
    simp only [Bulk.init, word]
    rw [cutsOf_ideal S w n c hsafe k (by omega), cutsOf_ideal S w n c hsafe (k + 1) (by omega),
      C11_queue_ranges S w n c k hsafe hk]

/-- **Refinement (the stack is a theorem, not prose).**  While the workers run, the protocol
    component `p` of the composed state is a reachable state of the protocol model
    `PikaVerif.Bulk` started on the cut points of the *generated* queue ranges (which are
    monotone): every theorem of `Props/C11Proto.lean` applies to it. -/
theorem C11c_refines_protocol (S : CTy) (w n L : Nat) (v : Int) (s : St)
    (h : Reachable S w n L v s) (hp : s.ph = 1) :
    C11Proto.Reachable w L (cutsOf S w n s.c) s.p := by
  obtain ⟨hs, hL, log, hl⟩ := h
  obtain ⟨eS, ew, en, _⟩ := params_of_accepted hl
  have eL := L_of_accepted hl
  obtain ⟨plog, hpl⟩ := protoReach_of_accepted hl hp
  rw [eS, ew, en, eL] at hpl
  refine ⟨hL, ?_, plog, hpl⟩
  rcases full_of_accepted hs hL hl with ⟨h0, _⟩ | ⟨h2, _⟩ | ⟨_, _, hi⟩
  · omega
  · omega
  · intro k hk
    have hsafe := hi.safe
    rw [eS, ew, en] at hsafe
    rw [cutsOf_ideal S w n s.c hsafe k (by omega), cutsOf_ideal S w n s.c hsafe (k + 1) (by omega)]
    exact part_mono _ _ k

/-- **The decision uses the flag as it is after the last decrement.**  The model accepts
    `finish()` taking the `set_error` / `set_value` branch (`bulk.decide`, logged in the branch
    actually taken) only when every participant has decremented and is outside the index loop,
    and only with `err = true` exactly when some call threw: a decision made from a value of
    `exception_thrown` read *before* the decrement — while a call that throws later is still
    running — is rejected, and so is a `set_value` after a throw. -/
theorem C11c_decision_after_last_decrement (S : CTy) (w n L : Nat) (v : Int) (s s' : St)
    (h : Reachable S w n L v s) (k : Nat) (err : Bool) (hd : step s (.decide k err) = some s') :
    s.p.remaining = 0 ∧ (∀ u, s.lp u = .out) ∧ (err = true ↔ s.thrown ≠ []) := by
  obtain ⟨hs, hL, log, hl⟩ := h
  simp only [step] at hd
  split at hd
  next hg =>
    obtain ⟨hph, _, _, ho, _⟩ := hg
    rcases full_of_accepted hs hL hl with ⟨h0, _⟩ | ⟨h2, _⟩ | ⟨_, _, hi⟩
    · omega
    · omega
    · obtain ⟨h0, hex⟩ := hi.pinv.outc err ho
      have hout := lp_out_of_outcome s hi err ho
      refine ⟨h0, hout, ?_⟩
      have c := hi.thrCnt
      have z : sumTo s.w (fun u => isThrew (s.lp u)) = 0 :=
        sumTo_eq_zero (fun u _ => by rw [hout u]; rfl)
      rw [z, Nat.add_zero] at c
      have t := hi.pinv.thr
      rw [hex, t, ← c]
      cases s.thrown <;> simp
  next => simp at hd

/-! ## Non-vacuity -/

/-- `bulk<int>(3)` on 2 workers, predecessor on worker 1, value pack 7: chunk size 1, queues
    `[0,1)` and `[1,3)`; worker 0 runs chunk 0 and steals chunk 2 from the right end of worker
    1's queue, worker 1 runs chunk 1; value completion after the last decrement. -/
def exampleLog : List Ev :=
  [.plan 1, .spawn 0, .task 1, .task 0, .load 0 0 0 1, .cas 0 0 true 1 1, .chunk 0 0, .call 0 0 7,
   .load 1 1 1 3, .cas 1 1 true 2 3, .ret 0, .chunk 1 1, .call 1 1 7, .ret 1, .load 0 0 1 1,
   .load 0 1 2 3, .cas 0 1 true 2 2, .chunk 0 2, .call 0 2 7, .ret 0, .load 1 1 2 2, .load 1 0 1 1,
   .dec 1 false, .load 0 1 2 2, .dec 0 true, .decide 0 false, .sig false 7]

example : (runLog step (init CTy.i32 2 3 1 7) exampleLog).map (fun s => (s.done, s.calls)) =
    some ([(false, 7)], [(2, 7), (1, 7), (0, 7)]) := by decide +kernel

/-- the calls with index 0 and 2 throw; the first exception wins the `exchange`, the second
    participant decrements without storing: one error (the exception of index 0), no value -/
def exampleThrowLog : List Ev :=
  [.plan 1, .spawn 0, .task 1, .task 0, .load 0 0 0 1, .cas 0 0 true 1 1, .chunk 0 0, .call 0 0 7,
   .throw 0, .load 1 1 1 3, .exc 0, .cas 1 1 true 2 3, .dec 0 false, .chunk 1 1, .call 1 1 7, .ret 1,
   .load 1 1 2 3, .cas 1 1 true 3 3, .chunk 1 2, .call 1 2 7, .throw 1, .dec 1 true, .decide 1 true, .sig true 0]

example : (runLog step (init CTy.i32 2 3 1 7) exampleThrowLog).map (fun s => (s.done, s.thrown)) =
    some ([(true, 0)], [2, 0]) := by decide +kernel

/-- the stale decision (worker 1 read `exception_thrown = false` before its decrement, worker 0's
    call threw meanwhile) is rejected: after the last decrement only `decide _ true` is accepted -/
example : (runLog step (init CTy.i32 2 3 1 7)
    [.plan 1, .spawn 0, .task 1, .task 0, .load 0 0 0 1, .cas 0 0 true 1 1, .chunk 0 0, .load 1 1 1 3,
     .cas 1 1 true 2 3, .chunk 1 1, .call 1 1 7, .ret 1, .load 1 1 2 3, .cas 1 1 true 3 3, .chunk 1 2,
     .call 1 2 7, .ret 1, .load 1 1 3 3, .load 1 0 1 1, .call 0 0 7, .throw 0, .exc 0, .dec 0 false,
     .dec 1 true, .decide 1 false]) = none ∧
    (runLog step (init CTy.i32 2 3 1 7)
    [.plan 1, .spawn 0, .task 1, .task 0, .load 0 0 0 1, .cas 0 0 true 1 1, .chunk 0 0, .load 1 1 1 3,
     .cas 1 1 true 2 3, .chunk 1 1, .call 1 1 7, .ret 1, .load 1 1 2 3, .cas 1 1 true 3 3, .chunk 1 2,
     .call 1 2 7, .ret 1, .load 1 1 3 3, .load 1 0 1 1, .call 0 0 7, .throw 0, .exc 0, .dec 0 false,
     .dec 1 true, .decide 1 true, .sig true 0]).isSome = true := by decide +kernel

/-- a failed compare-exchange (the word changed between load and CAS) retries on the observed word -/
example : (runLog step (init CTy.i32 2 3 0 7)
    [.plan 1, .spawn 1, .task 0, .task 1, .load 1 1 1 3, .load 0 0 0 1, .cas 0 0 true 1 1, .chunk 0 0,
     .call 0 0 7, .ret 0, .load 0 0 1 1, .load 0 1 1 3, .cas 1 1 true 2 3, .cas 0 1 false 2 3,
     .cas 0 1 true 2 2]).isSome = true := by decide +kernel

end PikaVerif.C11c
