import PikaVerif.Lemmas.BulkCLive
import PikaVerif.Props.C11c
/-!
# C11 — progress of the composed bulk model: no stuck state, termination, exactly one completion (follow-up C11p)

`Props/C11c.lean` proves *at most one* completion, *value ⇒ everything done*, *throw ⇒ only an
error*.  This file closes the gap "a completion eventually happens":

1. **No stuck state** (`C11p_no_stuck_state`, `C11p_who_can_move`): in every reachable state of
   the composed model `BulkC` in which the receiver has not been completed, some non-stutter event
   is enabled — and which participant can move is stated.
2. **Termination** (`C11p_measure_decreases`, `C11p_run_length_bound`, `C11p_no_infinite_run`):
   the natural number `BulkC.mu` decreases with every accepted event except the stutter event
   `decide`; an accepted log has at most `bound n w = (w + 4)·n + w·(3w + 10) + 3` non-stutter
   events; an infinite accepted sequence of events consists of `decide` stutters from some point on.
3. **Exactly one completion** (`C11p_maximal_run_completes_exactly_once`,
   `C11p_completion_reachable`): a reachable state without an enabled non-stutter event has
   exactly one completion — `set_value` with the predecessor's values after every index was
   called once if no call threw, otherwise `set_error` with one of the thrown exceptions.
4. `n = 0` (`C11p_zero_immediate`): the only accepted logs are the prefixes of
   `[zero, sig false v]`.

**Stutter.**  The only event of `BulkC` that leaves the state unchanged is `decide k err` (the
hook in the branch `finish()` takes after the last decrement; the code executes it once, the model
accepts it any number of times between the last decrement and the completion) — termination is
stated modulo this stutter (`BulkC.isStutter`).  A *failed compare-exchange is not a stutter*: the
model accepts `cas … false` only if the word differs from the one the worker loaded (CAS without
spurious failure, as in `Props/C17Index.lean`), i.e. only after another worker's successful pop
on the same queue; it leaves the worker with the current word.  In the measure every successful pop
pays `w` units for the at most `w` loaded words it makes stale.  (With spurious failures of
`compare_exchange_weak` the retry loop terminates only under a fairness assumption on the
hardware; that is outside the model.)
-/
namespace PikaVerif.C11Progress
open PikaVerif PikaVerif.BulkC PikaVerif.Gen.BulkArith PikaVerif.BulkPlan
open PikaVerif.BulkArith PikaVerif.Partition PikaVerif.C11 PikaVerif.C11c

/-- **Who can move.**  In every reachable state in which the receiver has not been completed:
    before `set_value` the thread running `set_value` can take the `shape == 0` path (`n = 0`) or
    plan the chunks; on the `shape == 0` path the completion is enabled; while the workers run,
    (a) the outcome is decided (every participant has decremented) and the completion with that
    outcome is enabled, or (b) the spawner loop of `set_value` can spawn / skip its next worker,
    or (c) the spawner loop is finished and the local worker can start its task, or (d) some
    worker `k < w` that has not yet decremented the join counter has an enabled non-stutter
    event of its own (`BulkC.en_worker`: enter the popped chunk, next call, return, store / drop
    the exception, load, successful or failed compare-exchange, `nullopt`; `BulkC.en_fin`: the
    decrement). -/
theorem C11p_who_can_move (S : CTy) (w n L : Nat) (v : Int) (s : St)
    (h : Reachable S w n L v s) (hd : s.done = []) :
    (s.ph = 0 ∧ ((s.n = 0 ∧ En s .zero) ∨ (s.n ≠ 0 ∧ ∃ c, En s (.plan c)))) ∨
    (s.ph = 2 ∧ En s (.sig false s.v)) ∨
    (s.ph = 1 ∧
      ((∃ err tok, s.p.outcome = some err ∧ En s (.sig err tok)) ∨
       (Bulk.cur s.p < s.w ∧ (En s (.spawn (Bulk.cur s.p)) ∨ En s (.skip (Bulk.cur s.p)))) ∨
       (s.w ≤ Bulk.cur s.p ∧ En s (.task s.p.L)) ∨
       (∃ k e, k < s.w ∧ s.p.pc k ≠ .decd ∧ evActor e = some k ∧ isStutter e = false ∧ En s e))) := by
  obtain ⟨hs, hL, log, hl⟩ := h
  rcases full_of_accepted hs hL hl with ⟨hph, hsafe, _, _⟩ | ⟨hph, _, _⟩ | ⟨hph, _, hi⟩
  · refine Or.inl ⟨hph, ?_⟩
    by_cases hn : s.n = 0
    · exact Or.inl ⟨hn, _, by simp only [step]; rw [if_pos ⟨hph, hn⟩]⟩
    · obtain ⟨c, hc, hsafeC⟩ := C11_chunk_size_safe s.S s.w s.n hsafe
      have hp := planOK_of_safeC s.S s.w s.n c hsafeC
      exact Or.inr ⟨hn, c, _, by simp only [step]; rw [if_pos ⟨hph, hn, hc, hp⟩]⟩
  · refine Or.inr (Or.inl ⟨hph, ?_⟩)
    unfold En
    simp only [step]
    rw [if_neg (by omega), if_pos ⟨hph, trivial, trivial, hd⟩]
    exact ⟨_, rfl⟩
  · exact Or.inr (Or.inr ⟨hph, running_progress s hi hph ((pinv_of_accepted hl).2 hph)
      (spInv_of_accepted hl hph) hd⟩)

/-- **No stuck state.**  In every reachable state in which the receiver has not been completed
    some event other than the stutter `decide` is enabled. -/
theorem C11p_no_stuck_state (S : CTy) (w n L : Nat) (v : Int) (s : St)
    (h : Reachable S w n L v s) (hd : s.done = []) :
    ∃ e s', isStutter e = false ∧ step s e = some s' := by
  rcases C11p_who_can_move S w n L v s h hd with
    ⟨_, (⟨_, s', h1⟩ | ⟨_, c, s', h1⟩)⟩ | ⟨_, s', h1⟩ |
    ⟨_, (⟨err, tok, _, s', h1⟩ | ⟨_, (⟨s', h1⟩ | ⟨s', h1⟩)⟩ | ⟨_, s', h1⟩ | ⟨k, e, _, _, _, h2, s', h1⟩)⟩
  · exact ⟨_, s', rfl, h1⟩
  · exact ⟨_, s', rfl, h1⟩
  · exact ⟨_, s', rfl, h1⟩
  · exact ⟨_, s', rfl, h1⟩
  · exact ⟨_, s', rfl, h1⟩
  · exact ⟨_, s', rfl, h1⟩
  · exact ⟨_, s', rfl, h1⟩
  · exact ⟨e, s', h2, h1⟩

/-- **The only stutter event is `decide`, and it changes nothing.** -/
theorem C11p_stutter_is_identity (s s' : St) (e : Ev) :
    (isStutter e = true ↔ ∃ k err, e = .decide k err) ∧
    (isStutter e = true → step s e = some s' → s' = s) := by
  refine ⟨?_, fun hs h => stutter_same s s' e hs h⟩
  cases e <;> simp [isStutter]

/-- **The termination measure.**  In every reachable state every accepted event other than the
    stutter `decide` strictly decreases the natural number `mu` (remaining chunks in all queues,
    weighted with their calls and `w + 2`; the place of every participant in the spawn / steal
    round / decrement protocol; calls left in the chunks being run; loaded words; the pending
    completion). -/
theorem C11p_measure_decreases (S : CTy) (w n L : Nat) (v : Int) (s s' : St) (e : Ev)
    (h : Reachable S w n L v s) (hs : isStutter e = false) (he : step s e = some s') :
    mu s' < mu s := by
  obtain ⟨hsafe, hL, log, hl⟩ := h
  exact mu_step s s' e (full_of_accepted hsafe hL hl) hs he

/-- **Explicit length bound.**  An accepted log of `bulk` with shape `n` on `w` workers has at most
    `bound n w = (w + 4)·n + w·(3w + 10) + 3` events other than `decide` stutters (for all
    interleavings, all sets of throwing calls, with stealing). -/
theorem C11p_run_length_bound (S : CTy) (w n L : Nat) (v : Int) (hs : Safe S w n) (hL : L < w)
    (log : List Ev) (s : St) (hl : runLog step (init S w n L v) log = some s) :
    work log + mu s ≤ bound n w ∧ work log ≤ (w + 4) * n + w * (3 * w + 10) + 3 := by
  have h1 := work_le_mu (init S w n L v) s log (full_init S w n L v hs hL) hl
  have h2 := mu_init_le S w n L v hs
  have : bound n w = (w + 4) * n + w * (3 * w + 10) + 3 := rfl
  omega

/-- the first `N` events of an infinite sequence -/
def pre (f : Nat → Ev) : Nat → List Ev
  | 0 => []
  | N + 1 => pre f N ++ [f N]

/-- **No infinite run.**  If every finite prefix of an infinite sequence of events is accepted,
    the sequence consists of `decide` stutters from some point on: every maximal run of the
    model, taken modulo stutter, is finite. -/
theorem C11p_no_infinite_run (S : CTy) (w n L : Nat) (v : Int) (hs : Safe S w n) (hL : L < w)
    (f : Nat → Ev) (hacc : ∀ N, (runLog step (init S w n L v) (pre f N)).isSome = true) :
    ∃ N, ∀ i, N ≤ i → isStutter (f i) = true := by
  have hsucc : ∀ N, work (pre f (N + 1)) = work (pre f N) + (if isStutter (f N) then 0 else 1) := by
    intro N
    simp only [pre, work, List.filter_append, List.length_append]
    cases hst : isStutter (f N) <;> simp [hst]
  have hmono : ∀ N d, work (pre f N) ≤ work (pre f (N + d)) := by
    intro N d
    induction d with
    | zero => exact Nat.le_refl _
    | succ d ih =>
      have := hsucc (N + d)
      rw [show N + (d + 1) = N + d + 1 from rfl]
      omega
  have hb : ∀ N, work (pre f N) ≤ bound n w := by
    intro N
    have := hacc N
    cases hr : runLog step (init S w n L v) (pre f N) with
    | none => rw [hr] at this; simp at this
    | some s => have := (C11p_run_length_bound S w n L v hs hL _ s hr).1; omega
  apply Classical.byContradiction
  intro hno
  have hinf : ∀ N, ∃ i, N ≤ i ∧ isStutter (f i) = false := by
    intro N
    apply Classical.byContradiction
    intro hn
    apply hno
    refine ⟨N, fun i hi => ?_⟩
    cases hst : isStutter (f i) with
    | true => rfl
    | false => exact absurd ⟨i, hi, hst⟩ hn
  have hall : ∀ m, ∃ N, m ≤ work (pre f N) := by
    intro m
    induction m with
    | zero => exact ⟨0, Nat.zero_le _⟩
    | succ m ih =>
      obtain ⟨N, hN⟩ := ih
      obtain ⟨i, hi, hst⟩ := hinf N
      refine ⟨i + 1, ?_⟩
      have h1 := hsucc i
      rw [hst] at h1
      have h2 := hmono N (i - N)
      rw [show N + (i - N) = i by omega] at h2
      simp at h1
      omega
  obtain ⟨N, hN⟩ := hall (bound n w + 1)
  have := hb N
  omega

/-- **A maximal run ends with exactly one completion.**  A reachable state in which no event
    other than the stutter `decide` is enabled (the end of a maximal run) has exactly one
    completion of the receiver: if no call threw it is `set_value` with the predecessor's value
    pack, `f` has been called exactly once for every `i < n` and no worker is inside a call; if
    some call threw it is `set_error` with one of the thrown exceptions and there is no value.
    By `C11p_no_infinite_run` every run reaches such a state (for all `n`, worker counts, sets
    of throwing indices, interleavings incl. stealing). -/
theorem C11p_maximal_run_completes_exactly_once (S : CTy) (w n L : Nat) (v : Int) (s : St)
    (h : Reachable S w n L v s)
    (hmax : ∀ e s', step s e = some s' → isStutter e = true) :
    s.done.length = 1 ∧
    (s.thrown = [] → s.done = [(false, v)] ∧ (∀ i : Nat, i < n → ncalls s (i : Int) = 1) ∧
      ∀ k, s.lp k = .out) ∧
    (s.thrown ≠ [] → ∃ x, x ∈ s.thrown ∧ s.done = [(true, x)]) := by
  have hne : s.done ≠ [] := by
    intro hd
    obtain ⟨e, s', hst, he⟩ := C11p_no_stuck_state S w n L v s h hd
    have := hmax e s' he
    rw [hst] at this; simp at this
  have hle := C11c_complete_at_most_once S w n L v s h
  cases hdn : s.done with
  | nil => exact absurd hdn hne
  | cons d ds =>
    have hds : ds = [] := by
      rw [hdn] at hle
      simp only [List.length_cons] at hle
      exact List.eq_nil_of_length_eq_zero (by omega)
    subst hds
    obtain ⟨err, tok⟩ := d
    refine ⟨rfl, fun ht => ?_, fun ht => ?_⟩
    · cases err with
      | true =>
        have := (C11c_error_is_thrown S w n L v s h tok (by rw [hdn]; simp)).1
        rw [ht] at this; simp at this
      | false =>
        obtain ⟨e1, e2, e3, _⟩ := C11c_value_implies_all_once S w n L v s h tok (by rw [hdn]; simp)
        exact ⟨by rw [e1], e2, e3⟩
    · have := C11c_throw_implies_no_value S w n L v s h ht (err, tok) (by rw [hdn]; simp)
      dsimp only at this
      subst this
      exact ⟨tok, (C11c_error_is_thrown S w n L v s h tok (by rw [hdn]; simp)).1, rfl⟩

/-- **The completion is reachable from everywhere, within `mu s` events.**  From every reachable
    state some continuation of at most `mu s` events is accepted and ends in a state with exactly
    one completion. -/
theorem C11p_completion_reachable (S : CTy) (w n L : Nat) (v : Int) (s : St)
    (h : Reachable S w n L v s) :
    ∃ log s', runLog step s log = some s' ∧ log.length ≤ mu s ∧ s'.done.length = 1 := by
  have key : ∀ m (s : St), Reachable S w n L v s → mu s ≤ m →
      ∃ log s', runLog step s log = some s' ∧ log.length ≤ mu s ∧ s'.done.length = 1 := by
    intro m
    induction m with
    | zero =>
      intro s h hm
      by_cases hd : s.done = []
      · obtain ⟨e, s', hst, he⟩ := C11p_no_stuck_state S w n L v s h hd
        have := C11p_measure_decreases S w n L v s s' e h hst he
        omega
      · refine ⟨[], s, rfl, Nat.zero_le _, ?_⟩
        have := C11c_complete_at_most_once S w n L v s h
        cases hdn : s.done with
        | nil => exact absurd hdn hd
        | cons d ds => rw [hdn] at this; simp only [List.length_cons] at this ⊢; omega
    | succ m ih =>
      intro s h hm
      by_cases hd : s.done = []
      · obtain ⟨e, s1, hst, he⟩ := C11p_no_stuck_state S w n L v s h hd
        have hlt := C11p_measure_decreases S w n L v s s1 e h hst he
        have h1 : Reachable S w n L v s1 := by
          obtain ⟨hs, hL, log, hl⟩ := h
          exact ⟨hs, hL, log ++ [e], by rw [runLog_append, hl]; simp [runLog, he]⟩
        obtain ⟨log, s', hl, hlen, hdone⟩ := ih s1 h1 (by omega)
        refine ⟨e :: log, s', by simp only [runLog, he]; exact hl, ?_, hdone⟩
        simp only [List.length_cons]; omega
      · refine ⟨[], s, rfl, Nat.zero_le _, ?_⟩
        have := C11c_complete_at_most_once S w n L v s h
        cases hdn : s.done with
        | nil => exact absurd hdn hd
        | cons d ds => rw [hdn] at this; simp only [List.length_cons] at this ⊢; omega
  exact key (mu s) s h (Nat.le_refl _)

/-- **`n == 0`: the completion is immediate.**  With shape 0 the only accepted logs are the
    prefixes of `[zero, sig false v]`: the `shape == 0` path, then the completion with the
    predecessor's values; no worker event, no call, nothing after the completion. -/
theorem C11p_zero_immediate (S : CTy) (w L : Nat) (v : Int) (log : List Ev) (s : St)
    (hl : runLog step (init S w 0 L v) log = some s) :
    (log = [] ∧ s.done = []) ∨ (log = [.zero] ∧ s.done = []) ∨
    (log = [.zero, .sig false v] ∧ s.done = [(false, v)] ∧ s.calls = []) := by
  cases log with
  | nil => simp only [runLog_nil, Option.some.injEq] at hl; subst hl; exact Or.inl ⟨rfl, rfl⟩
  | cons e1 es =>
    simp only [runLog] at hl
    cases h1 : step (init S w 0 L v) e1 with
    | none => simp [h1] at hl
    | some s1 =>
      simp only [h1] at hl
      have he1 := (C11c_zero_completes_immediately S w L v).1 e1 s1 h1
      subst he1
      have hs1 : s1 = { (init S w 0 L v) with ph := 2 } := by
        simp [step, init] at h1; exact h1.symm
      subst hs1
      cases es with
      | nil =>
        simp only [runLog_nil, Option.some.injEq] at hl; subst hl
        exact Or.inr (Or.inl ⟨rfl, rfl⟩)
      | cons e2 es2 =>
        simp only [runLog] at hl
        cases h2 : step { (init S w 0 L v) with ph := 2 } e2 with
        | none => simp [h2] at hl
        | some s2 =>
          simp only [h2] at hl
          have : e2 = .sig false v ∧ s2 = { (init S w 0 L v) with ph := 2, done := [(false, v)] } := by
            cases e2 <;> simp [step, init] at h2
            obtain ⟨⟨a, b⟩, c⟩ := h2
            subst a; subst b
            exact ⟨rfl, c.symm⟩
          obtain ⟨he2, hs2⟩ := this
          subst he2; subst hs2
          cases es2 with
          | nil =>
            simp only [runLog_nil, Option.some.injEq] at hl; subst hl
            exact Or.inr (Or.inr ⟨rfl, rfl, rfl⟩)
          | cons e3 es3 =>
            exfalso
            simp only [runLog] at hl
            cases h3 : step { (init S w 0 L v) with ph := 2, done := [(false, v)] } e3 with
            | none => simp [h3] at hl
            | some s3 => cases e3 <;> simp [step, init] at h3

/-! ## The protocol model (`Model/Bulk.lean`, `Props/C11Proto.lean`)

In the protocol model the pops are atomic and `chunk k j` only confirms the chunk a task is
processing: it is the one event that leaves the state unchanged (the stutter of this model). -/

/-- **No stuck state of the protocol model.**  In every reachable state in which the receiver has
    not been signalled some event other than `chunk` is enabled; who moves: `Bulk.actor` — the
    spawner loop at an untouched worker, the local worker once the spawner loop is finished, a
    spawned task, a task inside `do_work` (a pop is always enabled: with a chunk or `nullopt`),
    a task about to decrement, or — outcome decided — the completion. -/
theorem C11p_proto_no_stuck_state (w L : Nat) (a : Nat → Nat) (s : Bulk.St)
    (h : C11Proto.Reachable w L a s) (h0 : s.signals = 0) :
    ∃ e s', Bulk.isChunk e = false ∧ Bulk.step s e = some s' := by
  obtain ⟨hL, hm, log, hl⟩ := h
  exact Bulk.proto_progress s (Bulk.invQ_of_accepted hL hm hl).1 (Bulk.spInv_of_accepted hl) h0

/-- **Termination measure of the protocol model.**  Every accepted event other than `chunk`
    strictly decreases `muP` (chunks left in the queues + place of every participant + pending
    completion) — in every state; `chunk` leaves the state unchanged. -/
theorem C11p_proto_measure_decreases (s s' : Bulk.St) (e : Bulk.Ev) (h : Bulk.step s e = some s') :
    (Bulk.isChunk e = false → Bulk.muP s' < Bulk.muP s) ∧ (Bulk.isChunk e = true → s' = s) :=
  ⟨fun he => Bulk.muP_step s s' e he h, fun he => Bulk.chunk_same s s' e he h⟩

/-- **Length bound of the protocol model.**  An accepted log has at most
    `(a w − a 0) + w·(3w + 8) + 1` events other than `chunk` (`a w − a 0` = number of chunks). -/
theorem C11p_proto_run_length_bound (w L : Nat) (a : Nat → Nat) (s : Bulk.St) (log : List Bulk.Ev)
    (hm : ∀ k, k < w → a k ≤ a (k + 1)) (hl : runLog Bulk.step (Bulk.init w L a) log = some s) :
    Bulk.workP log + Bulk.muP s ≤ (a w - a 0) + w * (3 * w + 8) + 1 := by
  have := Bulk.workP_le_muP _ _ log hl
  rw [Bulk.muP_init w L a hm] at this
  exact this

/-- **A maximal run of the protocol model signals exactly once**, after every participant has
    decremented, with `error` exactly when some call threw. -/
theorem C11p_proto_maximal_run_signals_once (w L : Nat) (a : Nat → Nat) (s : Bulk.St)
    (h : C11Proto.Reachable w L a s)
    (hmax : ∀ e s', Bulk.step s e = some s' → Bulk.isChunk e = true) :
    s.signals = 1 ∧ ∃ err, s.outcome = some err ∧ (err = true ↔ 0 < s.threw) ∧
      ∀ k, k < s.w → s.pc k = .decd := by
  have hi := (Bulk.invQ_of_accepted h.1 h.2.1 h.2.2.choose_spec).1
  have h1 : s.signals = 1 := by
    have := hi.sig1
    by_cases h0 : s.signals = 0
    · obtain ⟨e, s', he, hs⟩ := C11p_proto_no_stuck_state w L a s h h0
      have := hmax e s' hs
      rw [he] at this; simp at this
    · omega
  refine ⟨h1, ?_⟩
  cases ho : s.outcome with
  | none => have := (hi.outn ho).2; omega
  | some err =>
    obtain ⟨_, h3, h4, _⟩ := C11Proto.C11_complete_once_after_all w L a s h err ho
    exact ⟨err, rfl, h4, h3⟩

/-! ## Non-vacuity -/

/-- the measure along a log (one entry per visited state) -/
def muTrace : St → List Ev → List Nat
  | s, [] => [mu s]
  | s, e :: es => mu s :: (match step s e with | some s' => muTrace s' es | none => [])

/-- `bulk<int>(3)` on 2 workers, predecessor on worker 1: chunk size 1, queues `[0,1)` and `[1,3)`;
    worker 0 runs chunk 0 and **steals** chunk 2 from the right end of worker 1's queue, worker 1
    runs chunk 1 whose call **throws** (index 1); the run ends with `set_error(exception of 1)`. -/
def throwStealLog : List Ev :=
  [.plan 1, .spawn 0, .task 1, .task 0, .load 0 0 0 1, .cas 0 0 true 1 1, .chunk 0 0, .call 0 0 7,
   .load 1 1 1 3, .cas 1 1 true 2 3, .ret 0, .chunk 1 1, .call 1 1 7, .throw 1, .load 0 0 1 1,
   .load 0 1 2 3, .cas 0 1 true 2 2, .chunk 0 2, .call 0 2 7, .exc 1, .ret 0, .dec 1 false,
   .load 0 1 2 2, .dec 0 true, .decide 0 true, .sig true 1]

/-- the run is accepted, completes exactly once with the thrown exception, all three indices
    were called -/
example : (runLog step (init CTy.i32 2 3 1 7) throwStealLog).map
    (fun s => (s.done, s.thrown, s.calls, mu s)) =
    some ([(true, 1)], [1], [(2, 7), (1, 7), (0, 7)], 4) := by decide +kernel

/-- the measure starts at the bound `(w + 4)·n + w·(3w + 10) + 3 = 53` (the bound is attained by
    the start state), decreases with each of the 25 non-stutter events and stays at 5 over the
    stutter `decide 0 true` -/
example : muTrace (init CTy.i32 2 3 1 7) throwStealLog =
    [53, 51, 49, 45, 43, 42, 40, 39, 38, 37, 35, 34, 33, 32, 31, 28, 27, 25, 24, 23, 15, 14, 12, 7,
     5, 5, 4] ∧ bound 3 2 = 53 ∧ work throwStealLog = 25 := by decide +kernel

/-- a failed compare-exchange (worker 0's loaded word of queue 1 became stale by worker 1's pop)
    decreases the measure: 31 → 30, then the retry succeeds -/
example : muTrace (init CTy.i32 2 3 0 7)
    [.plan 1, .spawn 1, .task 0, .task 1, .load 1 1 1 3, .load 0 0 0 1, .cas 0 0 true 1 1, .chunk 0 0,
     .call 0 0 7, .ret 0, .load 0 0 1 1, .load 0 1 1 3, .cas 1 1 true 2 3, .cas 0 1 false 2 3,
     .cas 0 1 true 2 2] =
    [53, 51, 49, 45, 43, 42, 41, 39, 38, 37, 36, 33, 32, 31, 30, 28] := by decide +kernel

/-- a second failed compare-exchange on an unchanged word is rejected: failed CASes cannot
    repeat without an intervening successful pop (no stutter) -/
example : (runLog step (init CTy.i32 2 3 0 7)
    [.plan 1, .spawn 1, .task 0, .task 1, .load 1 1 1 3, .load 0 0 0 1, .cas 0 0 true 1 1, .chunk 0 0,
     .call 0 0 7, .ret 0, .load 0 0 1 1, .load 0 1 1 3, .cas 1 1 true 2 3, .cas 0 1 false 2 3,
     .cas 0 1 false 2 3]) = none := by decide +kernel

/-- `n = 0`: the whole run is `[zero, sig false v]` -/
example : (runLog step (init CTy.i32 4 0 2 9) [.zero, .sig false 9]).map (fun s => (s.done, mu s)) =
    some ([(false, 9)], 0) := by decide +kernel

end PikaVerif.C11Progress
