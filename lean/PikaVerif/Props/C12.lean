import PikaVerif.Lemmas.X86
import PikaVerif.Model.Rebind
import PikaVerif.Lemmas.StackClass
/-!
# C12 — A task's context survives suspension, migration and recycling

Part (a): the context-switch routine.  `Gen.SwapAsm.prog` is the instruction list of
`swapcontext_stack` / `swapcontext_stack2`, regenerated from the asm text on every run, together
with `contextSize`, `cbIdx`, `funpIdx` from `context_linux_x86.hpp`.  The theorems are about
*every* machine state that satisfies the stated alignment/disjointness hypotheses — any register
contents, any stack depth, any memory contents, any code running in between.

Nothing in the statements refers to a worker: `s2` in `C12_swap_roundtrip` is an arbitrary machine
state (any hardware thread, any register file), only memory is shared.  That is migration.
-/
namespace PikaVerif.C12
open PikaVerif PikaVerif.X86 PikaVerif.Gen.SwapAsm

/-- The situation of `swap A→B ; … ; swap →A`.
* `s0`: task A (or the scheduler) calls the routine: `rsp` points at the return address, A's stack
  region is `[lo, hi)`, `rdi = &from.m_sp` lies outside it, `rsi` is the target's saved `m_sp`.
* `s1`: state at the routine's `jmp`.
* `s2`: *any* later state in which some context switches back to A — its `rsi` is the value the first
  switch stored through `rdi`; whatever ran in between left A's region `[lo, hi)` alone; the stack
  and the `from` slot of the context that is now switching out do not overlap A's region.
* `s3`: state at the second `jmp`. -/
structure Roundtrip (s0 s1 s2 s3 : St) (t1 t3 lo hi : Nat) : Prop where
  sp_al : s0.reg .rsp % 8 = 0
  sp_lo : lo + 64 ≤ s0.reg .rsp
  sp_hi : s0.reg .rsp + 8 ≤ hi
  hi_W : hi + 16 < W
  from_al : s0.reg .rdi % 8 = 0
  from_W : s0.reg .rdi < W
  from_out : s0.reg .rdi + 8 ≤ lo ∨ hi ≤ s0.reg .rdi
  to_al : s0.reg .rsi % 8 = 0
  to_W : s0.reg .rsi + 88 < W
  run1 : run prog s0 = some (s1, t1)
  preserved : ∀ a, lo ≤ a → a < hi → s2.mem a = s1.mem a
  back : s2.reg .rsi = s1.mem (s0.reg .rdi)
  sp2_al : s2.reg .rsp % 8 = 0
  sp2_64 : 64 ≤ s2.reg .rsp
  sp2_out : s2.reg .rsp ≤ lo ∨ hi + 64 ≤ s2.reg .rsp
  from2_al : s2.reg .rdi % 8 = 0
  from2_W : s2.reg .rdi < W
  from2_out : s2.reg .rdi + 8 ≤ lo ∨ hi ≤ s2.reg .rdi
  run3 : run prog s2 = some (s3, t3)

/-- **Round trip.**  After `swap A→B`, anything that preserves A's stack region, and a swap back to
    A: control returns to A's return address with `rsp` as after a `ret`, the callee-saved registers
    `rbx rbp r12 r13 r14 r15` have the values A had when it called the routine, and every byte of A's
    stack at or above its stack pointer is untouched. -/
theorem C12_swap_roundtrip {s0 s1 s2 s3 : St} {t1 t3 lo hi : Nat} (h : Roundtrip s0 s1 s2 s3 t1 t3 lo hi) :
    t3 = s0.mem (s0.reg .rsp) ∧ s3.reg .rsp = s0.reg .rsp + 8 ∧
    s3.reg .rbx = s0.reg .rbx ∧ s3.reg .rbp = s0.reg .rbp ∧ s3.reg .r12 = s0.reg .r12 ∧
    s3.reg .r13 = s0.reg .r13 ∧ s3.reg .r14 = s0.reg .r14 ∧ s3.reg .r15 = s0.reg .r15 ∧
    ∀ a, s0.reg .rsp ≤ a → a < hi → s3.mem a = s0.mem a := by
  obtain ⟨sp_al, sp_lo, sp_hi, hi_W, from_al, from_W, from_out, to_al, to_W, run1, pres, back, sp2_al, sp2_64,
    sp2_out, from2_al, from2_W, from2_out, run3⟩ := h
  have hW : W = 18446744073709551616 := rfl
  -- first switch
  obtain ⟨s1', t1', r1, p1⟩ := swap_spec s0 sp_al (by omega) to_al to_W from_al from_W
  rw [run1] at r1
  obtain ⟨rfl, rfl⟩ : s1 = s1' ∧ t1 = t1' := by simpa using r1
  have hback : s2.reg .rsi = s0.reg .rsp - 64 := by rw [back, p1.mem, savedMem_from]
  -- second switch
  obtain ⟨s3', t3', r3, p3⟩ := swap_spec s2 sp2_al sp2_64 (by omega) (by omega) from2_al from2_W
  rw [run3] at r3
  obtain ⟨rfl, rfl⟩ : s3 = s3' ∧ t3 = t3' := by simpa using r3
  -- what the second switch reads is what the first one wrote
  have rd : ∀ a, lo ≤ a → a < hi → savedMem s2 a = savedMem s0 a := by
    intro a h1 h2
    rw [savedMem_outside s2 a (by omega) (by omega) sp2_64, pres a h1 h2, p1.mem]
  have slots := savedMem_slot s0 (by omega) (by omega)
  obtain ⟨q15, q14, q13, q12, _, _, qbx, qbp⟩ := slots
  refine ⟨?_, ?_, ?_, ?_, ?_, ?_, ?_, ?_, ?_⟩
  · rw [p3.tgt, hback, pres _ (by omega) (by omega), p1.mem,
      savedMem_outside s0 _ (by omega) (by omega) (by omega)]
    congr 1; omega
  · rw [p3.rsp, hback]; omega
  · rw [p3.rbx, hback, rd _ (by omega) (by omega), qbx]
  · rw [p3.rbp, hback, rd _ (by omega) (by omega), qbp]
  · rw [p3.r12, hback, rd _ (by omega) (by omega), q12]
  · rw [p3.r13, hback, rd _ (by omega) (by omega), q13]
  · rw [p3.r14, hback, rd _ (by omega) (by omega), q14]
  · rw [p3.r15, hback, rd _ (by omega) (by omega), q15]
  · intro a h1 h2
    rw [p3.mem, rd a (by omega) h2, savedMem_outside s0 a (by omega) (by omega) (by omega)]

/-- **Frame locality.**  One execution of the routine writes only the 64 bytes below the caller's
    stack pointer and the `from` slot: any region `[lo, hi)` that contains neither (another task's
    stack) is left untouched.  This discharges the `preserved` hypothesis of `Roundtrip` for every
    context switch performed by *other* contexts while A is suspended. -/
theorem C12_swap_frame_local (s s' : St) (t lo hi : Nat)
    (hsp : s.reg .rsp % 8 = 0) (hsp1 : 64 ≤ s.reg .rsp)
    (hto : s.reg .rsi % 8 = 0) (hto2 : s.reg .rsi + 88 < W) (hfrom : s.reg .rdi % 8 = 0)
    (hfrom2 : s.reg .rdi < W)
    (hstack : s.reg .rsp ≤ lo ∨ hi + 64 ≤ s.reg .rsp) (hslot : s.reg .rdi + 8 ≤ lo ∨ hi ≤ s.reg .rdi)
    (h : run prog s = some (s', t)) : ∀ a, lo ≤ a → a < hi → s'.mem a = s.mem a := by
  obtain ⟨s1, t1, r1, p1⟩ := swap_spec s hsp hsp1 hto hto2 hfrom hfrom2
  rw [h] at r1
  obtain ⟨rfl, rfl⟩ : s' = s1 ∧ t = t1 := by simpa using r1
  intro a h1 h2
  rw [p1.mem, savedMem_outside s a (by omega) (by omega) hsp1]

/-- a switch performed by a context whose stack and `from` slot lie outside `[lo, hi)` -/
structure Foreign (lo hi : Nat) (s s' : St) (t : Nat) : Prop where
  sp_al : s.reg .rsp % 8 = 0
  sp_64 : 64 ≤ s.reg .rsp
  to_al : s.reg .rsi % 8 = 0
  to_W : s.reg .rsi + 88 < W
  from_al : s.reg .rdi % 8 = 0
  from_W : s.reg .rdi < W
  stack_out : s.reg .rsp ≤ lo ∨ hi + 64 ≤ s.reg .rsp
  slot_out : s.reg .rdi + 8 ≤ lo ∨ hi ≤ s.reg .rdi
  run : X86.run prog s = some (s', t)

/-- A history of the rest of the system while A is suspended: any number of switches by other
    contexts; before each switch, arbitrary code has run that did not write `[lo, hi)`. -/
def OtherActivity (lo hi : Nat) : (Nat → Nat) → List (St × St × Nat) → Prop
  | _, [] => True
  | m, (s, s', t) :: rest =>
    (∀ a, lo ≤ a → a < hi → s.mem a = m a) ∧ Foreign lo hi s s' t ∧ OtherActivity lo hi s'.mem rest

def finalMem : (Nat → Nat) → List (St × St × Nat) → (Nat → Nat)
  | m, [] => m
  | _, (_, s', _) :: rest => finalMem s'.mem rest

/-- **Any number of switches by other contexts** (with arbitrary non-interfering code in between)
    leaves A's region as it was — the `preserved` hypothesis of `Roundtrip` follows from stack
    disjointness alone, for histories of any length. -/
theorem C12_region_preserved_by_other_switches (lo hi : Nat) :
    ∀ (steps : List (St × St × Nat)) (m : Nat → Nat), OtherActivity lo hi m steps →
      ∀ a, lo ≤ a → a < hi → finalMem m steps a = m a := by
  intro steps
  induction steps with
  | nil => intro m _ a _ _; rfl
  | cons x rest ih =>
    obtain ⟨s, s', t⟩ := x
    intro m h a h1 h2
    obtain ⟨hm, hf, hr⟩ := h
    simp only [finalMem]
    rw [ih s'.mem hr a h1 h2,
      C12_swap_frame_local s s' t lo hi hf.sp_al hf.sp_64 hf.to_al hf.to_W hf.from_al hf.from_W hf.stack_out
        hf.slot_out hf.run a h1 h2, hm a h1 h2]

/-- The routine is total on aligned states: it always reaches its `jmp` (never the `ud2`, never a
    misaligned access). -/
theorem C12_swap_defined (s : St) (hsp : s.reg .rsp % 8 = 0) (hsp1 : 64 ≤ s.reg .rsp)
    (hto : s.reg .rsi % 8 = 0) (hto2 : s.reg .rsi + 88 < W) (hfrom : s.reg .rdi % 8 = 0)
    (hfrom2 : s.reg .rdi < W) : ∃ s' t, run prog s = some (s', t) := by
  obtain ⟨s', t, h, _⟩ := swap_spec s hsp hsp1 hto hto2 hfrom hfrom2
  exact ⟨s', t, h⟩

/-- **First entry.**  A context whose frame was built by `init()` / `rebind_stack()` on a stack
    `[stack, stack+size)` whose top is 16-byte aligned (`mmap` gives page alignment, `check_stack_size`
    a page-multiple size) and that has not been written since: switching to it (from a context whose
    own stack and `from` slot lie outside the new stack) jumps to the trampoline `funp` with
    `rdi = cb` (the coroutine object), with the stack pointer inside the new stack and aligned as the
    System V ABI requires at function entry (`rsp + 8` is a multiple of 16). -/
theorem C12_first_entry (s s' : St) (t stack size cb funp : Nat) (m : Nat → Nat)
    (hsz : 8 * contextSize ≤ size) (htop : (stack + size) % 16 = 0) (hW : stack + size < W)
    (hmem : ∀ a, stack ≤ a → a < stack + size →
      s.mem a = initFrame m stack size contextSize cbIdx funpIdx cb funp a)
    (hto : s.reg .rsi = frameSp stack size contextSize)
    (hsp : s.reg .rsp % 8 = 0) (hsp64 : 64 ≤ s.reg .rsp)
    (hout : s.reg .rsp ≤ stack ∨ stack + size + 64 ≤ s.reg .rsp)
    (hfrom : s.reg .rdi % 8 = 0) (hfromW : s.reg .rdi < W)
    (hfrom_out : s.reg .rdi + 8 ≤ stack ∨ stack + size ≤ s.reg .rdi)
    (h : run prog s = some (s', t)) :
    t = funp ∧ s'.reg .rdi = cb ∧ (s'.reg .rsp + 8) % 16 = 0 ∧
    stack ≤ s'.reg .rsp ∧ s'.reg .rsp + 16 ≤ stack + size := by
  have hWv : W = 18446744073709551616 := rfl
  simp only [contextSize, cbIdx, funpIdx, frameSp, initFrame] at *
  obtain ⟨s1, t1, r1, p1⟩ := swap_spec s hsp hsp64 (by omega) (by omega) hfrom hfromW
  rw [h] at r1
  obtain ⟨rfl, rfl⟩ : s' = s1 ∧ t = t1 := by simpa using r1
  refine ⟨?_, ?_, ?_, ?_, ?_⟩
  · rw [p1.tgt, hto, hmem _ (by omega) (by omega)]
    have e : stack + size - 8 * 12 + 64 = stack + size - 8 * 12 + 8 * 8 := by omega
    rw [e, upd_same]
  · rw [p1.rdi, hto, savedMem_outside s _ (by omega) (by omega) hsp64, hmem _ (by omega) (by omega)]
    have e : stack + size - 8 * 12 + 80 = stack + size - 8 * 12 + 8 * 10 := by omega
    rw [e, upd_other _ _ _ _ (by omega), upd_same]
  · rw [p1.rsp, hto]; omega
  · rw [p1.rsp, hto]; omega
  · rw [p1.rsp, hto]; omega

/-! ### Floating-point control state is *not* part of the saved context

The property text asks that the floating-point register state survive a yield.  The data registers
(xmm/x87 stack) are caller-saved in the System V ABI and are dead across the call of the routine; but
the *control* state — `MXCSR` (SSE rounding mode, exception masks) and the x87 control word — is
callee-saved by the ABI and is neither stored nor reloaded by the generated instruction list.  So the
round-trip theorem cannot be extended to it: -/

/-- no instruction of the list loads `MXCSR` / the x87 control word -/
def noFpLoad : List Instr → Bool
  | [] => true
  | .ldmxcsr _ _ :: _ => false
  | .fldcw _ _ :: _ => false
  | _ :: l => noFpLoad l

theorem exec_fp (i : Instr) (s s' : St) (hi : noFpLoad [i] = true) (h : exec i s = some s') :
    s'.mxcsr = s.mxcsr ∧ s'.fcw = s.fcw := by
  cases i <;> simp only [exec, noFpLoad] at h hi <;>
    first
      | (split at h <;> first | (simp at h; done) | (simp only [Option.some.injEq] at h; subst h; exact ⟨rfl, rfl⟩))
      | (simp only [Option.some.injEq] at h; subst h; exact ⟨rfl, rfl⟩)
      | (simp at h; done)
      | (simp at hi; done)

theorem run_fp (l : List Instr) : ∀ (s s' : St) (t : Nat), noFpLoad l = true → run l s = some (s', t) →
    s'.mxcsr = s.mxcsr ∧ s'.fcw = s.fcw := by
  induction l with
  | nil => intro s s' t _ h; simp [run] at h
  | cons i l ih =>
    intro s s' t hn h
    cases i
    case jmpr r => simp only [run, Option.some.injEq, Prod.mk.injEq] at h; obtain ⟨rfl, _⟩ := h; exact ⟨rfl, rfl⟩
    case ret =>
      simp only [run] at h; split at h
      · simp only [Option.some.injEq, Prod.mk.injEq] at h; obtain ⟨rfl, _⟩ := h; exact ⟨rfl, rfl⟩
      · simp at h
    case ud2 => simp [run] at h
    case ldmxcsr => simp [noFpLoad] at hn
    case fldcw => simp [noFpLoad] at hn
    all_goals
      simp only [run] at h
      split at h
      · simp at h
      · rename_i s1 he
        have h1 := exec_fp _ s s1 (by simp [noFpLoad]) he
        have h2 := ih s1 s' t (by simpa [noFpLoad] using hn) h
        exact ⟨h2.1.trans h1.1, h2.2.trans h1.2⟩

/-- The routine leaves `MXCSR` and the x87 control word exactly as the switching-out context left them:
    the context that is switched *to* continues with the rounding mode, exception masks and precision
    control of whatever ran before it on this hardware thread. -/
theorem C12_swap_keeps_fp_control (s s' : St) (t : Nat) (h : run prog s = some (s', t)) :
    s'.mxcsr = s.mxcsr ∧ s'.fcw = s.fcw :=
  run_fp prog s s' t (by decide) h

/-- registers of the witness: task A about to yield -/
def wA : Reg → Nat := fun r => match r with | .rsp => 4096 | .rdi => 8192 | .rsi => 16384 | _ => 7
/-- registers of the witness: the other task switching back to A (its stack at 32768, its `from`
    slot at 8200, `rsi` = A's saved stack pointer) -/
def wB : Reg → Nat := fun r => match r with | .rsp => 32768 | .rdi => 8200 | .rsi => 4032 | _ => 9

/-- **Counterexample to "FP control state survives a yield".**  There is a round trip (all hypotheses
    of `C12_swap_roundtrip` hold: A's stack is left alone) in which A had `MXCSR = 0x5F80` / x87 CW
    `0x0B7F` (round upward) when it yielded, the task that ran in between set round-downward
    (`0x3F80` / `0x077F`), and A resumes with the other task's values. -/
theorem C12_fp_control_not_preserved :
    ∃ (s0 s1 s2 s3 : St) (t1 t3 lo hi : Nat), Roundtrip s0 s1 s2 s3 t1 t3 lo hi ∧
      s0.mxcsr = 0x5F80 ∧ s0.fcw = 0x0B7F ∧ s3.mxcsr = 0x3F80 ∧ s3.fcw = 0x077F := by
  obtain ⟨s1, t1, run1, p1⟩ := swap_spec ⟨wA, fun _ => 0, 0x5F80, 0x0B7F⟩
    (by show wA .rsp % 8 = 0; decide) (by show 64 ≤ wA .rsp; decide) (by show wA .rsi % 8 = 0; decide)
    (by show wA .rsi + 88 < W; decide) (by show wA .rdi % 8 = 0; decide) (by show wA .rdi < W; decide)
  have hb : s1.mem 8192 = 4032 := by rw [p1.mem]; exact savedMem_from ⟨wA, fun _ => 0, 0x5F80, 0x0B7F⟩
  obtain ⟨s3, t3, run3, p3⟩ := swap_spec ⟨wB, s1.mem, 0x3F80, 0x077F⟩
    (by show wB .rsp % 8 = 0; decide) (by show 64 ≤ wB .rsp; decide) (by show wB .rsi % 8 = 0; decide)
    (by show wB .rsi + 88 < W; decide) (by show wB .rdi % 8 = 0; decide) (by show wB .rdi < W; decide)
  refine ⟨⟨wA, fun _ => 0, 0x5F80, 0x0B7F⟩, s1, ⟨wB, s1.mem, 0x3F80, 0x077F⟩, s3, t1, t3, 1024, 4200, ?_, rfl, rfl, ?_, ?_⟩
  · exact {
      sp_al := by show wA .rsp % 8 = 0; decide
      sp_lo := by show 1024 + 64 ≤ wA .rsp; decide
      sp_hi := by show wA .rsp + 8 ≤ 4200; decide
      hi_W := by decide
      from_al := by show wA .rdi % 8 = 0; decide
      from_W := by show wA .rdi < W; decide
      from_out := by show wA .rdi + 8 ≤ 1024 ∨ 4200 ≤ wA .rdi; decide
      to_al := by show wA .rsi % 8 = 0; decide
      to_W := by show wA .rsi + 88 < W; decide
      run1 := run1
      preserved := fun _ _ _ => rfl
      back := by show wB .rsi = s1.mem (wA .rdi); exact hb.symm
      sp2_al := by show wB .rsp % 8 = 0; decide
      sp2_64 := by show 64 ≤ wB .rsp; decide
      sp2_out := by show wB .rsp ≤ 1024 ∨ 4200 + 64 ≤ wB .rsp; decide
      from2_al := by show wB .rdi % 8 = 0; decide
      from2_W := by show wB .rdi < W; decide
      from2_out := by show wB .rdi + 8 ≤ 1024 ∨ 4200 ≤ wB .rdi; decide
      run3 := run3 }
  · exact (C12_swap_keeps_fp_control _ s3 t3 run3).1
  · exact (C12_swap_keeps_fp_control _ s3 t3 run3).2

/-! ## Part (b): a recycled thread object starts clean

`Gen/Rebind.lean` lists every data member of `thread_data` and of the coroutine (`context_base`,
`coroutine_impl`) with the assignments made by the constructors, by `rebind_base` / `rebind`, and by
the reset the trampoline loop performs before a terminated task returns to the scheduler.  The
theorems are closed (`decide`) statements about these generated tables: adding a member that is not
reset, dropping a reset, or resetting to a value different from the constructor's breaks them. -/
open PikaVerif.Rebind PikaVerif.Gen.Rebind

/-- Members of `thread_data` that are properties of the *object*, not of the task it currently
    represents, and are deliberately kept across recycling:
    `is_stackless_` (declared `const`), `stacksize_` (physical size of the attached stack — objects
    are only reused for requests of the same size, `C12_heap_by_size`), `queue_` (the queue whose
    heaps own the object). -/
def tdImmutable : List String := ["is_stackless_", "stacksize_", "queue_"]

set_option maxRecDepth 16384 in
/-- **Every per-task member of `thread_data` is reset by `rebind_base`, to the constructor's value.**
    (interruption request/enable flags, exit-callback list and its `ran` flag, state word, priority,
    scheduler, last worker, stack-size class, description, parent reference, marked state, backtrace,
    timer data — under whatever preprocessor configuration they exist.) -/
theorem C12_rebind_resets_all :
    ∀ m ∈ tdMembers, m.name ∈ tdImmutable ∨ sameAsFresh tdCtor tdRebind m = true := by decide

/-- the members kept across recycling exist and the one declared `const` in the source is among them -/
theorem C12_immutable_declared :
    (∀ n ∈ tdImmutable, ∃ m ∈ tdMembers, m.name = n) ∧
    (∀ m ∈ tdMembers, m.isConst = true → m.name ∈ tdImmutable) := by decide

/-- Coroutine members that are not reset between tasks, with the reason:
    `m_caller` is the *scheduler-side* saved stack pointer; every `do_invoke` stores it (the routine's
    `movq %rsp, (%rdi)`) before anything reads it.
    `continuation_recursion_count_` is not reset anywhere (constructor only).  In the pinned tree
    nothing reads or writes it except through the accessor `get_continuation_recursion_count()`, which
    has no caller; it is listed here so that the exemption is visible (see notes/C12.md). -/
def coNotReset : List String := ["m_caller", "continuation_recursion_count_"]

/-- **Every other coroutine member of a recycled object has, after the exit reset
    (`reset_tss(); reset()`) followed by `rebind`, the value the constructors give it** — thread-local
    data pointer / task data word null, phase 0, fresh id, fresh function, no stale result, no stale
    exception, exit flags cleared. -/
theorem C12_coroutine_resets_all :
    ∀ m ∈ coMembers, m.name ∈ coNotReset ∨
      (finalValue (coExit ++ coRebind) m).isSome = true ∧
      finalValue (coExit ++ coRebind) m = finalValue coCtor m := by decide

/-- what `context_base::rebind_base` *asserts* about the incoming object (task data / TSS pointer null,
    phase 0) is exactly what the exit reset established -/
theorem C12_rebind_assumptions_established :
    ∀ a ∈ coRebindAsserts, ∀ m ∈ coMembers, m.name = a.name → guardCovers m.guard a.guard = true →
      finalValue coExit m = some a.value := by decide

/-! ## Part (c): a recycled object is only rebound to a task of the same physical stack size -/
open PikaVerif.StackClass PikaVerif.Gen.Heaps

/-- `thread_queue` (all schedulers except shared-priority) with configured sizes `P` -/
def tqCfg (P : String → Nat) : Cfg := ⟨P, classParam, tqCreate, tqRecycle, tqPrefill⟩
/-- `queue_holder_thread` (shared-priority scheduler) -/
def qhCfg (P : String → Nat) : Cfg := ⟨P, classParam, qhCreate, qhRecycle, qhPrefill⟩

/-- **Heap by size.**  For every configuration of the four stack sizes (equal sizes allowed), every
    order of task creations, terminations (recycling) and the initial pre-allocation, and for both
    queue implementations: whenever a recycled object is rebound to a new task, the stack it carries
    was mapped with exactly the size configured for the new task's stack-size class. -/
theorem C12_heap_by_size (P : String → Nat) (c : Cfg) (hc : c = tqCfg P ∨ c = qhCfg P) (log : List StackClass.Ev) (s : StackClass.St)
    (h : runLog (step c) StackClass.init log = some s) :
    ∀ x ∈ s.rebinds, x.1.size = x.2.2 ∧ ∃ p, classParam.lookup x.2.1 = some p ∧ x.2.2 = P p := by
  have hcons : consistent c = true := by
    rcases hc with rfl | rfl
    · show consistent ⟨P, classParam, tqCreate, tqRecycle, tqPrefill⟩ = true; simp only [consistent]; decide
    · show consistent ⟨P, classParam, qhCreate, qhRecycle, qhPrefill⟩ = true; simp only [consistent]; decide
  have hi : Inv c s := inv_of_runLog (Inv c) (fun s e s' => step_inv c hcons s s' e) (inv_init c) h
  have hP : c.P = P ∧ c.classParam = classParam := by rcases hc with rfl | rfl <;> exact ⟨rfl, rfl⟩
  intro x hx
  obtain ⟨h1, p, h2, h3⟩ := hi.bound x hx
  exact ⟨h1, p, by rw [← hP.2]; exact h2, by rw [← hP.1]; exact h3⟩

/-- non-vacuity: with small = medium = 64 KiB, a medium object is filed, then taken by a small task
    (both classes share the first heap of the chain) — accepted, and the sizes agree -/
example : ∃ s, runLog (step (tqCfg (fun p => if p = "large_stacksize_" then 131072 else 65536))) StackClass.init
    [.recycle ⟨1, 65536⟩, .create "small_" (some ⟨1, 65536⟩)] = some s ∧ s.rebinds.length = 1 := by
  refine ⟨_, rfl, rfl⟩

/-- a queue whose `recycle_thread` filed medium stacks in the small heap would violate it: the
    consistency condition the theorem rests on fails for such a table -/
example : consistent ⟨fun _ => 0, classParam, tqCreate,
    [("small_stacksize_", "thread_heap_small_"), ("medium_stacksize_", "thread_heap_small_")], []⟩ = false := by
  decide

end PikaVerif.C12
