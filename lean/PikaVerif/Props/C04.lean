import PikaVerif.Lemmas.Rw4
/-!
# C04 — async_rw_mutex: exclusive writers, grouped readers, request-order grants

Property theorems about the model `PikaVerif.Rw`.  Every theorem quantifies over *all*
accepted event logs of the model (`Reachable s`), i.e. over every request sequence over
{read, readwrite}, every placement of starts / drops / copies / releases on threads and every
interleaving of the atomic steps of `add_op_state`, `done()` and the shared-state destructors.
Accesses are numbered in request order; `s.grp a` is the shared state ("group") of access `a`.
-/
namespace PikaVerif.C04
open PikaVerif PikaVerif.Rw

def Reachable (s : St) : Prop := ∃ log, runLog step init log = some s

/-- access `a` has been granted and at least one of its wrappers is alive -/
def Held (s : St) (a : Nat) : Prop := ∃ c, s.acc a = .granted c

/-- the continuation of access `a` has run (it is held or already released) -/
def WasGranted (s : St) (a : Nat) : Prop := post (s.acc a) = true

/-- `a` was requested with `readwrite()` -/
def IsRw (s : St) (a : Nat) : Prop := s.rw (s.grp a) = true

/-- connect + start (or the sender's destructor) has been executed for `a` -/
def Started (s : St) (a : Nat) : Prop := s.acc a ≠ .none ∧ s.acc a ≠ .sender

private theorem held_lt {s : St} (hi : Inv s) {a : Nat} (h : Held s a) : a < s.na ∧ post (s.acc a) = true := by
  obtain ⟨c, hc⟩ := h
  exact ⟨lt_of_acc hi (by rw [hc]; simp), by rw [hc]; rfl⟩

/-- **Read groups.**  Two accesses that are held at the same time belong to the same shared
    state, i.e. they are reads requested between the same two read-write accesses. -/
theorem C04_read_groups (s : St) (hr : Reachable s) (a b : Nat) (ha : Held s a) (hb : Held s b) :
    s.grp a = s.grp b := by
  obtain ⟨log, hlog⟩ := hr
  have hi := inv_of_accepted hlog
  obtain ⟨ha1, ha2⟩ := held_lt hi ha
  obtain ⟨hb1, hb2⟩ := held_lt hi hb
  by_cases h1 : s.grp a < s.grp b
  · have := granted_pred_released hi hb1 ha1 hb2 h1
    obtain ⟨c, hc⟩ := ha; rw [hc] at this; simp at this
  · by_cases h2 : s.grp b < s.grp a
    · have := granted_pred_released hi ha1 hb1 ha2 h2
      obtain ⟨c, hc⟩ := hb; rw [hc] at this; simp at this
    · omega

/-- **Exclusive writers.**  A held read-write access overlaps no other held access. -/
theorem C04_rw_exclusive (s : St) (hr : Reachable s) (a b : Nat) (ha : Held s a) (hb : Held s b)
    (hw : IsRw s a) : a = b := by
  have hg := C04_read_groups s hr a b ha hb
  obtain ⟨log, hlog⟩ := hr
  have hi := inv_of_accepted hlog
  exact hi.rwSingle a b (held_lt hi ha).1 (held_lt hi hb).1 hg hw

/-- **Request order of the groups.**  Groups are numbered in request order: a later request is
    never in an earlier group; a read-write request is alone in its group. -/
theorem C04_groups_in_request_order (s : St) (hr : Reachable s) (a b : Nat) (hab : a ≤ b)
    (hb : b < s.na) : s.grp a ≤ s.grp b ∧ (s.grp a = s.grp b → IsRw s a → a = b) := by
  obtain ⟨log, hlog⟩ := hr
  have hi := inv_of_accepted hlog
  exact ⟨hi.grpMono a b hab hb, fun h1 h2 => hi.rwSingle a b (by omega) hb h1 h2⟩

/-- **Request-order grants.**  When an access has been granted, every access of every earlier
    group has been granted and completely released before. -/
theorem C04_order (s : St) (hr : Reachable s) (a b : Nat) (ha : a < s.na) (hb : b < s.na)
    (hg : WasGranted s a) (hlt : s.grp b < s.grp a) : s.acc b = .released := by
  obtain ⟨log, hlog⟩ := hr
  exact granted_pred_released (inv_of_accepted hlog) ha hb hg hlt

/-- **Granted exactly once.**  The continuation of an access runs at most once, and it has run
    exactly once for every access that is held or released. -/
theorem C04_granted_once (s : St) (hr : Reachable s) (a : Nat) :
    s.grants a ≤ 1 ∧ (WasGranted s a ↔ s.grants a = 1) := by
  obtain ⟨log, hlog⟩ := hr
  have h := (inv_of_accepted hlog).grantsOk a
  unfold WasGranted
  by_cases hp : post (s.acc a) = true
  · simp [hp] at h ⊢; omega
  · simp [hp] at h ⊢; omega

/-- **The value outlives the wrappers.**  As long as any requested access has not been
    completely released (in particular while a wrapper is alive) the wrapped value has not been
    destroyed - also after the mutex object itself is gone. -/
theorem C04_value_outlives (s : St) (hr : Reachable s) (a : Nat) (ha : a < s.na)
    (hn : s.acc a ≠ .released) : s.vfreed = false := by
  obtain ⟨log, hlog⟩ := hr
  have hi := inv_of_accepted hlog
  cases hv : s.vfreed with
  | false => rfl
  | true =>
    obtain ⟨_, h2⟩ := hi.vf hv
    have hg := hi.grpLt a ha
    rcases h2 with h2 | h2
    · omega
    · have := dead_prefix hi (by omega) h2 (s.grp a) (by omega)
      exact absurd (dead_released hi hg this ha rfl) hn

theorem C04_value_outlives_held (s : St) (hr : Reachable s) (a : Nat) (ha : Held s a) :
    s.vfreed = false := by
  obtain ⟨log, hlog⟩ := hr
  have hi := inv_of_accepted hlog
  obtain ⟨c, hc⟩ := ha
  exact C04_value_outlives s ⟨log, hlog⟩ a (lt_of_acc hi (by rw [hc]; simp)) (by rw [hc]; simp)

/-- **Every access observes all earlier modifications.**  While access `a` is held, the version
    of the wrapped value (`s.ver`; the acceptor accepts `readv t a v` only with `v = s.ver`, see
    `C04_value_events`) is exactly the number of modifications made through the accesses of the
    groups up to and including `a`'s group; every access of an earlier group has been released,
    so those modifications are complete; and no access of a later group has modified the value. -/
theorem C04_sees_writes (s : St) (hr : Reachable s) (a : Nat) (ha : Held s a) :
    s.ver = sumTo s.na (fun b => if s.grp b ≤ s.grp a then s.wr b else 0) ∧
    (∀ b, b < s.na → s.grp b < s.grp a → s.acc b = .released) ∧
    (∀ b, s.grp a < s.grp b → s.wr b = 0) := by
  obtain ⟨log, hlog⟩ := hr
  obtain ⟨hi, hw⟩ := invW_of_accepted hlog
  obtain ⟨ha1, ha2⟩ := held_lt hi ha
  have hlater : ∀ b, s.grp a < s.grp b → s.wr b = 0 := by
    intro b hlt
    by_cases hb : b < s.na
    · cases hz : s.wr b with
      | zero => rfl
      | succ k =>
        have hp := hw.wrPost b (by omega)
        have := granted_pred_released hi hb ha1 hp hlt
        obtain ⟨c, hc⟩ := ha; rw [hc] at this; simp at this
    · exact hw.wrOut b (by omega)
  refine ⟨?_, fun b hb hlt => granted_pred_released hi ha1 hb ha2 hlt, hlater⟩
  rw [hw.verSum]
  apply sumTo_congr
  intro b _
  by_cases hle : s.grp b ≤ s.grp a
  · simp [hle]
  · simp [hle, hlater b (by omega)]

/-- The value events of the acceptor: a read through access `a` is accepted only while `a` is held
    and only with the current version; a write only through a held read-write access, and it
    produces the next version. -/
theorem C04_value_events (s s' : St) (t a v : Nat) :
    (step s (.readv t a v) = some s' → Held s a ∧ v = s.ver) ∧
    (step s (.write t a v) = some s' → Held s a ∧ IsRw s a ∧ v = s.ver + 1 ∧ s'.ver = v) := by
  constructor
  · intro h
    simp only [step] at h
    split at h
    · rename_i c hx
      split at h
      · rename_i hv; exact ⟨⟨c, hx⟩, hv⟩
      · simp at h
    · simp at h
  · intro h
    simp only [step] at h
    split at h
    · rename_i c hx
      split at h
      · rename_i hv
        simp only [Option.some.injEq] at h; subst h
        exact ⟨⟨c, hx⟩, hv.1, hv.2, hv.2.symm⟩
      · simp at h
    · simp at h

/-- the steps the implementation takes on its own once operations have been invoked -/
def Internal : Ev → Prop
  | .load .. | .cas .. | .xchg .. | .cont .. => True
  | _ => False

/-- no thread is inside `add_op_state`, `done()` or a shared-state destructor with a step to take -/
def Stuck (s : St) : Prop := ∀ e, Internal e → step s e = none

/-- if every access of every group before `g` is released, the predecessor of `g` is destroyed -/
private theorem pred_dead {s : St} (hi : Inv s) : ∀ g, g < s.ng →
    (∀ b, b < s.na → s.grp b < g → s.acc b = .released) → g = 0 ∨ s.dead (g - 1) = true := by
  intro g
  induction g with
  | zero => intro _ _; exact Or.inl rfl
  | succ k ih =>
    intro hg hall
    right
    have hk : k < s.ng := by omega
    have hprev := ih hk (fun b hb hlt => hall b hb (by omega))
    have A := hi.account k hk
    have hm : mtxw s k = 0 := by simp [mtxw, mtxwF]; omega
    have hl : linkw s k = 0 := by
      rcases hprev with h | h
      · simp [linkw, linkwF, h]
      · simp [linkw, linkwF, h]
    have hs : gsum s k = 0 := by
      apply sumTo_eq_zero
      intro u hu
      by_cases e : s.grp u = k
      · simp [e, hall u hu (by omega), weight]
      · simp [e]
    have : s.rc k = 0 := by omega
    simpa using (hi.deadRc k hk).2 this

/-- **No stall.**  In every reachable state in which the implementation has no step left to take
    (no thread inside `add_op_state`, `done()` or a destructor), every started access whose
    predecessors - all accesses of all earlier groups - have been released has been granted.
    Together with `C04_progress` (a thread inside one of these functions always has an enabled
    step): under any schedule that keeps running enabled threads, a started access is granted
    once all earlier accesses have been released. -/
theorem C04_no_stall (s : St) (hr : Reachable s) (hs : Stuck s) (a : Nat) (ha : a < s.na)
    (hst : Started s a) (hall : ∀ b, b < s.na → s.grp b < s.grp a → s.acc b = .released) :
    WasGranted s a := by
  obtain ⟨log, hlog⟩ := hr
  have hi := inv_of_accepted hlog
  have hg := hi.grpLt a ha
  unfold WasGranted
  cases hx : s.acc a with
  | none => exact absurd hx hst.1
  | sender => exact absurd hx hst.2
  | granted c => rfl
  | released => rfl
  | starting t det =>
    exfalso
    cases hh : s.head (s.grp a) with
    | some q =>
      have := hs (.load t a (clsOf q) false false) trivial
      simp [step, hx, hh] at this
    | none =>
      have := hs (.load t a 2 (!det) (grantDies s a det)) trivial
      simp [step, hx, hh] at this
  | loaded t det h =>
    exfalso
    cases hh : s.head (s.grp a) with
    | some q =>
      by_cases hl : q.length = h
      · have := hs (.cas t a true 0 false false) trivial
        simp [step, hx, hh, hl] at this
      · have := hs (.cas t a false (clsOf q) false false) trivial
        simp [step, hx, hh] at this
    | none =>
      have := hs (.cas t a false 2 (!det) (grantDies s a det)) trivial
      simp [step, hx, hh] at this
  | queued det =>
    exfalso
    have hp := pred_dead hi (s.grp a) hg hall
    have hni : s.dn (s.grp a) ≠ .idle := by
      intro h
      have := (hi.dnIdle _ hg).1 h
      rcases hp with h0 | h0
      · omega
      · rw [h0] at this; simp at this
    have hmem : a ∈ qof s (s.grp a) := (hi.qMem _ a hg).2 ⟨ha, rfl, by simp [hx, isQ]⟩
    cases hd : s.dn (s.grp a) with
    | idle => exact hni hd
    | pend t =>
      have h1 := hi.headDn _ hg
      rw [hd] at h1
      cases hh : s.head (s.grp a) with
      | none => rw [hh] at h1; simp [isDrain] at h1
      | some q =>
        have := hs (.xchg t (s.grp a) (clsOf q)) trivial
        simp [step, hd, hh, hg] at this
    | drain t r =>
      have h1 := hi.headDn _ hg
      rw [hd] at h1
      have hh : s.head (s.grp a) = none := by
        cases hh : s.head (s.grp a) <;> simp_all [isDrain]
      cases r with
      | nil => simp [qof, qofF, hh, hd] at hmem
      | cons a' rest =>
        have hm' : a' ∈ qof s (s.grp a) := by simp [qof, qofF, hh, hd]
        obtain ⟨m1, m2, m3⟩ := (hi.qMem _ a' hg).1 hm'
        cases hx' : s.acc a' with
        | queued det' =>
          have := hs (.cont t (s.grp a) (ackOf det' a') (grantDies s a' det')) trivial
          simp [step, hd, hx', m2] at this
        | _ => rw [hx'] at m3; simp [isQ] at m3

/-- **Progress.**  A state in which no internal step is enabled has no thread inside
    `add_op_state` (no access between `start()` and its push / inline grant) and no unfinished
    `done()` frame: every call of `done()` has exchanged the head and run all continuations. -/
theorem C04_progress (s : St) (hr : Reachable s) (hs : Stuck s) :
    (∀ a t d, s.acc a ≠ .starting t d) ∧ (∀ a t d h, s.acc a ≠ .loaded t d h) ∧
    (∀ g, g < s.ng → s.dn g = .idle ∨ ∃ t, s.dn g = .drain t []) := by
  obtain ⟨log, hlog⟩ := hr
  have hi := inv_of_accepted hlog
  refine ⟨?_, ?_, ?_⟩
  · intro a t det hx
    cases hh : s.head (s.grp a) with
    | some q =>
      have := hs (.load t a (clsOf q) false false) trivial
      simp [step, hx, hh] at this
    | none =>
      have := hs (.load t a 2 (!det) (grantDies s a det)) trivial
      simp [step, hx, hh] at this
  · intro a t det h hx
    cases hh : s.head (s.grp a) with
    | some q =>
      by_cases hl : q.length = h
      · have := hs (.cas t a true 0 false false) trivial
        simp [step, hx, hh, hl] at this
      · have := hs (.cas t a false (clsOf q) false false) trivial
        simp [step, hx, hh] at this
    | none =>
      have := hs (.cas t a false 2 (!det) (grantDies s a det)) trivial
      simp [step, hx, hh] at this
  · intro g hg
    cases hd : s.dn g with
    | idle => exact Or.inl rfl
    | pend t =>
      exfalso
      have h1 := hi.headDn _ hg
      rw [hd] at h1
      cases hh : s.head g with
      | none => rw [hh] at h1; simp [isDrain] at h1
      | some q =>
        have := hs (.xchg t g (clsOf q)) trivial
        simp [step, hd, hh, hg] at this
    | drain t r =>
      right
      cases r with
      | nil => exact ⟨t, rfl⟩
      | cons a' rest =>
        exfalso
        have h1 := hi.headDn _ hg
        rw [hd] at h1
        have hh : s.head g = none := by
          cases hh : s.head g <;> simp_all [isDrain]
        have hm' : a' ∈ qof s g := by simp [qof, qofF, hh, hd]
        obtain ⟨m1, m2, m3⟩ := (hi.qMem _ a' hg).1 hm'
        cases hx' : s.acc a' with
        | queued det' =>
          have := hs (.cont t g (ackOf det' a') (grantDies s a' det')) trivial
          simp [step, hd, hx', m2] at this
        | _ => rw [hx'] at m3; simp [isQ] at m3

/-- **Solo completion of `add_op_state`.**  A thread that is inside `start()` finishes it within
    three of its own steps if it runs alone: it either pushes its operation state or runs the
    continuation inline (lock-freedom of the CAS loop: a CAS can only fail because the head moved). -/
theorem C04_solo_start (s : St) (a : Nat)
    (hx : (∃ t det, s.acc a = .starting t det) ∨ (∃ t det h, s.acc a = .loaded t det h)) :
    ∃ es s', es.length ≤ 3 ∧ (∀ e, e ∈ es → Internal e) ∧ runLog step s es = some s' ∧
      (isQ (s'.acc a) = true ∨ post (s'.acc a) = true) := by
  -- a CAS with an up-to-date expected value succeeds
  have hfresh : ∀ (s : St) t det (q : List Nat), s.acc a = .loaded t det q.length → s.head (s.grp a) = some q →
      ∃ es s', es.length ≤ 1 ∧ (∀ e, e ∈ es → Internal e) ∧ runLog step s es = some s' ∧
        (isQ (s'.acc a) = true ∨ post (s'.acc a) = true) := by
    intro s t det q hx hh
    refine ⟨[.cas t a true 0 false false],
      { s with head := upd s.head (s.grp a) (some (a :: q)), acc := upd s.acc a (.queued det) }, by simp, ?_, ?_, Or.inl ?_⟩
    · intro e he; simp at he; subst he; trivial
    · simp [runLog, step, hx, hh]
    · simp [upd, isQ]
  -- from `loaded`: at most a failed CAS (stale head) followed by a successful one
  have hloaded : ∀ (s : St) t det h, s.acc a = .loaded t det h →
      ∃ es s', es.length ≤ 2 ∧ (∀ e, e ∈ es → Internal e) ∧ runLog step s es = some s' ∧
        (isQ (s'.acc a) = true ∨ post (s'.acc a) = true) := by
    intro s t det h hx
    cases hh : s.head (s.grp a) with
    | none =>
      refine ⟨[.cas t a false 2 (!det) (grantDies s a det)], grant s t a det, by simp, ?_, ?_, Or.inr (grant_acc_post s t a det)⟩
      · intro e he; simp at he; subst he; trivial
      · simp [runLog, step, hx, hh]
    | some q =>
      obtain ⟨es, s', h1, h2, h3, h4⟩ := hfresh { s with acc := upd s.acc a (.loaded t det q.length) } t det q
        (by simp [upd]) (by simpa using hh)
      refine ⟨.cas t a false (clsOf q) false false :: es, s', by simp; omega, ?_, ?_, h4⟩
      · intro e he; simp at he; rcases he with he | he
        · subst he; trivial
        · exact h2 e he
      · simp only [runLog, step, hx, hh]; simpa using h3
  rcases hx with ⟨t, det, hx⟩ | ⟨t, det, h, hx⟩
  · cases hh : s.head (s.grp a) with
    | none =>
      refine ⟨[.load t a 2 (!det) (grantDies s a det)], grant s t a det, by simp, ?_, ?_, Or.inr (grant_acc_post s t a det)⟩
      · intro e he; simp at he; subst he; trivial
      · simp [runLog, step, hx, hh]
    | some q =>
      obtain ⟨es, s', h1, h2, h3, h4⟩ := hloaded { s with acc := upd s.acc a (.loaded t det q.length) } t det q.length (by simp [upd])
      refine ⟨.load t a (clsOf q) false false :: es, s', by simp; omega, ?_, ?_, h4⟩
      · intro e he; simp at he; rcases he with he | he
        · subst he; trivial
        · exact h2 e he
      · simp only [runLog, step, hx, hh]; simpa using h3
  · obtain ⟨es, s', h1, h2, h3, h4⟩ := hloaded s t det h hx
    exact ⟨es, s', by omega, h2, h3, h4⟩

private theorem reachable_step {s s' : St} {e : Ev} (hr : Reachable s) (h : step s e = some s') : Reachable s' := by
  obtain ⟨log, hlog⟩ := hr
  refine ⟨log ++ [e], ?_⟩
  rw [runLog_append, hlog]; simp [runLog, h]

/-- **Solo completion of `done()`.**  A `done()` frame with `n` continuations left finishes in `n`
    steps of its thread (each runs one continuation; the frames it may open on later groups are
    separate obligations of the same kind). -/
theorem C04_solo_done (g t : Nat) : ∀ (r : List Nat) (s : St), Reachable s → g < s.ng → s.dn g = .drain t r →
    ∃ es s', es.length = r.length ∧ (∀ e, e ∈ es → Internal e) ∧ runLog step s es = some s' ∧
      s'.dn g = .drain t [] := by
  intro r
  induction r with
  | nil => intro s _ _ hd; exact ⟨[], s, rfl, by simp, rfl, hd⟩
  | cons a' rest ih =>
    intro s hr hg hd
    obtain ⟨log, hlog⟩ := hr
    have hi := inv_of_accepted hlog
    · have h1 := hi.headDn g hg
      rw [hd] at h1
      have hh : s.head g = none := by cases hh : s.head g <;> simp_all [isDrain]
      have hm' : a' ∈ qof s g := by simp [qof, qofF, hh, hd]
      obtain ⟨m1, m2, m3⟩ := (hi.qMem _ a' hg).1 hm'
      cases hx' : s.acc a' with
      | queued det' =>
        let s0 : St := { s with dn := upd s.dn g (.drain t rest) }
        have hstep : step s (.cont t g (ackOf det' a') (grantDies s a' det')) = some (grant s0 t a' det') := by
          simp [step, hd, hx', m2, s0]
        have hdn : (grant s0 t a' det').dn g = .drain t rest := by
          have := grant_dn_self s0 t a' det'
          have hg0 : s0.grp a' = g := m2
          rw [hg0] at this; rw [this]; simp [s0, upd]
        obtain ⟨es, s', e1, e2, e3, e4⟩ := ih _ (reachable_step ⟨log, hlog⟩ hstep) (by rw [grant_ng]; exact hg) hdn
        refine ⟨.cont t g (ackOf det' a') (grantDies s a' det') :: es, s', by simp [e1], ?_, ?_, e4⟩
        · intro e he; simp at he; rcases he with he | he
          · subst he; trivial
          · exact e2 e he
        · simp only [runLog, hstep]; exact e3
      | _ => rw [hx'] at m3; simp [isQ] at m3

/-! ## Non-vacuity: concrete accepted logs reaching the interesting states -/

/-- w0, r1, r2 requested; 0 started and granted inline; 1 started while 0 is held: queued;
    0 released: its shared state dies, `done()` on the read group grants 1 from the queue;
    2 started: granted inline; 1 and 2 are held together. -/
def exampleLog : List Ev :=
  [.req 0 0 true true false, .xchg 0 0 0, .req 0 1 false true false, .req 0 2 false false false,
   .start 1 0 false, .load 1 0 2 true false,
   .start 2 1 false, .load 2 1 0 false false, .cas 2 1 true 0 false false,
   .write 1 0 1, .rel 1 0 true, .xchg 1 1 1, .cont 1 1 (some 1) false,
   .start 0 2 false, .load 0 2 2 true false, .readv 2 1 1]

example : (runLog step init exampleLog).isSome = true := by decide

/-- evaluate a Boolean observation on the state reached by a log -/
def reaches (log : List Ev) (p : St → Bool) : Bool :=
  match runLog step init log with
  | some s => p s
  | none => false

/-- at the end 1 and 2 (reads of one group) are held together, 0 has been released -/
example : reaches exampleLog (fun s => s.acc 1 == .granted 0 && s.acc 2 == .granted 0 &&
    s.acc 0 == .released && s.grp 1 == s.grp 2) = true := by decide

/-- a started access that is legitimately waiting: 1 is queued behind the held access 0 -/
example : reaches (exampleLog.take 9) (fun s => s.acc 1 == .queued false && s.acc 0 == .granted 0) = true := by
  decide

/-- mutex destroyed early, last access released afterwards, then the value is destroyed -/
example : (runLog step init
    [.req 0 0 true true false, .xchg 0 0 0, .destroy 0 false, .start 1 0 false,
     .load 1 0 2 true false, .rel 1 0 true, .vfree 1]).isSome = true := by decide

end PikaVerif.C04
