import PikaVerif.Core.Basic
import PikaVerif.Core.Sum
import PikaVerif.Model.Sem
import PikaVerif.Lemmas.Sem
import PikaVerif.Lemmas.Sem2
import PikaVerif.Props.C08
import PikaVerif.Model.Erase
