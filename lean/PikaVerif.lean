import PikaVerif.Core.Basic
