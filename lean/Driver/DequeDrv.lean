import PikaVerif.Model.Deque
import Driver.Util
/-! Driver for the lock-free deque model (C17): parser, acceptor run, independent monitors. -/
namespace Driver.DequeDrv
open PikaVerif PikaVerif.Deque Driver

def backendOf (kind : String) : Option Backend :=
  match kind with
  | "lifo" => some .lifo
  | "abp_fifo" => some .abpFifo
  | "abp_lifo" => some .abpLifo
  | _ => none

/-- Translate hook lines to model events.  `dq.pt` (the grant of a preemption point) and `dq.op`
    (entry of a deque operation, used by the adapter monitor) carry no state change; `dq.ld` must be
    followed by the `dq.ldt` line of the same thread (the two halves of the loaded anchor). -/
partial def toEvents (be : Option Backend) : List Line → List (Option Ev × String) → List (Option Ev × String)
  | [], acc => acc.reverse
  | l :: rest, acc =>
    let t := l.tid
    let push (e : Ev) := toEvents be rest ((some e, l.raw) :: acc)
    let bad (_ : Unit) := toEvents be rest ((none, l.raw) :: acc)
    match l.site with
    | "dq.pt" | "dq.op" | "dq.tags" | "drain" | "drainr" => toEvents be rest acc
    | "inv.pushl" => push (.inv t true false l.a.toNat)
    | "inv.pushr" => push (.inv t true true l.a.toNat)
    | "inv.popl" => push (.inv t false false 0)
    | "inv.popr" => push (.inv t false true 0)
    | "inv.bpush" =>
      match be with
      | some b => push (.inv t true (b.pushEnd (l.b != 0)) l.a.toNat)
      | none => bad ()
    | "inv.bpop" =>
      match be with
      | some b => push (.inv t false (b.popEnd (l.a != 0)) 0)
      | none => bad ()
    | "dq.alloc" => push (.alloc t l.a.toNat)
    | "dq.ld" =>
      match rest with
      | r :: rest' =>
        if r.tid == t && r.site == "dq.ldt" then
          toEvents be rest' ((some (.ld t ⟨l.a.toNat, l.b.toNat, r.a.toNat, r.b.toNat⟩), l.raw ++ " + " ++ r.raw) :: acc)
        else bad ()
      | [] => bad ()
    | "dq.chk" => push (.chk t (l.a != 0))
    | "dq.rd" => push (.rd t ⟨l.a.toNat, l.b.toNat⟩)
    | "dq.link" => push (.link t l.a.toNat l.b.toNat)
    | "dq.lcas" => push (.lcas t (l.a != 0))
    | "dq.cas" => push (.cas t (l.a != 0))
    | "dq.free" => push (.free t l.a.toNat)
    | "ret" => push (.ret t (l.a != 0) l.b.toNat)
    | "done" => push (.done t)
    | _ => bad ()

/-- `fx`: tagging discipline of the code that produced the log (`Deque.stepG`): the repaired
    `alloc_node` logs a `dq.tags` line, the pinned tree's does not. -/
def accept (fx : Bool) (s : St) : List (Option Ev × String) → Nat → Except (Nat × String) St
  | [], _ => .ok s
  | (none, raw) :: _, i => .error (i, "unparsed: " ++ raw)
  | (some e, raw) :: rest, i =>
    match stepG fx s e with
    | some s' => accept fx s' rest (i + 1)
    | none => .error (i, raw)

/-- independent check of the repaired discipline on the raw log: the tags `alloc_node` gives to a
    node (line `dq.tags`, obj = node) grow strictly from one allocation of that node to the next -/
def tagMonitor (ls : List Line) : List String :=
  let step (acc : List (Nat × Int × Int) × List String) (l : Line) : List (Nat × Int × Int) × List String :=
    if l.site == "dq.tags" then
      match acc.1.find? (fun e => e.1 == l.obj) with
      | some (_, lt, rt) =>
        let acc1 := (l.obj, l.a, l.b) :: acc.1.filter (fun e => e.1 != l.obj)
        if l.a > lt && l.b > rt then (acc1, acc.2)
        else (acc1, s!"alloc_node gave node {l.obj} the link tags ({l.a},{l.b}) after ({lt},{rt}): tags did not grow across recycling" :: acc.2)
      | none => ((l.obj, l.a, l.b) :: acc.1, acc.2)
    else acc
  (ls.foldl step ([], [])).2.reverse

/-! Independent monitors on the raw event list (tests, not proofs): bag accounting of values,
    sequential reference for single-threaded cases, adapter end check, quiescent-pop check. -/

def countOf (v : Int) (l : List Int) : Nat := (l.filter (· == v)).length

structure Mon where
  pushedInv : List Int := []                 -- values of invoked pushes
  pushedRet : List Int := []                 -- values of completed pushes
  popped : List Int := []
  inflight : Nat := 0
  curOp : Nat → String := fun _ => ""
  curVal : Nat → Int := fun _ => 0
  curFlag : Nat → Int := fun _ => 0
  alone : Nat → Bool := fun _ => false       -- no other operation overlapped the current one so far
  sizeAtInv : Nat → Int := fun _ => 0
  expectOp : Nat → Int := fun _ => -1        -- deque operation code the adapter must call
  seqModel : List Int := []                  -- reference deque for single-threaded cases
  producerOf : List (Int × Nat) := []        -- fifo: value ↦ producer thread
  fifoPopOrder : List Int := []
  viol : List String := []

def opCode (kind : String) (site : String) (a b : Int) : Int :=
  match backendOf kind, site with
  | _, "inv.pushl" => 0
  | _, "inv.pushr" => 1
  | _, "inv.popl" => 2
  | _, "inv.popr" => 3
  | some be, "inv.bpush" => if be.pushEnd (b != 0) then 1 else 0
  | some be, "inv.bpop" => if be.popEnd (a != 0) then 3 else 2
  | _, _ => -1

def isInv (site : String) : Bool := site.startsWith "inv."
def isPushSite (site : String) : Bool := site == "inv.pushl" || site == "inv.pushr" || site == "inv.bpush"

def monStep (kind : String) (single : Bool) (m : Mon) (l : Line) : Mon :=
  let t := l.tid
  if isInv l.site then
    let others := m.inflight
    -- every operation already in flight is now overlapped
    let m := { m with alone := fun u => if u == t then others == 0 else false,
                      inflight := m.inflight + 1, curOp := upd m.curOp t l.site,
                      curVal := upd m.curVal t l.a, curFlag := upd m.curFlag t l.b,
                      sizeAtInv := upd m.sizeAtInv t ((m.pushedRet.length : Int) - m.popped.length),
                      expectOp := upd m.expectOp t (opCode kind l.site l.a l.b) }
    if isPushSite l.site then
      { m with pushedInv := l.a :: m.pushedInv, producerOf := (l.a, t) :: m.producerOf } else m
  else match l.site with
  | "dq.op" =>
    let m' := { m with expectOp := upd m.expectOp t (-1) }
    if m.expectOp t != l.a then
      { m' with viol := s!"thread {t}: {m.curOp t} flag={if isPushSite (m.curOp t) then m.curFlag t else m.curVal t} called deque operation {l.a}, the adapter's stated end is operation {m.expectOp t}" :: m.viol }
    else m'
  | "ret" =>
    let op := m.curOp t
    let ok := l.a != 0
    let m := { m with inflight := m.inflight - 1, curOp := upd m.curOp t "" }
    if isPushSite op then
      let m := { m with pushedRet := m.curVal t :: m.pushedRet }
      let m := if ok then m else { m with viol := s!"thread {t}: push returned false" :: m.viol }
      if single then
        let right := opCode kind op (m.curVal t) (m.curFlag t) == 1
        { m with seqModel := if right then m.seqModel ++ [m.curVal t] else m.curVal t :: m.seqModel }
      else m
    else
      -- a pop
      let right := opCode kind op (m.curVal t) (m.curFlag t) == 3
      let m :=
        if ok then
          let v := l.b
          let m1 := { m with popped := v :: m.popped, fifoPopOrder := v :: m.fifoPopOrder }
          if countOf v m.pushedInv == 0 then
            { m1 with viol := s!"thread {t}: popped value {v} that was never pushed (invented)" :: m1.viol }
          else if countOf v m1.popped > countOf v m.pushedInv then
            { m1 with viol := s!"thread {t}: value {v} popped {countOf v m1.popped} times but pushed {countOf v m.pushedInv} time(s) (duplicate)" :: m1.viol }
          else m1
        else if m.alone t && m.sizeAtInv t > 0 && kind != "fifo" then
          { m with viol := s!"thread {t}: pop returned false on a quiescent container holding {m.sizeAtInv t} element(s)" :: m.viol }
        else m
      if single && kind != "fifo" then
        let exp : Option Int := if right then m.seqModel.getLast? else m.seqModel.head?
        let m' := { m with seqModel := if right then m.seqModel.dropLast else m.seqModel.tail }
        let got : Option Int := if ok then some l.b else none
        if exp != got then
          { m' with viol := s!"single-threaded order: pop at the {if right then "right" else "left"} end returned {got}, the reference deque gives {exp}" :: m'.viol }
        else m'
      else m
  | _ => m

/-- sorted copy (insertion sort; lists are short) -/
def isort (l : List Int) : List Int :=
  l.foldl (fun acc x => (acc.takeWhile (· ≤ x)) ++ [x] ++ (acc.dropWhile (· ≤ x))) []

def monitors (c : Case) (ls : List Line) (n : Nat) : List String :=
  let kind := c.get "kind" "deque"
  let m := ls.foldl (monStep kind (n == 1)) {}
  let drained := ls.filterMap (fun l => if l.site == "drain" then some l.a else none)
  let endv :=
    if c.status == "ok" then
      let out := isort (m.popped ++ drained)
      let inn := isort m.pushedInv
      if out != inn then
        let missing := inn.filter (fun v => countOf v out < countOf v inn)
        let extra := out.filter (fun v => countOf v out > countOf v inn)
        [s!"after all threads finished and the container was drained: pushed {inn.length} popped+drained {out.length}; lost {missing.eraseDups}; duplicated/invented {extra.eraseDups}"]
      else []
    else [s!"run ended with status '{c.status}'"]
  -- fifo back-end (moodycamel, tested against the FIFO spec only): values of one producer
  -- leave in the order they were pushed
  let fifov :=
    if kind == "fifo" then
      let order := m.fifoPopOrder.reverse ++ drained
      let pushedOrder := m.pushedInv.reverse
      (List.range n).filterMap (fun p =>
        let mine := pushedOrder.filter (fun v => m.producerOf.any (fun q => q.1 == v && q.2 == p))
        let outp := order.filter (fun v => mine.contains v)
        if mine.eraseDups.length == mine.length && outp != mine && outp.length == mine.length then
          some s!"fifo back-end: values of producer {p} pushed as {mine} left as {outp}"
        else none)
    else []
  m.viol.reverse ++ endv ++ fifov

/-! Solo monitor (follow-up C17t; tests the bound of `Props/C17Solo.lean` on the real runs): an
operation during which no other thread produced an event — other threads may be stalled anywhere
inside their own operations — must consist of at most `Deque.soloBound push` model events (`inv` and
`ret` included: 19 for a push, 14 for a pop), a solo push must answer `true`, and a solo pop must
answer `false` exactly when the model's chain was empty at its `inv` (`C17_deque_solo_bound`). -/
structure SoloOp where
  t : Nat
  push : Bool
  cnt : Nat
  disturbed : Bool
  emptyAtInv : Option Bool   -- `none`: the acceptor had already rejected the log
  reported : Bool := false

structure SoloAcc where
  st : Option St
  ops : List SoloOp := []
  checked : Nat := 0      -- solo operations checked
  helped : Nat := 0       -- of these: run while another thread was stalled inside an operation
  maxPush : Nat := 0
  maxPop : Nat := 0
  viol : List String := []

/-- The event counting does not depend on the acceptor (it goes on after a rejected event); only
    the expected answer of a solo pop uses the model state at its `inv`. -/
def soloStep (fx : Bool) (a : SoloAcc) (e : Ev) : SoloAcc :=
  let t := e.tid
  let s' := a.st.bind (fun s => stepG fx s e)
  let ops := a.ops.map (fun o => if o.t == t then { o with cnt := o.cnt + 1 } else { o with disturbed := true })
  -- an operation still running alone beyond the bound: it does not terminate within the bound
  let over := ops.filter (fun o => o.t == t && !o.disturbed && !o.reported && o.cnt > soloBound o.push)
  let vo := over.map (fun o => s!"thread {t}: a {if o.push then "push" else "pop"} running alone has taken {o.cnt} events (solo bound {soloBound o.push})" ++ (match e with | .ret .. => "" | _ => " and has not returned"))
  let ops := ops.map (fun o => if o.t == t && !o.disturbed && o.cnt > soloBound o.push then { o with reported := true } else o)
  let a := { a with viol := vo ++ a.viol }
  match e with
  | .inv _ push _ _ =>
    { a with st := s', ops := { t := t, push := push, cnt := 1, disturbed := false,
                                emptyAtInv := a.st.map (fun s => (contents s).isEmpty) } :: ops }
  | .ret _ ok _ =>
    match ops.find? (fun o => o.t == t) with
    | none => { a with st := s', ops := ops }
    | some o =>
      let ops' := ops.filter (fun o => o.t != t)
      if o.disturbed then { a with st := s', ops := ops' } else
      let v2 := match o.emptyAtInv with
        | none => []
        | some emp =>
          if ok != (o.push || !emp) then
            [s!"thread {t}: a {if o.push then "push" else "pop"} that ran alone returned {ok}; the model's chain was {if emp then "empty" else "non-empty"} when it began"]
          else []
      { a with st := s', ops := ops', checked := a.checked + 1,
               helped := a.helped + (if ops'.isEmpty then 0 else 1),
               maxPush := if o.push then max a.maxPush o.cnt else a.maxPush,
               maxPop := if o.push then a.maxPop else max a.maxPop o.cnt,
               viol := v2 ++ a.viol }
  | _ => { a with st := s', ops := ops }

def soloMon (fx : Bool) (n : Nat) (evs : List (Option Ev × String)) : SoloAcc :=
  evs.foldl (fun a p => match p.1 with
    | some e => soloStep fx a e
    | none => { a with st := none }) { st := some (Deque.init n) }

def runCase (c : Case) : String :=
  let n := c.threads.length
  let kind := c.get "kind" "deque"
  let parsed := c.lines.map parseLine
  if parsed.any Option.isNone then s!"case {c.id} reject 0 malformed-line" else
  let ls := parsed.filterMap id
  let fx := ls.any (fun l => l.site == "dq.tags")
  let mon := monitors c ls n ++ tagMonitor ls
  let monS := if mon.isEmpty then "monitors ok" else "monitors FAIL: " ++ " | ".intercalate mon
  if kind == "fifo" then
    -- third-party queue: conformance to the FIFO/bag specification is tested by the monitors only
    s!"case {c.id} accept 0 ; final fifo-spec ; {monS}"
  else
  let evs := toEvents (backendOf kind) ls []
  let so := soloMon fx n evs
  let mon := mon ++ so.viol.reverse
  let monS := if mon.isEmpty then "monitors ok" else "monitors FAIL: " ++ " | ".intercalate mon
  match accept fx (Deque.init n) evs 0 with
  | .error (i, raw) => s!"case {c.id} reject {i} [{raw}] ; {monS}"
  | .ok s =>
    let drained := ls.filterMap (fun l => if l.site == "drain" then some l.a.toNat else none)
    -- the harness drains with the owner's pop (`pop(v, steal = false)`): from the right end for abp_fifo
    let expect := match backendOf kind with
      | some b => if b.popEnd false then (contents s).reverse else contents s
      | none => contents s
    let fin :=
      if c.status == "ok" then
        if !(List.range n).all (fun t => s.pc t == .fin) then
          "final MISMATCH: run ended but model threads are not finished"
        else if expect != drained then
          s!"final MISMATCH: drained {drained} but the model's chain holds {contents s}"
        else s!"final ok len={s.chain.length} stale={s.stale} tags={if fx then "keep" else "reset"} solo={so.checked}/{so.helped} solomax={so.maxPush}/{so.maxPop}"
      else s!"final status {c.status}"
    s!"case {c.id} accept {evs.length} ; {fin} ; {monS}"

end Driver.DequeDrv
