import PikaVerif.Model.Latch
import Driver.Util
/-! Driver for the latch model (C09): parser, acceptor run, independent monitors. -/
namespace Driver.LatchDrv
open PikaVerif PikaVerif.Latch Driver

/-- Translate hook lines to model events.  `sl.lock` / `ag.yield` (spinning on the internal
    lock) and the grant line of the `latch.count_down` preemption point carry no state change
    and are dropped; `cv.pop` must be followed immediately by the agent call of the same thread
    and is merged with it. -/
partial def toEvents : List Line → List (Option Ev × String) → List (Option Ev × String)
  | [], acc => acc.reverse
  | l :: rest, acc =>
    let t := l.tid
    let push (e : Ev) := toEvents rest ((some e, l.raw) :: acc)
    let bad (_ : Unit) := toEvents rest ((none, l.raw) :: acc)
    match l.site with
    | "sl.lock" | "ag.yield" | "latch.count_down" | "latch.inlock" => toEvents rest acc
    -- agent=task runs (follow-up C09p): trailing statistics line of the task agent (real suspensions,
    -- resumes that hit a still-active task; timing dependent) and the marker of a run that fell back
    -- to the OS-thread agent; `tk.spurious` / `tk.lost` stay unparsed (reject) and fail a monitor
    | "tk.stat" | "tk.fallback" => toEvents rest acc
    | "inv.wait" => push (.inv t .wait)
    | "inv.try" => push (.inv t .tryWait)
    | "inv.cd" => if l.a < 0 then bad () else push (.inv t (.cd l.a.toNat))
    | "inv.aw" => if l.a < 0 then bad () else push (.inv t (.aw l.a.toNat))
    | "ret" => push (.ret t (l.a != 0))
    | "sl.acq" => push (.slAcq t)
    | "sl.rel" => push (.slRel t)
    | "latch.dec" => if l.b < 0 then bad () else push (.dec t l.a l.b.toNat)
    | "latch.notified" => push (.notified t (l.a != 0))
    | "latch.mustwait" => push (.mustwait t l.a (l.b != 0))
    | "latch.nowait" => push (.nowait t l.a (l.b != 0))
    | "cv.enq" => if l.b != 0 then bad () else push (.cvEnq t l.a.toNat)
    | "cv.none" => push (.cvNone t)
    | "cv.woke" => if l.b != 0 then bad () else push (.cvWoke t (l.a != 0))
    | "ag.suspend" => push (.suspend t)
    | "ag.woke" => push (.woke t)
    | "done" => push (.done t)
    | "cv.pop" =>
      match rest with
      | r :: rest' =>
        if r.tid == t && r.site == "ag.resume" then
          toEvents rest' ((some (.popResume t l.a.toNat r.a.toNat), l.raw ++ " + " ++ r.raw) :: acc)
        else bad ()
      | [] => bad ()
    | _ => bad ()

def accept (s : St) : List (Option Ev × String) → Nat → Except (Nat × String) St
  | [], _ => .ok s
  | (none, raw) :: _, i => .error (i, "unparsed: " ++ raw)
  | (some e, raw) :: rest, i =>
    match step s e with
    | some s' => accept s' rest (i + 1)
    | none => .error (i, raw)

def pcClass (s : St) (t : Nat) : String :=
  match s.pc t with
  | .idle => "idle"
  | .fin => "fin"
  | .susp false => if s.tok t == 0 then "blocked" else "enabled"
  | _ => "enabled"

/-- Independent monitors on the raw event list (tests, not proofs; used to turn a broken
    correspondence into a concrete violation).  They recompute the counter from the updates
    only and look at invocations / returns / parked threads. -/
structure Mon where
  init : Int
  decs : Int := 0
  curOp : Nat → String := fun _ => ""
  parked : Nat → Bool := fun _ => false
  viol : List String := []

def monStep (m : Mon) (l : Line) : Mon :=
  let t := l.tid
  match l.site with
  | "inv.wait" | "inv.try" | "inv.cd" | "inv.aw" => { m with curOp := upd m.curOp t l.site }
  | "latch.dec" =>
    let m := { m with decs := m.decs + l.b }
    if l.a != m.init - m.decs then
      { m with viol := s!"counter {l.a} after an update of {l.b} differs from initial - sum of updates = {m.init - m.decs}" :: m.viol }
    else m
  | "ag.suspend" => { m with parked := upd m.parked t true }
  | "ag.woke" => { m with parked := upd m.parked t false }
  | "tk.spurious" => { m with viol := s!"task {t}: the suspension of the pika task ended although no resume had been issued (spurious wake-up of the task agent)" :: m.viol }
  | "tk.diff" => { m with viol := s!"the log of the run on pika tasks differs from the log of the run of the same case on OS threads (first difference at line {l.a}): the behaviour depends on the kind of agent" :: m.viol }
  | "tk.lost" => { m with viol := s!"task {t}: resumed {l.a} time(s) through pika's task agent but the task stays suspended and nothing in the runtime can wake it (lost wake-up of the task agent)" :: m.viol }
  | "ret" =>
    let op := m.curOp t
    let cnt := m.init - m.decs
    let v1 := if (op == "inv.wait" || op == "inv.aw") && cnt > 0 then
      [s!"thread {t}: {op} returned although the counter is {cnt} > 0 (released early)"] else []
    let v2 := if op == "inv.try" && (l.a != 0) != (cnt == 0) then
      [s!"thread {t}: try_wait returned {l.a} although the counter is {cnt}"] else []
    { m with viol := v1 ++ v2 ++ m.viol }
  | _ => m

def monitors (c : Case) (ls : List Line) (n : Nat) : List String :=
  let m := ls.foldl monStep { init := c.getInt "init" }
  let cnt := m.init - m.decs
  let endv :=
    if c.status == "deadlock" then
      (List.range n).filterMap (fun t =>
        if m.parked t && (m.curOp t == "inv.wait" || m.curOp t == "inv.aw") && cnt == 0 then
          some s!"thread {t} is blocked in {m.curOp t} at quiescence although the counter has reached zero (lost waiter)"
        else none)
    else []
  let stv := if c.status == "ok" || c.status == "deadlock" then [] else [s!"run ended with status '{c.status}'"]
  m.viol.reverse ++ endv ++ stv

def runCase (c : Case) : String :=
  let n := c.threads.length
  let parsed := c.lines.map parseLine
  if parsed.any Option.isNone then s!"case {c.id} reject 0 malformed-line" else
  let ls := parsed.filterMap id
  let evs := toEvents ls []
  let mon := monitors c ls n
  let monS := if mon.isEmpty then "monitors ok" else "monitors FAIL: " ++ " | ".intercalate mon
  match accept (Latch.init n (c.getInt "init")) evs 0 with
  | .error (i, raw) => s!"case {c.id} reject {i} [{raw}] ; {monS}"
  | .ok s =>
    let classes := (List.range n).map (pcClass s)
    let fin :=
      if c.status == "ok" then
        if classes.all (· == "fin") then "final ok" else "final MISMATCH: run ended but model threads " ++ toString classes
      else if c.status == "deadlock" then
        if classes.all (fun x => x == "fin" || x == "blocked" || x == "idle") && s.lock.isNone
        then s!"final stuck blocked={(classes.filter (· == "blocked")).length} counter={s.counter}"
        else "final MISMATCH: implementation is quiescent but model threads " ++ toString classes
      else s!"final status {c.status}"
    s!"case {c.id} accept {evs.length} ; {fin} ; {monS}"

end Driver.LatchDrv
