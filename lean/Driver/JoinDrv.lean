import PikaVerif.Model.Join
import PikaVerif.Model.JoinCatch
import Driver.Util
/-! Driver for the join / exit-callback / interruption model (C13): E2 logs of `harness/e2/join.cpp`. -/
namespace Driver.JoinDrv
open PikaVerif PikaVerif.Join Driver

/-- `none` = unparsed (reject); `some none` = stutter (dropped); `some (some e)` = model event -/
def toEv (l : Line) : Option (Option Ev) :=
  let o := l.obj
  let x := l.a.toNat
  let y := l.b.toNat
  match l.site with
  | "task.new" => some none
  | "term" => some (some (.term o))
  | "jn.start" => some (some (.start o x y))
  | "jn.body" => some (some (.body o))
  | "jn.bodydone" => some (some (.bodyDone o))
  | "jn.interrupted" => some (some (.interrupted o))
  | "jn.exited" => some (some (.exited o))
  | "jn.lock" => some (some (.jnLock o x))
  | "jn.err" => some (some (.jnErr o x y))
  | "jn.checked" => some (some (.jnChecked o x y))
  | "jn.unlock" => some (some (.jnUnlock o x))
  | "jn.susp" => some (some (.jnSusp o x))
  | "jn.woke" => some (some (.jnWoke o x))
  | "jn.done" => some (some (.jnDone o x))
  | "jn.joinable" => some (some (.joinable o x (y != 0)))
  | "jn.detach" => some (some (.detach o x (y != 0)))
  | "jn.resume" => some (some (.resume o x))
  | "x.uadd" => some (some (.uadd o x y))
  | "x.cb" => some (some (.ucb o x y))
  | "ec.add" => some (some (.ecAdd o x y))
  | "ec.begin" => some (some (.ecBegin o x))
  | "ec.take" => some (some (.ecTake o x))
  | "ec.next" => some (some (.ecNext o x))
  | "ec.ran" => some (some (.ecRan o))
  | "ip.enable" => some (some (.ipEnable o (x != 0) (y != 0)))
  | "ip.refuse" => some (some (.ipRefuse o))
  | "ip.req" => some (some (.ipReq o (x != 0)))
  | "ip.test" => if x != 0 then some (some (.ipHit o (y != 0))) else some (some (.ipMiss o))
  | "ip.clear" => some (some (.ipClear o))
  | "jt.dtor" => some (some (.jtDtor o x))
  | "jt.stop" => some (some (.jtStop o x (y != 0)))
  | "jt.joined" => some (some (.jtJoined o x))
  | "jt.skip" => some (some (.jtSkip o x))
  | "jn.mvctor" => some (some (.mvCtor o x (if y == 0 then none else some y)))
  | "jn.mvassign" => some (some (.mvAssign o x (if y == 0 then none else some y)))
  | "jn.mvterm" => some (some (.mvTerm o x))
  | "jn.swap" => some (some (.swap o x (if y == 0 then none else some y)))
  | "jn.dtor" => some (some (.dtorOk o x))
  | "jn.dtorterm" => some (some (.dtorTerm o x))
  | _ => none

def accept (s : St) : List Line → Nat → Nat → Except (Nat × String) (St × Nat)
  | [], _, n => .ok (s, n)
  | l :: rest, i, n =>
    match toEv l with
    | none => .error (i, "unparsed: " ++ l.raw)
    | some none => accept s rest (i + 1) n
    | some (some e) =>
      match step s e with
      | some s' => accept s' rest (i + 1) (n + 1)
      | none => .error (i, l.raw)

/-- (C13j) replay through `JoinCatch` (user code that handles `thread_interrupted`): every hook event is judged by
    `Join.step` as above; when an event is not acceptable and the task that executes it is `unwinding`, a handler of
    the user code must have swallowed the exception — the model event `caught` is inferred (there is no hook in user
    code), then the event has to be acceptable.  Result: final state, accepted model events, inferred handlers. -/
def acceptC (stp : JoinCatch.St → JoinCatch.Ev → Option JoinCatch.St) (s : JoinCatch.St) :
    List Line → Nat → Nat → Nat → Except (Nat × String) (JoinCatch.St × Nat × Nat)
  | [], _, n, k => .ok (s, n, k)
  | l :: rest, i, n, k =>
    match toEv l with
    | none => .error (i, "unparsed: " ++ l.raw)
    | some none => acceptC stp s rest (i + 1) n k
    | some (some e) =>
      match stp s (.base e) with
      | some s' => acceptC stp s' rest (i + 1) (n + 1) k
      | none =>
        match JoinCatch.actor e with
        | none => .error (i, l.raw)
        | some t =>
          match stp s (.caught t) with
          | none => .error (i, l.raw)
          | some s1 =>
            match stp s1 (.base e) with
            | some s' => acceptC stp s' rest (i + 1) (n + 2) (k + 1)
            | none => .error (i, l.raw)

/-- Independent monitors on the raw log (observables only, no model state):
    * every `jn.done` of a joiner is preceded by the `jn.bodydone` of the target named in its
      `jn.checked`;
    * every user callback accepted (`ec.add … 1` after `x.uadd k`) runs exactly once (`x.cb k`) — checked
      at the end for targets that reached `ec.ran`;
    * `jn.interrupted t` is preceded by an `ip.test` hit of `t`. -/
structure Mon where
  bodyDone : List Nat := []
  target : List (Nat × Nat) := []      -- joiner ↦ target of the join in progress
  hit : List Nat := []
  fails : List String := []

def monStep (m : Mon) (l : Line) : Mon :=
  match l.site with
  | "jn.bodydone" => { m with bodyDone := l.obj :: m.bodyDone }
  | "jn.checked" => { m with target := (l.a.toNat, l.b.toNat) :: m.target.filter (·.1 != l.a.toNat) }
  | "jn.done" =>
    match m.target.find? (·.1 == l.a.toNat) with
    | some (_, t) =>
      if m.bodyDone.contains t then m
      else { m with fails := s!"join by task {l.a} on handle {l.obj} completed before the thread function of task {t} returned" :: m.fails }
    | none => { m with fails := s!"join by task {l.a} completed without a checked target" :: m.fails }
  | "ip.test" => if l.a != 0 then { m with hit := l.obj :: m.hit } else m
  | "jn.dtorterm" => { m with fails := s!"std::terminate event: handle {l.obj} destroyed while joinable" :: m.fails }
  | "jn.mvterm" => { m with fails := s!"std::terminate event: move assignment onto the joinable handle {l.obj}" :: m.fails }
  | "jn.interrupted" =>
    if m.hit.contains l.obj then m
    else { m with fails := s!"task {l.obj} ended by an interruption that no interruption point delivered" :: m.fails }
  | _ => m

def runCase (c : Case) : String :=
  let mons := c.lines.filter (·.startsWith "monitor ")
  let evl := c.lines.filter (fun l => !(l.startsWith "monitor ") && !(l.startsWith "stat "))
  let parsed := evl.map parseLine
  if parsed.any Option.isNone then s!"case {c.id} reject 0 malformed-line" else
  if evl.length > 500000 then s!"case {c.id} reject 0 [log too long: {evl.length} lines] ; monitors FAIL: run ended with status '{c.status}'" else
  let ls := parsed.filterMap id
  let m := ls.foldl monStep {}
  let allMon := mons ++ m.fails.reverse.take 5 ++ (if c.status == "ok" then [] else [s!"run ended with status '{c.status}'"])
  let monS := if allMon.isEmpty then "monitors ok" else "monitors FAIL: " ++ " | ".intercalate allMon
  -- directed program `joinpend`: the user code HANDLES thread_interrupted and carries on.  The main acceptor models an
  -- interruption as the end of the thread function (theorem `C13_interrupt_ends_thread` is about exactly that), so this
  -- program is replayed through the acceptor `JoinCatch` (follow-up C13j; theorems in Props/C13j.lean); monitors as before.
  if c.get "prog" == "joinpend" then
    match acceptC JoinCatch.step JoinCatch.init ls 0 0 0 with
    | .error (i, raw) =>
      -- diagnosis only: does the log replay through the register-first variant (`stepRF`, the model of the seeded change
      -- C13f whose failing log is theorem `C13j_register_first_releases_join_early`)?
      let rf := match acceptC JoinCatch.stepRF JoinCatch.init ls 0 0 0 with
        | .ok (_, n, _) => s!"the log replays through the register-first variant stepRF ({n} events)"
        | .error (i2, _) => s!"the register-first variant stepRF stops at {i2}"
      s!"case {c.id} reject {i} [{raw}] ; {rf} ; {monS}"
    | .ok (s, n, k) =>
      let ntask := ls.foldl (fun m l => max m (max l.obj (max l.a.toNat l.b.toNat))) 0
      let ts := List.range (ntask + 1)
      let bad := ts.filter (fun t =>
        s.base.jpc t != .out || s.base.tok t != 0 || s.base.mtx t != none ||
        !(s.base.phase t == .fresh || s.base.phase t == .exited || s.base.phase t == .body) || (s.base.dt t).isSome)
      let fin := if bad.isEmpty || c.status != "ok" then "final ok" else s!"final MISMATCH: not at rest {bad.take 5}"
      let fin := if s.base.errs == 0 then fin else s!"final MISMATCH: {s.base.errs} std::terminate event(s)"
      -- cross-check with the harness' own observation (`stat joinpend_interrupted v`: J's first join threw
      -- thread_interrupted and J's handler ran): the handlers the acceptor inferred, the joins it saw end at their
      -- entry, the requests stored and the deliveries must all be that number
      let seen := (c.lines.filterMap (fun l =>
        if l.startsWith "stat joinpend_interrupted " then (l.drop 26).trimAscii.toString.toNat? else none)).head?
      let sum := fun (f : Nat → Nat) => ts.foldl (fun a t => a + f t) 0
      let counts := s!"handlers {k} entry-interrupted joins {sum s.entryIntr} requests {sum s.nreq} deliveries {sum s.ndel}"
      let fin := match seen with
        | some v =>
          let want := if v == 1 then 1 else 0
          if c.status != "ok" || (k == want && sum s.handled == want && sum s.entryIntr == want && sum s.nreq == want && sum s.ndel == want)
          then fin else s!"final MISMATCH: the harness saw {want} handled interruption(s), the acceptor: {counts}"
        | none => if c.status != "ok" then fin else "final MISMATCH: no `stat joinpend_interrupted` line"
      s!"case {c.id} accept {n} ; {fin} ; acceptor JoinCatch: {counts} ; {monS}" else
  match accept Join.init ls 0 0 with
  | .error (i, raw) => s!"case {c.id} reject {i} [{raw}] ; {monS}"
  | .ok (s, n) =>
    -- final state of a run that ended `ok`: no task is inside a join or an exit-callback loop,
    -- no handle lock is held, no wake-up token is left over
    let ntask := ls.foldl (fun m l => max m (max l.obj (max l.a.toNat l.b.toNat))) 0
    let bad := (List.range (ntask + 1)).filter (fun t =>
      s.jpc t != .out || s.tok t != 0 || s.mtx t != none ||
      !(s.phase t == .fresh || s.phase t == .exited || s.phase t == .body) || (s.dt t).isSome)
    let fin := if bad.isEmpty || c.status != "ok" then "final ok" else s!"final MISMATCH: not at rest {bad.take 5}"
    -- (C13m) `errs` = number of std::terminate events the model accepted; also reported by the monitor above
    let fin := if s.errs == 0 then fin else s!"final MISMATCH: {s.errs} std::terminate event(s)"
    s!"case {c.id} accept {n} ; {fin} ; {monS}"

end Driver.JoinDrv
