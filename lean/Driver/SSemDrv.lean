import PikaVerif.Model.SSem
import Driver.Util
/-! Driver for the sliding semaphore model (C08, sliding clause). -/
namespace Driver.SSemDrv
open PikaVerif PikaVerif.SSem Driver

partial def toEvents : List Line → List (Option Ev × String) → List (Option Ev × String)
  | [], acc => acc.reverse
  | l :: rest, acc =>
    let t := l.tid
    let push (e : Ev) := toEvents rest ((some e, l.raw) :: acc)
    match l.site with
    | "sl.lock" | "ag.yield" => toEvents rest acc
    | "inv.swait" => push (.inv t (.wait l.a))
    | "inv.strywait" => push (.inv t (.tryw l.a))
    | "inv.ssignal" => push (.inv t (.signal l.a))
    | "ret" => push (.ret t (l.a != 0))
    | "sl.acq" => push (.slAcq t)
    | "sl.rel" => push (.slRel t)
    | "cv.enq" => if l.b == 0 then push (.cvEnq t l.a.toNat) else toEvents rest ((none, l.raw) :: acc)
    | "cv.none" => push (.cvNone t)
    | "cv.woke" => push (.cvWoke t (l.a != 0))
    | "ssem.pass" => push (.pass t l.a l.b)
    | "ssem.signal" => push (.sig t l.a l.b.toNat)
    | "ag.suspend" => push (.suspend t)
    | "ag.woke" => push (.woke t)
    | "done" => push (.done t)
    | "cv.pop" =>
      match rest with
      | r :: rest' =>
        if r.tid == t && r.site == "ag.resume" then
          toEvents rest' ((some (.popResume t l.a.toNat r.a.toNat), l.raw ++ " + " ++ r.raw) :: acc)
        else toEvents rest ((none, l.raw) :: acc)
      | [] => toEvents rest ((none, l.raw) :: acc)
    | _ => toEvents rest ((none, l.raw) :: acc)

def accept (s : St) : List (Option Ev × String) → Nat → Except (Nat × String) St
  | [], _ => .ok s
  | (none, raw) :: _, i => .error (i, "unparsed: " ++ raw)
  | (some e, raw) :: rest, i =>
    match step s e with
    | some s' => accept s' rest (i + 1)
    | none => .error (i, raw)

/-- independent monitor: recompute the lower limit from the signal invocations and check every
    return / final blocked state against `u - max_difference <= lower_limit` -/
structure Mon where
  lower : Int
  maxDiff : Int
  cur : Nat → Option (String × Int) := fun _ => none
  parked : Nat → Bool := fun _ => false
  viol : List String := []

def monStep (m : Mon) (l : Line) : Mon :=
  let t := l.tid
  match l.site with
  | "inv.swait" | "inv.strywait" => { m with cur := upd m.cur t (some (l.site, l.a)) }
  | "inv.ssignal" => { m with cur := upd m.cur t (some (l.site, l.a)) }
  | "ssem.signal" =>
    match m.cur t with
    | some ("inv.ssignal", v) =>
      let nl := max v m.lower
      if l.a != nl then { m with lower := l.a, viol := s!"lower limit after signal({v}) is {l.a}, expected {nl}" :: m.viol }
      else { m with lower := nl }
    | _ => m
  | "ag.suspend" => { m with parked := upd m.parked t true }
  | "ag.woke" => { m with parked := upd m.parked t false }
  | "ret" =>
    match m.cur t with
    | some ("inv.swait", u) =>
      if u - m.maxDiff > m.lower then { m with viol := s!"thread {t}: wait({u}) returned although {u} - {m.maxDiff} > lower limit {m.lower}" :: m.viol } else m
    | some ("inv.strywait", u) =>
      let ok := !(u - m.maxDiff > m.lower)
      if (l.a != 0) != ok then { m with viol := s!"thread {t}: try_wait({u}) returned {l.a != 0} with lower limit {m.lower}, max_difference {m.maxDiff}" :: m.viol } else m
    | _ => m
  | _ => m

def runCase (c : Case) : String :=
  let n := c.threads.length
  let parsed := c.lines.map parseLine
  if parsed.any Option.isNone then s!"case {c.id} reject 0 malformed-line" else
  let ls := parsed.filterMap id
  let evs := toEvents ls []
  let m := ls.foldl monStep { lower := c.getInt "lower", maxDiff := c.getInt "maxdiff" }
  let endv := if c.status == "deadlock" then
      (List.range n).filterMap (fun t => match m.cur t with
        | some ("inv.swait", u) =>
          if m.parked t && !(u - m.maxDiff > m.lower) then
            some s!"thread {t} is blocked in wait({u}) at quiescence although the lower limit {m.lower} is within distance {m.maxDiff}"
          else none
        | _ => none)
    else []
  let stv := if c.status == "ok" || c.status == "deadlock" then [] else [s!"run ended with status '{c.status}'"]
  let mon := m.viol.reverse ++ endv ++ stv
  let monS := if mon.isEmpty then "monitors ok" else "monitors FAIL: " ++ " | ".intercalate mon
  match accept (SSem.init n (c.getInt "maxdiff") (c.getInt "lower")) evs 0 with
  | .error (i, raw) => s!"case {c.id} reject {i} [{raw}] ; {monS}"
  | .ok s =>
    let cls := (List.range n).map (fun t => match s.pc t with
      | .idle => "idle" | .fin => "fin"
      | .susp _ false => if s.tok t == 0 then "blocked" else "enabled"
      | _ => "enabled")
    let fin :=
      if c.status == "ok" then (if cls.all (· == "fin") then "final ok" else "final MISMATCH: " ++ toString cls)
      else if c.status == "deadlock" then
        (if cls.all (fun x => x == "fin" || x == "blocked" || x == "idle") && s.lock.isNone then "final stuck" else "final MISMATCH: " ++ toString cls)
      else s!"final status {c.status}"
    s!"case {c.id} accept {evs.length} ; {fin} ; {monS}"

end Driver.SSemDrv
