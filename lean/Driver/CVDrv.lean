import PikaVerif.Model.CV
import PikaVerif.Model.Stop
import Driver.Util
import Driver.StopDrv
/-! Driver for the condition-variable model (C07): parser, acceptor run, independent monitors. -/
namespace Driver.CVDrv
open PikaVerif PikaVerif.CV Driver

/-- Object id of the user lock in the harness logs (named first by `harness/e1/cv.cpp`). -/
def userLockObj : Nat := 1

/-- Translate hook lines to model events.  `sl.lock` / `ul.lock` (about to take a lock),
    `ag.yield` / `ul.spin` (spinning on a lock) carry no state change and are dropped;
    `cv.pop` / `cv.popall` must be followed immediately by the agent call of the same thread
    and are merged with it.  A spinlock event on the user-lock object is a user-lock event
    (`std::unique_lock<spinlock>` as the user lock). -/
def stopBitSet (a : Int) : Bool :=
  let w : Nat := if a < 0 then (a + 18446744073709551616).toNat else a.toNat
  (w / 2147483648) % 2 == 1

/-- Stop-token interface (follow-up C07s): of the `stop.*` hook lines of `stop_token.cpp` only
    those that change the abstract stop state of `Model/CV.lean` are events (see the table in
    the model header); the lock loops (`stop.load/cas/casfail/reload/held`) and the pure
    points are stutter, except that a registration (`mode 2`) which observes the stop bit is
    `stSeen`.  Callback objects (`obj` of `stop.push/deq/fin`) are mapped to the thread that
    pushed them (`own`). -/
partial def toEvents (own : List (Nat × Nat)) : List Line → List (Option Ev × String) → List (Option Ev × String)
  | [], acc => acc.reverse
  | l :: rest, acc =>
    let t := l.tid
    let go := toEvents own
    let push (e : Ev) := go rest ((some e, l.raw) :: acc)
    let bad (_ : Unit) := go rest ((none, l.raw) :: acc)
    let owner (o : Nat) : Option Nat := (own.find? (fun p => p.1 == o)).map (·.2)
    let merge (mk : Nat → Bool → Ev) :=
      match rest with
      | r :: rest' =>
        if r.tid == t && r.site == "ag.resume" then
          go rest' ((some (mk r.a.toNat false), l.raw ++ " + " ++ r.raw) :: acc)
        else if r.tid == t && r.site == "ag.resume.dropped" then
          go rest' ((some (mk r.a.toNat true), l.raw ++ " + " ++ r.raw) :: acc)
        else bad ()
      | [] => bad ()
    match l.site with
    | "sl.lock" | "ag.yield" | "ul.lock" | "ul.spin" => go rest acc
    | "stop.cas" | "stop.held" | "stop.rm_check" | "stop.pre_exec" | "stop.post_exec" | "stop.finw" => go rest acc
    | "stop.load" | "stop.casfail" | "stop.reload" =>
      if l.b == 2 && stopBitSet l.a then push (.stSeen t) else go rest acc
    | "inv.swaitp" => push (.inv t (.swait false))
    | "inv.stwaitp" => push (.inv t (.swait true))
    | "cva.stop2" => push (.stop2 t (l.a != 0))
    | "inv.stop" => push (.inv t .stop)
    | "cva.stop0" => push (.stop0 t (l.a != 0))
    | "cva.stop1" => push (.stop1 t (l.a != 0))
    | "stop.acq" => if l.b < 0 then bad () else push (.stAcq t l.b.toNat)
    | "stop.push" =>
      toEvents ((l.obj, t) :: own.filter (fun p => p.1 != l.obj)) rest
        ((some (.stPush t (l.a != 0)), l.raw) :: acc)
    | "stop.deq" =>
      match owner l.obj with
      | some c => push (.stDeq t c (l.a != 0))
      | none => bad ()
    | "stop.fin" =>
      match owner l.obj with
      | some c => push (.stFin t c (l.a != 0))
      | none => bad ()
    | "stop.infin" => push (.stInFin t)
    | "stop.unlink" => push (.stUnlink t (l.a != 0))
    | "stop.self" => push (.stSelf t (l.a != 0))
    | "stop.waited" => push (.stWaited t)
    | "stop.rsdone" => push (.stRsDone t)
    | "inv.lock" => push (.inv t .lock)
    | "inv.unlock" => push (.inv t .unlock)
    | "inv.set" => push (.inv t (.set (l.a != 0)))
    | "inv.n1" => push (.inv t (.notify false))
    | "inv.nall" => push (.inv t (.notify true))
    | "inv.wait" => push (.inv t (.wait false false))
    | "inv.waitp" => push (.inv t (.wait false true))
    | "inv.twait" => push (.inv t (.wait true false))
    | "inv.twaitp" => push (.inv t (.wait true true))
    | "set" => push (.setFlag t (l.a != 0))
    | "pred" => push (.pred t (l.a != 0))
    | "ret" => if l.a < 0 then bad () else push (.ret t l.a.toNat)
    | "ul.acq" => push (.ulAcq t)
    | "ul.rel" => push (.ulRel t)
    | "sl.acq" => if l.obj == userLockObj then push (.ulAcq t) else push (.slAcq t)
    | "sl.rel" => if l.obj == userLockObj then push (.ulRel t) else push (.slRel t)
    | "cv.enq" => push (.cvEnq t l.a.toNat (l.b != 0))
    | "cv.none" => push (.cvNone t)
    | "cv.all" => push (.cvAll t l.a.toNat)
    | "cv.woke" => push (.cvWoke t (l.a != 0) (l.b != 0))
    | "ag.suspend" => push (.suspend t)
    | "ag.woke" => push (.woke t)
    | "ag.sleep" => push (.sleep t)
    | "ag.timeout" => push (.timeout t)
    | "done" => push (.done t)
    | "cv.pop" => merge (fun g d => .popResume t l.a.toNat g d)
    | "cv.popall" => merge (fun g d => .popAll t l.a.toNat g d)
    | _ => bad ()

/-- Run the acceptor; returns the final state or the index and text of the rejected event. -/
def accept (s : St) : List (Option Ev × String) → Nat → Except (Nat × String) St
  | [], _ => .ok s
  | (none, raw) :: _, i => .error (i, "unparsed: " ++ raw)
  | (some e, raw) :: rest, i =>
    match step s e with
    | some s' => accept s' rest (i + 1)
    | none => .error (i, raw)

def pcClass (s : St) (t : Nat) : String :=
  match s.pc t with
  | .idle => "idle"
  | .fin => "fin"
  | .susp false => if s.tok t == 0 then "blocked" else "enabled"
  | _ => "enabled"

/-- Independent monitors on the raw event list (tests, not proofs; used to turn a broken
    correspondence into a concrete violation).  They recompute the property from observables
    only: who owns the user lock, who released it inside a wait and has not been resumed, who
    was resumed, what the predicate variable holds. -/
structure Mon where
  flag : Bool
  uOwner : Option Nat := none
  curOp : Nat → String := fun _ => ""
  inWait : Nat → Bool := fun _ => false
  waiting : Nat → Bool := fun _ => false        -- released the user lock in wait, not resumed / woken since
  resumedSinceEnq : Nat → Bool := fun _ => false
  parked : Nat → Bool := fun _ => false         -- inside ag.suspend without a later ag.woke
  owed : Nat → List Nat := fun _ => []          -- notifier ↦ waiters its notify_all must wake
  viol : List String := []
  -- stop-token waits
  stopWon : Bool := false                       -- some request_stop set the stop bit (`stop.acq _ 1`)
  stopRet : Bool := false                       -- a request_stop call has returned
  cbOwn : List (Nat × Nat) := []                -- callback object ↦ thread that registered it
  linked : Nat → Bool := fun _ => false         -- the thread's callback is in the list
  inHand : Nat → Bool := fun _ => false         -- … dequeued by request_stop, finished store not yet done
  sawTO : Nat → Bool := fun _ => false          -- (C07d) the current wait saw `reason == timeout` (cv.woke, entry still linked)

def isWaitOp (s : String) : Bool :=
  s == "inv.wait" || s == "inv.waitp" || s == "inv.twait" || s == "inv.twaitp" || s == "inv.swaitp" ||
  s == "inv.stwaitp"

def uAcq (m : Mon) (t : Nat) : Mon :=
  let m := match m.uOwner with
    | some x => { m with viol := s!"thread {t} acquired the user lock while thread {x} holds it" :: m.viol }
    | none => m
  { m with uOwner := some t }

def uRel (m : Mon) (t : Nat) : Mon :=
  let m := if m.uOwner != some t then
      { m with viol := s!"thread {t} released the user lock which it does not hold" :: m.viol } else m
  { m with uOwner := none, waiting := if m.inWait t then upd m.waiting t true else m.waiting }

def monStep (n : Nat) (m : Mon) (l : Line) : Mon :=
  let t := l.tid
  match l.site with
  | "inv.lock" | "inv.unlock" | "inv.set" | "inv.n1" | "inv.nall" | "inv.stop" =>
    { m with curOp := upd m.curOp t l.site, inWait := upd m.inWait t false }
  | "inv.wait" | "inv.waitp" | "inv.twait" | "inv.twaitp" | "inv.swaitp" | "inv.stwaitp" =>
    let m := if m.uOwner != some t then
      { m with viol := s!"thread {t} called wait without owning the user lock (harness error)" :: m.viol } else m
    { m with curOp := upd m.curOp t l.site, inWait := upd m.inWait t true,
             resumedSinceEnq := upd m.resumedSinceEnq t false, sawTO := upd m.sawTO t false }
  | "set" => { m with flag := l.a != 0 }
  | "ul.acq" => uAcq m t
  | "ul.rel" => uRel m t
  | "sl.acq" => if l.obj == userLockObj then uAcq m t else m
  | "sl.rel" => if l.obj == userLockObj then uRel m t else m
  | "cv.enq" => { m with resumedSinceEnq := upd m.resumedSinceEnq t false }
  | "ag.resume" | "ag.resume.dropped" =>
    let g := l.a.toNat
    { m with waiting := upd m.waiting g false, resumedSinceEnq := upd m.resumedSinceEnq g true,
             owed := upd m.owed t ((m.owed t).erase g) }
  | "cv.woke" => { m with waiting := upd m.waiting t false, sawTO := if l.a != 0 then upd m.sawTO t true else m.sawTO }
  | "cv.none" =>
    let ws := (List.range n).filter (fun w => m.waiting w)
    if ws.isEmpty then m else
      { m with viol := s!"notify_one by thread {t} found no waiter although thread(s) {ws} had released the user lock in wait and not been woken (lost notification)" :: m.viol }
  | "cv.all" =>
    { m with owed := upd m.owed t ((List.range n).filter (fun w => m.waiting w)) }
  | "ag.suspend" => { m with parked := upd m.parked t true }
  | "ag.woke" => { m with parked := upd m.parked t false }
  | "ret" =>
    let op := m.curOp t
    let r := l.a
    let v0 := if op == "inv.nall" && !(m.owed t).isEmpty then
      [s!"notify_all by thread {t} returned without waking thread(s) {m.owed t} that had released the user lock in wait before it (lost notification)"] else []
    let v1 := if isWaitOp op && m.uOwner != some t then
      [s!"thread {t}: {op} returned without owning the user lock"] else []
    let v2 := if op == "inv.waitp" && !m.flag then
      [s!"thread {t}: wait(pred) returned although the predicate is false"] else []
    let v3 := if op == "inv.twaitp" && (r != 0) != m.flag then
      [s!"thread {t}: wait_for(pred) returned {r} but the predicate is {m.flag}"] else []
    let v4 := if op == "inv.twait" && r == 1 && m.resumedSinceEnq t then
      [s!"thread {t}: timed wait reported timeout although it was notified before it re-examined its entry"] else []
    let v5 := if op == "inv.twait" && r != 0 && r != 1 then
      [s!"thread {t}: timed wait returned cv_status::error"] else []
    let v6 := if (op == "inv.swaitp" || op == "inv.stwaitp") && (r != 0) != m.flag then
      [s!"thread {t}: stop-token wait returned {r} but the predicate is {m.flag}"] else []
    let v7 := if op == "inv.swaitp" && r == 0 && !m.stopWon then
      [s!"thread {t}: stop-token wait returned false although stop was never requested"] else []
    let v8 := if (op == "inv.swaitp" || op == "inv.stwaitp") && m.linked t then
      [s!"thread {t}: stop-token wait returned with its stop callback still registered (dangling callback)"] else []
    let v9 := if (op == "inv.swaitp" || op == "inv.stwaitp") && m.inHand t then
      [s!"thread {t}: stop-token wait returned while request_stop was still running its stop callback (dangling callback)"] else []
    -- (C07d) exact characterisation of a false result of the timed stop-token wait
    let v10 := if op == "inv.stwaitp" && r == 0 && !m.stopWon && !m.sawTO t then
      [s!"thread {t}: timed stop-token wait returned false although stop was never requested and the call saw no timeout"] else []
    { m with viol := v0 ++ v1 ++ v2 ++ v3 ++ v4 ++ v5 ++ v6 ++ v7 ++ v8 ++ v9 ++ v10 ++ m.viol, inWait := upd m.inWait t false,
             owed := upd m.owed t [], stopRet := m.stopRet || op == "inv.stop" }
  | "stop.acq" => if l.b == 1 then { m with stopWon := true } else m
  | "stop.push" =>
    { m with cbOwn := (l.obj, t) :: m.cbOwn.filter (fun p => p.1 != l.obj), linked := upd m.linked t true,
             inHand := upd m.inHand t false }
  | "stop.unlink" => if l.a != 0 then { m with linked := upd m.linked t false } else m
  | "stop.deq" =>
    match (m.cbOwn.find? (fun p => p.1 == l.obj)).map (·.2) with
    | some c => { m with linked := upd m.linked c false, inHand := upd m.inHand c true }
    | none => { m with viol := s!"request_stop dequeued a callback object that was never registered" :: m.viol }
  | "stop.fin" =>
    match (m.cbOwn.find? (fun p => p.1 == l.obj)).map (·.2) with
    | some c => { m with inHand := upd m.inHand c false }
    | none => m
  | "exc" => { m with viol := s!"thread {t}: exception escaped from {m.curOp t}" :: m.viol }
  | _ => m

def monitors (c : Case) (ls : List Line) (n : Nat) : List String :=
  let m := ls.foldl (monStep n) { flag := c.getNat "flag" != 0 }
  let endv :=
    if c.status == "deadlock" then
      (List.range n).filterMap (fun t =>
        if m.parked t && m.resumedSinceEnq t then
          some s!"thread {t} is parked in wait at quiescence although a notifier resumed it (lost wake-up)"
        else none) ++
      (List.range n).filterMap (fun t =>
        if m.parked t && m.curOp t == "inv.swaitp" && m.stopRet then
          some s!"thread {t} is parked in a stop-token wait at quiescence although request_stop has returned (lost stop request)"
        else none)
    else []
  let stv := if c.status == "ok" || c.status == "deadlock" then [] else [s!"run ended with status '{c.status}'"]
  m.viol.reverse ++ endv ++ stv

/-! ## Cross-check of the stop-state interface against C14's model

The `stop.*` lines of a C07 log are also replayed through C14's acceptor `Stop.step`
(`Model/Stop.lean`, the repaired code variant, one stop source): the abstract stop state of
`Model/CV.lean` is tied to the real code by `CV.step`, and the same real events must be a
behaviour of C14's detailed model, so C14's theorems (one winner, sticky flag, each callback
exactly once, callback begins only under construction or after dequeue) hold of these logs.
Operation boundaries that the cv harness does not log are synthesised: a stop-token wait whose
`cva.stop0` read false constructs callback number `c` (fresh per wait); `~stop_callback` starts
at the first `stop.load _ _ 0` of a thread that owns a registered callback and is not inside
`request_stop`; the callback body (a `notify_all`, no stop-state event) is `cb.begin; cb.end`
at `stop.post_exec` / `stop.infin`. -/
structure SI where
  nextC : Nat := 0
  cbOf : Nat → Nat := fun _ => 0            -- thread ↦ its current callback number
  kept : Nat → Bool := fun _ => false       -- … registered (add_callback returned true)
  dtor : Nat → Bool := fun _ => false       -- … inside ~stop_callback
  inRs : Nat → Bool := fun _ => false       -- thread is inside request_stop
  objC : List (Nat × Nat) := []             -- callback object ↦ callback number

partial def toStopEvents : List Line → SI → List (Option Stop.Ev × String) → List (Option Stop.Ev × String)
  | [], _, acc => acc.reverse
  | l :: rest, st, acc =>
    let t := l.tid
    let c := st.cbOf t
    let emit (st' : SI) (es : List Stop.Ev) := toStopEvents rest st' ((es.map (fun e => (some e, l.raw))).reverse ++ acc)
    let bad (_ : Unit) := toStopEvents rest st ((none, l.raw) :: acc)
    let objc (o : Nat) : Option Nat := (st.objC.find? (fun p => p.1 == o)).map (·.2)
    let w := StopDrv.decodeWord l.a
    -- the destructor of a registered callback starts with a plain lock()
    let pre (_ : Unit) : SI × List Stop.Ev :=
      if l.b == 0 && !st.inRs t && st.kept t && !st.dtor t then
        ({ st with dtor := upd st.dtor t true }, [Stop.Ev.inv t (.unreg c)])
      else (st, [])
    match l.site with
    | "inv.stop" => emit { st with inRs := upd st.inRs t true } [.inv t .rs]
    | "ret" =>
      if st.inRs t then emit { st with inRs := upd st.inRs t false } [.ret t (l.a != 0)]
      else toStopEvents rest st acc
    | "cva.stop0" =>
      if l.a != 0 then toStopEvents rest st acc
      else emit { st with nextC := st.nextC + 1, cbOf := upd st.cbOf t st.nextC } [.inv t (.reg st.nextC)]
    | "stop.load" => let (st', es) := pre (); emit st' (es ++ [.load t w.lk w.rq w.src])
    | "stop.casfail" => let (st', es) := pre (); emit st' (es ++ [.casFail t w.lk w.rq w.src])
    | "stop.reload" => let (st', es) := pre (); emit st' (es ++ [.reload t w.lk w.rq w.src])
    | "stop.acq" => emit st [.acq t]
    | "stop.push" =>
      emit { st with kept := upd st.kept t true, objC := (l.obj, c) :: st.objC.filter (fun p => p.1 != l.obj) }
        [.push t c (l.a != 0), .ret t true]
    | "stop.infin" => emit st [.cbBegin t c, .cbEnd t c, .inFin t c, .ret t false]
    | "stop.deq" => match objc l.obj with
      | some d => emit st [.deq t d (l.a != 0)]
      | none => bad ()
    | "stop.pre_exec" => match objc l.obj with
      | some d => emit st [.preExec t d]
      | none => bad ()
    | "stop.post_exec" => match objc l.obj with
      | some d => emit st [.cbBegin t d, .cbEnd t d]
      | none => bad ()
    | "stop.fin" => match objc l.obj with
      | some d => emit st [.finStore t d (l.a != 0)]
      | none => bad ()
    | "stop.rsdone" => emit st [.rsDone t]
    | "stop.unlink" =>
      if l.a != 0 then
        emit { st with kept := upd st.kept t false, dtor := upd st.dtor t false } [.unlink t c true, .ret t true]
      else emit st [.unlink t c false]
    | "stop.self" =>
      if l.a != 0 then
        emit { st with kept := upd st.kept t false, dtor := upd st.dtor t false } [.selfChk t c true false, .ret t false]
      else emit st [.selfChk t c false false]
    | "stop.waited" =>
      emit { st with kept := upd st.kept t false, dtor := upd st.dtor t false } [.waited t c, .ret t false]
    | "stop.setrem" => bad ()
    | _ => toStopEvents rest st acc

/-- `none` = accepted by C14's model (or no stop event in the log). -/
def stopIface (K : Nat) (ls : List Line) : Option String :=
  let evs := toStopEvents ls {} []
  if evs.isEmpty then none else
  let s0 := Stop.init (3 * K) K (fun a => a % K + 1) true true 1
  match StopDrv.accept s0 evs 0 with
  | .error (i, raw) => some s!"C14 model (Stop.step) rejects stop event {i} [{raw}]"
  | .ok _ => none

def runCase (c : Case) : String :=
  let n := c.threads.length
  let parsed := c.lines.map parseLine
  if parsed.any Option.isNone then s!"case {c.id} reject 0 malformed-line" else
  let ls := parsed.filterMap id
  let evs := toEvents [] ls []
  let mon := monitors c ls n
  let monS := if mon.isEmpty then "monitors ok" else "monitors FAIL: " ++ " | ".intercalate mon
  match accept (CV.init n (c.getNat "flag" != 0)) evs 0 with
  | .error (i, raw) => s!"case {c.id} reject {i} [{raw}] ; {monS}"
  | .ok s =>
    match stopIface n ls with
    | some msg => s!"case {c.id} reject 0 [{msg}] ; {monS}"
    | none =>
      let classes := (List.range n).map (pcClass s)
      let fin :=
        if c.status == "ok" then
          if classes.all (· == "fin") then "final ok" else "final MISMATCH: run ended but model threads " ++ toString classes
        else if c.status == "deadlock" then
          if classes.all (fun x => x == "fin" || x == "blocked" || x == "idle") && s.lock.isNone
          then s!"final stuck blocked={(classes.filter (· == "blocked")).length} queue={s.queue.length}"
          else "final MISMATCH: implementation is quiescent but model threads " ++ toString classes
        else s!"final status {c.status}"
      s!"case {c.id} accept {evs.length} ; {fin} ; {monS}"

end Driver.CVDrv
