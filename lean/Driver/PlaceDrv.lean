import PikaVerif.Model.Place
import Driver.Util
/-! Driver for the placement model (C10): E2 logs of `harness/e2/place.cpp`, plus the sequential
    (E0) check of the round-robin / hint placement function.

Parser.  Hook events that one actor always emits back to back inside one call are merged into one
model event, emitted at the position of the *last* constituent:
  `place.create` + `place.stage`                     → `create`
  `place.create(run_now)` + `place.bind` + `place.push` → `createNow`
  `place.unstage` + `place.bind` + `place.push`       → `convert`
  `place.sched` + `place.push`                       → `sched`
(between the constituents no other actor can touch the entry / object concerned: the staged entry
has been removed under the queue lock, the thread object is exclusively owned by the caller).
Addresses of task descriptions and of operation states are re-used by the allocator; the parser
gives every new use (`place.stage`, `place.start`) a fresh number. -/
namespace Driver.PlaceDrv
open PikaVerif PikaVerif.Place Driver

inductive Pend where
  | none
  | create (p idx mode : Nat) (v : Int) (prio : Nat)
  | createNow (p idx mode : Nat) (v : Int) (prio : Nat)
  | createNowB (p idx mode : Nat) (v : Int) (prio o bp bprio : Nat)
  | conv (e qd qs : Nat)
  | convB (e qd qs o bp bprio : Nat)
  | sched (o p idx mode : Nat) (v : Int) (prio : Nat) (allow : Bool)

structure PSt where
  pend : List (Nat × Pend) := []
  tdLife : List (Nat × Nat) := []
  opLife : List (Nat × Nat) := []
  starts : List (Nat × Nat) := []      -- actor ↦ operation whose start it is executing
  nextLife : Nat := 1
  out : Array (Ev × String) := #[]

def lookup (l : List (Nat × α)) (k : Nat) : Option α := (l.find? (·.1 == k)).map (·.2)
def setKey (l : List (Nat × α)) (k : Nat) (v : α) : List (Nat × α) := (k, v) :: l.filter (·.1 != k)

def int16 (x : Nat) : Int := let y := x % 65536; if y ≥ 32768 then (y : Int) - 65536 else y
def sizeT (x : Nat) : Int := if x ≥ 9223372036854775808 then (x : Int) - 18446744073709551616 else x

structure Packed where
  idx : Nat
  mode : Nat
  v : Int
  prio : Nat
  flags : Nat

def unpack (b : Nat) : Packed :=
  { idx := b % 65536, mode := (b / 65536) % 4, v := int16 ((b / 262144) % 65536), prio := (b / 17179869184) % 16,
    flags := (b / 274877906944) % 8 }

def getPend (ps : PSt) (a : Nat) : Pend := (lookup ps.pend a).getD .none
def setPend (ps : PSt) (a : Nat) (p : Pend) : PSt := { ps with pend := setKey ps.pend a p }
def emit (ps : PSt) (e : Ev) (raw : String) : PSt := { ps with out := ps.out.push (e, raw) }

/-- one raw line; `none` = the line does not fit the grammar of the hook sequences -/
def feed (ps : PSt) (l : Line) : Option PSt :=
  let a := l.tid
  let o := l.obj
  let x := l.a.toNat
  let y := l.b.toNat
  match l.site with
  | "x.pool" =>
    some (emit ps (.poolCfg a (x % 256) ((x / 256) % 65536) (x / 16777216) (y % 2 == 1) ((y / 2) % 2 == 1) ((y / 4) % 2 == 1) ((y / 8) % 2 == 1)) l.raw)
  | "place.queue" =>
    some (emit ps (.queueReg a o (x % 256) (y / 65536) (y % 65536) ((x / 256) % 65536) (x / 16777216)) l.raw)
  | "place.worker" => some (emit ps (.worker a y x) l.raw)
  | "place.create" =>
    let k := unpack y
    match getPend ps a with
    | .none => some (setPend ps a (if k.flags / 4 % 2 == 1 then .createNow x k.idx k.mode k.v k.prio else .create x k.idx k.mode k.v k.prio))
    | _ => none
  | "place.stage" =>
    match getPend ps a with
    | .create p idx mode v prio =>
      let life := ps.nextLife
      let ps := { ps with tdLife := setKey ps.tdLife o life, nextLife := life + 1 }
      some (emit (setPend ps a .none) (.create a life p idx mode v prio x) l.raw)
    | _ => none
  | "place.unstage" =>
    match getPend ps a, lookup ps.tdLife o with
    | .none, some life => some (setPend ps a (.conv life x y))
    | _, _ => none
  | "place.bind" =>
    match getPend ps a with
    | .conv e qd qs => some (setPend ps a (.convB e qd qs o x y))
    | .createNow p idx mode v prio => some (setPend ps a (.createNowB p idx mode v prio o x y))
    | .none => if x = 255 then some ps else some (emit ps (.bindOnly a o x y) l.raw)   -- 255: pre-allocated, unbound object
    | _ => none
  | "place.sched" =>
    let k := unpack y
    match getPend ps a with
    | .none => some (setPend ps a (.sched o x k.idx k.mode k.v k.prio (k.flags % 2 == 1)))
    | _ => none
  | "place.push" =>
    match getPend ps a with
    | .convB e qd qs o' bp bprio =>
      if o' = o ∧ x = qd then some (emit (setPend ps a .none) (.convert a e o qd qs bp bprio) l.raw) else none
    | .createNowB p idx mode v prio o' bp bprio =>
      if o' = o then some (emit (setPend ps a .none) (.createNow a o p idx mode v prio x bp bprio) l.raw) else none
    | .sched o' p idx mode v prio allow =>
      if o' = o then some (emit (setPend ps a .none) (.sched a o p idx mode v prio allow x) l.raw) else none
    | _ => none
  | "place.pop" => some (emit ps (.pop a o x) l.raw)
  | "phase.begin" => some (emit ps (.phaseBegin a o x) l.raw)
  | "phase.end" => some (emit ps (.phaseEnd a o y) l.raw)
  | "place.lw" => some (emit ps (.lwStore a o (sizeT x)) l.raw)
  | "place.hint" => some (emit ps (.stsHint a o x (int16 y)) l.raw)
  | "place.start" =>
    let life := ps.nextLife
    let k := 2 * life
    let ps := { ps with opLife := setKey ps.opLife o life, nextLife := life + 1, starts := setKey ps.starts a k }
    some (emit ps (.start a k x) l.raw)
  | "x.start" =>
    let k := 2 * x + 1
    some (emit { ps with starts := setKey ps.starts a k } (.start a k y) l.raw)
  | "place.started" | "x.started" =>
    match lookup ps.starts a with
    | some k => some (emit { ps with starts := ps.starts.filter (·.1 != a) } (.started a k) l.raw)
    | none => none
  | "place.run" =>
    match lookup ps.opLife o with
    | some life => if y = 99 then some (emit ps (.runStd a (2 * life)) l.raw) else some (emit ps (.run a x (2 * life)) l.raw)
    | none => none
  | "x.run" => some (emit ps (.run a o (2 * x + 1)) l.raw)
  | "x.at" => some (emit ps (.obs a o x y) l.raw)
  | _ => some ps    -- other sites (state word protocol etc.) belong to other models

def parse (ls : List Line) : Except String (Array (Ev × String)) :=
  let rec go (ps : PSt) : List Line → Except String PSt
    | [] => .ok ps
    | l :: rest => match feed ps l with
      | some ps' => go ps' rest
      | none => .error l.raw
  match go {} ls with
  | .ok ps =>
    match ps.pend.find? (fun p => match p.2 with | .none => false | _ => true) with
    | some p => .error s!"incomplete hook group of actor {p.1} at end of log"
    | none => .ok ps.out
  | .error r => .error r

def accept (s : St) (evs : List (Ev × String)) (i : Nat) : Except (Nat × String) St :=
  match evs with
  | [] => .ok s
  | (e, raw) :: rest =>
    match step s e with
    | some s' => accept s' rest (i + 1)
    | none => .error (i, raw)

/-! ### E0: the placement function, sequentially (exact round-robin counter) -/
def seqCheck (evs : List (Ev × String)) : Option String :=
  let rec go (pools : List (Nat × Pool)) (rr : List (Nat × Nat)) : List (Ev × String) → Option String
    | [] => none
    | (e, raw) :: rest =>
      let pick : Option (Nat × Nat × Nat × Int) := match e with
        | .create _ _ p idx mode v _ _ => some (p, idx, mode, v)
        | .createNow _ _ p idx mode v _ _ _ _ => some (p, idx, mode, v)
        | .sched _ _ p idx mode v _ _ _ => some (p, idx, mode, v)
        | _ => none
      match e, pick with
      | .poolCfg _ p n nhp prioQ steal elastic opq, _ =>
        go (setKey pools p { known := true, n := n, nhp := nhp, prioQ := prioQ, steal := steal, elastic := elastic, opq := opq }) rr rest
      | _, some (p, idx, mode, v) =>
        match lookup pools p with
        | none => some s!"placement on unknown pool [{raw}]"
        | some P =>
          if P.elastic then go pools rr rest else
          match pickIdx P.n mode v with
          | some i => if i = idx then go pools rr rest else some s!"hinted placement: model {i}, implementation {idx} [{raw}]"
          | none =>
            match lookup rr p with
            | none => go pools (setKey rr p idx) rest
            | some last =>
              if rrIdx P.n (last + 1) = idx then go pools (setKey rr p idx) rest
              else some s!"round-robin placement: model {rrIdx P.n (last + 1)}, implementation {idx} [{raw}]"
      | _, none => go pools rr rest
  go [] [] evs

/-! ### Independent monitors on the raw log (observables only) -/
def monitors (ls : List Line) : List String :=
  let rec go (workers : List (Nat × (Nat × Nat))) (bound : List (Nat × Nat)) (starting : List (Nat × Nat))
      (acc : List String) : List Line → List String
    | [] => acc.reverse
    | l :: rest =>
      let a := l.tid
      let x := l.a.toNat
      let y := l.b.toNat
      match l.site with
      | "place.worker" => go (setKey workers a (y, x)) bound starting acc rest
      | "place.bind" => go workers (setKey bound l.obj x) starting acc rest
      | "phase.begin" =>
        match lookup workers a, lookup bound l.obj with
        | some (p, w), some bp =>
          let acc := if p ≠ bp then s!"thread object {l.obj} of pool {bp} runs a phase on a worker of pool {p}" :: acc else acc
          let acc := if w ≠ x then s!"worker {w} reports num_thread {x}" :: acc else acc
          go workers bound starting acc rest
        | _, _ => go workers bound starting (s!"phase of unbound object or unknown worker [{l.raw}]" :: acc) rest
      | "x.at" =>
        match lookup workers a with
        | some (p, w) =>
          let acc := if p ≠ x ∨ w ≠ y then s!"body observes pool {x} worker {y} on the OS thread of worker ({p},{w})" :: acc else acc
          go workers bound starting acc rest
        | none => go workers bound starting (s!"body runs on an OS thread that is no pool worker [{l.raw}]" :: acc) rest
      | "place.start" => go workers bound (setKey starting a l.obj) acc rest
      | "place.started" => go workers bound (starting.filter (·.1 != a)) acc rest
      | "place.run" =>
        let acc := if lookup starting a == some l.obj then s!"receiver of schedule operation {l.obj} signalled inside start()" :: acc else acc
        let acc := if y = 99 ∧ (lookup workers a).isSome then s!"std_thread_scheduler work on a pool worker" :: acc else acc
        go workers bound starting acc rest
      | _ => go workers bound starting acc rest
  go [] [] [] [] ls

def runCase (c : Case) : String :=
  let mons := c.lines.filter (·.startsWith "monitor ")
  let evl := c.lines.filter (fun l => !(l.startsWith "monitor "))
  let parsed := evl.map parseLine
  if parsed.any Option.isNone then s!"case {c.id} reject 0 malformed-line" else
  let ls := parsed.filterMap id
  let own := monitors ls
  let allMon := mons ++ own.take 5 ++ (if c.status == "ok" then [] else [s!"run ended with status '{c.status}'"])
  let monS := if allMon.isEmpty then "monitors ok" else "monitors FAIL: " ++ " | ".intercalate allMon
  match parse ls with
  | .error raw => s!"case {c.id} reject 0 [hook-group: {raw}] ; {monS}"
  | .ok evs =>
    let evl := evs.toList
    match accept Place.init evl 0 with
    | .error (i, raw) => s!"case {c.id} reject {i} [{raw}] ; {monS}"
    | .ok s =>
      -- objects / entries / operations that occur in the events (deduplicated)
      let objs := (evl.foldl (fun acc (p : Ev × String) => match p.1 with
        | .convert _ _ o .. => o :: acc | .createNow _ o .. => o :: acc | .bindOnly _ o .. => o :: acc | _ => acc) []).eraseDups
      let ents := evl.foldl (fun acc (p : Ev × String) => match p.1 with | .create _ e .. => e :: acc | _ => acc) []
      let ops := evl.foldl (fun acc (p : Ev × String) => match p.1 with | .start _ k _ => k :: acc | _ => acc) []
      let badT := objs.filter (fun o => let T := s.task o; T.live && (T.loc.isSome || T.holder.isSome || T.inPhase))
      let nEv := evs.size
      let badE := ents.filter (fun e => (s.ent e).live)
      let badOp := ops.filter (fun k => (s.op k).started && !(s.op k).ran)
      let fin := if badT.isEmpty && badE.isEmpty && badOp.isEmpty then "final ok"
        else s!"final MISMATCH: tasks not at rest {badT.take 4}, staged entries left {badE.take 4}, operations never run {badOp.take 4}"
      let seqS := if c.get "mode" == "seq" then
          (match seqCheck evl with
           | none => " ; placement-function ok"
           | some m => s!" ; placement-function MISMATCH: {m}")
        else ""
      s!"case {c.id} accept {nEv} ; {fin}{seqS} ; {monS}"

end Driver.PlaceDrv
