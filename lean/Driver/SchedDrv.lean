import PikaVerif.Model.Sched
import PikaVerif.Model.SchedObl
import PikaVerif.Gen.StateWord
import Driver.Util
/-! Driver for the scheduler protocol model (C01/C02): E2 logs. -/
namespace Driver.SchedDrv
open PikaVerif PikaVerif.Sched Driver

def dec (n : Nat) : W :=
  ⟨Gen.StateWord.stOf n, Gen.StateWord.exOf n, Gen.StateWord.tagOf n⟩

def toEv (l : Line) : Option Ev :=
  let a := l.tid
  let o := l.obj
  let x := l.a.toNat
  let y := l.b.toNat
  match l.site with
  | "task.new" => some (.new a o (dec x))
  | "task.rebind" => some (.rebind a o (dec x))
  | "task.destroy" => some (.destroy a o (dec x))
  | "q.push" => some (.push a o)
  | "loop.got" => some (.got a o (dec x) (y != 0))
  | "sw.tagged" => some (.tagged a o (dec x) (dec y))
  | "phase.begin" => some (.phaseBegin a o)
  | "sw.setex" => some (.setex a o (dec x) (dec y))
  | "phase.end" => some (.phaseEnd a o y)
  | "sw.restore1" => some (.restore1 a o (dec x) (dec y))
  | "sw.set" => some (.set a o (dec x) (dec y))
  | "sts.enter" => some (.stsEnter a o x)
  | "sts.load" => some (.stsLoad a o (dec x))
  | "sw.restore2" => some (.restore2 a o (dec x) (dec y))
  | "sts.noop" => some (.stsNoop a o)
  | "sts.helper" => some (.stsHelper a o)
  | "sts.done" => some (.stsDone a o)
  | "sas.load" => some (.sasLoad a o (dec x) (dec y))
  | "sas.abort" => some (.sasAbort a o)
  | "sas.retry" => some (.sasRetry a o)
  | "body.enter" => some (.bodyEnter a o)
  | "body.exit" => some (.bodyExit a o)
  | _ => none

def accept (s : St) : List Line → Nat → Except (Nat × String) St
  | [], _ => .ok s
  | l :: rest, i =>
    match toEv l with
    | none => .error (i, "unparsed: " ++ l.raw)
    | some e =>
      match step s e with
      | some s' => accept s' rest (i + 1)
      | none => .error (i, l.raw)

def runCase (c : Case) : String :=
  let mons := c.lines.filter (·.startsWith "monitor ")
  let evl := c.lines.filter (fun l => !(l.startsWith "monitor "))
  let parsed := evl.map parseLine
  if parsed.any Option.isNone then s!"case {c.id} reject 0 malformed-line" else
  -- `co.*` lines belong to the coroutine/body layer (model `schedco`); the base model skips them
  let ls := (parsed.filterMap id).filter (fun l => !(l.site.startsWith "co."))
  let nobj := ls.foldl (fun m l => max m l.obj) 0
  let monS := if mons.isEmpty && c.status == "ok" then "monitors ok"
    else "monitors FAIL: " ++ " | ".intercalate (mons ++ (if c.status == "ok" then [] else [s!"run ended with status '{c.status}'"]))
  match accept Sched.init ls 0 with
  | .error (i, raw) => s!"case {c.id} reject {i} [{raw}] ; {monS}"
  | .ok s =>
    -- final state: every object that was ever scheduled must be terminated or suspended with
    -- no request in flight; no queue entries, owners, pushers or helpers left
    let bad := (List.range (nobj + 1)).filter (fun o =>
      let x := s.obj o
      x.live && !x.fresh && (x.q != 0 || x.holder.isSome || x.owner.isSome || x.pusher.isSome || !x.helpers.isEmpty ||
        (x.w.st != sTerminated && x.w.st != sSuspended)))
    -- C02x: every helper task that logged `sas.retry` has re-entered `set_thread_state` for the same
    -- target on the same thread (hypothesis `owing [] post = []` of `C02_no_lost_wakeup`)
    let ow := owing [] (ls.filterMap toEv)
    let fin := if !bad.isEmpty then s!"final MISMATCH: objects not at rest {bad.take 5}"
      else if !ow.isEmpty then s!"final MISMATCH: helper retries without re-entry into set_thread_state {ow.take 5}"
      else "final ok"
    s!"case {c.id} accept {ls.length} ; {fin} ; {monS}"

end Driver.SchedDrv
