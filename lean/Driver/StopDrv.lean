import PikaVerif.Model.Stop
import Driver.Util
/-! Driver for the stop_state model (C14, concurrency half): parser, acceptor run, monitors. -/
namespace Driver.StopDrv
open PikaVerif PikaVerif.Stop Driver

/-- Decoded state word. -/
structure Word where
  lk : Bool
  rq : Bool
  src : Nat

def decodeWord (a : Int) : Word :=
  let w : Nat := if a < 0 then (a + 18446744073709551616).toNat else a.toNat
  { lk := (w / 9223372036854775808) % 2 == 1, rq := (w / 2147483648) % 2 == 1,
    src := (w / 4294967296) % 2147483648 }

/-- Translate hook lines to model events.  A logical thread `t` with `d` open operations
    (nested through callback bodies) acts as activity `t + K * (d - 1)`.  Pure preemption
    points (`stop.cas`, `stop.rm_check`, `stop.post_exec`, `ag.yield`, `inv.q`, `nop`) carry no
    state change and are dropped (`stop.finw`, follow-up C14q, is a note in the same atomic block as
    the `stop.fin` that follows it and is looked at by the monitors only); `stop.setrem` is merged with the `stop.self` that follows it
    in the same atomic block. -/
partial def toEvents (K : Nat) : List Line → (Nat → Nat) → List (Option Ev × String) →
    List (Option Ev × String)
  | [], _, acc => acc.reverse
  | l :: rest, depth, acc =>
    let t := l.tid
    let d := depth t
    let a := t + K * (d - 1)
    let c := l.obj - 1
    let push (e : Ev) := toEvents K rest depth ((some e, l.raw) :: acc)
    let bad (_ : Unit) := toEvents K rest depth ((none, l.raw) :: acc)
    let w := decodeWord l.a
    match l.site with
    | "stop.held" | "stop.cas" | "stop.rm_check" | "stop.post_exec" | "ag.yield" | "inv.q" | "nop" | "stop.finw" =>
      toEvents K rest depth acc
    | "inv.rs" => toEvents K rest (upd depth t (d + 1)) ((some (.inv (t + K * d) .rs), l.raw) :: acc)
    | "inv.reg" => toEvents K rest (upd depth t (d + 1)) ((some (.inv (t + K * d) (.reg c)), l.raw) :: acc)
    | "inv.unreg" => toEvents K rest (upd depth t (d + 1)) ((some (.inv (t + K * d) (.unreg c)), l.raw) :: acc)
    | "ret" =>
      if d == 0 then bad ()
      else toEvents K rest (upd depth t (d - 1)) ((some (.ret a (l.a != 0)), l.raw) :: acc)
    | "stop.load" => push (.load a w.lk w.rq w.src)
    | "stop.casfail" => push (.casFail a w.lk w.rq w.src)
    | "stop.reload" => push (.reload a w.lk w.rq w.src)
    | "stop.acq" => push (.acq a)
    | "stop.deq" => push (.deq a c (l.a != 0))
    | "stop.rsdone" => push (.rsDone a)
    | "stop.pre_exec" => push (.preExec a c)
    | "cb.begin" => push (.cbBegin a c)
    | "cb.end" => push (.cbEnd a c)
    | "stop.fin" => push (.finStore a c (l.a != 0))
    | "stop.infin" => push (.inFin a c)
    | "stop.push" => push (.push a c (l.a != 0))
    | "stop.unlink" => push (.unlink a c (l.a != 0))
    | "stop.setrem" =>
      match rest with
      | r :: rest' =>
        if r.tid == t && r.site == "stop.self" && r.obj == l.obj && r.a != 0 then
          toEvents K rest' depth ((some (.selfChk a c true true), l.raw ++ " + " ++ r.raw) :: acc)
        else bad ()
      | [] => bad ()
    | "stop.self" => push (.selfChk a c (l.a != 0) false)
    | "stop.waited" => push (.waited a c)
    | "src.inc" => push (.srcInc t)
    | "src.dec" => push (.srcDec t)
    | "q" => push (.query t (l.a != 0) (l.b != 0))
    | "done" => push (.done t)
    | _ => bad ()

def accept (s : St) : List (Option Ev × String) → Nat → Except (Nat × String) St
  | [], _ => .ok s
  | (none, raw) :: _, i => .error (i, "unparsed: " ++ raw)
  | (some e, raw) :: rest, i =>
    match step s e with
    | some s' => accept s' rest (i + 1)
    | none => .error (i, raw)

/-! Independent monitors: recompute the property from the observable lines only (operation
    invocations / returns, callback begin / end, queries). -/
structure Mon where
  ops : Nat → List String := fun _ => []       -- open operations per logical thread (innermost first)
  opArg : Nat → List Nat := fun _ => []
  rsTrue : Nat := 0
  rsDoneAny : Bool := false                     -- some request_stop has returned
  qSeen : Bool := false                         -- some query reported stop_requested
  begins : Nat → Nat := fun _ => 0
  runningOn : Nat → Option Nat := fun _ => none -- callback -> logical thread inside its body
  ctorDone : Nat → Bool := fun _ => false
  dtorStarted : Nat → Bool := fun _ => false
  dtorDone : Nat → Bool := fun _ => false
  dtorRetOn : Nat → Option Nat := fun _ => none -- follow-up C14q: logical thread on which the destructor returned
  wrote : Nat → Option Nat := fun _ => none     -- follow-up C14q: logical thread -> callback whose finished flag it has just stored (`stop.finw`)
  reqAtReg : Nat → Bool := fun _ => false
  maxCb : Nat := 0
  viol : List String := []

def monStep (m : Mon) (l : Line) : Mon :=
  let t := l.tid
  let c := l.obj - 1
  let addv (m : Mon) (v : String) : Mon := { m with viol := v :: m.viol }
  match l.site with
  | "inv.rs" => { m with ops := upd m.ops t ("rs" :: m.ops t), opArg := upd m.opArg t (0 :: m.opArg t) }
  | "inv.reg" =>
    { m with ops := upd m.ops t ("reg" :: m.ops t), opArg := upd m.opArg t (c :: m.opArg t),
             reqAtReg := upd m.reqAtReg c (m.rsDoneAny || m.qSeen), maxCb := max m.maxCb (c + 1) }
  | "inv.unreg" =>
    { m with ops := upd m.ops t ("unreg" :: m.ops t), opArg := upd m.opArg t (c :: m.opArg t),
             dtorStarted := upd m.dtorStarted c true }
  | "ret" =>
    match m.ops t, m.opArg t with
    | op :: ops', arg :: args' =>
      let m := { m with ops := upd m.ops t ops', opArg := upd m.opArg t args' }
      if op == "rs" then
        let m := { m with rsDoneAny := true, rsTrue := m.rsTrue + (if l.a != 0 then 1 else 0) }
        if m.rsTrue > 1 then addv m s!"{m.rsTrue} request_stop calls returned true" else m
      else if op == "reg" then
        let m := { m with ctorDone := upd m.ctorDone arg true }
        if m.reqAtReg arg && m.begins arg != 1 then
          addv m s!"callback {arg}: stop had been requested before its constructor was invoked but the constructor returned with {m.begins arg} invocations"
        else m
      else
        let m := { m with dtorDone := upd m.dtorDone arg true, dtorRetOn := upd m.dtorRetOn arg (some t) }
        match m.runningOn arg with
        | some u => if u != t then
            addv m s!"callback {arg}: destructor returned on thread {t} while the callback is running on thread {u}"
          else m
        | none => m
    | _, _ => addv m s!"thread {t}: return without an open operation"
  | "cb.begin" =>
    let m := { m with begins := upd m.begins c (m.begins c + 1), runningOn := upd m.runningOn c (some t) }
    let m := if m.begins c > 1 then addv m s!"callback {c} invoked {m.begins c} times" else m
    if m.dtorDone c then addv m s!"callback {c} invoked after its destructor returned" else m
  | "cb.end" => { m with runningOn := upd m.runningOn c none }
  -- follow-up C14p: the destructor's decision and request_stop's last accesses, from observables only
  | "stop.self" =>
    if l.a == 0 && m.runningOn c == some t then
      addv m s!"callback {c}: its destructor on thread {t} takes the waiting branch while the callback runs on the same thread"
    else m
  -- follow-up C14q: `stop.finw` is emitted inside the `if (!is_removed)` block, i.e. it is the write itself
  -- (`stop.fin` only reports the variable); trees without that hook never produce the line
  | "stop.finw" =>
    let m := { m with wrote := upd m.wrote t (some c) }
    if m.dtorDone c then
      addv m s!"callback {c}: request_stop wrote is_removed_ / the finished flag of the object after its destructor returned"
    else m
  | "stop.fin" =>
    let m := if l.a != 0 && m.wrote t == some c then
      addv m s!"callback {c}: request_stop wrote into the callback object although is_removed was set"
    else m
    let m := { m with wrote := upd m.wrote t none }
    let m := if l.a == 0 && m.dtorDone c then
      addv m s!"callback {c}: request_stop stored the finished flag into the object after its destructor returned"
    else m
    -- follow-up C14q (converse, `C14q_fin_removed_iff_gone` / `C14q_removed_means_own_thread`): the stores are
    -- skipped only for an object whose destructor has returned, on this thread (inside the invocation)
    if l.a != 0 && !m.dtorDone c then
      addv m s!"callback {c}: request_stop skipped the finished store (is_removed set) although its destructor has not returned"
    else if l.a != 0 && m.dtorRetOn c != some t then
      addv m s!"callback {c}: request_stop on thread {t} found is_removed set by a destructor that returned on another thread"
    else m
  | "stop.pre_exec" =>
    if m.dtorDone c then addv m s!"callback {c}: request_stop is about to publish is_removed_ after its destructor returned" else m
  | "q" =>
    let m := if l.a == 0 && (m.rsDoneAny || m.qSeen) then
        addv m "stop_requested() is false after a stop request was observed" else m
    let m := if l.a != 0 && l.b == 0 then addv m "stop_possible() is false although stop was requested" else m
    if l.a != 0 then { m with qSeen := true } else m
  | _ => m

def monitors (c : Case) (ls : List Line) : List String :=
  let m := ls.foldl monStep {}
  let endv :=
    if c.status == "ok" && m.rsTrue ≥ 1 then
      (List.range m.maxCb).filterMap (fun cb =>
        if m.ctorDone cb && !m.dtorStarted cb && m.begins cb != 1 then
          some s!"callback {cb} is registered, stop was requested, all threads finished, but it was invoked {m.begins cb} times"
        else none)
    else []
  let endw := if c.status == "ok" && m.rsDoneAny && m.rsTrue != 1 then
      [s!"request_stop was called but {m.rsTrue} calls returned true"] else []
  let stv := if c.status == "ok" then [] else [s!"run ended with status '{c.status}'"]
  m.viol.reverse ++ endv ++ endw ++ stv

def runCase (c : Case) : String :=
  let K := c.threads.length
  let ncb := c.getNat "ncb" 4
  let n := K * (ncb + 3)
  let parsed := c.lines.map parseLine
  if parsed.any Option.isNone then s!"case {c.id} reject 0 malformed-line" else
  let ls := parsed.filterMap id
  let evs := toEvents K ls (fun _ => 0) []
  let mon := monitors c ls
  let monS := if mon.isEmpty then "monitors ok" else "monitors FAIL: " ++ " | ".intercalate mon
  -- identity returned by the thread comparison: faithful (thread number + 1) in the repaired
  -- tree; `ident=os-invalid` selects the pinned behaviour on plain OS threads (all 0)
  let ident : Nat → Nat := if c.get "ident" == "os-invalid" then (fun _ => 0) else (fun a => a % K + 1)
  let s0 := Stop.init n K ident (c.getNat "fixcas" 1 != 0) (c.getNat "fixctor" 1 != 0) K
  match accept s0 evs 0 with
  | .error (i, raw) => s!"case {c.id} reject {i} [{raw}] ; {monS}"
  | .ok s =>
    let allIdle := (List.range n).all (fun a => if a < K then s.pc a == .fin else s.pc a == .idle)
    let fin :=
      if c.status == "ok" then
        if allIdle && s.lock.isNone then s!"final ok req={s.req} list={s.list.length}"
        else "final MISMATCH: run ended but model activities " ++
          toString ((List.range n).filterMap (fun a => if s.pc a == .idle || s.pc a == .fin then none else some a))
      else s!"final status {c.status}"
    s!"case {c.id} accept {evs.length} ; {fin} ; {monS}"

end Driver.StopDrv
