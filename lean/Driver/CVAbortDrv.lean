import PikaVerif.Model.CVAbort
import Driver.Util
/-! Driver for the `abort_all` model (C07, follow-up C07d): parser, acceptor run, independent monitors.
    Logs come from `harness/e1/cv.cpp` in mode `cv=detail` (one `detail::condition_variable` + its spinlock). -/
namespace Driver.CVAbortDrv
open PikaVerif PikaVerif.CVAbort Driver

/-- Hook lines → model events.  `sl.lock`, `ag.yield` (spinning on the lock) and the POINT `cv.ab.abort`
    (the aborter is between its unlock and `ctx.abort()`) carry no state change; `cv.pop` / `cv.popall`
    are merged with the agent call of the same thread that must follow; a free-standing `ag.abort` /
    `ag.resume.dropped` is the aborter's `ctx.abort()`. -/
partial def toEvents : List Line → List (Option Ev × String) → List (Option Ev × String)
  | [], acc => acc.reverse
  | l :: rest, acc =>
    let t := l.tid
    let push (e : Ev) := toEvents rest ((some e, l.raw) :: acc)
    let bad (_ : Unit) := toEvents rest ((none, l.raw) :: acc)
    let merge (mk : Nat → Bool → Ev) :=
      match rest with
      | r :: rest' =>
        if r.tid == t && r.site == "ag.resume" then
          toEvents rest' ((some (mk r.a.toNat false), l.raw ++ " + " ++ r.raw) :: acc)
        else if r.tid == t && r.site == "ag.resume.dropped" then
          toEvents rest' ((some (mk r.a.toNat true), l.raw ++ " + " ++ r.raw) :: acc)
        else bad ()
      | [] => bad ()
    match l.site with
    | "sl.lock" | "ag.yield" | "cv.ab.abort" => toEvents rest acc
    | "inv.dwait" => push (.inv t (.wait false))
    | "inv.dtwait" => push (.inv t (.wait true))
    | "inv.dn1" => push (.inv t (.notify false))
    | "inv.dnall" => push (.inv t (.notify true))
    | "inv.abortall" => push (.inv t .abort)
    | "ret" => if l.a < 0 then bad () else push (.ret t l.a.toNat)
    | "sl.acq" => push (.slAcq t)
    | "sl.rel" => push (.slRel t)
    | "cv.enq" => push (.cvEnq t l.a.toNat (l.b != 0))
    | "cv.none" => push (.cvNone t)
    | "cv.all" => push (.cvAll t l.a.toNat)
    | "cv.woke" => push (.cvWoke t (l.a != 0) (l.b != 0))
    | "cv.threw" => push (.threw t)
    | "cv.ab.swap" => push (.abSwap t l.a.toNat)
    | "cv.ab.done" => push (.abDone t l.a.toNat)
    | "ag.suspend" => push (.suspend t)
    | "ag.woke" => push (.woke t (l.b != 0))
    | "ag.sleep" => push (.sleep t)
    | "ag.timeout" => push (.timeout t)
    | "ag.abort" => push (.abort t l.a.toNat false)
    | "ag.resume.dropped" => push (.abort t l.a.toNat true)
    | "done" => push (.done t)
    | "cv.pop" => merge (fun g d => .popResume t l.a.toNat g d)
    | "cv.popall" => merge (fun g d => .popAll t l.a.toNat g d)
    | _ => bad ()

def pcClass (s : St) (t : Nat) : String :=
  match s.pc t with
  | .idle => "idle"
  | .fin => "fin"
  | .susp false => if s.tok t == 0 then "blocked" else "enabled"
  | _ => "enabled"

/-- Independent monitors on the raw log (tests, not proofs).  They keep their own picture of the two
    lists from the observable list operations only (enqueue appends, a notifier pops the front, the swap
    moves everything to the local list, `abort_all` pops the front of the local list, a waiter that finds
    its entry still linked erases it) and check: every resume / abort is aimed at the owner of the entry
    just popped (nobody is resumed twice or without an entry), every `abort_all` pop is followed by exactly
    one `ctx.abort()` by the same thread before its next pop / its return, `abort_all` returns only when no
    entry is left, an aborted or resumed waiter is not parked at quiescence.  `late` counts `ctx.abort()`
    calls that arrive after the target has already returned from the wait whose entry was popped (finding
    abort-after-wait-returned; not a verdict). -/
structure Mon where
  mq : List Nat := []                           -- `queue_`
  ml : List Nat := []                           -- local list of abort_all
  owing : Nat → Option Nat := fun _ => none     -- aborter ↦ thread whose entry it popped, ctx.abort() not yet called
  retSincePop : Nat → Bool := fun _ => false    -- target returned from its wait since abort_all popped its entry
  parked : Nat → Bool := fun _ => false         -- inside ag.suspend without a later ag.woke
  wakeSince : Nat → Bool := fun _ => false      -- a (non-dropped) resume/abort was aimed at it since its last ag.suspend
  abortedEver : Nat → Bool := fun _ => false
  curOp : Nat → String := fun _ => ""
  late : Nat := 0
  viol : List String := []

def Mon.v (m : Mon) (msg : String) : Mon := { m with viol := msg :: m.viol }

def notifierPop (m : Mon) (t g : Nat) (dropped : Bool) : Mon :=
  match m.mq with
  | h :: rest =>
    let m := if h == g then m else
      m.v s!"thread {t}: notifier resumed thread {g} but the front entry of the queue belongs to thread {h}"
    { m with mq := rest, wakeSince := if dropped then m.wakeSince else upd m.wakeSince g true }
  | [] => m.v s!"thread {t}: notifier resumed thread {g} although the queue is empty (resumed twice / never queued)"

def abortCall (m : Mon) (t g : Nat) (dropped : Bool) : Mon :=
  let m := match m.owing t with
    | some x => if x == g then m else
        m.v s!"thread {t}: ctx.abort() aimed at thread {g} but the entry abort_all popped belongs to thread {x}"
    | none => m.v s!"thread {t}: ctx.abort() aimed at thread {g} without a popped entry (aborted twice / never queued)"
  { m with owing := upd m.owing t none, late := if m.retSincePop g then m.late + 1 else m.late,
           abortedEver := if dropped then m.abortedEver else upd m.abortedEver g true,
           wakeSince := if dropped then m.wakeSince else upd m.wakeSince g true }

def monStep (m : Mon) (l : Line) (next : Option Line) : Mon :=
  let t := l.tid
  match l.site with
  | "inv.dwait" | "inv.dtwait" | "inv.dn1" | "inv.dnall" | "inv.abortall" => { m with curOp := upd m.curOp t l.site }
  | "cv.enq" =>
    let m := if l.a.toNat == m.mq.length + 1 then m else
      m.v s!"thread {t}: cv.enq reports queue size {l.a} but {m.mq.length} entries were queued before"
    { m with mq := m.mq ++ [t] }
  | "cv.woke" =>
    if l.a != 0 then { m with mq := m.mq.erase t, ml := m.ml.erase t } else
      if m.mq.contains t || m.ml.contains t then
        m.v s!"thread {t}: wait found its entry popped although nobody popped it"
      else m
  | "cv.threw" =>
    let m := if !m.abortedEver t then m.v s!"thread {t}: wait threw although no abort was ever aimed at it" else m
    { m with mq := m.mq.erase t, ml := m.ml.erase t }
  | "cv.pop" | "cv.popall" =>
    match next with
    | some r =>
      if r.tid == t && (r.site == "ag.resume" || r.site == "ag.resume.dropped") then
        notifierPop m t r.a.toNat (r.site == "ag.resume.dropped")
      else m.v s!"thread {t}: notifier popped an entry without resuming its thread"
    | none => m.v s!"thread {t}: notifier popped an entry without resuming its thread"
  | "cv.none" =>
    if m.mq.isEmpty then m else m.v s!"notify_one by thread {t} found no waiter although thread(s) {m.mq} are queued"
  | "ag.abort" => abortCall m t l.a.toNat false
  | "ag.resume.dropped" =>
    -- free-standing (not the line after a notifier's pop, which `cv.pop` consumed): the aborter's call
    if (m.owing t).isSome then abortCall m t l.a.toNat true else m
  | "cv.ab.swap" =>
    let m := if m.ml.isEmpty then m else m.v s!"abort_all by thread {t} swapped the lists although its local list still holds {m.ml}"
    { m with ml := m.mq, mq := [] }
  | "cv.ab.pop" =>
    let m := match m.owing t with
      | some x => m.v s!"thread {t}: abort_all popped another entry before calling ctx.abort() on thread {x} (a popped waiter was never resumed)"
      | none => m
    match m.ml with
    | g :: rest => { m with ml := rest, owing := upd m.owing t (some g), retSincePop := upd m.retSincePop g false }
    | [] => m.v s!"thread {t}: abort_all popped an entry although no queued waiter is left in its list"
  | "cv.ab.done" =>
    let m := if m.mq.isEmpty && m.ml.isEmpty then m else
      m.v s!"abort_all by thread {t} returned although thread(s) {m.mq ++ m.ml} are still queued (waiter left behind)"
    match m.owing t with
    | some x => m.v s!"abort_all by thread {t} returned without calling ctx.abort() on thread {x} whose entry it popped (waiter left behind)"
    | none => m
  | "ret" => { m with retSincePop := upd m.retSincePop t true }
  | "ag.suspend" => { m with parked := upd m.parked t true, wakeSince := upd m.wakeSince t (l.b > 0 || l.a > 0) }
  | "ag.woke" => { m with parked := upd m.parked t false }
  | "exc" => m.v s!"thread {t}: unexpected exception escaped from {m.curOp t}"
  | _ => m

def monFold : Mon → List Line → Mon
  | m, [] => m
  | m, [l] => monStep m l none
  | m, l :: r :: rest => monFold (monStep m l (some r)) (r :: rest)

def monitors (c : Case) (ls : List Line) (n : Nat) : List String × Nat :=
  let m := monFold {} ls
  let endv :=
    if c.status == "deadlock" then
      (List.range n).filterMap (fun t =>
        if m.parked t && m.wakeSince t then
          some s!"thread {t} is parked in wait at quiescence although it was resumed / aborted (lost wake-up)"
        else none)
    else []
  let stv := if c.status == "ok" || c.status == "deadlock" then [] else [s!"run ended with status '{c.status}'"]
  (m.viol.reverse ++ endv ++ stv, m.late)

/-- `cv.ab.pop <size>` names no target (the entry's agent is not printed): the acceptor takes the head of
    the model's local list; the `ag.abort` line that follows names the real target, which `step` compares
    with it (`aUnl g`, `g = tgt`). -/
def runCase (c : Case) : String :=
  let n := c.threads.length
  let parsed := c.lines.map parseLine
  if parsed.any Option.isNone then s!"case {c.id} reject 0 malformed-line" else
  let ls := parsed.filterMap id
  let (mon, late) := monitors c ls n
  let monS := (if mon.isEmpty then "monitors ok" else "monitors FAIL: " ++ " | ".intercalate mon) ++
    (if late > 0 then s!" ; late-abort={late}" else "")
  let rec go (s : St) (ls : List Line) (i : Nat) (fuel : Nat) : Except (Nat × String) (St × Nat) :=
    match fuel with
    | 0 => .ok (s, i)
    | fuel + 1 =>
    match ls with
    | [] => .ok (s, i)
    | l :: rest =>
      if l.site == "cv.ab.pop" then
        match s.lq with
        | g :: _ =>
          match step s (.abPop l.tid l.a.toNat g) with
          | some s' => go s' rest (i + 1) fuel
          | none => .error (i, l.raw)
        | [] => .error (i, l.raw ++ " (model: local list empty)")
      else
        match toEvents [l] [] with
        | [] => go s rest i fuel          -- stutter
        | _ =>
          -- a pop by a notifier needs the line that follows it
          if l.site == "cv.pop" || l.site == "cv.popall" then
            match rest with
            | r :: rest' =>
              match toEvents [l, r] [] with
              | [(some e, raw)] =>
                match step s e with
                | some s' => go s' rest' (i + 1) fuel
                | none => .error (i, raw)
              | _ => .error (i, "unparsed: " ++ l.raw)
            | [] => .error (i, "unparsed: " ++ l.raw)
          else
            match toEvents [l] [] with
            | [(some e, raw)] =>
              match step s e with
              | some s' => go s' rest (i + 1) fuel
              | none => .error (i, raw)
            | _ => .error (i, "unparsed: " ++ l.raw)
  match go (CVAbort.init n) ls 0 (ls.length + 1) with
  | .error (i, raw) => s!"case {c.id} reject {i} [{raw}] ; {monS}"
  | .ok (s, cnt) =>
    let classes := (List.range n).map (pcClass s)
    let fin :=
      if c.status == "ok" then
        if classes.all (· == "fin") then "final ok" else "final MISMATCH: run ended but model threads " ++ toString classes
      else if c.status == "deadlock" then
        if classes.all (fun x => x == "fin" || x == "blocked" || x == "idle") && s.lock.isNone
        then s!"final stuck blocked={(classes.filter (· == "blocked")).length} queue={s.queue.length}"
        else "final MISMATCH: implementation is quiescent but model threads " ++ toString classes
      else s!"final status {c.status}"
    s!"case {c.id} accept {cnt} ; {fin} ; {monS}"

end Driver.CVAbortDrv
