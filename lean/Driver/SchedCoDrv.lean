import PikaVerif.Model.SchedCo
import Driver.SchedDrv
/-! Driver for the scheduler protocol model with the coroutine/body layer (C01): E2 logs.
    `co.*` lines are the layer's own events, every other line is a base event parsed by
    `SchedDrv.toEv`. -/
namespace Driver.SchedCoDrv
open PikaVerif PikaVerif.Sched PikaVerif.SchedCo Driver

def toEv (l : Line) : Option SchedCo.Ev :=
  let a := l.tid
  let o := l.obj
  match l.site with
  | "co.enter" => some (.coEnter a o)
  | "co.resume" => some (.coResume a o)
  | "co.yield" => some (.coYield a o l.a.toNat)
  | "co.return" => some (.coReturn a o l.a.toNat)
  | _ => (SchedDrv.toEv l).map .base

def accept (s : SchedCo.St) : List Line → Nat → Except (Nat × String) SchedCo.St
  | [], _ => .ok s
  | l :: rest, i =>
    match toEv l with
    | none => .error (i, "unparsed: " ++ l.raw)
    | some e =>
      match SchedCo.step s e with
      | some s' => accept s' rest (i + 1)
      | none => .error (i, l.raw)

/-- independent monitor on the raw log: per object, `co.enter` lines since the last
    `task.new` / `task.rebind`; more than one is a re-entered body -/
def enterMonitor (ls : List Line) : List String :=
  let step (st : List (Nat × Nat) × List String) (l : Line) : List (Nat × Nat) × List String :=
    let (m, bad) := st
    let cur := ((m.find? (·.1 == l.obj)).map (·.2)).getD 0
    let put (v : Nat) := (l.obj, v) :: m.filter (·.1 != l.obj)
    if l.site == "task.new" || l.site == "task.rebind" then (put 0, bad)
    else if l.site == "co.enter" then
      (put (cur + 1), if cur ≥ 1 then s!"thread object {l.obj}: function entered {cur + 1} times in one incarnation" :: bad else bad)
    else st
  ((ls.foldl step ([], [])).2).reverse.take 5

def runCase (c : Case) : String :=
  let mons := c.lines.filter (·.startsWith "monitor ")
  let evl := c.lines.filter (fun l => !(l.startsWith "monitor "))
  let parsed := evl.map parseLine
  if parsed.any Option.isNone then s!"case {c.id} reject 0 malformed-line" else
  let ls := parsed.filterMap id
  let nobj := ls.foldl (fun m l => max m l.obj) 0
  let mons := mons ++ enterMonitor ls
  let monS := if mons.isEmpty && c.status == "ok" then "monitors ok"
    else "monitors FAIL: " ++ " | ".intercalate (mons ++ (if c.status == "ok" then [] else [s!"run ended with status '{c.status}'"]))
  match accept SchedCo.init ls 0 with
  | .error (i, raw) => s!"case {c.id} reject {i} [{raw}] ; {monS}"
  | .ok s =>
    -- final state: every object that was ever scheduled must be terminated (thread function
    -- entered and left exactly once) or suspended at a yield that asked for `suspended`, with no
    -- request in flight; no queue entries, owners, pushers or helpers left
    let bad := (List.range (nobj + 1)).filter (fun o =>
      let x := s.base.obj o
      let k := s.co o
      x.live && !x.fresh && (x.q != 0 || x.holder.isSome || x.owner.isSome || x.pusher.isSome || !x.helpers.isEmpty ||
        (x.w.st != sTerminated && x.w.st != sSuspended) ||
        (x.w.st == sTerminated && !(k.entries == 1 && k.exits == 1 && decide (k.pc = .returned))) ||
        (x.w.st == sSuspended && !(k.entries == 1 && k.exits == 0 && decide (k.pc = .yielded sSuspended)))))
    let fin := if bad.isEmpty then "final ok" else s!"final MISMATCH: objects not at rest {bad.take 5}"
    s!"case {c.id} accept {ls.length} ; {fin} ; {monS}"

end Driver.SchedCoDrv
