import PikaVerif.Model.Config
import Driver.Util
/-! Driver for the configuration model (C16): computes the expected report of the probe from the
    model, compares it with what the probe printed from inside the running runtime, and runs
    independent monitors (plain tests of the precedence clauses on the observables). -/
namespace Driver.CfgDrv
open PikaVerif PikaVerif.Config PikaVerif.Gen.Settings Driver

def unhex (s : String) : String :=
  if s == "-" then "" else
  let rec go : List Char → List Char
    | a :: b :: rest => Char.ofNat (((hexVal a).getD 0) * 16 + (hexVal b).getD 0) :: go rest
    | _ => []
  String.ofList (go s.toList)

/-- what the probe printed -/
structure Got where
  error : Option String := none
  entered : Bool := false
  rc : Option Int := none
  workers : Nat := 0
  poolWorkers : Nat := 0
  policy : Int := -99
  stack : Nat := 0
  avail : Nat := 0
  cfg : List (String × String) := []
  argv : List String := []
  masks : List String := []
  complete : Bool := false
  notrun : Bool := false

def words (l : String) : List String := (l.splitOn " ").filter (fun w => !w.isEmpty)

def gotStep (g : Got) (l : String) : Got :=
  match words l with
  | ["R", "error", _, msg] => { g with error := some (unhex msg) }
  | ["R", "entry", _] => { g with entered := true }
  | ["R", "argv", i, h] => if i == "0" then g else { g with argv := g.argv ++ [unhex h] }
  | ["R", "workers", n] => { g with workers := n.toNat?.getD 0 }
  | ["R", "pool", _, n] => { g with poolWorkers := n.toNat?.getD 0 }
  | ["R", "sched", p, _] => { g with policy := (parseInt? p).getD (-99) }
  | ["R", "mask", _, m] => { g with masks := g.masks ++ [m] }
  | ["R", "stack", s, a] => { g with stack := s.toNat?.getD 0, avail := a.toNat?.getD 0 }
  | ["R", "cfg", k, h] => { g with cfg := g.cfg ++ [(k, unhex h)] }
  | ["R", "rc", r, _] => { g with rc := parseInt? r }
  | ["R", "end"] => { g with complete := true }
  | ["R", "notrun"] => { g with notrun := true }
  | _ => g

def contains (s sub : String) : Bool := (s.splitOn sub).length > 1

/-- class of a start-up error message -/
def classify (msg : String) : Option Err :=
  if contains msg "cannot be specified more than once" then some .multiple
  else if contains msg "is ambiguous" then some .ambiguous
  else if contains msg "does not take any arguments" then some .extraParam
  else if contains msg "the required argument for option" then some .missingParam
  else if contains msg "should follow immediately after the equal sign" then some .emptyAdjacent
  else if contains msg "the argument (" && contains msg "is invalid" then some .badOptValue
  else if contains msg "bad lexical cast" then some .badLexical
  else if contains msg "Number of --pika:threads must be greater than 0" then some .zeroThreads
  else if contains msg "pika.force_min_os_threads must be greater than 0" then some .zeroMinThreads
  else if contains msg "Invalid command line option --pika:affinity" then some .badAffinity
  else if contains msg "Invalid command line option --pika:pu-step" then some .puStep
  else if contains msg "Invalid command line option --pika:pu-offset" then some .puOffset
  else if contains msg "Invalid argument value for --pika:numa-sensitive" then some .numaSensitive
  else if contains msg "--pika:bind should not be used with" then some .bindConflict
  else if contains msg "number of high priority threads" then some .hpThreads
  else if contains msg "Invalid command line option --pika:high-priority-threads" then some .hpSched
  else if contains msg "Cannot parse line at" then some .iniSyntax
  else if contains msg "Attempt to initialize unknown entry" then some .iniUnknownKey
  else if contains msg "is larger than number of" then some .tooManyThreads
  else if contains msg "Bad value for command line option --pika:scheduler" then some .badScheduler
  else none

def errName (e : Err) : String := (reprStr e).replace "PikaVerif.Config.Err." ""

/-- what the implementation did, in the vocabulary of the model -/
def gotSummary (g : Got) : String :=
  match g.error with
  | some m => match classify m with
    | some e => s!"error:{errName e}"
    | none => s!"error:unclassified({m.take 80})"
  | none =>
    if g.entered then s!"ok workers={g.workers} policy={g.policy} stack={g.stack} argv={g.argv}"
    else s!"not-entered rc={g.rc}"

def cfgKeysList : List String :=
  (settings.map (·.key)) ++ ((written.map (·.1)).filter (fun k => !(settings.map (·.key)).contains k))

def compareOk (r : Report) (g : Got) : List String :=
  let d1 := if g.workers != r.workers then [s!"workers: expected {r.workers}, runtime has {g.workers}"] else []
  let d1b := if g.poolWorkers != r.workers then [s!"default pool: expected {r.workers} threads, has {g.poolWorkers}"] else []
  let d2 := if g.policy != (r.policy : Int) then [s!"scheduling policy: expected {r.policy}, runtime has {g.policy}"] else []
  let d3 := if g.stack != r.stackSmall then [s!"stack of a default task: expected {r.stackSmall}, is {g.stack}"] else []
  let d3b := if g.avail > g.stack || g.stack - g.avail > 4096 then [s!"available stack {g.avail} of {g.stack}"] else []
  let d4 := if g.argv != r.argv then [s!"argv of entry function: expected {r.argv}, got {g.argv}"] else []
  let d5 := r.cfg.filterMap (fun (k, v) =>
    match g.cfg.find? (fun p => p.1 == k) with
    | some (_, v') => if v' != v then some s!"{k}: expected '{v}', runtime has '{v'}'" else none
    | none => if (cfgKeysList.contains k) then some s!"{k}: not reported" else none)
  let d6 := if g.masks.length != r.workers then [s!"{g.masks.length} worker masks for {r.workers} workers"] else []
  let bindNone := cfgLookup r.cfg "pika.bind" == "none"
  let d7 := if bindNone && g.masks.any (· != "-") then ["pika.bind=none but some workers have an affinity mask"]
    else if !bindNone && g.masks.any (· == "-") then [s!"pika.bind={cfgLookup r.cfg "pika.bind"} but some workers have no affinity mask"] else []
  d1 ++ d1b ++ d2 ++ d3 ++ d3b ++ d4 ++ d5 ++ d6 ++ d7

/-! ## independent monitors: the precedence clauses tested directly on the observables -/

def argLong (a : String) : Option (String × String) :=
  match a.toList with
  | '-' :: '-' :: body =>
    match splitEq body with
    | (n, some v) => some (String.ofList n, String.ofList v)
    | _ => none
  | _ => none

/-- `--pika:<full name>=<value>`, `--pika:<full flag name>`, an unknown `--pika:` option, or not a pika option -/
def strictArg (a : String) : Bool :=
  if !isPrefix "--pika:" a then true else
  let (n, v) := splitEq (a.toList.drop 2)
  let name := String.ofList n
  match cliOpts.find? (fun r => r.name == name) with
  | some r => if r.kind == .flag then v.isNone else v.isSome
  | none => (match lookupOpt cliOpts name with | .none => true | _ => false)

def allDigits (s : String) : Bool := !s.isEmpty && s.toList.all isDigit

/-- Monitors only speak about cases that are unambiguous at the level of the property text:
    every argument is `--pika:<full option name>=<value>`, a positional word, or an unknown option. -/
def monitors (m : Machine) (inp : Input) (g : Got) : List String :=
  let longs := inp.argv.filterMap argLong
  let count (o : String) := (longs.filter (fun p => p.1 == o)).length
  let envOf (v : String) := (inp.env.find? (fun p => p.1 == v)).map (·.2)
  let prepend := (envOf "PIKA_COMMANDLINE_OPTIONS").getD ""
  let inis := (longs.filter (fun p => p.1 == "pika:ini")).map (·.2)
  let iniFor (k : String) := inis.filter (fun s => isPrefix (k ++ "=") s || isPrefix (k ++ "!=") s)
  let cfgOf (k : String) := (g.cfg.find? (fun p => p.1 == k)).map (·.2)
  if g.notrun then [] else
  if !g.complete then ["probe did not finish its report"] else
  -- only inputs whose meaning is fixed by the property text: full option names, `=` form
  if !inp.argv.all strictArg then [] else
  if !prepend.isEmpty then [] else
  let ok := g.entered && g.error.isNone
  -- (1) command line over environment / ini / default, string-valued and numeric rows
  let m1 := settings.filterMap (fun s =>
    match s.opt with
    | some o =>
      if count o == 1 && ok && o != "pika:bind" && o != "pika:threads" && o != "pika:cores" && o != "pika:ignore-process-mask" then
        let v := ((longs.find? (fun p => p.1 == o)).map (·.2)).getD ""
        let want := if allDigits v then toString (digitsVal v.toList) else v
        match cfgOf s.key with
        | some got => if got != want then some s!"command line --{o}={v} but the runtime uses {s.key}='{got}'" else none
        | none => none
      else none
    | none => none)
  -- (2) threads given on the command line is the number of workers
  let m2 := if count "pika:threads" == 1 && ok then
      let v := ((longs.find? (fun p => p.1 == "pika:threads")).map (·.2)).getD ""
      if allDigits v && digitsVal v.toList ≤ m.pus && digitsVal v.toList ≥ 1 && (iniFor "pika.force_min_os_threads").isEmpty
          && g.workers != digitsVal v.toList then
        [s!"command line --pika:threads={v} but the runtime has {g.workers} workers"]
      else if (iniFor "pika.force_min_os_threads").isEmpty && m.maskPus == m.pus && m.maskCores == m.cores &&
          ((v == "cores" && g.workers != m.cores) || (v == "all" && g.workers != m.pus)) then
        [s!"command line --pika:threads={v} on {m.cores} cores / {m.pus} PUs but the runtime has {g.workers} workers"]
      else []
    else []
  -- (3) ini over environment over default, for rows without command-line option or when it is absent
  let m3 := settings.filterMap (fun s =>
    let cliAbsent := match s.opt with | some o => count o == 0 | none => true
    if ok && cliAbsent && s.key != "pika.cores" && s.key != "pika.os_threads" && s.key != "pika.bind"
        && s.key != "pika.ignore_process_mask" && s.key != "pika.process_mask" then
      let src := match iniFor s.key with
        | [one] => (splitIni one).map (·.2)
        | [] => (match s.env with
          | some e => (match envOf e with | some v => some v | none => some s.dflt)
          | none => some s.dflt)
        | _ => none
      match src, cfgOf s.key with
      | some v, some got =>
        let numeric := s.opt.isSome && (s.key == "pika.pu_step" || s.key == "pika.pu_offset" || s.key == "pika.numa_sensitive")
        if numeric then
          (if allDigits v && got != toString (digitsVal v.toList) then some s!"{s.key} configured as '{v}' but the runtime uses '{got}'" else none)
        else if got != v then some s!"{s.key} configured as '{v}' but the runtime uses '{got}'" else none
      | _, _ => none
    else none)
  -- (4) environment / ini thread count is the number of workers when no command-line option is given
  let m4 := if ok && count "pika:threads" == 0 then
      let src := match iniFor "pika.os_threads" with
        | [one] => (splitIni one).map (·.2)
        | [] => envOf "PIKA_THREADS"
        | _ => none
      match src with
      | some v => if allDigits v && digitsVal v.toList ≥ 1 && digitsVal v.toList ≤ m.pus
          && (iniFor "pika.force_min_os_threads").isEmpty && g.workers != digitsVal v.toList then
          [s!"thread count configured as {v} but the runtime has {g.workers} workers"] else []
      | none => []
    else []
  -- (5) the live runtime agrees with its own configuration
  let m5 := if ok then
      (match cfgOf "pika.os_threads" with
       | some t => if allDigits t && digitsVal t.toList ≤ m.pus && g.workers != digitsVal t.toList then
           [s!"pika.os_threads={t} but {g.workers} workers run"] else []
       | none => []) ++
      (match cfgOf "pika.scheduler" with
       | some sname => if (schedulerPolicy sname).map (fun (p : Nat) => (p : Int)) != some g.policy then
           [s!"pika.scheduler='{sname}' but the default pool runs policy {g.policy}"] else []
       | none => [])
    else []
  -- (6) unknown --pika: options and invalid numbers stop start-up
  let allowUnknown := (envOf "PIKA_COMMANDLINE_ALLOW_UNKNOWN").getD "0" != "0"
  let unknownPika := inp.argv.any (fun a => isPrefix "--pika:" a &&
    (match lookupOpt cliOpts (String.ofList (splitEq (a.toList.drop 2)).1) with | .none => true | _ => false))
  let m6 := if unknownPika && !allowUnknown && g.entered && (iniFor "pika.commandline.allow_unknown").isEmpty then
      ["an unknown --pika: option was ignored: the entry function ran"] else []
  let badNum := longs.any (fun p => (p.1 == "pika:pu-step" || p.1 == "pika:pu-offset" || p.1 == "pika:threads")
    && !allDigits p.2 && p.2 != "all" && p.2 != "cores" && !(p.2.toList.any (fun c => c == '-' || c == '+')))
  let m7 := if badNum && g.entered then ["a malformed number on the command line was ignored: the entry function ran"] else []
  let zeroThreads := longs.any (fun p => p.1 == "pika:threads" && allDigits p.2 && digitsVal p.2.toList == 0)
  let m8 := if zeroThreads && g.entered then ["--pika:threads=0 was accepted"] else []
  -- (7) positional arguments reach the entry function unchanged and in order
  let positional := inp.argv.filter (fun a => !isPrefix "-" a && !isPrefix "@" a)
  let valueLess := inp.argv.any (fun a => isPrefix "--" a && (argLong a).isNone)
  let m9 := if ok && !valueLess && (g.argv.filter (fun a => !isPrefix "-" a)) != positional then
      [s!"positional arguments {positional} reached the entry function as {g.argv}"] else []
  -- (8) binding given on the command line is in force: none = no masks, anything else = every worker bound
  let m10 := if ok && count "pika:bind" == 1 then
      let v := ((longs.find? (fun p => p.1 == "pika:bind")).map (·.2)).getD ""
      if v == "none" && g.masks.any (· != "-") then ["command line --pika:bind=none but workers are bound"]
      else if v != "none" && g.masks.any (· == "-") then [s!"command line --pika:bind={v} but some workers are not bound"] else []
    else []
  m1 ++ m2 ++ m3 ++ m4 ++ m5 ++ m6 ++ m7 ++ m8 ++ m9 ++ m10

def parseInput (c : Case) : Input × Got :=
  c.lines.foldl (fun (acc : Input × Got) l =>
    match words l with
    | ["env", n, v] => ({ acc.1 with env := acc.1.env ++ [(unhex n, unhex v)] }, acc.2)
    | ["arg", a] => ({ acc.1 with argv := acc.1.argv ++ [unhex a] }, acc.2)
    | _ => (acc.1, gotStep acc.2 l)) ({ env := [], argv := [] }, {})

def runCase (c : Case) : String :=
  let m : Machine := { pus := c.getNat "pus", cores := c.getNat "cores", maskPus := c.getNat "maskpus",
                       maskCores := c.getNat "maskcores" }
  let (inp, g) := parseInput c
  let mon := monitors m inp g
  let monS := if mon.isEmpty then "monitors ok" else "monitors FAIL: " ++ " | ".intercalate mon
  let gs := gotSummary g
  match resolve m inp with
  | .unsupported w => s!"case {c.id} skip [{w}] ; impl {gs} ; {monS}"
  | .error e =>
    let same := match g.error with
      | some msg => classify msg == some e
      | none => e == .unknownOption && !g.entered && g.rc == some (-1)
    if same && g.complete then s!"case {c.id} accept error:{errName e} ; {monS}"
    else s!"case {c.id} reject 0 [model error:{errName e} ; impl {gs}] ; {monS}"
  | .ok r =>
    if g.error.isSome || !g.entered || !g.complete then
      s!"case {c.id} reject 0 [model ok workers={r.workers} policy={r.policy} ; impl {gs}] ; {monS}"
    else
      match compareOk r g with
      | [] =>
        let bk := s!"{cfgLookup r.cfg "pika.bind"}/{cfgLookup r.cfg "pika.os_threads"}/{cfgLookup r.cfg "pika.cores"}/{cfgLookup r.cfg "pika.ignore_process_mask"}"
        s!"case {c.id} accept ok workers={r.workers} policy={r.policy} stack={r.stackSmall} argc={r.argv.length} bindkey={bk} ; {monS}"
      | ds => s!"case {c.id} reject 0 [{" | ".intercalate ds}] ; {monS}"

/-- keys the probe is asked to report -/
def cfgKeys : String := ",".intercalate cfgKeysList

end Driver.CfgDrv
